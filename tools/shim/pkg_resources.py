"""Minimal stand-in for setuptools' pkg_resources (absent from /venv) so that the 14 test modules of the pinned
suite that fail to collect can be run as an EXTRA regression check of fix: commits (never part of the baseline)."""
import importlib
import os


def resource_filename(package, name):
    mod = importlib.import_module(package)
    return os.path.join(os.path.dirname(mod.__file__), name)
