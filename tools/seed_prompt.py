#!/usr/bin/env python3
"""Prints the prompt given to an independent sub-agent that seeds property-breaking changes (nothing from /verif but the property text)."""
import json, sys
pid = sys.argv[1]
round2 = len(sys.argv) > 2
p = [json.loads(l) for l in open('/verif/properties.jsonl') if json.loads(l)['id'] == pid][0]
rnd = sys.argv[2] if len(sys.argv) > 2 else ''
wt = '/tmp/seed%s_%s' % ({'': '', 'r2': '2', 'r3': '3'}.get(rnd, '2'), pid)
EXTRA = ''
if rnd == 'r2':
    EXTRA = ("ADDITIONAL REQUIREMENT FOR THIS ROUND: an earlier round already produced the obvious single-function slips for this property. "
             "Aim for changes of a different nature: (1) a change whose effect depends on HISTORY or ORDER (a cache, accumulated state between calls, "
             "iteration order of a dict/set, order in which items were inserted), or (2) a change that is only wrong for inputs at the edge of the "
             "documented domain (empty collections, a single element, residue numbers <= 0 or non-consecutive, repeated names, several chains, "
             "insertion codes, very long names), or (3) two edits in different functions/files that are each harmless alone.")
if rnd == 'r3':
    EXTRA = ("ADDITIONAL REQUIREMENT FOR THIS ROUND: two earlier rounds already produced single-function slips and history/edge-of-domain changes "
             "for this property. This time aim at what only shows END TO END: (1) a change that manifests only for a particular COMBINATION of "
             "command-line options of bin/martinize2 (for example a Go model with several chains, -water-bias, -merge with several chain sets, "
             "-resid input, -sep, -ss / -collagen, -elastic with -eunit regions, -cys, -nt, -mutate / -modify on terminal residues, -go-write-file "
             "followed by -go <file>) or only with particular SHIPPED DATA (one specific residue type, modification, link, mapping or force field "
             "under vermouth/data), or (2) a change in the glue code (bin/martinize2, vermouth/processors/*.py run_system / run_molecule wrappers, "
             "vermouth/system.py, vermouth/forcefield.py, vermouth/map_input.py) rather than in the core function the property names, or (3) a change "
             "that is correct for the first molecule / chain / file and wrong for later ones. Your demo may drive the real command line "
             "(run <tree>/bin/martinize2 with PYTHONPATH=<tree> as a subprocess on structures under <tree>/vermouth/tests/data/integration_tests) "
             "or the library. Name the two changes e and f (directories out/e and out/f).")
print(f"""You are helping to evaluate a verification framework by producing realistic, subtle bugs ("seeded changes") in an open-source Python project. The project is vermouth-martinize (Martinize2: converts atomistic molecular structures to coarse-grained topologies), a git repository at /repo.

STRICT RULES
- Never edit anything in /repo itself and never read, list or write anything under /verif. Work only in your own scratch git worktree, created with:
    git -C /repo worktree add --detach {wt} HEAD
  (if it already exists, remove it first with `git -C /repo worktree remove --force {wt}`).
- Never use `git stash` (the stash is shared by all worktrees of /repo and other agents work in theirs): to switch between your two changes use `git diff > file`, `git checkout -- .` and `git apply file`.
- Python interpreter with all dependencies: /venv/bin/python . Run code against your tree with `cd {wt} && PYTHONPATH={wt} /venv/bin/python ...`.
- The existing test suite is run with:  cd {wt} && /venv/bin/python -m pytest -q -p no:cacheprovider --timeout=900 --continue-on-collection-errors
  On the unmodified tree it gives 2096 passed and 14 collection errors (those 14 test files fail to collect in this environment; that is the expected baseline, takes ~50 s). No network is available.

THE PROPERTY (this text is all you get; read the source code it refers to in your worktree):
  Title: {p['title']}
  Statement: {p['statement']}
  Holds for: {p['quantifier']['text']}
  Source files involved: {', '.join(p['anchors']['files'])}

YOUR TASK
Produce TWO different, independent code changes (call them "a" and "b") to the library source (files under vermouth/ or bin/, NOT tests), each of which
  1. breaks the property above on the real code,
  2. still imports/compiles, and leaves the existing test suite result exactly as on the unmodified tree (2096 passed, the same 14 collection errors, 0 failures),
  3. is realistic: the kind of slip a maintainer could make in a refactoring, optimisation or "small cleanup" (off-by-one, wrong variable, stale cache, changed iteration order, condition slightly too weak/strong, early exit, swapped arguments, ...) - not sabotage, not a raised exception on every call,
  4. needs something specific to manifest: a particular multi-step sequence of operations, an unusual but legal input, a particular ordering, a fault at a particular point, or two code sites that each look fine alone. Changes that ordinary everyday use (e.g. the typical single-protein command line run or the simplest API call) would expose at once are NOT wanted.
The two changes should be in different functions / attack different clauses of the property if possible.

For each change X in {{a, b}} create the directory {wt}/out/X/ containing
  - patch.diff : output of `git diff` against HEAD for that change only (must apply cleanly with `git -C <tree> apply patch.diff` on an unmodified tree),
  - demo.py    : a small standalone program, run as `PYTHONPATH=<tree> /venv/bin/python demo.py`, that exercises the real library code and exits 0 (printing OK) when the property holds and exits 1 (printing what went wrong) when it is violated. It must PASS on the unmodified tree and FAIL on the tree with the patch applied. It must not import anything from the test-suite or from /verif.
  - notes.md   : 5-15 lines: which clause of the property is broken, what exactly is needed for it to manifest, why the existing tests do not notice.
Verify all of this yourself: (i) unmodified tree: demo exits 0; (ii) patched tree: demo exits 1; (iii) patched tree: full test suite still 2096 passed / 14 errors / 0 failed. When you are done, make sure the worktree's tracked files are back at HEAD (git -C {wt} checkout -- .) with out/ left in place (untracked), and do NOT remove the worktree.

Final answer: for each of a and b, one short paragraph (file/function changed, what breaks, what it needs to manifest) and confirmation of the three verifications with the observed test-suite summary line.
{EXTRA}""")