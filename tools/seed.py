#!/usr/bin/env python3
"""Seeded-change bookkeeping.
  seed.py import <pid> <x>      copy /tmp/seed_<pid>/out/<x> to /verif/seeded/<pid><x>/ (patch.diff, demo.py, notes.md)
  seed.py verify <name>         in a fresh scratch worktree: demo passes unpatched, fails patched, test-suite unchanged
  seed.py run <name> [tier]     apply the patch to /repo, run ./check <pid>, revert; record the outcome in meta.json
  seed.py drop-worktree <pid>   remove /tmp/seed_<pid>
"""
import json, os, re, shutil, subprocess, sys, time

V = '/verif'
PY = '/venv/bin/python'


def sh(cmd, **kw):
    return subprocess.run(cmd, shell=True, stdout=subprocess.PIPE, stderr=subprocess.STDOUT, text=True, **kw)


def meta_path(name):
    return os.path.join(V, 'seeded', name, 'meta.json')


def load_meta(name):
    try:
        return json.load(open(meta_path(name)))
    except FileNotFoundError:
        return {'name': name, 'property': name[:3]}


def save_meta(name, m):
    json.dump(m, open(meta_path(name), 'w'), indent=1, sort_keys=True)


def cmd_import(pid, x):
    src = '/tmp/seed_%s/out/%s' % (pid, x)
    dst = os.path.join(V, 'seeded', pid + x)
    os.makedirs(dst, exist_ok=True)
    for f in ('patch.diff', 'demo.py', 'notes.md'):
        shutil.copy(os.path.join(src, f), dst)
    m = load_meta(pid + x)
    m['needs_to_manifest'] = open(os.path.join(dst, 'notes.md')).read()[:1500]
    save_meta(pid + x, m)
    print('imported', dst)


def cmd_import2(pid, rnd=2):
    """round 2: /tmp/seed2_<pid>/out/{a,b} or {c,d} -> seeded/<pid>c, seeded/<pid>d; round 3: /tmp/seed3_<pid> -> <pid>e, <pid>f"""
    base = '/tmp/seed%d_%s/out' % (rnd, pid)
    subs = sorted(d for d in os.listdir(base) if os.path.isdir(os.path.join(base, d)))
    for sub, x in zip(subs, 'cd' if rnd == 2 else 'ef'):
        dst = os.path.join(V, 'seeded', pid + x)
        os.makedirs(dst, exist_ok=True)
        for f in ('patch.diff', 'demo.py', 'notes.md'):
            shutil.copy(os.path.join(base, sub, f), dst)
        m = load_meta(pid + x)
        m['needs_to_manifest'] = open(os.path.join(dst, 'notes.md')).read()[:1500]
        m['round'] = rnd
        save_meta(pid + x, m)
        print('imported', dst)
    sh('git -C /repo worktree remove --force /tmp/seed%d_%s' % (rnd, pid))
    shutil.rmtree('/tmp/seed%d_%s' % (rnd, pid), ignore_errors=True)


def cmd_verify(name, full=True):
    d = os.path.join(V, 'seeded', name)
    wt = '/tmp/sv_%s' % name
    sh('git -C /repo worktree remove --force %s' % wt)
    r = sh('git -C /repo worktree add --detach %s HEAD' % wt)
    m = load_meta(name)
    try:
        env = 'cd %s && PYTHONPATH=%s PYTHONDONTWRITEBYTECODE=1 %s %s/demo.py' % (wt, wt, PY, d)
        a = sh(env)
        ap = sh('git -C %s apply %s/patch.diff' % (wt, d))
        if ap.returncode != 0:
            print('PATCH DOES NOT APPLY', ap.stdout)
            m['verify'] = {'applies': False}
            save_meta(name, m)
            return 1
        b = sh(env)
        res = {'applies': True, 'demo_unpatched_rc': a.returncode, 'demo_patched_rc': b.returncode,
               'demo_patched_tail': b.stdout[-400:]}
        if full:
            t = sh('cd %s && %s -m pytest -q -p no:cacheprovider --timeout=900 --continue-on-collection-errors 2>&1 | tail -1' % (wt, PY))
            res['suite_patched'] = t.stdout.strip()
            mm = re.search(r'(\d+) passed', t.stdout)
            res['suite_ok'] = bool(mm and mm.group(1) == '2096' and not re.search(r'\b\d+ failed', t.stdout) and '14 errors' in t.stdout)
        m['verify'] = res
        m['what_i_ran'] = ['fresh worktree of /repo HEAD; demo.py unpatched -> rc %d; git apply patch.diff; demo.py -> rc %d; '
                           'full pinned test-suite on the patched tree -> %s' % (a.returncode, b.returncode, res.get('suite_patched'))]
        save_meta(name, m)
        print(name, json.dumps(res))
        return 0
    finally:
        sh('git -C /repo worktree remove --force %s' % wt)
        shutil.rmtree(wt, ignore_errors=True)


def cmd_run(name, tier='quick', pid=None):
    """Run the check against the seeded change.  By default in a scratch worktree of /repo's HEAD (VERIF_REPO), so that
    other work reading /repo is not disturbed; with SEED_IN_PLACE=1 the patch is applied to /repo itself and undone."""
    d = os.path.join(V, 'seeded', name)
    pid = pid or name[:3]
    in_place = os.environ.get('SEED_IN_PLACE') == '1'
    if in_place:
        st = sh('git -C /repo status --porcelain').stdout.strip()
        if st:
            print('REFUSING: /repo not clean:\n' + st)
            return 2
        tree = '/repo'
    else:
        tree = '/tmp/seedrun_%s_%d' % (name, os.getpid())
        sh('git -C /repo worktree remove --force %s' % tree)
        sh('git -C /repo worktree add --detach %s HEAD' % tree)
    ap = sh('git -C %s apply %s/patch.diff' % (tree, d))
    if ap.returncode != 0:
        print('patch does not apply', ap.stdout)
        if not in_place:
            sh('git -C /repo worktree remove --force %s' % tree)
        return 2
    t0 = time.time()
    evfile = os.path.join(V, 'evidence', pid + '.json')
    saved = open(evfile).read() if os.path.exists(evfile) else None
    try:
        r = sh('cd %s && VERIF_REPO=%s ./check %s --tier %s' % (V, tree, pid, tier))
    finally:
        if in_place:
            sh('git -C /repo checkout -- .')
        else:
            sh('git -C /repo worktree remove --force %s' % tree)
            shutil.rmtree(tree, ignore_errors=True)
        if saved is not None:
            open(evfile, 'w').write(saved)
    viol = [l for l in r.stdout.splitlines() if l.startswith('VIOLATION')]
    m = load_meta(name)
    m.setdefault('checks', {})['%s/%s' % (pid, tier)] = {
        'rc': r.returncode, 'detected': r.returncode == 1 and bool(viol), 'wall_s': round(time.time() - t0, 1),
        'first_violation_detail': '\n'.join(r.stdout.splitlines()[:4])[:600]}
    save_meta(name, m)
    print(name, pid, tier, 'rc=%d' % r.returncode, 'DETECTED' if viol and r.returncode == 1 else 'MISSED', '%.0fs' % (time.time() - t0))
    if r.returncode not in (0, 1):
        print(r.stdout[-1500:])
    return 0


if __name__ == '__main__':
    c = sys.argv[1]
    if c == 'import2':
        cmd_import2(sys.argv[2])
    elif c == 'import3':
        cmd_import2(sys.argv[2], 3)
    elif c == 'import':
        cmd_import(sys.argv[2], sys.argv[3])
    elif c == 'verify':
        sys.exit(cmd_verify(sys.argv[2]))
    elif c == 'run':
        sys.exit(cmd_run(*sys.argv[2:]))
    elif c == 'drop-worktree':
        sh('git -C /repo worktree remove --force /tmp/seed_%s' % sys.argv[2])
        shutil.rmtree('/tmp/seed_%s' % sys.argv[2], ignore_errors=True)


def cmd_revert(name, commit, pid):
    """Seeded change that re-introduces a defect repaired by a fix: commit (reverse patch)."""
    d = os.path.join(V, 'seeded', name)
    os.makedirs(d, exist_ok=True)
    r = sh('git -C /repo diff %s %s~1' % (commit, commit))
    open(os.path.join(d, 'patch.diff'), 'w').write(r.stdout)
    msg = sh('git -C /repo log --format=%%B -n1 %s' % commit).stdout
    m = load_meta(name)
    m.update({'property': pid, 'kind': 'revert of fix commit %s (the genuine defect returns)' % commit,
              'needs_to_manifest': msg})
    save_meta(name, m)
    print('wrote', d)


if __name__ == '__main__' and sys.argv[1] == 'revert':
    cmd_revert(sys.argv[2], sys.argv[3], sys.argv[4])
