#!/usr/bin/env python3-vt
import json, sys, glob, jsonschema
schema = json.load(open('/root/.vp/EVIDENCE.schema.json'))
for f in sorted(glob.glob('/verif/evidence/*.json')):
    jsonschema.validate(json.load(open(f)), schema)
    print('valid', f)
