#!/usr/bin/env python3-vt
"""Regenerates MANIFEST.json from the table below (single place to edit) and validates it."""
import json
import os
import subprocess
import sys

HERE = os.path.dirname(os.path.dirname(os.path.abspath(__file__)))

# pid -> (category, technique, text, note, design_ref)
CHECKS = {
    'C08': ('model_checking',
            'TLA+ state machine WarnCount (TLC exhaustive: operational loop = declarative sentence for every dict order, '
            'algebraic laws, action properties) + replay of every model state through the real logging stack / maxwarn parser '
            '+ TLC batch validation of recorded evaluations + Apalache (SMT) proof of the same laws for three warning types over '
            'unbounded integers (WarnCountApa), tied to WarnCountOps by a TLC bridge model',
            'Every (counts, allowances) input below the bound is decided by TLC and replayed on the real function; larger '
            'random inputs are recorded from the real function and judged by the TLA+ operators. Right level: the function '
            'is small with rich case analysis, so bounded-exhaustive agreement with the declarative form is achievable.',
            'Trusts TLC, the Python logging module, and that rendering entries to -maxwarn strings is faithful. '
            'Inputs that the statement leaves unspecified (type both named and limited) are not generated.',
            'DESIGN.md section 5 / C08'),
    'C12': ('model_checking',
            'TLA+ history spec MoleculeEdit (heap of molecules, one action per editing call; NoDangling/UniqueKeys invariants, '
            'MergeConserves/Frame action properties; TLC exhaustive + simulation) + replay of every state-graph transition and '
            'every simulated behaviour on real Molecule objects + TLC validation of recorded random editing histories',
            'All interleavings of the editing calls below the bound are enumerated by TLC; each transition is executed on the '
            'real class along the BFS tree (internal caches follow the history) and compared cell by cell; longer random '
            'histories recorded from the real class are validated event by event against the same effect operators.',
            'Trusts TLC and the projection (keys in insertion order, resid, charge_group, atomname, edges, per-type interaction '
            'lists with version). Not generated: self-merge, non-integer keys, different force fields/nrexcl, nodes created '
            'implicitly by add_edge.',
            'DESIGN.md section 5 / C12'),
    'C17': ('model_checking',
            'TLA+ specs AnnotateSeq (reconciliation + cursor walk, operational = declarative) and HelixRewrite (ordered pattern '
            'rewriting = maximal-run rule) checked exhaustively by TLC; every model state replayed into the real '
            'AnnotateResidues.run_system / convert_dssp_to_martini; TLC judges recorded runs on larger random inputs',
            'Exhaustive over all systems of <=3-4 molecules x selection flags x residue counts x sequence lengths, and over all '
            'DSSP strings up to the bound; the real functions must return exactly TLC\'s expectation for each.',
            'Trusts TLC; residue order is the order of lowest node key per residue (as partition_graph documents). The DSSP route '
            '(DsspFormat / DsspFile / DsspRoute models, a scripted executable, martinize2 -dssp/-ss/-collagen runs) is bound too; '
            'version-string warnings are not judged.',
            'DESIGN.md section 5 / C17'),
    'C07': ('model_checking',
            'TLA+ spec DeferredWriter (directory, pending table, one action per file-system primitive of finalisation, Crash '
            'between any two, Gate; PreExistingSafe invariant over every crashed state, NeverOverwrites/Untouched/Finalised action '
            'properties; TLC exhaustive + simulation) + replay of state-graph transitions on a real DeferredFileWriter with '
            'fault injection at the k-th primitive + TLC-judged snapshots around every library writer and real martinize2 runs',
            'TLC visits every interleaving of opens/appends/discards/finalisations and every crash point for 2 paths with all '
            'combinations of pre-existing files and backups; each transition is executed on the real writer in a scratch '
            'directory (halting write() at the corresponding primitive) and the directory compared byte for byte; a 4-path '
            'instance is simulated; the CLI gate is bound by real subprocess runs judged with the WarnCount operators.',
            'Trusts TLC, the fault wrappers (installed on the names vermouth.file_writer uses), and log lines on stderr as the '
            'record of emitted warnings. A crash inside one primitive is below the model step. w+a on one path not generated.',
            'DESIGN.md section 5 / C07'),
    'C13': ('model_checking',
            'Five TLA+ models (SectionStack: header rule, operational = declarative over the real METH_DICT; FFFile: top-level '
            'section machine with ExactlyOnceInOrder / ErrorIffMalformed; Tokens; AtomPrefix; ItpPragma) checked exhaustively by '
            'TLC; every model state rendered to concrete text and replayed into the real readers; shipped .ff files and '
            'per-object #meta/per-line metadata judged by TLC (Trace_FF)',
            'Every sequence of top-level sections up to the bound (blocks, links, modifications, macros, variables, citations, in '
            'any order, with every listed fault injected at every position) is loaded by the real read_ff and compared with the '
            'model library and with the description each object was rendered from; tokeniser, prefix/order normalisation, ITP '
            'pragma state and the section-header rule are bound row by row.',
            'Trusts TLC, the chunk renderer, and the independent line classifier for shipped files. Also MapFile (.map weights), '
            'MappingFile (.mapping director), ItpFile (.itp content) and a load-history family (interleaved loads, fresh process '
            'each). Lines like "} {" (negative brace depth) are outside the grammar.',
            'DESIGN.md section 5 / C13'),
    'C06': ('model_checking',
            'TLA+ spec SubIso (declarative induced embeddings, Aut(pattern), classes modulo Aut, maximum common induced '
            'subgraphs); TLC evaluates JudgeIso/JudgeLcs on the outputs of the real ISMAGS for an exhaustive small scope of '
            'graph pairs and structured families, with a symmetry cache shared across matchers',
            'Bounded-exhaustive: every labelled pattern on <=3(4) nodes against every labelled graph on <=4(5) nodes, plain and '
            'with 2 node / 2 edge colours, both searches, symmetry off and on; soundness, exactly-once, one representative per '
            'class and maximum-common-subgraph coverage are decided by TLC from the definitions, not by a second matcher.',
            'Trusts TLC. Equality is equality of an integer colour (transitive). The empty answer when nothing is common is '
            'not constrained. Real shipped blocks and shared-cache histories beyond ~7 nodes are judged against a certificate (complete '
            'lists from networkx VF2) that TLC verifies clause by clause; its completeness is trusted. Known finding '
            'C06-ring5-two-leaves.',
            'DESIGN.md section 5 / C06'),
    'C05': ('model_checking',
            'TLA+ spec Links (order relation operational = documented matrix, checked exhaustively by TLC and replayed into '
            'match_order; Fits = declarative placement condition; ApplyPlacement = replace / remove-matching / add-or-replace '
            'fold) + TLC validation of recorded runs of the real DoLinks (matches per link from an interposed match_link, node '
            'attributes each link saw, node deletions, final interaction table)',
            'For every recorded run TLC recomputes the set of fitting placements of every link on the state that link saw and '
            'requires it to equal the placements the real code applied (sound and complete), then folds the applications in '
            'the recorded order and requires the final table to match (later links override, nothing unjustified, geometry '
            'from the matched atoms).',
            'Trusts TLC and the interposition on vermouth.processors.do_links.match_link. Links are built as objects (grammar is '
            'C13) for a 38-link feature pool, and taken from every shipped force field on real coarse-grained molecules (all four '
            'geometry effectors: TLC returns exact integer invariants, Python applies sqrt/acos/atan2 and the format). Not generated: '
            'self-modifying links, non-numeric non-edge partner orders.',
            'DESIGN.md section 5 / C05'),
    'C19': ('model_checking',
            'TLA+ spec MutMod (specification parser as the implementation splits it, Format as its inverse with the law '
            'Parse(Format(t)) = t; Matches / Marks / Unmatched / IsError as the statement words them) evaluated by TLC on '
            'recorded calls of the real parse_residue_spec and AnnotateMutMod.run_system over an exhaustive small scope',
            'Every specification string up to length 5 over {A,4,-,#} and every system of 1-2 molecules over a residue pool '
            '(chains, insertion codes, names ending in digits, star and path residue graphs, non-protein residues) with ordered '
            'request lists: marks on every atom, reported requests and error outcome must be exactly what the TLA+ operators give.',
            'Trusts TLC and the log records as the report channel. The after-repair clause is checked by C04. Not generated: '
            'nter/cter combined with a residue number; specifications whose number part is not /[0-9]+/.',
            'DESIGN.md section 5 / C19'),
    'C01': ('model_checking',
            'TLA+ spec Mapping (Placements as induced embeddings, order by lowest atom key, ApplyBlock with fresh keys / '
            'residue shift / constituents and weights / particles built from no atom, InterEdges, UnmappedHeavy, Overlapping) '
            'evaluated by TLC on recorded runs of the real DoMapping with apply_block_mapping interposed',
            'For each recorded run TLC recomputes all placements, their order, the complete output (particles in order with '
            'residue numbers, retained input residue number, constituents with weights, intra- and inter-placement bonds, block '
            'interactions) and the two warnings from the declarative definitions and requires the real output to equal them.',
            'Trusts TLC and the interposition (apply_block_mapping, apply_mod_mapping). Block and modification universes, the '
            'cover() model (MappingCover) replayed, real structures with the shipped mappings. Runs where two placements tie on '
            'their sort key or several particles qualify for re-use are reported unjudged.',
            'DESIGN.md section 5 / C01'),
    'C09': ('model_checking',
            'TLA+ operator Mean (exact weighted mean over the positioned constituents in integer arithmetic, NaN iff the '
            'denominator is zero) evaluated by TLC on particles placed by the real DoAverageBead: hand-built particles with '
            'rigid-motion twins, and particles of real DoMapping runs, with and without a centre weight',
            'The position the real code computes, scaled by the exact denominator, must equal the exact integer numerator TLC '
            'computes; zero weights, zero masses, missing coordinates, shared atoms and rotated/translated twins are generated '
            'families whose counts are reported.',
            'Trusts TLC; the float-to-integer conversion rejects rounding errors above 1e-6 relative. Negative weights are not '
            'generated.',
            'DESIGN.md section 5 / C09'),
    'C04': ('model_checking',
            'TLA+ specs SubIso + Repair (JudgeRepair: unique names, element- and bond-preserving induced embedding into the '
            'block, as many atoms recognised as a largest common induced subgraph, every block atom present and bonded as in the '
            'block, unrecognised atoms flagged / surplus atoms of a mutated residue removed) evaluated by TLC on recorded runs of '
            'the real RepairGraph over synthetic blocks (exact) and every shipped atomistic block (planted lower bound)',
            'Each presentation (names scrambled / junk / drawn from the whole block, atoms permuted, sparse keys, atoms deleted, '
            'extra atoms attached, requested mutations incl. the same request twice) of each residue is repaired by the real code '
            'inside multi-residue molecules (shared symmetry cache) and the outcome is decided by TLC from the definitions.',
            'Trusts TLC. Exact largest-common-subgraph size only for residues of <= 8 atoms; above, the planted common part is a '
            'lower bound. Matcher runs beyond a time limit are counted as inconclusive. -modify requests are covered by C14.',
            'DESIGN.md section 5 / C04'),
    'C02': ('model_checking',
            'TLA+ spec ItpWrite (operational Write shaped like write_molecule_itp, declarative Canon, reader semantics ReadMol; '
            'RoundTrip and companions as TLC invariants over a bounded molecule domain) + replay of every model molecule through '
            'the real writer and an independent ITP reader + TLC-judged traces (editing histories, pipeline molecules)',
            'Bounded-exhaustive over keys, atom ids (none / partial / permuted), interaction types incl. impropers and '
            'virtual_sitesn, versions, guards, groups, comments, charge/mass presence; the text of the real writer is parsed by a '
            'reader that shares no code with vermouth and compared with TLC\'s records.',
            'Trusts TLC and harness/indep_readers.py. Known finding D11 (mass without charge) is reported as KNOWN-FINDING.',
            'DESIGN.md section 5 / C02'),
    'C03': ('model_checking',
            'TLA+ spec Output (Name(dedup), SortAtoms, WritePDB, WriteTop transcribed; KthAtomAgrees, TopIsRunLength, IncludeOnce, '
            'SameNameSameTopology invariants) checked by TLC; every model system replayed through the real NameMolType / '
            'SortMoleculeAtoms / write_pdb / write_gmx_topology / DeferredFileWriter and parsed by independent readers; real CLI '
            'runs judged by TLC',
            'Systems of up to 4 molecules over molecule variants differing in one aspect, all orders (A, AB, ABA, AABA...), with and '
            'without deduplication and sorting: files on disk are compared with the model\'s abstract files and judged by TLC.',
            'Trusts TLC and the independent PDB/ITP/TOP readers. system.meta[header] is non-empty as the CLI makes it.',
            'DESIGN.md section 5 / C03'),
    'C10': ('model_checking',
            'TLA+ spec Bonds (residue identity incl. input molecule, name edges / non-edges from reference blocks, six-conjunct '
            'distance rule in integer arithmetic with a Bondi table in the spec, fall-back, molecules = components of the residue '
            'graph; 23 one-clause variants make TLC certify which clause an input decides) + replay of an exhaustive 3-atom table '
            'model + TLC-judged runs of the real MakeBonds over 27 sole-decider families',
            'Every clause of the statement is the sole deciding factor in a dedicated generator family (certified by TLC through '
            'the variants); the real result (bonds, distance attributes, molecules) must equal the spec\'s.',
            'Trusts TLC. Coordinates on a 10 pm lattice, fudge as a rational; pairs within 1e-6 of a threshold are not generated.',
            'DESIGN.md section 5 / C10'),
    'C15': ('model_checking',
            'TLA+ specs PairGraph + ElasticNet (five criteria, declarative and implementation-shaped forms, NaN clause) with a TAB '
            'model replayed into the real ApplyRubberBand and TLC-judged sole-criterion families with rigid-motion / reordering twins',
            'Bond set, lengths (exact 5-decimal rounding through two-limb arithmetic) and capped decayed constants of the real '
            'processor must equal the spec\'s for every row of the table model and every generated molecule.',
            'Trusts TLC; only exp() is evaluated in Python. Not generated: negative minimum force, decay with power 0.',
            'DESIGN.md section 5 / C15'),
    'C16': ('model_checking',
            'TLA+ specs FixedColOps/FixedCol (fixed-column Render/Read tables for PDB ATOM/TER/CONECT and GRO; invariants '
            'OtherFieldsUnaffected, RoundTripWithinWidth, ConectExactUpTo99999, TerSplitsMolecules) + TLC judging every line of '
            'files written by the real writers (sliced with the spec\'s column table) and the values the real readers return',
            'Boundary cases generated by TLC (serials around 10 000 and 100 000, overflowing and negative residue numbers, over-long '
            'names, coordinate range, bond degree up to 6) are placed in real systems of up to 10^5 atoms, written, read back and judged.',
            'Trusts TLC. Decimal rounding of coordinates is bounded in Python (0.5e-3). Blank names / altloc not generated.',
            'DESIGN.md section 5 / C16'),
    'C18': ('model_checking',
            'TLA+ specs PairGraph + GoModel (sites, four contact criteria, declarative and one-pass forms) with a TAB model over all '
            '2^12 directed contact sets replayed into the real GoPipeline and TLC-judged sole-criterion families',
            'Sites (count, order, keys, construction, identity, type uniqueness) and pair potentials / exclusions of the real '
            'pipeline must equal the spec\'s for every row of the table model and every generated multi-chain molecule.',
            'Trusts TLC. sigma compared through the squared distance in pm^2 (1 pm^2). Known finding D13 (site types collide when '
            'a later chain starts below residue 1) is reported as KNOWN-FINDING.',
            'DESIGN.md section 5 / C18'),
    'C14': ('model_checking',
            'TLA+ spec PTM (groups of unexplained atoms, candidate placements as induced embeddings with anchors by name and '
            'added atoms by element, exact covers, JudgeRun) evaluated by TLC on recorded runs of the real '
            'CanonicalizeModifications with identify_ptms interposed',
            'TLC recomputes the groups, decides by brute force whether each group has an exact cover, and requires: identified '
            'placements fit and cover every unexplained atom exactly once (every anchor at least once), canonical names and '
            'renames applied, all atoms of the touched residues labelled, unexplainable groups removed with a warning, nothing kept '
            'silently, no label without a modification.',
            'Trusts TLC and the interposition. Families: exhaustive small scope (PTMSmall), synthetic decorations, requested '
            'modifications through the real RepairGraph, real structures with the shipped charmm modifications. Atoms dropped by '
            'RepairGraph from a residue carrying a request are counted, not flagged (C19 specifies that removal).',
            'DESIGN.md section 5 / C14'),
    'C11': ('exploration',
            'TLA+ relation PipelineEq (equal particle lists, interactions equal as bags with numeric parameters within the last '
            'printed digit, coordinates related by the rigid motion) evaluated by TLC on pairs of real bin/martinize2 runs '
            '(base presentation vs atoms permuted within residues / hydrogens renamed / lattice rotation + translation / other '
            'PYTHONHASHSEED), outputs parsed by independent readers',
            'Sampling of presentations across inputs and option sets; every pair is decided by TLC from the files both runs '
            'wrote. Exploration, not enumeration: a hyperproperty of the whole pipeline.',
            'Trusts TLC, the independent ITP/PDB readers, and that lattice rotations are exact on the 0.001 A PDB grid. Two routes '
            '(files of subprocess runs; abstract system after every Processor.run_system of an in-process run, TLC names the first '
            'differing stage). Also runs spec/Martinize.tla: stage order and contracts for every option vector, replayed into the '
            'real entry(). Known finding C11-nt-nh3. -go pairs (self-computed contact map; no rigid motion) are generated, -dssp pairs are not.',
            'DESIGN.md section 5 / C11'),
}

PENDING = {}


def main():
    props = [json.loads(l) for l in open(os.path.join(HERE, 'properties.jsonl'))]
    ids = [p['id'] for p in props]
    checks = []
    for pid in ids:
        if pid not in CHECKS:
            continue
        cat, tech, text, note, ref = CHECKS[pid]
        checks.append({
            'property_id': pid,
            'quick_cmd': './check %s --tier quick' % pid,
            'thorough_cmd': './check %s --tier thorough' % pid,
            'evidence_file': 'evidence/%s.json' % pid,
            'replay_cmd_template': './check %s --replay {path}' % pid,
            'engine': 'tlc+harness',
            'level_claimed': {'category': cat, 'text': text, 'design_ref': ref},
            'level_note': note,
            'technique': tech,
        })
    na = [{'property_id': pid, 'reason': PENDING.get(pid, 'check under construction in this session (specification and '
                                                      'conformance harness not committed yet); see DESIGN.md section 5')}
          for pid in ids if pid not in CHECKS]
    hooks_commits = []
    hc = os.path.join(HERE, 'hooks_commits.txt')
    if os.path.exists(hc):
        hooks_commits = [l.split()[0] for l in open(hc) if l.strip()]
    man = {
        'version': 1,
        'setup_cmd': './setup.sh',
        'hooks': {
            'guard': 'VERMOUTH_VERIF',
            'enable': 'No source hooks: checks import vermouth from /repo working tree and interpose on public '
                      'functions inside the check process only (harness-side), with VERMOUTH_VERIF=1 set by ./check',
            'baseline_off_cmd': 'cd /repo && env -u VERMOUTH_VERIF /venv/bin/python -m pytest -ra -q -p no:cacheprovider '
                                '--timeout=900 --continue-on-collection-errors',
            'source_commits': hooks_commits,
            'add_only': True,
        },
        'engines': [{
            'name': 'tlc+harness', 'path': 'harness/', 'serves_properties': [c['property_id'] for c in checks],
            'kind_free_text': 'explicit TLA+ specifications in spec/ checked by TLC 1.8 (exhaustive / simulation), bound to '
                              'the Python implementation by replay of TLC states/behaviours into the real objects and by TLC '
                              'batch validation of traces recorded from the real code; Apalache 0.58 (SMT) proves two '
                              'arithmetic laws over unbounded integers (C08 WarnCountApa, C05 LinksOrderApa), each tied to the '
                              'TLC operators by a bridge invariant',
        }],
        'checks': checks,
        'not_applicable': na,
        'notes': 'All checks: exit 0 held, 1 violation (VIOLATION line), 2 machinery failure. VERIF_SEED seeds every random '
                 'choice. Known findings: known_findings.json. A watchdog turns a hung run into exit 2; every scratch directory of a '
                 'run lives under one root in /tmp that is removed at exit.',
    }
    if not na:
        del man['not_applicable']
    path = os.path.join(HERE, 'MANIFEST.json')
    with open(path, 'w') as fh:
        json.dump(man, fh, indent=1)
    import jsonschema
    jsonschema.validate(man, json.load(open('/root/.vp/MANIFEST.schema.json')))
    print('MANIFEST.json: %d checks, %d not applicable' % (len(checks), len(na)))


if __name__ == '__main__':
    main()
