----------------------------- MODULE FixedColOps -----------------------------
(* C16 - fixed-column structure files (PDB ATOM / TER / CONECT, GRO atom line).

   A record type is a TABLE: a sequence of fields [name, start, w, align, kind].
     kind  "int"  : integer, canonical text = decimal digits with a leading "-" when negative
           "dec3" : fixed-point number with three decimals, carried as an INTEGER number of thousandths
           "str"  : text
     align "<" / ">" : where the padding goes when the text is shorter than the field AND which end survives
                       when it is longer ("<": leading characters, ">": trailing characters = low-order digits).
   Render(table, rec) writes every field in EXACTLY its w columns (pad or truncate) - so an overflowing value can
   never move another field.  Read(table, line) slices by a (reader) table and types the slices.
   Text is a TLC string; Len, \o, SubSeq and Tail work on strings in TLC.

   Units: PDB coordinates are thousandths of an Angstrom, GRO coordinates thousandths of a nanometre.          *)
EXTENDS Integers, Sequences, FiniteSets, TLC

BAD == -999999999                     \* "this text is not a number" (never a legitimate value of a <= 9 digit field)

Blank80 == "                                                                                "
Spaces(n) == SubSeq(Blank80, 1, n)
Ch(s, i) == SubSeq(s, i, i)
Min(a, b) == IF a < b THEN a ELSE b
Max(a, b) == IF a > b THEN a ELSE b
Abs(a) == IF a < 0 THEN -a ELSE a

(* columns a..b of a line, 1-based inclusive, tolerant of short lines like a Python slice *)
Cut(line, a, b) == IF a > Len(line) THEN "" ELSE SubSeq(line, a, Min(b, Len(line)))

RECURSIVE LStrip(_)
LStrip(s) == IF Len(s) > 0 /\ Ch(s, 1) = " " THEN LStrip(Tail(s)) ELSE s
RECURSIVE RStrip(_)
RStrip(s) == IF Len(s) > 0 /\ Ch(s, Len(s)) = " " THEN RStrip(SubSeq(s, 1, Len(s) - 1)) ELSE s
Strip(s) == RStrip(LStrip(s))

Digits == {"0", "1", "2", "3", "4", "5", "6", "7", "8", "9"}
DigitVal == [c \in Digits |-> CHOOSE d \in 0..9 : ToString(d) = c]

RECURSIVE NatOf(_, _)
NatOf(s, acc) == IF Len(s) = 0 THEN acc
                 ELSE IF Ch(s, 1) \in Digits THEN NatOf(Tail(s), acc * 10 + DigitVal[Ch(s, 1)])
                 ELSE BAD
(* what int() of the implementation's readers returns for an already stripped slice *)
ParseInt(s) == IF Len(s) = 0 \/ Len(s) > 9 THEN BAD
               ELSE IF Ch(s, 1) = "-" THEN (IF Len(s) = 1 THEN BAD
                                            ELSE LET n == NatOf(Tail(s), 0) IN IF n = BAD THEN BAD ELSE -n)
               ELSE NatOf(s, 0)
(* float() of a stripped slice with exactly three decimals, in thousandths *)
ParseDec3(s) ==
  LET n == Len(s) IN
  IF n < 5 \/ n > 10 \/ Ch(s, n - 3) # "." THEN BAD
  ELSE LET neg == Ch(s, 1) = "-"
           ip  == NatOf(SubSeq(s, IF neg THEN 2 ELSE 1, n - 4), 0)
           fp  == NatOf(SubSeq(s, n - 2, n), 0)
       IN IF ip = BAD \/ fp = BAD \/ (neg /\ n < 6) THEN BAD
          ELSE IF neg THEN -(ip * 1000 + fp) ELSE ip * 1000 + fp

(* canonical texts *)
IntText(n) == ToString(n)
Dec3Text(m) ==
  LET a == Abs(m)
      fr == a % 1000
  IN (IF m < 0 THEN "-" ELSE "") \o ToString(a \div 1000) \o "."
     \o (IF fr < 10 THEN "00" ELSE IF fr < 100 THEN "0" ELSE "") \o ToString(fr)
(* extension (GRO column widths): kinds "d3" / "d4" = fixed-point numbers with three / four decimals carried as integer
   thousandths / ten-thousandths, for fields of ANY width up to 13 (the kind "dec3" above stays limited to 10 columns) *)
RECURSIVE Pow10(_)
Pow10(n) == IF n = 0 THEN 1 ELSE 10 * Pow10(n - 1)
DecText(m, nd) ==
  LET a == Abs(m)
      p == Pow10(nd)
      frt == ToString(a % p)
  IN (IF m < 0 THEN "-" ELSE "") \o ToString(a \div p) \o "." \o SubSeq("0000", 1, nd - Len(frt)) \o frt
ParseDecN(s, nd) ==
  LET n == Len(s) IN
  IF n < nd + 2 \/ n > 13 \/ Ch(s, n - nd) # "." THEN BAD
  ELSE LET neg == Ch(s, 1) = "-"
           ips == SubSeq(s, IF neg THEN 2 ELSE 1, n - nd - 1)
           ip  == IF Len(ips) = 0 \/ Len(ips) > 9 THEN BAD ELSE NatOf(ips, 0)
           fp  == NatOf(SubSeq(s, n - nd + 1, n), 0)
           cap == (2147483647 \div Pow10(nd)) - 1           \* everything stays a 32-bit integer
       IN IF ip = BAD \/ fp = BAD \/ ip > cap THEN BAD
          ELSE IF neg THEN -(ip * Pow10(nd) + fp) ELSE ip * Pow10(nd) + fp
TextOf(kind, v) == IF kind = "int" THEN IntText(v) ELSE IF kind = "dec3" THEN Dec3Text(v)
                   ELSE IF kind = "d3" THEN DecText(v, 3) ELSE IF kind = "d4" THEN DecText(v, 4) ELSE v

(* ---- one field: pad, then truncate, to exactly w columns (operational: shaped like TruncFormatter) ---- *)
Pad(txt, w, align) == IF Len(txt) >= w THEN txt
                      ELSE IF align = "<" THEN txt \o Spaces(w - Len(txt)) ELSE Spaces(w - Len(txt)) \o txt
Trunc(txt, w, align) == IF Len(txt) <= w THEN txt
                        ELSE IF align = "<" THEN SubSeq(txt, 1, w) ELSE SubSeq(txt, Len(txt) - w + 1, Len(txt))
Fmt(txt, w, align) == Trunc(Pad(txt, w, align), w, align)
FitsW(txt, w) == Len(txt) <= w

(* ---- a whole record ---- *)
RECURSIVE RenderFrom(_, _, _, _)
RenderFrom(table, rec, i, line) ==
  IF i > Len(table) THEN line
  ELSE LET f == table[i] IN
       RenderFrom(table, rec, i + 1,
                  line \o Spaces(f.start - 1 - Len(line)) \o Fmt(TextOf(f.kind, rec[f.name]), f.w, f.align))
Render(table, rec) == RenderFrom(table, rec, 1, "")

TypedSlice(f, line) ==
  LET s == Strip(Cut(line, f.start, f.start + f.w - 1)) IN
  IF f.kind = "int" THEN ParseInt(s) ELSE IF f.kind = "dec3" THEN ParseDec3(s)
  ELSE IF f.kind = "d3" THEN ParseDecN(s, 3) ELSE IF f.kind = "d4" THEN ParseDecN(s, 4) ELSE s
Read(table, line) == [i \in DOMAIN table |-> TypedSlice(table[i], line)]     \* sequence parallel to the table
FieldIdx(table, name) == CHOOSE i \in DOMAIN table : table[i].name = name

F(n, s, w, a, k) == [name |-> n, start |-> s, w |-> w, align |-> a, kind |-> k]

(* ------------------------------------------------------------------ PDB ------------------------------------ *)
(* writer side: columns of the PDB format *)
PdbAtomW == << F("rec", 1, 6, "<", "str"),    F("serial", 7, 5, ">", "int"),  F("name", 13, 4, "<", "str"),
               F("altloc", 17, 1, "<", "str"), F("resname", 18, 3, "<", "str"), F("chain", 22, 1, "<", "str"),
               F("resid", 23, 4, ">", "int"),  F("icode", 27, 1, "<", "str"),
               F("x", 31, 8, ">", "dec3"),     F("y", 39, 8, ">", "dec3"),     F("z", 47, 8, ">", "dec3"),
               F("elem", 77, 2, "<", "str") >>
PdbAtomBlank == {12, 21, 28, 29, 30}          \* columns between fields that must stay blank
PdbTerW  == << F("rec", 1, 6, "<", "str"),    F("serial", 7, 5, ">", "int"),  F("resname", 18, 3, "<", "str"),
               F("chain", 22, 1, "<", "str"),  F("resid", 23, 4, ">", "int"),  F("icode", 27, 1, "<", "str") >>
(* reader side: what the PDB reader of the implementation slices (the residue name is read 4 wide) *)
PdbAtomR == << F("serial", 7, 5, ">", "int"),  F("name", 13, 4, "<", "str"),   F("resname", 18, 4, "<", "str"),
               F("chain", 22, 1, "<", "str"),  F("resid", 23, 4, ">", "int"),  F("icode", 27, 1, "<", "str"),
               F("x", 31, 8, ">", "dec3"),     F("y", 39, 8, ">", "dec3"),     F("z", 47, 8, ">", "dec3") >>

(* ------------------------------------------------------------------ GRO ------------------------------------ *)
GroAtomW == << F("resid", 1, 5, ">", "int"),   F("resname", 6, 5, "<", "str"), F("name", 11, 5, ">", "str"),
               F("serial", 16, 5, ">", "int"), F("x", 21, 8, ">", "dec3"),     F("y", 29, 8, ">", "dec3"),
               F("z", 37, 8, ">", "dec3") >>
GroAtomR == GroAtomW

(* GRO with coordinate columns of width w (write_gro precision = w - 1): three coordinate fields of width w with three
   decimals from column 21, then - when the file has velocities - three velocity fields of the SAME width with four
   decimals.  GroAtomWP(8) is GroAtomW. *)
GroHeadW == << F("resid", 1, 5, ">", "int"),   F("resname", 6, 5, "<", "str"), F("name", 11, 5, ">", "str"),
               F("serial", 16, 5, ">", "int") >>
GroAtomWP(w) == GroHeadW \o << F("x", 21, w, ">", "d3"), F("y", 21 + w, w, ">", "d3"), F("z", 21 + 2 * w, w, ">", "d3") >>
GroVelWP(w) == << F("vx", 21 + 3 * w, w, ">", "d4"), F("vy", 21 + 4 * w, w, ">", "d4"), F("vz", 21 + 5 * w, w, ">", "d4") >>
GroAtomWPV(w, vel) == IF vel THEN GroAtomWP(w) \o GroVelWP(w) ELSE GroAtomWP(w)
GroLineLen(w, vel) == 20 + (IF vel THEN 6 ELSE 3) * w
(* what the text itself says about its layout: the coordinate width is the distance between the decimal points of two
   neighbouring coordinate fields, a line with six decimal points carries velocities (names contain no ".") *)
DotCols(line) == {i \in 21..Len(line) : Ch(line, i) = "."}
DotWidth(line) == LET d == DotCols(line) IN
                  IF Cardinality(d) < 2 THEN 0
                  ELSE LET a == CHOOSE x \in d : \A y \in d : x <= y
                           b == CHOOSE x \in d \ {a} : \A y \in d \ {a} : x <= y
                       IN b - a
HasVel(line) == Cardinality({i \in 1..Len(line) : Ch(line, i) = "."}) = 6
(* largest / smallest value (integer thousandths or ten-thousandths alike) whose text fits w columns *)
MaxFit(w) == IF w > 10 THEN 2147483647 ELSE Pow10(w - 1) - 1           \* capped: values are 32-bit integers here
MinFit(w) == IF w > 11 THEN -2147483647 ELSE -(Pow10(w - 2) - 1)

(* reader side of a PDB file NOT written by vermouth: PdbAtomR plus alternate location, element and charge columns *)
PdbAtomRF == PdbAtomR \o << F("altloc", 17, 1, "<", "str"), F("elem", 77, 2, "<", "str"), F("charge", 79, 2, "<", "str") >>
(* charge column: digit then sign ("2-", "1+"), also sign then digit; blank = 0 *)
ParseCharge(s) ==
  IF s = "" THEN 0
  ELSE IF Len(s) = 2 /\ Ch(s, 1) \in Digits /\ Ch(s, 2) \in {"+", "-"} THEN (IF Ch(s, 2) = "-" THEN -DigitVal[Ch(s, 1)] ELSE DigitVal[Ch(s, 1)])
  ELSE IF Len(s) = 2 /\ Ch(s, 2) \in Digits /\ Ch(s, 1) \in {"+", "-"} THEN (IF Ch(s, 1) = "-" THEN -DigitVal[Ch(s, 2)] ELSE DigitVal[Ch(s, 2)])
  ELSE IF Len(s) = 1 /\ Ch(s, 1) \in Digits THEN DigitVal[Ch(s, 1)]
  ELSE BAD
(* number of blank-separated tokens of a line (GRO box line) *)
Tokens(s) == Cardinality({i \in 1..Len(s) : Ch(s, i) # " " /\ (i = 1 \/ Ch(s, i - 1) = " ")})

(* the property leaves open which end of an over-long text survives in a right-aligned TEXT column (GRO atom name):
   both the leading and the trailing w characters are admissible there.  Everywhere else the table decides. *)
Admissible(f, txt) ==
  {Strip(Fmt(txt, f.w, f.align))} \cup (IF f.kind = "str" /\ f.align = ">" /\ Len(txt) > f.w THEN {SubSeq(txt, 1, f.w)} ELSE {})

(* ---- declarative read-back value of ONE field, from its own value only (the statement) ---- *)
DeclBack(fw, fr, v) ==            \* fw: writer field, fr: reader field of the same name
  LET txt == TextOf(fw.kind, v) IN
  IF FitsW(txt, fw.w) THEN v                                               \* fits: returned exactly
  ELSE IF fw.kind = "int" THEN ParseInt(SubSeq(txt, Len(txt) - fw.w + 1, Len(txt)))      \* low-order digits
  ELSE IF fw.kind = "dec3" THEN ParseDec3(SubSeq(txt, Len(txt) - fw.w + 1, Len(txt)))
  ELSE IF fw.align = "<" THEN SubSeq(txt, 1, fw.w) ELSE SubSeq(txt, Len(txt) - fw.w + 1, Len(txt))

(* ---- serial numbers: every atom and every TER record consumes one ---- *)
RECURSIVE CumFrom(_, _, _)
CumFrom(sizes, i, acc) == IF i > Len(sizes) THEN acc ELSE CumFrom(sizes, i + 1, Append(acc, acc[Len(acc)] + sizes[i]))
Cum(sizes) == CumFrom(sizes, 1, <<0>>)                \* Cum[m] = atoms before molecule m ; Cum[Len+1] = all atoms
MolOfC(cum, g) == CHOOSE m \in 1..(Len(cum) - 1) : cum[m] < g /\ g <= cum[m + 1]
Serial(g, m) == g + (m - 1)                           \* g-th atom of the system (1-based) in molecule m
TerSerialC(cum, m) == cum[m + 1] + m
LastAtomSerial(sizes) == Cum(sizes)[Len(sizes) + 1] + Len(sizes) - 1
Fits5(sizes) == LastAtomSerial(sizes) <= 99999        \* "the system fits the five-digit atom numbering"

(* record-name layout of a PDB file, run-length encoded, and the reader's division into molecules *)
RECURSIVE LayoutFrom(_, _)
LayoutFrom(sizes, i) == IF i > Len(sizes) THEN <<>>
                        ELSE <<[rec |-> "ATOM", n |-> sizes[i]], [rec |-> "TER", n |-> 1]>> \o LayoutFrom(sizes, i + 1)
Layout(sizes, nconect) == LayoutFrom(sizes, 1) \o (IF nconect > 0 THEN <<[rec |-> "CONECT", n |-> nconect]>> ELSE <<>>)
                          \o <<[rec |-> "END", n |-> 1]>>
RECURSIVE SplitFrom(_, _, _, _)      \* the reader: ATOM/HETATM extend the open molecule, TER/END close it when non-empty
SplitFrom(lay, i, open, done) ==
  IF i > Len(lay) THEN (IF open > 0 THEN Append(done, open) ELSE done)
  ELSE IF lay[i].rec \in {"ATOM", "HETATM"} THEN SplitFrom(lay, i + 1, open + lay[i].n, done)
  ELSE IF lay[i].rec \in {"TER", "END", "ENDMDL"} THEN SplitFrom(lay, i + 1, 0, IF open > 0 THEN Append(done, open) ELSE done)
  ELSE SplitFrom(lay, i + 1, open, done)
SplitByTer(lay) == SplitFrom(lay, 1, 0, <<>>)

(* ---- CONECT ---- *)
RECURSIVE SortedSeq(_)
SortedSeq(S) == IF S = {} THEN <<>> ELSE LET m == CHOOSE x \in S : \A y \in S : x <= y IN <<m>> \o SortedSeq(S \ {m})
RECURSIVE SerialFields(_)
SerialFields(seq) == IF seq = <<>> THEN "" ELSE Fmt(IntText(Head(seq)), 5, ">") \o SerialFields(Tail(seq))
RECURSIVE ConectLines(_, _)          \* operational: the hub, then at most four partners per line, 5 columns each
ConectLines(hub, partners) ==
  IF partners = <<>> THEN <<>>
  ELSE LET k == Min(4, Len(partners)) IN
       <<"CONECT" \o SerialFields(<<hub>> \o SubSeq(partners, 1, k))>> \o ConectLines(hub, SubSeq(partners, k + 1, Len(partners)))
RECURSIVE ConectIdsFrom(_, _)        \* reader: 5-wide slices from column 7 to the end of the right-stripped line
ConectIdsFrom(line, c) == IF c > Len(line) THEN <<>> ELSE <<ParseInt(Strip(Cut(line, c, c + 4)))>> \o ConectIdsFrom(line, c + 5)
ConectIds(line) == ConectIdsFrom(RStrip(line), 7)
PairsOfIds(ids) == {<<Min(ids[1], ids[k]), Max(ids[1], ids[k])>> : k \in 2..Len(ids)}
PairsOfLines(lines) == UNION {PairsOfIds(ConectIds(lines[i])) : i \in DOMAIN lines}
=============================================================================
