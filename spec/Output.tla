------------------------------- MODULE Output -------------------------------
(* C03 - coordinates, molecule types and system topology agree atom for atom.

   A system is a sequence of molecule VARIANTS  [shape, order, aid]:
     shape  identifies everything that is written into a topology apart from the atom order (names, residues, charges,
            bonded parameters, nrexcl); ShapeTab[shape][c] = [name, resname, resid] of canonical atom c
     order  the node (insertion) order of the graph, a sequence of canonical atom numbers
     aid    aid[c] = 'atomid' attribute of canonical atom c, NOAID when it has none
   Actions, in the order of the command line:  Name(dedup)  ->  SortAtoms | SkipSort  ->  WritePDB  ->  WriteGRO  ->  WriteTop.
   Abstract files:  pdb  = per molecule the sequence of [name, resname, resid] coordinate records,
                    gro  = the coordinate records of the GRO file of the same system: ONE flat sequence (the format has no
                           molecule delimiter),
                    itps = sequence of [name, src, atoms, bonds] (one per file written; src = molecule it was written from;
                           bonds = the shape's bonds as index pairs),
                    top  = [includes |-> names in #include order, molecules |-> <<[name, n], ...>>].
   The operators are OPERATIONAL (shaped like name_moltype.py, sort_molecule_atoms.py, Molecule.sorted_nodes,
   pdb.write_pdb_string, topology.write_gmx_topology); the invariants are the statement.                        *)
EXTENDS Integers, Sequences, FiniteSets, TLC

CONSTANTS Universe,   \* set of variants the systems are built from
          MaxMols,
          ShapeTab,   \* shape -> Seq([name, resname, resid])
          ShapeBonds, \* shape -> Seq(<<c1, c2>>)   bonds between canonical atoms (kept only if both atoms exist)
          NameStr     \* NameStr[g + 1] = molecule type name of group id g

NOAID == -1
INF   == 1073741824
Range(s) == {s[i] : i \in DOMAIN s}
Min(S) == CHOOSE x \in S : \A y \in S : x <= y

VARIABLES sys, dedup, pc, mols, ids, sorted, pdb, gro, itps, top
vars == <<sys, dedup, pc, mols, ids, sorted, pdb, gro, itps, top>>

RECURSIVE SeqsUpTo(_, _)
SeqsUpTo(S, n) == IF n = 0 THEN {<<>>}
                  ELSE LET prev == SeqsUpTo(S, n - 1)
                       IN prev \cup {Append(s, x) : s \in {q \in prev : Len(q) = n - 1}, x \in S}

NoTop == [includes |-> <<>>, molecules |-> <<>>]
Init == /\ sys \in SeqsUpTo(Universe, MaxMols) \ {<<>>}
        /\ dedup \in BOOLEAN
        /\ pc = "name" /\ mols = sys /\ ids = <<>> /\ sorted = FALSE
        /\ pdb = <<>> /\ gro = <<>> /\ itps = <<>> /\ top = NoTop

-----------------------------------------------------------------------------
(* NameMolType *)

\* share_moltype_with: same node keys in the same order, same attributes (atom id included), same interactions
Share(a, b) == a = b

\* _name_with_deduplication: representatives in order of appearance, the first one that matches gives the id
RECURSIVE NameDedup(_, _, _)
NameDedup(ms, j, reps) ==
  IF j > Len(ms) THEN <<>>
  ELSE LET hits == {i \in DOMAIN reps : Share(ms[j], reps[i])}
       IN IF hits # {} THEN <<Min(hits) - 1>> \o NameDedup(ms, j + 1, reps)
          ELSE <<Len(reps)>> \o NameDedup(ms, j + 1, Append(reps, ms[j]))

NameOp(ms, dd) == IF dd THEN NameDedup(ms, 1, <<ms[1]>>) ELSE [j \in DOMAIN ms |-> j - 1]

\* declarative: ids count the distinct molecules in order of first occurrence
FirstOcc(ms, j) == Min({i \in DOMAIN ms : ms[i] = ms[j]})
NameDecl(ms, dd) == IF dd THEN [j \in DOMAIN ms |-> Cardinality({FirstOcc(ms, i) : i \in 1..FirstOcc(ms, j)}) - 1]
                    ELSE [j \in DOMAIN ms |-> j - 1]

Name == /\ pc = "name"
        /\ ids' = NameOp(mols, dedup)
        /\ pc' = "sort"
        /\ UNCHANGED <<sys, dedup, mols, sorted, pdb, gro, itps, top>>

Names == [j \in DOMAIN ids |-> NameStr[ids[j] + 1]]

-----------------------------------------------------------------------------
(* SortMoleculeAtoms(): sorted(nodes, key = [chain, resid, resname, insertion_code, atomid]); chain, insertion code and
   the residue name are constant within a residue of the generated molecules, so the key is (resid, atomid).
   Python raises TypeError when it has to compare a missing atom id with a number: generated only when Sortable. *)

Sortable(mol) == (\A c \in Range(mol.order) : mol.aid[c] = NOAID) \/ (\A c \in Range(mol.order) : mol.aid[c] # NOAID)
KeyLE(mol, c, d) == LET rc == ShapeTab[mol.shape][c].resid  rd == ShapeTab[mol.shape][d].resid
                    IN rc < rd \/ (rc = rd /\ mol.aid[c] <= mol.aid[d])
RECURSIVE InsertKey(_, _, _)
InsertKey(mol, s, c) == IF s = <<>> THEN <<c>>
                        ELSE IF KeyLE(mol, Head(s), c) THEN <<Head(s)>> \o InsertKey(mol, Tail(s), c)
                        ELSE <<c>> \o s
RECURSIVE SortKey(_, _)
SortKey(mol, n) == IF n = 0 THEN <<>> ELSE InsertKey(mol, SortKey(mol, n - 1), mol.order[n])

SortAtoms == /\ pc = "sort"
             /\ \A j \in DOMAIN mols : Sortable(mols[j])
             /\ mols' = [j \in DOMAIN mols |-> [mols[j] EXCEPT !.order = SortKey(mols[j], Len(mols[j].order))]]
             /\ sorted' = TRUE
             /\ pc' = "pdb"
             /\ UNCHANGED <<sys, dedup, ids, pdb, gro, itps, top>>
SkipSort == /\ pc = "sort"
            /\ pc' = "pdb"
            /\ UNCHANGED <<sys, dedup, mols, ids, sorted, pdb, gro, itps, top>>

-----------------------------------------------------------------------------
(* writers: all three (ITP, PDB, GRO) iterate Molecule.sorted_nodes = stable sort of the node order by atom id,
   missing = +inf *)

AidV(mol, c) == IF mol.aid[c] = NOAID THEN INF ELSE mol.aid[c]
RECURSIVE InsertAid(_, _, _)
InsertAid(mol, s, c) == IF s = <<>> THEN <<c>>
                        ELSE IF AidV(mol, Head(s)) <= AidV(mol, c) THEN <<Head(s)>> \o InsertAid(mol, Tail(s), c)
                        ELSE <<c>> \o s
RECURSIVE SortAid(_, _)
SortAid(mol, n) == IF n = 0 THEN <<>> ELSE InsertAid(mol, SortAid(mol, n - 1), mol.order[n])
WOrder(mol) == SortAid(mol, Len(mol.order))

AtomLines(mol) == LET w == WOrder(mol) IN [k \in DOMAIN w |-> ShapeTab[mol.shape][w[k]]]
PosOf(mol, c) == LET w == WOrder(mol) IN CHOOSE k \in DOMAIN w : w[k] = c
BondLines(mol) == {<<PosOf(mol, b[1]), PosOf(mol, b[2])>> :
                     b \in {x \in Range(ShapeBonds[mol.shape]) : x[1] \in Range(mol.order) /\ x[2] \in Range(mol.order)}}

WritePDB == /\ pc = "pdb"
            /\ pdb' = [j \in DOMAIN mols |-> AtomLines(mols[j])]
            /\ pc' = "gro"
            /\ UNCHANGED <<sys, dedup, mols, ids, sorted, gro, itps, top>>

RECURSIVE ConcatAll(_)
ConcatAll(ss) == IF ss = <<>> THEN <<>> ELSE Head(ss) \o ConcatAll(Tail(ss))
\* gro.write_gro: molecule after molecule, atoms in written (atom id) order, no delimiter
WriteGRO == /\ pc = "gro"
            /\ gro' = ConcatAll([j \in DOMAIN mols |-> AtomLines(mols[j])])
            /\ pc' = "top"
            /\ UNCHANGED <<sys, dedup, mols, ids, sorted, pdb, itps, top>>

\* write_gmx_topology: groupby on successive names; ITP written from the first molecule of the first group of a name;
\* one [ molecules ] line per group; includes = names of the groups, each once, in order of first appearance
RECURSIVE TopFrom(_, _)
TopFrom(j, acc) ==
  IF j > Len(mols) THEN acc
  ELSE LET nm == Names[j]
       IN IF j > 1 /\ Names[j - 1] = nm
          THEN TopFrom(j + 1, [acc EXCEPT !.count[Len(acc.count)].n = @ + 1])
          ELSE TopFrom(j + 1,
                 [count   |-> Append(acc.count, [name |-> nm, n |-> 1]),
                  written |-> acc.written \cup {nm},
                  files   |-> IF nm \in acc.written THEN acc.files
                              ELSE Append(acc.files, [name |-> nm, src |-> j, atoms |-> AtomLines(mols[j]),
                                                      bonds |-> BondLines(mols[j])])])
RECURSIVE Uniq(_, _)
Uniq(s, seen) == IF s = <<>> THEN <<>>
                 ELSE IF Head(s) \in seen THEN Uniq(Tail(s), seen)
                 ELSE <<Head(s)>> \o Uniq(Tail(s), seen \cup {Head(s)})

WriteTop == /\ pc = "top"
            /\ LET t == TopFrom(1, [count |-> <<>>, written |-> {}, files |-> <<>>])
               IN /\ itps' = t.files
                  /\ top' = [includes |-> Uniq([i \in DOMAIN t.count |-> t.count[i].name], {}), molecules |-> t.count]
            /\ pc' = "done"
            /\ UNCHANGED <<sys, dedup, mols, ids, sorted, pdb, gro>>

Next == Name \/ SortAtoms \/ SkipSort \/ WritePDB \/ WriteGRO \/ WriteTop
Spec == Init /\ [][Next]_vars

-----------------------------------------------------------------------------
(* the statement *)
Done == pc = "done"
ItpNamed(nm) == itps[CHOOSE i \in DOMAIN itps : itps[i].name = nm]
Written(mol) == [shape |-> mol.shape, w |-> WOrder(mol)]      \* what a topology of this molecule states

NameOpIsDecl == pc # "name" => ids = NameDecl(sys, dedup)

KthAtomAgrees == Done => \A j \in DOMAIN mols :
                    /\ \E i \in DOMAIN itps : itps[i].name = Names[j]
                    /\ Len(pdb[j]) = Len(ItpNamed(Names[j]).atoms)
                    /\ \A k \in DOMAIN pdb[j] : pdb[j][k] = ItpNamed(Names[j]).atoms[k]

\* the GRO file has no delimiter: the records of molecule j are the next Len(atoms of its ITP) ones
KthGroAgrees == Done => gro = ConcatAll([j \in DOMAIN mols |-> ItpNamed(Names[j]).atoms])

\* with deduplication WHICH molecules share a name depends on the molecules only, never on their order in the system
\* (every permutation of a system is a system of the model); without it nothing is shared
SharedIffEqual == pc # "name" => \A i, j \in DOMAIN ids : ids[i] = ids[j] <=> (i = j \/ (dedup /\ sys[i] = sys[j]))

Starts == {j \in DOMAIN ids : j = 1 \/ Names[j] # Names[j - 1]}
NextStart(j) == IF \E s \in Starts : s > j THEN Min({s \in Starts : s > j}) ELSE Len(ids) + 1
RunLength == [k \in 1..Cardinality(Starts) |->
                LET s == CHOOSE s \in Starts : Cardinality({q \in Starts : q < s}) = k - 1
                IN [name |-> Names[s], n |-> NextStart(s) - s]]
TopIsRunLength == Done => top.molecules = RunLength

IncludeOnce == Done => /\ Range(top.includes) = Range(Names)
                       /\ \A i, j \in DOMAIN top.includes : i # j => top.includes[i] # top.includes[j]
                       /\ {itps[i].name : i \in DOMAIN itps} = Range(Names)
                       /\ \A i, j \in DOMAIN itps : i # j => itps[i].name # itps[j].name

SameNameSameTopology ==
  pc \notin {"name"} =>
     /\ \A i, j \in DOMAIN mols : ids[i] = ids[j] => Written(mols[i]) = Written(mols[j])
     /\ Done => \A j \in DOMAIN mols : Written(mols[ItpNamed(Names[j]).src]) = Written(mols[j])

\* sorting changes neither the molecule types nor what is stated about a molecule's atoms, only their order
SortKeepsAtoms == \A j \in DOMAIN mols : Range(mols[j].order) = Range(sys[j].order) /\ Len(mols[j].order) = Len(sys[j].order)
=============================================================================
