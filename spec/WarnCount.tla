------------------------------ MODULE WarnCount ------------------------------
(* C08 as a state machine shaped like a martinize2 run: log records arrive one by one
   (Log / LogAbove), -maxwarn entries are given (Allow), and `left` is what the gate at the
   end of the run would compute.  Every reachable state is one input of the accounting
   function; invariants state operational = declarative for EVERY dictionary iteration
   order and the algebraic laws of the statement; action properties state how one more
   record or one more allowance may change the result. *)
EXTENDS WarnCountOps, TLC

CONSTANTS Types,       \* types that can occur in records
          GhostTypes,  \* types that only occur in allowances
          MaxC,        \* max count per type
          MaxAbove,    \* max number of records above WARNING
          Limits,      \* numeric limits tried (may contain negatives)
          MaxSpecs     \* max number of allowance entries

VARIABLES counts, above, specs, left
vars == <<counts, above, specs, left>>

EntrySet == {e \in [t : Types \cup GhostTypes \cup {BLANKET}, n : Limits \cup {NONE}] :
               ~(e.t = BLANKET /\ e.n = NONE)}

Init == /\ counts = [t \in Types |-> 0]
        /\ above = 0
        /\ specs = <<>>
        /\ left = 0

Log(t) == /\ counts[t] < MaxC
          /\ counts' = [counts EXCEPT ![t] = @ + 1]
          /\ UNCHANGED <<above, specs>>
          /\ left' = LeftoverDecl(counts', above', specs')

LogAbove == /\ above < MaxAbove
            /\ above' = above + 1
            /\ UNCHANGED <<counts, specs>>
            /\ left' = LeftoverDecl(counts', above', specs')

Allow(e) == /\ Len(specs) < MaxSpecs
            /\ WellSpecified(Append(specs, e))
            /\ specs' = Append(specs, e)
            /\ UNCHANGED <<counts, above>>
            /\ left' = LeftoverDecl(counts', above', specs')

Next == (\E t \in Types : Log(t)) \/ LogAbove \/ (\E e \in EntrySet : Allow(e))
Spec == Init /\ [][Next]_vars

Seen == {t \in Types : counts[t] > 0}
Orders == {o \in [1..Cardinality(Seen) -> Seen] : \A i, j \in DOMAIN o : i # j => o[i] # o[j]}

LeftIsDecl == left = LeftoverDecl(counts, above, specs)
OpIsDecl == \A o \in Orders : LeftoverOp(counts, above, specs, o) = left

NonNegative   == left >= 0
ErrorsCounted == left >= above
ZeroIffCovered == (left = 0) = AllCovered(counts, above, specs)
OnlyLargestLimit ==
  \A i \in DOMAIN specs : \A j \in DOMAIN specs :
     (i # j /\ specs[i].t = specs[j].t /\ specs[i].n # NONE /\ specs[j].n # NONE /\ specs[i].n <= specs[j].n)
        => left = LeftoverDecl(counts, above, [k \in 1..(Len(specs)-1) |-> IF k < i THEN specs[k] ELSE specs[k+1]])
NegativeIsZero ==
  left = LeftoverDecl(counts, above, [k \in DOMAIN specs |-> IF specs[k].n # NONE /\ specs[k].n < 0
                                                            THEN [specs[k] EXCEPT !.n = 0] ELSE specs[k]])

(* action properties *)
ErrorAddsOne      == [][LogAbove => left' = left + 1]_vars
WarningNeverHelps == [][(\E t \in Types : Log(t)) => left' \in {left, left + 1}]_vars
AbsentTypeNoEffect ==
  [][\A e \in EntrySet : (Allow(e) /\ e.t # BLANKET /\ (e.t \notin Types \/ counts[e.t] = 0)) => left' = left]_vars
=============================================================================
