----------------------------- MODULE Trace_Repair -----------------------------
(* TLC judges recorded RepairGraph runs.  kind: "repair" (atoms by block index, synthetic and shipped blocks), "twin",
   "repairx" (real structures / command-line runs: reference built here from block + requested modifications, atoms by name),
   "molecule", "unknown".  `note` says what a repairx verdict rests on. *)
EXTENDS Repair, Json, IOUtils
Batch == JsonDeserialize(IOEnv.TRACE_FILE)
VARIABLES tid, verdict, note
vars == <<tid, verdict, note>>
Init == tid \in 1..Len(Batch) /\ verdict = "pending" /\ note = "-"
Eval == /\ verdict = "pending"
        /\ LET e == Batch[tid] IN
           /\ verdict' = IF e.kind = "repair" THEN JudgeRepair(e)
                         ELSE IF e.kind = "repairx" THEN JudgeRepairX(e)
                         ELSE IF e.kind = "molecule" THEN JudgeMolecule(e)
                         ELSE IF e.kind = "unknown" THEN JudgeUnknown(e)
                         ELSE JudgeTwin(e)
           /\ note' = IF e.kind = "repairx" THEN NoteRepairX(e) ELSE "-"
        /\ UNCHANGED tid
Spec == Init /\ [][Eval]_vars
=============================================================================
