----------------------------- MODULE Trace_Repair -----------------------------
EXTENDS Repair, Json, IOUtils
Batch == JsonDeserialize(IOEnv.TRACE_FILE)
VARIABLES tid, verdict
vars == <<tid, verdict>>
Init == tid \in 1..Len(Batch) /\ verdict = "pending"
Eval == /\ verdict = "pending"
        /\ verdict' = IF Batch[tid].kind = "repair" THEN JudgeRepair(Batch[tid]) ELSE JudgeTwin(Batch[tid])
        /\ UNCHANGED tid
Spec == Init /\ [][Eval]_vars
=============================================================================
