------------------------------- MODULE Tokens -------------------------------
(* The interaction-line tokeniser (vermouth.parser_utils._tokenize) over lines given as sequences of characters.
   TokOp   : transcription of the implementation (one scanning loop with a bracket counter and start/end indices)
   TokDecl : structural definition - skip separators; a token is either a complete top-level brace group or a maximal
             run of characters that are neither separators nor braces
   The result is [err |-> TRUE] or [err |-> FALSE, toks |-> Seq(Seq(char))].
   Lines whose brace depth becomes negative and later recovers ("} {") are outside the documented grammar; they are
   excluded from the comparison (WellNestedOrOpen) - the statement only requires unbalanced braces to be rejected. *)
EXTENDS Integers, Sequences, FiniteSets, TLC

CONSTANTS Chars, MaxLen

Sep == {" "}
ERR == [err |-> TRUE]
OK(t) == [err |-> FALSE, toks |-> t]

(* ---- operational ---- *)
\* scan from `start`: returns [end, brackets] as the inner for-loop leaves them
RECURSIVE Scan(_, _, _, _)
Scan(line, start, pos, brackets) ==
  IF pos > Len(line) THEN [end |-> Len(line), brackets |-> brackets]
  ELSE LET c == line[pos] IN
       IF c = "{" THEN IF brackets = 0 /\ pos # start THEN [end |-> pos - 1, brackets |-> brackets]
                       ELSE Scan(line, start, pos + 1, brackets + 1)
       ELSE IF c = "}" THEN IF brackets - 1 = 0 THEN [end |-> pos, brackets |-> 0]
                            ELSE Scan(line, start, pos + 1, brackets - 1)
       ELSE IF c \in Sep /\ brackets = 0 THEN [end |-> pos - 1, brackets |-> brackets]
       ELSE Scan(line, start, pos + 1, brackets)

RECURSIVE SkipSep(_, _)
SkipSep(line, pos) == IF pos <= Len(line) /\ line[pos] \in Sep THEN SkipSep(line, pos + 1) ELSE pos

RECURSIVE TokLoop(_, _, _)
TokLoop(line, start, acc) ==
  IF start > Len(line) THEN OK(acc)
  ELSE LET r == Scan(line, start, start, 0) IN
       IF r.brackets # 0 THEN ERR
       ELSE LET tok == SubSeq(line, start, r.end)
            IN TokLoop(line, SkipSep(line, r.end + 1), IF tok = <<>> THEN acc ELSE Append(acc, tok))

TokOp(line) == TokLoop(line, SkipSep(line, 1), <<>>)

(* ---- declarative ---- *)
Depth(line, i) == Cardinality({j \in 1..i : line[j] = "{"}) - Cardinality({j \in 1..i : line[j] = "}"})
NeverNegative(line) == \A i \in DOMAIN line : Depth(line, i) >= 0
Balanced(line) == NeverNegative(line) /\ Depth(line, Len(line)) = 0

RECURSIVE TokDeclFrom(_)
TokDeclFrom(line) ==
  IF line = <<>> THEN <<>>
  ELSE IF Head(line) \in Sep THEN TokDeclFrom(Tail(line))
  ELSE IF Head(line) = "{"
       THEN LET m == CHOOSE i \in DOMAIN line : Depth(line, i) = 0 /\ \A j \in 1..(i - 1) : Depth(line, j) > 0
            IN <<SubSeq(line, 1, m)>> \o TokDeclFrom(SubSeq(line, m + 1, Len(line)))
       ELSE LET stop == {i \in DOMAIN line : line[i] \in Sep \cup {"{"}}
                m == IF stop = {} THEN Len(line) ELSE (CHOOSE i \in stop : \A j \in stop : i <= j) - 1
            IN <<SubSeq(line, 1, m)>> \o TokDeclFrom(SubSeq(line, m + 1, Len(line)))

TokDecl(line) == IF Balanced(line) THEN OK(TokDeclFrom(line)) ELSE ERR

RECURSIVE Join(_)
Join(toks) == IF toks = <<>> THEN <<>> ELSE IF Len(toks) = 1 THEN toks[1] ELSE toks[1] \o <<" ">> \o Join(Tail(toks))

(* ---- TAB model ---- *)
VARIABLES line, out
vars == <<line, out>>
Init == line = <<>> /\ out = OK(<<>>)
Extend(c) == Len(line) < MaxLen /\ line' = Append(line, c) /\ out' = TokOp(line')
Next == \E c \in Chars : Extend(c)
Spec == Init /\ [][Next]_vars

InGrammar(l) == NeverNegative(l)
OpIsDecl == InGrammar(line) => out = TokDecl(line)
UnbalancedRejected == (InGrammar(line) /\ ~Balanced(line)) => out.err
RoundTrip == (~out.err /\ InGrammar(line)) => TokOp(Join(out.toks)) = out
NoSeparatorOutsideBraces ==
  (~out.err /\ InGrammar(line)) => \A k \in DOMAIN out.toks : (out.toks[k][1] # "{" => \A i \in DOMAIN out.toks[k] : out.toks[k][i] \notin Sep \cup {"{", "}"})
=============================================================================
