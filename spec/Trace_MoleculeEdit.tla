------------------------- MODULE Trace_MoleculeEdit -------------------------
(* Batch validation of editing histories recorded from real vermouth Molecule / Block / System objects.
   Batch[tid] is a sequence of events; every event names the call, its arguments, the error outcome and the projection
   of the whole world after the call: every heap cell (atoms, bonds, interactions; the highest-key cache and the
   bookkeeping: meta, citations, log entries, nrexcl, force field), the molecule list of the System, and which cells
   hold the same citation-set object.

   An event is ACCEPTED iff the outcome operator of MoleculeEdit, applied to the world before the call, gives exactly the
   logged error outcome, the logged atoms / bonds / interactions of every cell and the logged molecule list, and the
   logged cells satisfy NoDangling.  That is the statement of C12; a rejected event ends the trace (why # "ok").

   BOOKKEEPING is judged separately and never rejects: the names of the clauses the call did not respect (computed by
   MoleculeEdit on the world before / after) and any difference between the logged and the computed bookkeeping
   ("differs:bk", "differs:cache", "differs:parts") are appended to `seen` as "<event index>:<name>"; the trace goes on
   from the LOGGED world, so one deviation is reported once.                                                     *)
EXTENDS Integers, Sequences, FiniteSets, TLC, Json, IOUtils

CONSTANTS Types, EdgeTypes, Cells, BlockCells, BlockRank, SysFF, CacheModel, LogExtra, CitShared, LogPurge

Batch == JsonDeserialize(IOEnv.TRACE_FILE)

VARIABLES tid, l, W, why, seen
tvars == <<tid, l, W, why, seen>>

ME == INSTANCE MoleculeEdit WITH Id <- Cells, BlockIds <- BlockCells, InitHeaps <- {}, InitSys <- {}, Key <- {}, BKey <- {},
        BAtomSeqs <- {}, BRank <- BlockRank,
        AttrChoice <- <<>>, AtomSeqs <- {}, NodeSets <- {}, ChainSets <- {}, Offsets <- {},
        MaxNodes <- 0, MaxInter <- 0, MaxResid <- 0, MaxDepth <- 0, Acts <- {}, OneShotPurges <- TRUE,
        mols <- W.mols, sys <- W.sys, parts <- W.parts, err <- why, obs <- {}, last <- "-", steps <- l

SeqToSet(s) == {s[i] : i \in DOMAIN s}
NodeRec(k, a) == [key |-> k, resid |-> a.resid, cg |-> a.cg, tag |-> a.tag]

PostOf(e, c) == LET i == CHOOSE j \in DOMAIN e.post : e.post[j][1] = c IN e.post[i][2]
LoggedMol(p) == [nodes |-> p.nodes, edges |-> {<<p.edges[i][1], p.edges[i][2]>> : i \in DOMAIN p.edges}, inter |-> p.inter,
                 maxnode |-> p.maxnode,
                 bk |-> [meta |-> p.bk.meta, cit |-> SeqToSet(p.bk.cit), log |-> p.bk.log, nrexcl |-> p.bk.nrexcl, ff |-> p.bk.ff]]
LoggedWorld(e) == [mols |-> [c \in Cells |-> LoggedMol(PostOf(e, c))], sys |-> e.sys,
                   parts |-> {SeqToSet(e.parts[i]) : i \in DOMAIN e.parts}]

\* the outcome of event e on world w
Effect(e, w) ==
  LET h == w.mols  B(c) == c \in BlockCells IN
  CASE e.ev = "AddNode"         -> ME!OutInPlace(w, e.m, ME!EffAddNode(h[e.m], NodeRec(e.k, e.a), B(e.m)))
    [] e.ev = "AddNodesFrom"    -> ME!OutInPlace(w, e.m, ME!EffAddNodesFrom(h[e.m], [i \in DOMAIN e.ks |-> NodeRec(e.ks[i], e.a)]))
    [] e.ev = "SetResid"        -> ME!OutInPlace(w, e.m, ME!EffSetResid(h[e.m], e.k, e.r))
    [] e.ev = "RemoveNode"      -> ME!OutInPlace(w, e.m, ME!EffRemoveNode(h[e.m], e.k))
    [] e.ev = "RemoveNodesFrom" -> ME!OutInPlace(w, e.m, ME!EffRemoveNodesFrom(h[e.m], SeqToSet(e.ks), e.oneShot))
    [] e.ev = "AddEdge"         -> ME!OutInPlace(w, e.m, ME!EffAddEdge(h[e.m], e.k, e.b, B(e.m)))
    [] e.ev = "AddInter"        -> ME!OutInPlace(w, e.m, ME!EffAddInterE(h[e.m], e.ty, e.at, e.v, e.t, e.edge))
    [] e.ev = "AddOrReplace"    -> ME!OutInPlace(w, e.m, ME!EffAddOrReplaceC(h[e.m], e.ty, e.at, e.v, e.t, SeqToSet(e.cs)))
    [] e.ev = "RemoveInter"     -> ME!OutInPlace(w, e.m, ME!EffRemoveInter(h[e.m], e.ty, e.at, e.v))
    [] e.ev = "MakeEdges"       -> ME!OutInPlace(w, e.m, ME!EffMakeEdges(h[e.m], B(e.m)))
    [] e.ev = "Copy"            -> ME!OutStore(w, e.m, ME!CopyMol(h[e.src]), 0)
    [] e.ev = "Subgraph"        -> ME!OutStore(w, e.m, ME!SubMol(h[e.src], e.ks), e.src)
    [] e.ev = "GraphCopy"       -> ME!OutStore(w, e.m, ME!GraphCopyMol(h[e.src]), 0)
    [] e.ev = "Merge"           -> ME!OutInPlace(w, e.m, ME!EffMerge(h[e.m], h[e.n], B(e.m), B(e.n)))
    [] e.ev = "ToMol"           -> ME!OutStore(w, e.m, ME!ToMolecule(h[e.src], e.k, e.r, e.v), e.src)                \* block = cell e.src
    [] e.ev = "SetSys"          -> ME!Outcome(w, h, e.ks, w.parts, "none", {}, {})                                    \* system.molecules = [...]
    [] e.ev = "MergeAll"        -> ME!OutMergeAll(w)
    [] e.ev = "MergeChains"     -> ME!OutMergeChains(w, SeqToSet(e.at), e.m)                                          \* e.at: the chains
    [] e.ev = "MergeChainsAll"  -> ME!OutMergeChains(w, ME!AllChains(h, w.sys), e.m)
    [] e.ev = "Load"            -> LET g == LoggedWorld(e) IN                                                         \* objects taken as they are
                                   [mols |-> g.mols, sys |-> g.sys, parts |-> g.parts, err |-> "none", obs |-> {}]

\* the trace goes on from the logged world, except that a highest-key cache that is WRONG on the real object is not taken
\* over (noted as CacheSound): what the wrong value does to a later merge is then judged against the right one
Sane(M, c) == IF c \in BlockCells \/ ME!CacheOK(M) THEN M ELSE [M EXCEPT !.maxnode = -1]

Clauses == <<"LogKept", "LogRenumbered", "LogNothingAdded", "CitKept", "MetaKept", "MergeLogTotal", "BookFrame", "LogNoDangling", "CacheSound">>
Notes(i, o, r, g) ==      \* o: clauses, r: computed outcome, g: logged world
  LET pre == ToString(i) \o ":" IN
  [j \in DOMAIN SelectSeq(Clauses, LAMBDA c : c \in o) |-> pre \o SelectSeq(Clauses, LAMBDA c : c \in o)[j]]
  \o (IF \E c \in Cells : r.mols[c].bk # g.mols[c].bk THEN <<pre \o "differs:bk">> ELSE <<>>)
  \o (IF CacheModel = "tracked" /\ \E c \in Cells \ BlockCells : r.mols[c].maxnode # g.mols[c].maxnode THEN <<pre \o "differs:cache">> ELSE <<>>)
  \o (IF r.parts # g.parts THEN <<pre \o "differs:parts">> ELSE <<>>)

TInit == /\ tid \in 1..Len(Batch)
         /\ l = 1
         /\ W = ME!World([c \in Cells |-> ME!EmptyMol], <<>>, ME!Fresh)
         /\ why = "ok"
         /\ seen = <<>>

Consume ==
  /\ why = "ok"
  /\ l <= Len(Batch[tid])
  /\ LET e == Batch[tid][l]
         g == LoggedWorld(e)
     IN IF \E c \in Cells : PostOf(e, c).extra
        THEN why' = "interaction type outside the model" /\ UNCHANGED <<l, W, seen>>
        ELSE IF \E c \in Cells : LET M == g.mols[c] IN Cardinality(ME!KeysOf(M)) # Len(M.nodes)
        THEN why' = "two atoms with one key on the real object" /\ UNCHANGED <<l, W, seen>>
        ELSE IF \E c \in Cells : ~ ME!NoDanglingMol(g.mols[c])
        THEN why' = "NoDangling fails on the real object in cell " \o ToString(CHOOSE c \in Cells : ~ ME!NoDanglingMol(g.mols[c]))
             /\ UNCHANGED <<l, W, seen>>
        ELSE LET r == Effect(e, W) IN
        IF r.err # e.err
        THEN why' = "error outcome differs: model " \o r.err /\ UNCHANGED <<l, W, seen>>
        ELSE IF \E c \in Cells : ME!Stmt(r.mols[c]) # ME!Stmt(g.mols[c])
        THEN why' = "cell " \o ToString(CHOOSE c \in Cells : ME!Stmt(r.mols[c]) # ME!Stmt(g.mols[c])) \o " differs from the model"
             /\ UNCHANGED <<l, W, seen>>
        ELSE IF r.sys # g.sys
        THEN why' = "molecule list of the system differs from the model" /\ UNCHANGED <<l, W, seen>>
        ELSE IF e.ev = "Merge" /\ e.err = "none" /\ ~ ME!Conserved(W.mols[e.m], W.mols[e.n], g.mols[e.m])
        THEN why' = "the merge does not conserve (declarative form)" /\ UNCHANGED <<l, W, seen>>
        ELSE /\ W' = [g EXCEPT !.mols = [c \in Cells |-> Sane(g.mols[c], c)]]
             /\ l' = l + 1
             /\ seen' = seen \o Notes(l, r.obs \cup {x \in {"CacheSound"} : \E c \in Cells \ BlockCells : ~ ME!CacheOK(g.mols[c])}, r, g)
             /\ UNCHANGED why
  /\ UNCHANGED tid

TraceSpec == TInit /\ [][Consume]_tvars
=============================================================================
