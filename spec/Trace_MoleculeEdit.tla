------------------------- MODULE Trace_MoleculeEdit -------------------------
(* Batch validation of editing histories recorded from real vermouth Molecule objects.
   Batch[tid] is a sequence of events; every event names the call, its arguments, the error outcome and the
   projection of every heap cell after the call.  An event is accepted iff the effect operator of MoleculeEdit,
   applied to the model heap, gives exactly the logged outcome and the logged cells.                 *)
EXTENDS Integers, Sequences, FiniteSets, TLC, Json, IOUtils

CONSTANTS Types

Batch == JsonDeserialize(IOEnv.TRACE_FILE)

VARIABLES tid, l, heap, why
tvars == <<tid, l, heap, why>>

ME == INSTANCE MoleculeEdit WITH Id <- {1, 2, 3}, Key <- {}, AttrChoice <- <<>>, InitMols <- {}, AtomSeqs <- {},
        NodeSets <- {}, MaxNodes <- 0, MaxInter <- 0, MaxResid <- 0, MaxDepth <- 0,
        CacheModel <- "repaired", OneShotPurges <- TRUE, mols <- heap, err <- why, steps <- l

Cells == {1, 2, 3}
SeqToSet(s) == {s[i] : i \in DOMAIN s}

NodeRec(k, a) == [key |-> k, resid |-> a.resid, cg |-> a.cg, tag |-> a.tag]

\* expected [cell -> [mol, err]] of event e on heap h: the touched cell and its effect
Effect(e, h) ==
  CASE e.ev = "AddNode"         -> ME!EffAddNode(h[e.m], NodeRec(e.k, e.a))
    [] e.ev = "AddNodesFrom"    -> ME!EffAddNodesFrom(h[e.m], [i \in DOMAIN e.ks |-> NodeRec(e.ks[i], e.a)])
    [] e.ev = "SetResid"        -> ME!EffSetResid(h[e.m], e.k, e.r)
    [] e.ev = "RemoveNode"      -> ME!EffRemoveNode(h[e.m], e.k)
    [] e.ev = "RemoveNodesFrom" -> ME!EffRemoveNodesFrom(h[e.m], SeqToSet(e.ks), e.oneShot)
    [] e.ev = "AddEdge"         -> ME!EffAddEdge(h[e.m], e.k, e.b)
    [] e.ev = "AddInter"        -> ME!EffAddInter(h[e.m], e.ty, e.at, e.v, e.t)
    [] e.ev = "AddOrReplace"    -> ME!EffAddOrReplace(h[e.m], e.ty, e.at, e.v, e.t)
    [] e.ev = "RemoveInter"     -> ME!EffRemoveInter(h[e.m], e.ty, e.at, e.v)
    [] e.ev = "Copy"            -> ME!R(ME!SubMol(h[e.src], ME!KeySeq(h[e.src])), "none")
    [] e.ev = "Subgraph"        -> ME!R(ME!SubMol(h[e.src], e.ks), "none")
    [] e.ev = "Merge"           -> ME!EffMerge(h[e.m], h[e.n])
    [] e.ev = "MergeAll"        -> ME!R(ME!FoldMerge(h[e.ks[1]], h, Tail(e.ks)), "none")                      \* into the first molecule
    [] e.ev = "MergeChains"     -> ME!R(ME!MergedChains(h, e.ks, SeqToSet(e.at)), "none")                     \* e.at: the chains
    [] e.ev = "ToMolecule"      -> ME!R(ME!ToMolecule(h[e.src], e.k, e.r, e.v), "none")                       \* block = cell e.src

Proj(M) == [nodes |-> M.nodes, edges |-> M.edges, inter |-> M.inter]
Logged(p) == [nodes |-> p.nodes, edges |-> {<<p.edges[i][1], p.edges[i][2]>> : i \in DOMAIN p.edges}, inter |-> p.inter]
PostOf(e, c) == LET i == CHOOSE j \in DOMAIN e.post : e.post[j][1] = c IN e.post[i][2]

TInit == /\ tid \in 1..Len(Batch)
         /\ l = 1
         /\ heap = [c \in Cells |-> ME!EmptyMol]
         /\ why = "ok"

Consume ==
  /\ why = "ok"
  /\ l <= Len(Batch[tid])
  /\ LET e == Batch[tid][l]
         r == Effect(e, heap)
         h2 == [heap EXCEPT ![e.m] = r.mol]
     IN IF r.err # e.err
        THEN why' = "error outcome differs: model " \o r.err /\ UNCHANGED <<l, heap>>
        ELSE IF \E c \in Cells : PostOf(e, c).extra
        THEN why' = "interaction type outside the model" /\ UNCHANGED <<l, heap>>
        ELSE IF \E c \in Cells : Proj(h2[c]) # Logged(PostOf(e, c))
        THEN why' = "cell " \o ToString(CHOOSE c \in Cells : Proj(h2[c]) # Logged(PostOf(e, c))) \o " differs from the model"
             /\ UNCHANGED <<l, heap>>
        ELSE heap' = h2 /\ l' = l + 1 /\ UNCHANGED why
  /\ UNCHANGED tid

TraceSpec == TInit /\ [][Consume]_tvars

TraceNoDangling == ME!NoDangling
TraceUniqueKeys == ME!UniqueKeys
=============================================================================
