---------------------------- MODULE AnnotateRuns ----------------------------
(* C17, Martini translation, widened input space: strings built from SEGMENTS (a DSSP letter repeated n times, adjacent
   segments carry different letters).  The exhaustive tables of HelixRewrite stop at 14 symbols over {H, C} and 5 over
   the full alphabet; here a helical run of any length 1..9+ sits at the start, in the middle or at the end of the string,
   next to every other class, and ADJACENT SEGMENTS OF DIFFERENT HELIX LETTERS (H G I, and 1 2 3 of a second pass) must
   be rewritten as ONE maximal run.  Same operators, same invariants as HelixRewrite, plus three laws.            *)
EXTENDS HelixRewrite

CONSTANTS SegLens,   \* admissible segment lengths
          MaxSegs

NSegs(s) == Cardinality({i \in DOMAIN s : i = 1 \/ s[i] # s[i - 1]})

InitSeg == str = <<>> /\ out = <<>>
AddSeg(c, n) == /\ NSegs(str) < MaxSegs
                /\ (IF str = <<>> THEN TRUE ELSE str[Len(str)] # c)
                /\ str' = str \o Rep(c, n)
                /\ out' = ConvertRuns(str')
NextSeg == \E c \in Alphabet, n \in SegLens : AddSeg(c, n)
SpecSeg == InitSeg /\ [][NextSeg]_vars

AsH(s) == [i \in DOMAIN s |-> IF Table(s[i]) = "H" THEN "H" ELSE s[i]]
HelixLettersAreOneClass == ConvertRuns(AsH(str)) = out          \* which helix letter DSSP used does not matter
LongRunCaps ==           \* a maximal run of 8 or more: four starts, plain helix, four ends - wherever it lies in the string
  \A i \in DOMAIN str : IsH(str, i) =>
     LET a == RunStart(str, i)  b == RunEnd(str, i)
     IN (b - a + 1 >= 8) => out[i] = (IF i - a < 4 THEN "1" ELSE IF b - i < 4 THEN "2" ELSE "H")
ShortRunAmbivalent ==    \* runs of 1..4 are all "3"; 5..7 are starts, then 3s, then ends with floor((n-3)/2)... as documented
  \A i \in DOMAIN str : IsH(str, i) =>
     LET a == RunStart(str, i)  b == RunEnd(str, i)  n == b - a + 1  k == i - a + 1
     IN /\ (n <= 4 => out[i] = "3")
        /\ (n \in 5..7 => out[i] = (IF k <= n - 4 THEN "1" ELSE IF k > 4 THEN "2" ELSE "3"))
=============================================================================
