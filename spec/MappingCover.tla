---------------------------- MODULE MappingCover ----------------------------
(* Which modification mappings are used for a group of modification names: the operational form GCover (shaped like
   do_mapping.cover: first option that fits and after which the rest can be covered, options = known mappings with most
   names first) against the declarative one: an exact cover, and the first one in option order.
   Table model: every list of at most MaxMaps distinct name sets over Names and every set S of names to cover; the dumped
   table is replayed into the real cover().                                                                        *)
EXTENDS Mapping
CONSTANTS Names, MaxMaps
VARIABLES mps, S, res
vars == <<mps, S, res>>

RECURSIVE SetToSeq(_)
SetToSeq(T) == IF T = {} THEN <<>> ELSE LET x == CHOOSE y \in T : TRUE IN <<x>> \o SetToSeq(T \ {x})
NameSets == (SUBSET Names) \ {{}}
Lists == UNION {{q \in [1..n -> NameSets] : \A i, j \in 1..n : i # j => q[i] # q[j]} : n \in 0..MaxMaps}
AsMappings(q) == [i \in DOMAIN q |-> [type |-> "modification", names |-> SetToSeq(q[i])]]

Init == /\ mps \in {AsMappings(q) : q \in Lists}
        /\ S \in SUBSET Names
        /\ res = [done |-> FALSE, ok |-> FALSE, sel |-> {}]
Eval == /\ ~res.done
        /\ res' = [done |-> TRUE] @@ GCover(mps, GOptions(mps), S, 1)
        /\ UNCHANGED <<mps, S>>
Spec == Init /\ [][Eval]_vars

OptPos(i) == CHOOSE p \in DOMAIN GOptions(mps) : GOptions(mps)[p] = i
Covers == GExactCovers(mps, S)
\* options are all known modification mappings, longest names first, ties in the order in which they are known
OptionsOrdered == LET o == GOptions(mps) IN
  /\ SeqSet(o) = DOMAIN mps /\ Len(o) = Len(mps)
  /\ \A p, q \in DOMAIN o : p < q => \/ Len(mps[o[p]].names) > Len(mps[o[q]].names)
                                     \/ Len(mps[o[p]].names) = Len(mps[o[q]].names) /\ o[p] < o[q]
FoundIffCoverable == res.done => (res.ok <=> Covers # {})
FoundIsExactCover == res.done /\ res.ok => res.sel \in Covers
\* of two different exact covers the one that contains the earliest option in which they differ comes first
FoundIsFirst == res.done /\ res.ok =>
  \A c \in Covers : c # res.sel =>
     LET diff == {OptPos(i) : i \in (c \ res.sel) \cup (res.sel \ c)} IN MinOf(diff) \in {OptPos(i) : i \in res.sel}
=============================================================================
