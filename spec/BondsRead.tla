------------------------------ MODULE BondsRead ------------------------------
(* C10, reading front end (vermouth.pdb.read_pdb / PDBInput, vermouth.gmx.gro.read_gro / GROInput) as far as bond
   guessing depends on it: WHICH atoms reach MakeBonds, in WHICH input molecules, with WHICH pre-existing bonds.
   Column slicing of the text is C16's business: the harness cuts every line of the file it wrote itself into the
   abstract records below (own slicing, not vermouth's); the semantics of the records is specified here.

   f = [fmt     : "pdb" | "gro",
        recs    : Seq(record)      in file order
        model   : Int              -model (PDB)
        ignh    : BOOLEAN          -ignh
        exclude : Seq(STRING)]     -ignore <resname>
   record kinds (field k):
     "atom"   ATOM / HETATM / a GRO atom line: id, name, chars (the characters of name, one string each), altloc,
              resname, chain, resid, icode, x, y, z (integer pm), el (element column, "" = blank)
     "ter" | "endmdl" | "end"   close the current molecule
     "model"  nr
     "conect" ids : Seq(Int)    the first atom is bonded to each of the others

   What the documentation of the readers promises and what is specified here:
     * entries separated by TER, ENDMDL and END are separate molecules; a GRO file is one molecule;
     * of several MODELs only the requested one is read (atoms outside any MODEL block always);
     * only alternate location "" or "A" is read, one warning for every other atom;
     * residue names in `exclude` and, with ignh, hydrogens are skipped;
     * the element is the element column, or - when blank, and always for GRO - the first letter of the atom name;
     * a CONECT record bonds the atoms with those serial numbers, and molecules that a CONECT record links become
       one molecule; records naming atoms that were not read are ignored.
   Not specified (never judged): the order of the molecules, and how the atoms of two merged molecules interleave. *)
EXTENDS Integers, Sequences, FiniteSets, TLC

F(x) == TLCEval(x)
Letters == {"A","B","C","D","E","F","G","H","I","J","K","L","M","N","O","P","Q","R","S","T","U","V","W","X","Y","Z",
            "a","b","c","d","e","f","g","h","i","j","k","l","m","n","o","p","q","r","s","t","u","v","w","x","y","z"}
MaxOf(S) == CHOOSE x \in S : \A y \in S : y <= x
MinOf(S) == CHOOSE x \in S : \A y \in S : x <= y
Norm(i, j) == IF i < j THEN <<i, j>> ELSE <<j, i>>
Abs(x) == IF x < 0 THEN -x ELSE x

RECURSIVE FirstAlphaFrom(_, _)
FirstAlphaFrom(chars, k) == IF k > Len(chars) THEN "" ELSE IF chars[k] \in Letters THEN chars[k] ELSE FirstAlphaFrom(chars, k + 1)
ElementOf(f, r) == IF f.fmt = "pdb" /\ r.el # "" THEN r.el ELSE FirstAlphaFrom(r.chars, 1)

Recs(f, kind) == F({k \in DOMAIN f.recs : f.recs[k].k = kind})
Excluded(f, rn) == \E x \in DOMAIN f.exclude : f.exclude[x] = rn

\* the model an atom line belongs to is announced by the last MODEL record in front of it
InModel(f, Models, k) == LET P == {m \in Models : m < k} IN P = {} \/ f.recs[MaxOf(P)].nr = f.model
AltSkipped(r) == r.altloc # "" /\ r.altloc # "A"
Kept(f, Models, k) == LET r == f.recs[k] IN
                      /\ InModel(f, Models, k)
                      /\ ~AltSkipped(r)
                      /\ ~Excluded(f, r.resname)
                      /\ ~(f.ignh /\ ElementOf(f, r) = "H")

\* the result of reading: kept = atom records that are read; seg = number of closing records in front of each;
\* links = CONECT pairs (of record indices) among the atoms read; mols = kept atoms grouped into molecules
RECURSIVE Reach(_, _, _)
Reach(V, Fr, A) == IF Fr = {} THEN V
                   ELSE LET N == F({x[2] : x \in {y \in A : y[1] \in Fr}} \ V) IN Reach(F(V \cup N), N, A)
RECURSIVE CompsFrom(_, _, _)
CompsFrom(U, A, acc) == IF U = {} THEN acc
                        ELSE LET cc == Reach({MinOf(U)}, {MinOf(U)}, A) IN CompsFrom(F(U \ cc), A, acc \cup {cc})

Read(f) ==
  LET Models  == Recs(f, "model")
      Closers == IF f.fmt = "gro" THEN {} ELSE F(Recs(f, "ter") \cup Recs(f, "endmdl") \cup Recs(f, "end"))
      kept    == F({k \in Recs(f, "atom") : Kept(f, Models, k)})
      seg     == F([k \in kept |-> Cardinality({m \in Closers : m < k})])
      withid(id) == {k \in kept : f.recs[k].id = id}
      links   == F(UNION {LET ids == f.recs[c].ids IN
                          UNION {{Norm(a, b) : a \in withid(ids[1]), b \in withid(ids[x])} : x \in 2..Len(ids)}
                          : c \in Recs(f, "conect")})
      segs    == F({seg[k] : k \in kept})
      A       == F(UNION {{<<seg[p[1]], seg[p[2]]>>, <<seg[p[2]], seg[p[1]]>>} : p \in {q \in links : seg[q[1]] # seg[q[2]]}})
      CC      == CompsFrom(segs, A, {})
  IN [kept  |-> kept, seg |-> seg, links |-> links,
      mols  |-> F({F({k \in kept : seg[k] \in cc}) : cc \in CC}),
      nalt  |-> Cardinality({k \in Recs(f, "atom") : InModel(f, Models, k) /\ AltSkipped(f.recs[k])})]

\* inputs this specification does not cover are not generated: serial numbers of the atoms read are unique, a CONECT
\* record does not bond an atom to itself, alternate locations are not combined with excluded residues / hydrogens
WellFormedFile(f) ==
  LET Models == Recs(f, "model")
      kept   == {k \in Recs(f, "atom") : Kept(f, Models, k)}
      ids    == {f.recs[k].id : k \in kept}
  IN /\ f.fmt \in {"pdb", "gro"}
     /\ Cardinality(ids) = Cardinality(kept)
     /\ \A c \in Recs(f, "conect") : Len(f.recs[c].ids) >= 1 /\ \A x \in 2..Len(f.recs[c].ids) : f.recs[c].ids[x] # f.recs[c].ids[1]
     /\ \A k \in Recs(f, "atom") : AltSkipped(f.recs[k]) => ~Excluded(f, f.recs[k].resname) /\ ElementOf(f, f.recs[k]) # "H"
     /\ \A k \in Recs(f, "atom") : Abs(f.recs[k].x) <= 100000 /\ Abs(f.recs[k].y) <= 100000 /\ Abs(f.recs[k].z) <= 100000
     \* bonded atoms are not further apart than 20 nm in any direction (the squared distance must fit 32 bits)
     /\ \A c \in Recs(f, "conect") : \A x \in 2..Len(f.recs[c].ids) :
           \A a \in {k \in kept : f.recs[k].id = f.recs[c].ids[1]}, b \in {k \in kept : f.recs[k].id = f.recs[c].ids[x]} :
              /\ Abs(f.recs[a].x - f.recs[b].x) <= 20000 /\ Abs(f.recs[a].y - f.recs[b].y) <= 20000
              /\ Abs(f.recs[a].z - f.recs[b].z) <= 20000

(* got = what the real reader returned:
     mols  : Seq(Seq([rec, id, name, altloc, resname, chain, resid, icode, el, x, y, z]))   molecules, atoms in node order;
             rec = index of the record with that serial number among the atoms the SPEC reads (0 = none), found by the harness
     edges : Seq([a, b, d2])    a, b = rec numbers, d2 = recorded 'distance' squared in pm^2 (-1 = absent / not integral)
     nalt  : Int                warnings of type pdb-alternate
     err   : BOOLEAN            the reader raised (mols, edges empty then)                                                      *)
SameAtom(f, r, g) == /\ g.id = r.id /\ g.name = r.name /\ g.resname = r.resname /\ g.chain = (IF f.fmt = "gro" THEN "" ELSE r.chain)
                     /\ g.resid = r.resid /\ g.icode = (IF f.fmt = "gro" THEN "-" ELSE r.icode)
                     /\ g.el = ElementOf(f, r) /\ g.x = r.x /\ g.y = r.y /\ g.z = r.z
Sq(x) == x * x
\* R = Read(f), computed once by the caller
JudgeReadR(f, g, R) ==
  IF ~WellFormedFile(f) THEN "malformed-input"
  ELSE IF g.err THEN "read-exception"          \* the reader raised on a file this specification covers
  ELSE
  LET all  == F(UNION {{g.mols[m][k].rec : k \in DOMAIN g.mols[m]} : m \in DOMAIN g.mols})
      n    == LET RECURSIVE Sum(_) Sum(m) == IF m = 0 THEN 0 ELSE Len(g.mols[m]) + Sum(m - 1) IN Sum(Len(g.mols))
      GM   == F({F({g.mols[m][k].rec : k \in DOMAIN g.mols[m]}) : m \in DOMAIN g.mols})
      GE   == F({Norm(g.edges[e].a, g.edges[e].b) : e \in DOMAIN g.edges})
  IN IF n # Cardinality(R.kept) \/ all # R.kept
     THEN IF all \ R.kept # {} THEN "read-atom-that-should-be-skipped " \o ToString(MinOf(all \ R.kept))
          ELSE IF R.kept \ all # {} THEN "read-atom-missing " \o ToString(MinOf(R.kept \ all))
          ELSE "read-atom-duplicated"
     ELSE IF \E m \in DOMAIN g.mols : \E k \in DOMAIN g.mols[m] : ~SameAtom(f, f.recs[g.mols[m][k].rec], g.mols[m][k])
          THEN "read-atom-attributes-wrong"
     ELSE IF GM # R.mols THEN "read-molecules-wrong"
     \* atoms of one segment of the file keep their order inside the molecule they end up in
     ELSE IF \E m \in DOMAIN g.mols :
                LET rs == [k \in DOMAIN g.mols[m] |-> g.mols[m][k].rec] IN
                \E sg \in {R.seg[rs[k]] : k \in DOMAIN rs} :
                   LET sub == SelectSeq(rs, LAMBDA r : R.seg[r] = sg) IN \E k \in 1..(Len(sub) - 1) : sub[k] >= sub[k + 1]
          THEN "read-atom-order-wrong"
     ELSE IF GE # R.links
          THEN IF GE \ R.links # {} THEN "read-conect-bond-wrong " \o ToString(MinOf({p[1] : p \in GE \ R.links}))
               ELSE "read-conect-bond-missing"
     ELSE IF \E e \in DOMAIN g.edges :
                LET a == f.recs[g.edges[e].a]
                    b == f.recs[g.edges[e].b]
                IN g.edges[e].d2 # Sq(a.x - b.x) + Sq(a.y - b.y) + Sq(a.z - b.z)
          THEN "read-conect-distance-wrong"
     ELSE IF g.nalt # R.nalt THEN "read-altloc-warnings-wrong"
     ELSE "ok"
JudgeRead(f, g) == JudgeReadR(f, g, Read(f))
\* for the evidence: what this file exercises
ReadInfo(f, R) == [nrecs |-> Len(f.recs), natomrecs |-> Cardinality(Recs(f, "atom")), nkept |-> Cardinality(R.kept),
                   nsegs |-> Cardinality({R.seg[k] : k \in R.kept}), nlinks |-> Cardinality(R.links),
                   ncross |-> Cardinality({p \in R.links : R.seg[p[1]] # R.seg[p[2]]}),
                   nmols |-> Cardinality(R.mols), nalt |-> R.nalt, nmodels |-> Cardinality(Recs(f, "model"))]
=============================================================================
