------------------------------- MODULE GoModel -------------------------------
(* C18 - Go-model sites and contacts mirror the backbone and the contact map
   (vermouth.rcsu.go_pipeline.GoPipeline.run_system = MergeAllMolecules; VirtualSiteCreator; ComputeStructuralGoBias).

   Input g (the merged molecule as it enters site creation, the contact map, the options):
     atoms : Seq([key, chain, resid, old, resname, name, atype : strings/ints, pos : <<x,y,z>> pm, mass, charge : 10^-3])
             in node order; `resid` is the current numbering, `old` the numbering of the input file
     edges : Seq(<<i, j>>)       bonds, by index into atoms
     cmap  : Seq([ra, ca, rb, cb])   directed contacts: input resid + chain of both residues (no entry repeated)
     name, bb, vs : molecule name, backbone particle name, site particle name
     lo, up : cut-offs pm;  sep : minimum separation on the residue graph;  eps : depth in 10^-3 kJ/mol
   Residues are looked up by (chain, input resid); every residue has exactly one backbone particle.          *)
EXTENDS PairGraph, TLC

NAt(g)        == Len(g.atoms)
Backbone(g)   == {i \in 1..NAt(g) : g.atoms[i].name = g.bb}
\* context computed once per input: residue representative per particle, residue graph, backbone particle per residue
\* bbof[r] = 0 for a residue without backbone particle (only met with -go-backbone naming a side-chain bead; such a residue
\* has no site and cannot take part in a pair potential; contact entries never name one)
Ctx(g) == LET rep == RepTable(g.atoms)
              BB  == Backbone(g)
          IN [rep |-> rep, E |-> ResEdgesOf(rep, g.edges), R |-> Range(rep),
              bbof |-> [r \in Range(rep) |-> LET S == {i \in BB : rep[i] = r}
                                             IN IF S = {} THEN 0 ELSE CHOOSE i \in S : \A j \in S : i <= j]]

(* ------------------------------------ sites ------------------------------------ *)
SiteType(g, i) == g.name \o "_" \o ToString(g.atoms[i].resid)       \* type of the site of backbone particle i

(* ------------------------------- contact selection ----------------------------- *)
\* residue named by (chain, input resid): its representative, or 0 if the molecule has no such residue
Lookup(g, cx, chain, old) ==
  LET S == {r \in cx.R : g.atoms[r].chain = chain /\ g.atoms[r].old = old}
  IN IF S = {} THEN 0 ELSE CHOOSE r \in S : \A q \in S : r <= q
Listed(g, x, y) == \E k \in DOMAIN g.cmap :
                      g.cmap[k] = [ra |-> g.atoms[x].old, ca |-> g.atoms[x].chain, rb |-> g.atoms[y].old, cb |-> g.atoms[y].chain]
BBDist2(g, cx, x, y) == D2(g.atoms[cx.bbof[x]].pos, g.atoms[cx.bbof[y]].pos)

Crit == <<"sym", "sep", "lo", "up">>
Holds(g, cx, c, x, y) ==
  CASE c = 1 -> Listed(g, x, y) /\ Listed(g, y, x)
    [] c = 2 -> Far(cx.E, x, y, g.sep)
    [] c = 3 -> BBDist2(g, cx, x, y) > g.lo * g.lo
    [] c = 4 -> BBDist2(g, cx, x, y) < g.up * g.up
Failing(g, cx, x, y) == {c \in DOMAIN Crit : ~Holds(g, cx, c, x, y)}
ResPairs(cx) == {p \in cx.R \X cx.R : p[1] < p[2]}

(* declarative form, shaped like the statement: pairs of residues (as representatives, x < y) *)
ExpectedDecl(g) == LET cx == Ctx(g) IN {p \in ResPairs(cx) : Failing(g, cx, p[1], p[2]) = {}}

(* operational form, shaped like contact_selector: one pass over the contact list, a contact is kept when its
   mirror image passed all filters earlier in the list *)
RECURSIVE Scan(_, _, _, _, _)
Scan(g, cx, k, seen, sym) ==
  IF k > Len(g.cmap) THEN sym
  ELSE LET c == g.cmap[k]
           A == Lookup(g, cx, c.ca, c.ra)
           B == Lookup(g, cx, c.cb, c.rb)
       IN IF A = 0 \/ B = 0 THEN Scan(g, cx, k + 1, seen, sym)
          ELSE IF B \in Ball(cx.E, A, g.sep) THEN Scan(g, cx, k + 1, seen, sym)
          ELSE IF ~(g.up * g.up > BBDist2(g, cx, A, B) /\ BBDist2(g, cx, A, B) > g.lo * g.lo) THEN Scan(g, cx, k + 1, seen, sym)
          ELSE IF <<B, A>> \in seen THEN Scan(g, cx, k + 1, seen, sym \cup {<<Min2(A, B), Max2(A, B)>>})
          ELSE Scan(g, cx, k + 1, seen \cup {<<A, B>>}, sym)
ExpectedOp(g) == Scan(g, Ctx(g), 1, {}, {})

(* the same selection organised for large inputs (real proteins, maps of several hundred entries): only residue pairs the
   list names are looked at.  FastIsDecl (TAB model) checks it against the declarative form on every input of the model. *)
DirPairs(g, cx) ==
  {p \in {<<Lookup(g, cx, g.cmap[k].ca, g.cmap[k].ra), Lookup(g, cx, g.cmap[k].cb, g.cmap[k].rb)>> : k \in DOMAIN g.cmap}
     : p[1] # 0 /\ p[2] # 0}
SymOf(D) == {p \in D : p[1] < p[2] /\ <<p[2], p[1]>> \in D}
SymListed(g, cx) == SymOf(DirPairs(g, cx))
ExpectedFast(g) == LET cx == Ctx(g) IN {p \in SymListed(g, cx) : \A c \in 2..4 : Holds(g, cx, c, p[1], p[2])}

\* classification for the vacuity report, over residue pairs listed in at least one direction
Mentioned(g, cx) == {p \in ResPairs(cx) : Listed(g, p[1], p[2]) \/ Listed(g, p[2], p[1])}
ClassOf(g, cx, x, y) ==
  LET F == Failing(g, cx, x, y)
  IN IF F = {} THEN "pair" ELSE IF Cardinality(F) = 1 THEN Crit[CHOOSE c \in F : TRUE] ELSE "multi"
AbsentEntries(g, cx) == Cardinality({k \in DOMAIN g.cmap :
                           Lookup(g, cx, g.cmap[k].ca, g.cmap[k].ra) = 0 \/ Lookup(g, cx, g.cmap[k].cb, g.cmap[k].rb) = 0})

(* ---- TAB model: NR residues (one backbone particle each) on a line, every set of directed contacts ---- *)
CONSTANTS NR, Spacing, Seps, Windows, XLinks

VARIABLES inp, out
vars == <<inp, out>>
NotYet == {<<0, 0>>}

Directed == {p \in (1..NR) \X (1..NR) : p[1] # p[2]}
\* the contact list of a set of directed contacts, in lexicographic order
RECURSIVE ListOf(_)
ListOf(S) == IF S = {} THEN <<>>
             ELSE LET p == CHOOSE q \in S : \A r \in S : q[1] < r[1] \/ (q[1] = r[1] /\ q[2] <= r[2])
                  IN <<[ra |-> p[1], ca |-> "A", rb |-> p[2], cb |-> "A"]>> \o ListOf(S \ {p})
MkInput(S, sep, w, xl) ==
  [atoms |-> [i \in 1..NR |-> [key |-> i, chain |-> "A", resid |-> i, old |-> i, resname |-> "ALA", name |-> "BB",
                               atype |-> "P2", pos |-> <<(i - 1) * Spacing, 0, 0>>, mass |-> 72000, charge |-> 0]],
   edges |-> [i \in 1..(NR - 1) |-> <<i, i + 1>>] \o (IF xl THEN <<<<1, NR>>>> ELSE <<>>),
   cmap |-> ListOf(S), name |-> "mol", bb |-> "BB", vs |-> "CA",
   lo |-> w[1], up |-> w[2], sep |-> sep, eps |-> 9414]

Init == /\ inp \in {MkInput(S, sep, w, xl) : S \in SUBSET Directed, sep \in Seps, w \in Windows, xl \in XLinks}
        /\ out = NotYet
Eval == /\ out = NotYet
        /\ out' = ExpectedDecl(inp)
        /\ UNCHANGED inp
Spec == Init /\ [][Eval]_vars

Done == out # NotYet
Reverse(s) == [i \in DOMAIN s |-> s[Len(s) + 1 - i]]
OpIsDecl      == Done => ExpectedOp(inp) = out
FastIsDecl    == Done => ExpectedFast(inp) = out
OrderFree     == Done => ExpectedOp([inp EXCEPT !.cmap = Reverse(@)]) = out             \* any order of the list
BallIsWalk    == LET cx == Ctx(inp) IN
                 \A a \in cx.R, b \in cx.R : (b \in Ball(cx.E, a, inp.sep)) = WalkWithin(cx.R, cx.E, a, b, inp.sep)
OnlySymmetric == Done => \A p \in out : Listed(inp, p[1], p[2]) /\ Listed(inp, p[2], p[1])
MonoContacts  == Done => \A k \in DOMAIN inp.cmap :                                       \* fewer entries, fewer pairs
                   ExpectedDecl([inp EXCEPT !.cmap = SubSeq(@, 1, k - 1) \o SubSeq(@, k + 1, Len(@))]) \subseteq out
MonoSeparation == Done => ExpectedDecl([inp EXCEPT !.sep = @ + 1]) \subseteq out
=============================================================================
