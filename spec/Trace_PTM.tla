------------------------------ MODULE Trace_PTM ------------------------------
(* TLC as judge of recorded CanonicalizeModifications runs: one state per record of the batch, verdict = PTM!JudgeRun. *)
EXTENDS PTM, Json, IOUtils
Batch == JsonDeserialize(IOEnv.TRACE_FILE)
VARIABLES tid, verdict, note
vars == <<tid, verdict, note>>
Init == tid \in 1..Len(Batch) /\ verdict = "pending" /\ note = ""
Eval == verdict = "pending" /\ verdict' = JudgeRun(Batch[tid]) /\ note' = Note(Batch[tid]) /\ UNCHANGED tid
Spec == Init /\ [][Eval]_vars
=============================================================================
