------------------------------ MODULE DsspLines -----------------------------
(* The table kind -> concrete text of DsspFormat!Line, dumped once per run so that the driver writes exactly the
   characters TLC reasons about (the driver holds no copy of the lines).                                        *)
EXTENDS DsspFormat
VARIABLES kind, text
Init == kind \in AllKinds /\ text = Line(kind)
Spec == Init /\ [][UNCHANGED <<kind, text>>]_<<kind, text>>
=============================================================================
