------------------------------ MODULE MappingFile ------------------------------
(* The new-style `.mapping` format (vermouth.map_parser.MappingDirector / vermouth.map_input.read_mapping_file) as a
   state machine over abstract lines.  The machine state is ONE record `st`; `Step(st, line)` is the meaning of one more
   line, `Finish(st)` the meaning of the end of the file, `Lib(out)` the 3-level dictionary read_mapping_file returns.

   Abstract syntax (everything the harness renders to text, nothing the reader computes):
     Token  == [bang : BOOLEAN, name : STRING, num : Int, atom : STRING]      text:  [!]name[#num][:atom]
                (num = -1: no "#" part, atom = "": no ":" part)
     Attrs  == [resname : STRING, resid : Int, extra : SUBSET (STRING \X STRING)]   a JSON dict {"resname": .., "resid": ..,
                key: json-text ..}  ("-" / -1 : key absent)
     Line   == [h : STRING, toks : Seq(Token), hasjson : BOOLEAN, json : Attrs, w : Int]
                h # "" : the section header [ h ];  otherwise the tokens, then the JSON dict (if hasjson), then the
                integer w (if w >= 0) separated by blanks
   Force fields (data, exported by the harness from the real ForceField objects the files are loaded against):
     FF == name :> [blocks |-> name :> Blk, modifications |-> name :> Blk]
     Blk == [nrexcl, atoms : Seq([atomname, resname, resid, cg, extra]), edges : set of <<i, j>> positions in atoms]

   What a file declares (documented grammar: docstrings of MappingDirector, doc/source/file_formats.rst):
   * [ block ] / [ modification ] opens a mapping; everything up to the next header that is not one of its sub-sections
     belongs to it; the mapping is produced exactly once when it ends (next [ block ] / [ modification ] / [ macros ] /
     foreign header / end of file), in file order, with type = the opening header.
   * [ from ] / [ to ]: force-field names.
   * [ from blocks ] / [ to blocks ]: shorthand  <resname>[#<resid>] ...  (resid defaults to "previous on this line
     + 1") or longhand  <identifier> {attributes};  unless prefixed with "!", the block (modification) <resname> of
     the force field is fetched and appended (atoms renumbered after the last atom; resid and charge group offset by
     those of the last atom); the identifier names the attributes {resname, resid, ..} for later atom references;
     every from-identifier contributes a name.
   * [ from nodes ] / [ to nodes ]: [<identifier>:]<atomname> [{attributes}] adds one atom with the identifier's attributes.
   * [ from edges ] / [ to edges ]: two atom references; each must denote exactly one atom, and not the same.
   * [ mapping ]: <from atom> <to atom> [integer weight, default 1]; a pair written twice keeps the last weight (the
     shipped files repeat lines).   [ reference atoms ]: <to atom> <from atom>, the from atom among those mapped to it.
   * an atom reference without identifier uses the only identifier of that direction, else the last one used.
   * macros ($name) are substituted textually in every content line; they persist over mappings.
   * block_from only keeps mapped atoms.
   Errors: content under an unknown section or directly under [ block ], [ molecule ], undefined macro, unknown
   force field / block when fetching, undefined identifier, atom reference that does not denote exactly one atom,
   malformed line (wrong number of columns).
   outcome = "unspecified": the file is outside the documented grammar and the statement does not say what happens
   (identifier redefined, atoms added by hand before a fetched block, blocks of two
   force fields on one side, an unknown section without content, ...): such files are generated but not compared. *)
EXTENDS Integers, Sequences, FiniteSets, TLC, Json, IOUtils

CONSTANTS FF,          \* force-field library (see above)
          MacroRef,    \* token text that is a macro reference :> macro name, e.g. "$R" :> "R"
          Menu,        \* lines that may be appended one by one ...
          MaxExtra,    \* ... and how many of them
          Skeletons,   \* files the machine starts from ({<<>>}: plain enumeration of all line sequences)
          EditMenu,    \* lines that may be inserted into a skeleton
          NEdits,      \* 0, 1 or 2 edits of a skeleton (insert a line anywhere / delete a line / truncate)
          TraceFile    \* "" or a JSON file with abstracted shipped files

-----------------------------------------------------------------------------
NOJ == [resname |-> "-", resid |-> -1, extra |-> {}]
Hdr(h) == [h |-> h, toks |-> <<>>, hasjson |-> FALSE, json |-> NOJ, w |-> -1]
T(name) == [bang |-> FALSE, name |-> name, num |-> -1, atom |-> ""]
Ln(toks) == [h |-> "", toks |-> toks, hasjson |-> FALSE, json |-> NOJ, w |-> -1]

MapTypes == {"block", "modification"}
SubSections == {"from", "to", "from blocks", "to blocks", "from nodes", "to nodes", "from edges", "to edges",
                "mapping", "reference atoms"}
Known == {<<"macros">>, <<"molecule">>} \cup {<<t, s>> : t \in MapTypes, s \in SubSections}
Containers == {<<t>> : t \in MapTypes}
\* a section whose lines can only be errors; leaving it without a line is not covered by the statement
Dead(sec) == sec # <<>> /\ sec \notin Containers /\ (sec \notin Known \/ sec = <<"molecule">>)

RemoveAt(s, i) == [j \in 1..(Len(s) - 1) |-> IF j < i THEN s[j] ELSE s[j + 1]]
RECURSIVE Red(_, _)
Red(sec, ended) == IF sec \in Known \/ Len(sec) <= 1 THEN [sec |-> sec, ended |-> ended]
                   ELSE Red(RemoveAt(sec, Len(sec) - 1), Append(ended, sec[Len(sec) - 1]))
Range(s) == {s[i] : i \in DOMAIN s}

-----------------------------------------------------------------------------
(* the builder of the mapping being read *)
NOID == [resname |-> "?", resid |-> -2, extra |-> {}]
B0 == [ff |-> [from |-> "-", to |-> "-"],
       ids |-> {},                                  \* [dir, name, num, resname, resid, extra]
       curid |-> [from |-> NOID, to |-> NOID],
       nodes |-> [from |-> <<>>, to |-> <<>>],      \* Seq([key, atomname, resname, resid, cg, mods, extra])
       kind |-> [from |-> "empty", to |-> "empty"], \* "empty" | "fetched" | "manual"
       sideff |-> [from |-> "-", to |-> "-"],
       edges |-> [from |-> {}, to |-> {}],          \* sets of {key, key}
       w |-> {},                                    \* <<from key, to key, weight>>
       refs |-> {},                                 \* <<to key, from key>>
       names |-> <<>>]                              \* Seq([name, num])

S0 == [sec |-> <<>>, cur |-> B0, macros |-> {}, out |-> <<>>, outcome |-> "reading", n |-> 0]   \* n: lines read (diagnostics)

Err(s) == [s EXCEPT !.outcome = "error"]
Unspec(s) == [s EXCEPT !.outcome = "unspecified"]

Off(x) == IF x = -1 THEN 1 ELSE x
Keys(nodes) == {nodes[i].key : i \in DOMAIN nodes}

Emit(cur, type) ==
  LET mapped == {t[1] : t \in cur.w} IN
  [type |-> type, ffrom |-> cur.ff.from, fto |-> cur.ff.to, names |-> cur.names,
   bf |-> SelectSeq(cur.nodes.from, LAMBDA n : n.key \in mapped),
   ef |-> {e \in cur.edges.from : e \subseteq mapped},
   bt |-> cur.nodes.to, et |-> cur.edges.to, w |-> cur.w, refs |-> cur.refs]

\* a header: the stack rule, then the mapping that ended (if one did) is produced and the builder starts afresh
Header(s, h) ==
  LET r == Red(Append(s.sec, h), <<>>)
      fin == s.sec # <<>> /\ \E i \in DOMAIN r.ended : r.ended[i] \in MapTypes
  IN IF Dead(s.sec) THEN Unspec(s)
     ELSE [s EXCEPT !.sec = r.sec,
                    !.out = IF fin THEN Append(@, Emit(s.cur, s.sec[1])) ELSE @,
                    !.cur = IF fin THEN B0 ELSE @]

Finish(s) ==
  IF s.outcome # "reading" THEN s
  ELSE IF Dead(s.sec) THEN Unspec(s)
  ELSE [s EXCEPT !.outcome = "loaded", !.sec = <<>>, !.macros = {},
                 !.out = IF s.sec # <<>> /\ s.sec[1] \in MapTypes THEN Append(@, Emit(s.cur, s.sec[1])) ELSE @,
                 !.cur = B0]

-----------------------------------------------------------------------------
(* macros *)
MacroNames(m) == {p[1] : p \in m}
MacroVal(m, n) == (CHOOSE p \in m : p[1] = n)[2]
IsRef(x) == x \in DOMAIN MacroRef
Undefined(m, l) == \E i \in DOMAIN l.toks : \/ IsRef(l.toks[i].name) /\ MacroRef[l.toks[i].name] \notin MacroNames(m)
                                            \/ IsRef(l.toks[i].atom) /\ MacroRef[l.toks[i].atom] \notin MacroNames(m)
SubS(m, x) == IF IsRef(x) THEN MacroVal(m, MacroRef[x]) ELSE x
SubLine(m, l) == [l EXCEPT !.toks = [i \in DOMAIN l.toks |-> [l.toks[i] EXCEPT !.name = SubS(m, @), !.atom = SubS(m, @)]]]

NTok(l) == Len(l.toks) + (IF l.hasjson THEN 1 ELSE 0) + (IF l.w >= 0 THEN 1 ELSE 0)
Plain(t) == ~t.bang /\ t.num = -1 /\ t.atom = ""
\* an atom reference: identifier:atom or a bare atom name
AtomSpec(t) == ~t.bang /\ (t.atom # "" \/ t.num = -1)

-----------------------------------------------------------------------------
(* atom references *)
Resolve(cur, dir, t) ==
  LET opts == {i \in cur.ids : i.dir = dir}
      hasid == t.atom # ""
      given == IF hasid THEN {i \in opts : i.name = t.name /\ i.num = t.num}
               ELSE IF Cardinality(opts) = 1 THEN opts ELSE {}
      aname == IF hasid THEN t.atom ELSE t.name
      pick(i) == [resname |-> i.resname, resid |-> i.resid, extra |-> i.extra]
  IN IF given # {}
     THEN LET a == pick(CHOOSE i \in given : TRUE) IN [err |-> FALSE, attrs |-> a, atomname |-> aname, cur |-> [cur EXCEPT !.curid[dir] = a]]
     ELSE IF hasid \/ cur.curid[dir] = NOID THEN [err |-> TRUE, attrs |-> NOID, atomname |-> aname, cur |-> cur]
     ELSE [err |-> FALSE, attrs |-> cur.curid[dir], atomname |-> aname, cur |-> cur]

Match(n, attrs, aname) == /\ n.atomname = aname
                          /\ attrs.resname # "-" => n.resname = attrs.resname
                          /\ attrs.resid # -1 => n.resid = attrs.resid
                          /\ attrs.extra \subseteq n.extra
Find(cur, dir, r) == {cur.nodes[dir][i].key : i \in {j \in DOMAIN cur.nodes[dir] : Match(cur.nodes[dir][j], r.attrs, r.atomname)}}
The(S) == CHOOSE x \in S : TRUE

-----------------------------------------------------------------------------
(* [ from ] / [ to ] *)
FFLine(s, dir, l) ==
  IF NTok(l) = 1 /\ Len(l.toks) = 1 /\ Plain(l.toks[1]) THEN [s EXCEPT !.cur.ff[dir] = l.toks[1].name]
  ELSE Unspec(s)

(* [ from blocks ] / [ to blocks ] *)
UpdExtra(base, new) == {p \in base : ~\E q \in new : q[1] = p[1]} \cup new

\* one block entry: identifier <<idname, idnum>>, attributes a, fetched or not
BlockItem(s, dir, type, idname, idnum, a, fetch) ==
  LET cur == s.cur
      ffname == cur.ff[dir]
      libname == IF type = "block" THEN "blocks" ELSE "modifications"
      known == ffname \in DOMAIN FF /\ a.resname \in DOMAIN FF[ffname][libname]
      blk == FF[ffname][libname][a.resname]
      side == cur.nodes[dir]
      last == side[Len(side)]
      base == IF side = <<>> THEN 0 ELSE last.key + 1
      roff == IF side = <<>> THEN 0 ELSE Off(last.resid)
      coff == IF side = <<>> THEN 0 ELSE Off(last.cg)
      newnodes == [i \in 1..Len(blk.atoms) |->
                     [key |-> base + i - 1, atomname |-> blk.atoms[i].atomname, resname |-> blk.atoms[i].resname,
                      resid |-> Off(blk.atoms[i].resid) + roff, cg |-> Off(blk.atoms[i].cg) + coff,
                      mods |-> IF type = "modification" THEN <<a.resname>> ELSE <<>>, extra |-> blk.atoms[i].extra]]
      newedges == {{base + e[1] - 1, base + e[2] - 1} : e \in {x \in blk.edges : x[1] # x[2]}}
      c1 == IF fetch THEN [cur EXCEPT !.nodes[dir] = side \o newnodes, !.edges[dir] = @ \cup newedges,
                                      !.kind[dir] = "fetched", !.sideff[dir] = ffname]
            ELSE cur
      nm == IF a.resname # "-" THEN [name |-> a.resname, num |-> -1] ELSE [name |-> idname, num |-> idnum]
      c2 == IF dir = "from" THEN [c1 EXCEPT !.names = Append(@, nm)] ELSE c1
      stored == [dir |-> dir, name |-> idname, num |-> idnum,
                 resname |-> IF type = "modification" THEN "-" ELSE a.resname, resid |-> a.resid, extra |-> a.extra]
  IN IF fetch /\ ~known THEN Err(s)
     ELSE IF fetch /\ (cur.kind[dir] = "manual" \/ (cur.kind[dir] = "fetched" /\ cur.sideff[dir] # ffname)) THEN Unspec(s)
     ELSE IF \E i \in cur.ids : i.dir = dir /\ i.name = idname /\ i.num = idnum THEN Unspec(s)
     ELSE [s EXCEPT !.cur = [c2 EXCEPT !.ids = @ \cup {stored}]]

RECURSIVE Shorthand(_, _, _, _, _, _)
Shorthand(s, dir, type, toks, k, resid) ==
  IF k > Len(toks) \/ s.outcome # "reading" THEN s
  ELSE LET t == toks[k]
           r == IF t.num >= 0 THEN t.num ELSE resid + 1
       IN Shorthand(BlockItem(s, dir, type, t.name, t.num, [resname |-> t.name, resid |-> r, extra |-> {}], ~t.bang),
                    dir, type, toks, k + 1, r)

BlocksLine(s, dir, type, l) ==
  IF \E i \in DOMAIN l.toks : l.toks[i].atom # "" THEN Unspec(s)
  ELSE IF l.hasjson /\ l.w >= 0 THEN Unspec(s)
  ELSE IF l.hasjson /\ Len(l.toks) = 1
       THEN BlockItem(s, dir, type, l.toks[1].name, l.toks[1].num, l.json, ~l.toks[1].bang /\ l.json.resname # "-")
  ELSE IF l.hasjson \/ l.w >= 0 THEN Err(s)              \* the JSON dict / the number is read as one more block name
  ELSE Shorthand(s, dir, type, l.toks, 1, 0)

(* [ from nodes ] / [ to nodes ] *)
NodesLine(s, dir, l) ==
  IF Len(l.toks) = 0 THEN Unspec(s)
  ELSE IF ~AtomSpec(l.toks[1]) THEN Unspec(s)
  ELSE LET r == Resolve(s.cur, dir, l.toks[1])
           side == r.cur.nodes[dir]
           key == IF side = <<>> THEN 0 ELSE side[Len(side)].key + 1
           n == [key |-> key, atomname |-> r.atomname,
                 resname |-> IF l.json.resname # "-" THEN l.json.resname ELSE r.attrs.resname,
                 resid |-> IF l.json.resid # -1 THEN l.json.resid ELSE r.attrs.resid,
                 cg |-> -1, mods |-> <<>>, extra |-> UpdExtra(r.attrs.extra, l.json.extra)]
       IN IF r.err \/ Len(l.toks) > 1 \/ l.w >= 0 THEN Err(s)
          ELSE [s EXCEPT !.cur = [r.cur EXCEPT !.nodes[dir] = Append(side, n),
                                               !.kind[dir] = IF @ = "empty" THEN "manual" ELSE @]]

(* [ from edges ] / [ to edges ] *)
EdgesLine(s, dir, l) ==
  IF Len(l.toks) < 2 THEN (IF l.hasjson \/ l.w >= 0 THEN Unspec(s) ELSE Err(s))
  ELSE IF ~AtomSpec(l.toks[1]) \/ ~AtomSpec(l.toks[2]) THEN Unspec(s)
  ELSE IF Len(l.toks) > 2 \/ l.w >= 0 THEN Err(s)
  ELSE IF l.hasjson THEN Unspec(s)                        \* edge attributes are not modelled
  ELSE LET r1 == Resolve(s.cur, dir, l.toks[1])
           r2 == Resolve(r1.cur, dir, l.toks[2])
           n1 == Find(r2.cur, dir, r1)
           n2 == Find(r2.cur, dir, r2)
       IN IF r1.err \/ r2.err THEN Err(s)
          ELSE IF Cardinality(n1) # 1 \/ Cardinality(n2) # 1 \/ n1 = n2 THEN Err(s)
          ELSE [s EXCEPT !.cur = [r2.cur EXCEPT !.edges[dir] = @ \cup {n1 \cup n2}]]

(* [ mapping ] *)
MappingLine(s, l) ==
  IF l.hasjson THEN Unspec(s)
  ELSE IF Len(l.toks) < 2 THEN (IF l.w >= 0 THEN Unspec(s) ELSE Err(s))
  ELSE IF ~AtomSpec(l.toks[1]) \/ ~AtomSpec(l.toks[2]) THEN Unspec(s)
  ELSE IF Len(l.toks) > 2 THEN (IF Len(l.toks) = 3 /\ l.w < 0 THEN Err(s) ELSE Unspec(s))   \* third column is not a number
  ELSE LET rf == Resolve(s.cur, "from", l.toks[1])
           rt == Resolve(rf.cur, "to", l.toks[2])
           nf == Find(rt.cur, "from", rf)
           nt == Find(rt.cur, "to", rt)
           weight == IF l.w >= 0 THEN l.w ELSE 1
       IN IF rf.err \/ rt.err THEN Err(s)
          ELSE IF Cardinality(nf) # 1 \/ Cardinality(nt) # 1 THEN Err(s)
          ELSE [s EXCEPT !.cur = [rt.cur EXCEPT !.w = {t \in @ : ~(t[1] = The(nf) /\ t[2] = The(nt))}      \* written twice: the last weight stands
                                                       \cup {<<The(nf), The(nt), weight>>}]]

(* [ reference atoms ] *)
ReferenceLine(s, l) ==
  IF l.hasjson THEN Unspec(s)
  ELSE IF NTok(l) # 2 THEN Err(s)
  ELSE IF ~AtomSpec(l.toks[1]) \/ ~AtomSpec(l.toks[2]) THEN Unspec(s)
  ELSE LET rt == Resolve(s.cur, "to", l.toks[1])
           rf == Resolve(rt.cur, "from", l.toks[2])
           nt == Find(rf.cur, "to", rt)
           nf0 == Find(rf.cur, "from", rf)
           nf == {f \in nf0 : \E t \in s.cur.w : t[1] = f /\ t[2] \in nt}
       IN IF rt.err \/ rf.err THEN Err(s)
          ELSE IF Cardinality(nt) # 1 \/ Cardinality(nf) # 1 THEN Err(s)
          ELSE [s EXCEPT !.cur = [rf.cur EXCEPT !.refs = {p \in @ : p[1] # The(nt)} \cup {<<The(nt), The(nf)>>}]]

(* [ macros ] *)
MacroLine(s, l) ==
  IF NTok(l) # 2 THEN Err(s)
  ELSE IF Len(l.toks) # 2 \/ ~Plain(l.toks[1]) \/ ~Plain(l.toks[2]) THEN Unspec(s)
  ELSE [s EXCEPT !.macros = {p \in @ : p[1] # l.toks[1].name} \cup {<<l.toks[1].name, l.toks[2].name>>}]

Content(s, l0) ==
  IF Undefined(s.macros, l0) THEN Err(s)
  ELSE LET l == SubLine(s.macros, l0) IN
       IF s.sec = <<"macros">> THEN MacroLine(s, l)
       ELSE IF s.sec \notin Known \/ s.sec = <<"molecule">> THEN Err(s)
       ELSE LET type == s.sec[1]
                sub == s.sec[2]
            IN CASE sub = "from" -> FFLine(s, "from", l)
                 [] sub = "to" -> FFLine(s, "to", l)
                 [] sub = "from blocks" -> BlocksLine(s, "from", type, l)
                 [] sub = "to blocks" -> BlocksLine(s, "to", type, l)
                 [] sub = "from nodes" -> NodesLine(s, "from", l)
                 [] sub = "to nodes" -> NodesLine(s, "to", l)
                 [] sub = "from edges" -> EdgesLine(s, "from", l)
                 [] sub = "to edges" -> EdgesLine(s, "to", l)
                 [] sub = "mapping" -> MappingLine(s, l)
                 [] sub = "reference atoms" -> ReferenceLine(s, l)

Step(s0, l) == IF s0.outcome # "reading" THEN s0
               ELSE LET s == [s0 EXCEPT !.n = @ + 1] IN IF l.h # "" THEN Header(s, l.h) ELSE Content(s, l)

RECURSIVE FoldFrom(_, _, _)
FoldFrom(s, f, k) == IF k > Len(f) THEN s ELSE FoldFrom(Step(s, f[k]), f, k + 1)
Fold(f) == FoldFrom(S0, f, 1)
Load(f) == Finish(Fold(f))

-----------------------------------------------------------------------------
(* read_mapping_file: {ff_from: {ff_to: {names: mapping}}} - first insertion fixes the position, the last value wins;
   given as the sequence of [ffrom, fto, names, idx] in iteration order (idx = position in `out`) *)
KeyOf(m) == <<m.ffrom, m.fto, m.names>>
First(out, P(_)) == CHOOSE i \in DOMAIN out : P(out[i]) /\ \A j \in 1..(i - 1) : ~P(out[j])
Lib(out) ==
  LET lastOf == {i \in DOMAIN out : \A j \in (i + 1)..Len(out) : KeyOf(out[j]) # KeyOf(out[i])}
      rank(i) == <<First(out, LAMBDA m : m.ffrom = out[i].ffrom),
                   First(out, LAMBDA m : m.ffrom = out[i].ffrom /\ m.fto = out[i].fto),
                   First(out, LAMBDA m : KeyOf(m) = KeyOf(out[i]))>>
      less(a, b) == LET x == rank(a) y == rank(b) IN
                    x[1] < y[1] \/ (x[1] = y[1] /\ (x[2] < y[2] \/ (x[2] = y[2] /\ x[3] < y[3])))
      idxs == SortSeq(SelectSeq([i \in DOMAIN out |-> i], LAMBDA i : i \in lastOf), less)
  IN [k \in DOMAIN idxs |-> [ffrom |-> out[idxs[k]].ffrom, fto |-> out[idxs[k]].fto, names |-> out[idxs[k]].names, idx |-> idxs[k]]]

-----------------------------------------------------------------------------
(* files derived from well-formed skeletons by small edits; an edit is a small tuple, so that TLC never has to
   normalise a set of thousands of long files *)
InsertAt(f, i, l) == SubSeq(f, 1, i) \o <<l>> \o SubSeq(f, i + 1, Len(f))
DeleteAt(f, i) == SubSeq(f, 1, i - 1) \o SubSeq(f, i + 1, Len(f))
NOEDIT == <<"none", 0, Hdr("")>>
EditSpecs(f) == {NOEDIT} \cup {<<"ins", i, l>> : i \in 0..Len(f), l \in EditMenu}
                \cup {<<"del", i, Hdr("")>> : i \in 1..Len(f)} \cup {<<"cut", i, Hdr("")>> : i \in 0..Len(f)}
ApplyEdit(f, e) == CASE e[1] = "none" -> f
                     [] e[1] = "ins" -> InsertAt(f, e[2], e[3])
                     [] e[1] = "del" -> DeleteAt(f, e[2])
                     [] e[1] = "cut" -> SubSeq(f, 1, e[2])

\* shipped files abstracted by the harness' independent line classifier (JSON: no sets, no JSON attributes in use)
Batch == IF TraceFile = "" THEN <<>> ELSE JsonDeserialize(TraceFile)
LineOfJson(j) == [h |-> j.h, toks |-> j.toks, hasjson |-> FALSE, json |-> NOJ, w |-> j.w]
BatchFiles == {[i \in DOMAIN Batch[k] |-> LineOfJson(Batch[k][i])] : k \in DOMAIN Batch}

-----------------------------------------------------------------------------
VARIABLES file, st, extra, lib, phase
vars == <<file, st, extra, lib, phase>>

\* a start file is read in one step (so that TLC's workers share the start files), then lines may be appended one by one
Init == /\ \/ \E f \in Skeletons : \E e1 \in (IF NEdits >= 1 THEN EditSpecs(f) ELSE {NOEDIT}) :
                \E e2 \in (IF NEdits >= 2 THEN EditSpecs(ApplyEdit(f, e1)) ELSE {NOEDIT}) : file = ApplyEdit(ApplyEdit(f, e1), e2)
           \/ file \in BatchFiles
        /\ st = S0 /\ extra = 0 /\ lib = <<>> /\ phase = "start"
Begin == /\ phase = "start"
         /\ st' = Fold(file) /\ phase' = "lines" /\ UNCHANGED <<file, extra, lib>>
Read(l) == /\ phase = "lines" /\ st.outcome = "reading" /\ extra < MaxExtra
           /\ file' = Append(file, l) /\ st' = Step(st, l) /\ extra' = extra + 1 /\ UNCHANGED <<lib, phase>>
EOF == /\ phase = "lines" /\ st.outcome = "reading"
       /\ st' = Finish(st) /\ lib' = (IF st'.outcome = "loaded" THEN Lib(st'.out) ELSE <<>>)
       /\ UNCHANGED <<file, extra, phase>>
Next == Begin \/ (\E l \in Menu : Read(l)) \/ EOF
Spec == Init /\ [][Next]_vars

-----------------------------------------------------------------------------
(* what the file declares, read off the file as a whole *)
OpenerPos(f) == SelectSeq([i \in DOMAIN f |-> i], LAMBDA i : f[i].h \in MapTypes)
\* every [ block ] / [ modification ] header yields exactly one mapping, in file order, of that type
ExactlyOnceInOrder ==
  st.outcome = "loaded" => /\ Len(st.out) = Len(OpenerPos(file))
                           /\ \A k \in DOMAIN st.out : st.out[k].type = file[OpenerPos(file)[k]].h
\* the shorthand block names written under [ from blocks ] of the k-th mapping are its names
SegEnd(f, k) == IF k < Len(OpenerPos(f)) THEN OpenerPos(f)[k + 1] - 1 ELSE Len(f)
SecAt(f, i) == LET hs == {j \in 1..i : f[j].h # ""} IN IF hs = {} THEN "" ELSE f[CHOOSE j \in hs : \A x \in hs : x <= j].h
FromBlockLines(f, k) == SelectSeq([i \in DOMAIN f |-> i],
                                  LAMBDA i : i > OpenerPos(f)[k] /\ i <= SegEnd(f, k) /\ f[i].h = "" /\ SecAt(f, i) = "from blocks")
RECURSIVE EntryCount(_, _, _)
EntryCount(f, ls, q) == IF q > Len(ls) THEN 0 ELSE (IF f[ls[q]].hasjson THEN 1 ELSE Len(f[ls[q]].toks)) + EntryCount(f, ls, q + 1)
EntryNames(f, ls) == UNION {IF f[ls[q]].hasjson
                            THEN {IF f[ls[q]].json.resname # "-" THEN f[ls[q]].json.resname ELSE f[ls[q]].toks[1].name}
                            ELSE {f[ls[q]].toks[j].name : j \in DOMAIN f[ls[q]].toks} : q \in DOMAIN ls}
NamesAsDeclared ==
  st.outcome = "loaded" =>
    \A k \in DOMAIN st.out :
      LET ls == FromBlockLines(file, k) IN
      /\ Len(st.out[k].names) = EntryCount(file, ls, 1)
      /\ (\A x \in EntryNames(file, ls) : ~IsRef(x)) => {st.out[k].names[j].name : j \in DOMAIN st.out[k].names} = EntryNames(file, ls)
MappedOnly == st.outcome = "loaded" => \A k \in DOMAIN st.out : Keys(st.out[k].bf) = {t[1] : t \in st.out[k].w}
NoDanglingEdges == st.outcome = "loaded" => \A k \in DOMAIN st.out :
                     /\ \A e \in st.out[k].ef : e \subseteq Keys(st.out[k].bf)
                     /\ \A e \in st.out[k].et : e \subseteq Keys(st.out[k].bt)
KeysDistinct == st.outcome = "loaded" => \A k \in DOMAIN st.out :
                  /\ Cardinality(Keys(st.out[k].bf)) = Len(st.out[k].bf)
                  /\ Cardinality(Keys(st.out[k].bt)) = Len(st.out[k].bt)
WeightsPointToAtoms == st.outcome = "loaded" => \A k \in DOMAIN st.out : \A t \in st.out[k].w : t[2] \in Keys(st.out[k].bt)
ReferencesAreMappedPairs == st.outcome = "loaded" => \A k \in DOMAIN st.out : \A p \in st.out[k].refs :
                              \E t \in st.out[k].w : t[1] = p[2] /\ t[2] = p[1]
LibHoldsLastOfEachKey ==
  st.outcome = "loaded" => /\ \A k \in DOMAIN lib : KeyOf(st.out[lib[k].idx]) = <<lib[k].ffrom, lib[k].fto, lib[k].names>>
                           /\ \A i \in DOMAIN st.out : \E k \in DOMAIN lib : <<lib[k].ffrom, lib[k].fto, lib[k].names>> = KeyOf(st.out[i]) /\ lib[k].idx >= i
                           /\ \A k1, k2 \in DOMAIN lib : k1 # k2 => <<lib[k1].ffrom, lib[k1].fto, lib[k1].names>> # <<lib[k2].ffrom, lib[k2].fto, lib[k2].names>>
=============================================================================
