------------------------------- MODULE Mapping -------------------------------
(* Resolution transformation (vermouth.processors.do_mapping) and particle placement (average_beads).
   M   == [nodes : Seq([id, resid, resname, atomname, element]), edges : Seq(<<a, b>>)]
   mp  == [from : [nodes : Seq([key, resid, resname, atomname]), edges : Seq(<<k1, k2>>)],
           to   : [nodes : Seq([key, resid, atomname]), edges : Seq(<<k1, k2>>), inters : Seq([type, atoms, params])],
           w    : Seq(<<fromkey, tokey, weight>>)]
   A placement of mp is an induced embedding of mp.from into M that matches residue and atom names and, on every bond,
   the "same residue" relation.  Placements are applied in the order of their lowest atom key; each appends one copy
   of mp.to (fresh keys after the highest key, residue numbers shifted by that of the last particle).           *)
EXTENDS Integers, Sequences, FiniteSets, TLC

SeqSet(s) == {s[i] : i \in DOMAIN s}
RangeOf(f) == {f[x] : x \in DOMAIN f}
Ids(M) == {M.nodes[i].id : i \in DOMAIN M.nodes}
NodeOf(M, n) == M.nodes[CHOOSE i \in DOMAIN M.nodes : M.nodes[i].id = n]
MAdj(M, a, b) == \E i \in DOMAIN M.edges : (M.edges[i][1] = a /\ M.edges[i][2] = b) \/ (M.edges[i][1] = b /\ M.edges[i][2] = a)
FNode(mp, k) == mp.from.nodes[CHOOSE i \in DOMAIN mp.from.nodes : mp.from.nodes[i].key = k]
FAdj(mp, a, b) == \E i \in DOMAIN mp.from.edges : (mp.from.edges[i][1] = a /\ mp.from.edges[i][2] = b) \/ (mp.from.edges[i][1] = b /\ mp.from.edges[i][2] = a)

NodeFits(mp, M, f, k, n) ==
  /\ n \notin RangeOf(f)
  /\ NodeOf(M, n).resname = FNode(mp, k).resname /\ NodeOf(M, n).atomname = FNode(mp, k).atomname
  /\ \A p \in DOMAIN f :
        /\ FAdj(mp, p, k) = MAdj(M, f[p], n)
        /\ FAdj(mp, p, k) => ((FNode(mp, p).resid = FNode(mp, k).resid) = (NodeOf(M, f[p]).resid = NodeOf(M, n).resid))

RECURSIVE Extend(_, _, _, _)
Extend(mp, M, f, todo) ==
  IF todo = <<>> THEN {f}
  ELSE UNION {Extend(mp, M, (Head(todo) :> n) @@ f, Tail(todo)) : n \in {x \in Ids(M) : NodeFits(mp, M, f, Head(todo), x)}}
EmptyMap == [x \in {} |-> 0]
Placements(mp, M) == Extend(mp, M, EmptyMap, [i \in DOMAIN mp.from.nodes |-> mp.from.nodes[i].key])

MinOf(S) == CHOOSE x \in S : \A y \in S : x <= y
MaxOf(S) == CHOOSE x \in S : \A y \in S : y <= x

\* all placements of all mappings as records [m : mapping index, f], ordered by lowest atom key
AllPlacements(mps, M) == UNION {{[m |-> i, f |-> g] : g \in Placements(mps[i], M)} : i \in DOMAIN mps}
RECURSIVE OrderByMin(_)
OrderByMin(S) == IF S = {} THEN <<>>
                 ELSE LET lo == MinOf({MinOf(RangeOf(p.f)) : p \in S})
                          first == CHOOSE p \in S : MinOf(RangeOf(p.f)) = lo
                      IN <<first>> \o OrderByMin(S \ {first})
\* the order is only determined when no two placements share their lowest atom
OrderDetermined(S) == \A p, q \in S : p # q => MinOf(RangeOf(p.f)) # MinOf(RangeOf(q.f))

\* out == [parts : Seq([key, resid, atomname, cons : Seq(<<atom, w>>), n2o : BOOLEAN, pl : placement number]),
\*         edges : set of <<a, b>> (a < b), inters : Seq([type, atoms, params])]
Norm(a, b) == IF a < b THEN <<a, b>> ELSE <<b, a>>
ToKeyIdx(mp, k) == CHOOSE i \in DOMAIN mp.to.nodes : mp.to.nodes[i].key = k

ApplyBlock(out, mp, f, plno) ==
  LET base == IF out.parts = <<>> THEN 0 ELSE MaxOf({out.parts[i].key : i \in DOMAIN out.parts})
      dres == IF out.parts = <<>> THEN 0 ELSE (out.parts[CHOOSE i \in DOMAIN out.parts : out.parts[i].key = base]).resid
      newkey(k) == base + ToKeyIdx(mp, k)
      wOf(tk) == SelectSeq(mp.w, LAMBDA t : t[2] = tk)
      atoms == [i \in DOMAIN mp.from.nodes |-> f[mp.from.nodes[i].key]]
      part(i) == LET tn == mp.to.nodes[i]  ws == wOf(tn.key) IN
                 [key |-> base + i, resid |-> tn.resid + dres, atomname |-> tn.atomname, pl |-> plno, n2o |-> ws = <<>>,
                  cons |-> IF ws = <<>> THEN [j \in DOMAIN atoms |-> <<atoms[j], 0>>]          \* built from no atom: the whole placement, weight 0
                           ELSE [j \in DOMAIN ws |-> <<f[ws[j][1]], ws[j][3]>>]]
  IN [parts |-> out.parts \o [i \in DOMAIN mp.to.nodes |-> part(i)],
      edges |-> out.edges \cup {Norm(newkey(mp.to.edges[i][1]), newkey(mp.to.edges[i][2])) : i \in DOMAIN mp.to.edges},
      inters |-> out.inters \o [i \in DOMAIN mp.to.inters |->
                   [type |-> mp.to.inters[i].type, params |-> mp.to.inters[i].params,
                    atoms |-> [j \in DOMAIN mp.to.inters[i].atoms |-> newkey(mp.to.inters[i].atoms[j])]]]]

RECURSIVE ApplyAll(_, _, _, _)
ApplyAll(out, mps, order, i) ==
  IF i > Len(order) THEN out ELSE ApplyAll(ApplyBlock(out, mps[order[i].m], order[i].f, i), mps, order, i + 1)

\* particles an atom contributes to (with any weight), none-to-one particles excepted
OutsOf(out, a) == {out.parts[i].key : i \in {j \in DOMAIN out.parts : ~out.parts[j].n2o /\ \E c \in DOMAIN out.parts[j].cons : out.parts[j].cons[c][1] = a}}
InterEdges(out, M, order) ==
  UNION {UNION {{Norm(pa, pb) : <<pa, pb>> \in {q \in OutsOf(out, a) \X OutsOf(out, b) : q[1] # q[2]}}
                 : <<a, b>> \in {e \in RangeOf(order[i].f) \X RangeOf(order[j].f) : MAdj(M, e[1], e[2])}}
         : <<i, j>> \in {p \in (DOMAIN order) \X (DOMAIN order) : p[1] < p[2]}}

Expected(mps, M) ==
  LET order == OrderByMin(AllPlacements(mps, M))
      o1 == ApplyAll([parts |-> <<>>, edges |-> {}, inters |-> <<>>], mps, order, 1)
  IN [o1 EXCEPT !.edges = @ \cup InterEdges(o1, M, order)]

Covered(mps, M) == UNION {RangeOf(p.f) : p \in AllPlacements(mps, M)}
UnmappedHeavy(mps, M) == {n \in Ids(M) : n \notin Covered(mps, M) /\ NodeOf(M, n).element # "H"}
Overlapping(mps, M) == \E p, q \in AllPlacements(mps, M) : p # q /\ RangeOf(p.f) \cap RangeOf(q.f) # {}

(* ---- average_beads: exact weighted mean over the positioned constituents ---- *)
\* cons : Seq([w, cw, has : BOOLEAN, x, y, z])  -> [den, nx, ny, nz]
RECURSIVE MeanFrom(_, _)
MeanFrom(cons, i) ==
  IF i > Len(cons) THEN [den |-> 0, nx |-> 0, ny |-> 0, nz |-> 0]
  ELSE LET r == MeanFrom(cons, i + 1)  c == cons[i] IN
       IF c.has THEN [den |-> r.den + c.w * c.cw, nx |-> r.nx + c.w * c.cw * c.x, ny |-> r.ny + c.w * c.cw * c.y, nz |-> r.nz + c.w * c.cw * c.z]
       ELSE r                                   \* constituents without coordinates never contribute
Mean(cons) == MeanFrom(cons, 1)
=============================================================================
