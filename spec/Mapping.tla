------------------------------- MODULE Mapping -------------------------------
(* Resolution transformation (vermouth.processors.do_mapping) and particle placement (average_beads).
   M   == [nodes : Seq([id, resid, resname, atomname, element]), edges : Seq(<<a, b>>)]
   mp  == [from : [nodes : Seq([key, resid, resname, atomname]), edges : Seq(<<k1, k2>>)],
           to   : [nodes : Seq([key, resid, atomname]), edges : Seq(<<k1, k2>>), inters : Seq([type, atoms, params])],
           w    : Seq(<<fromkey, tokey, weight>>)]
   A placement of mp is an induced embedding of mp.from into M that matches residue and atom names and, on every bond,
   the "same residue" relation.  Placements are applied in the order of their lowest atom key; each appends one copy
   of mp.to (fresh keys after the highest key, residue numbers shifted by that of the last particle).           *)
EXTENDS Integers, Sequences, FiniteSets, TLC

SeqSet(s) == {s[i] : i \in DOMAIN s}
RangeOf(f) == {f[x] : x \in DOMAIN f}
Ids(M) == {M.nodes[i].id : i \in DOMAIN M.nodes}
NodeOf(M, n) == M.nodes[CHOOSE i \in DOMAIN M.nodes : M.nodes[i].id = n]
MAdj(M, a, b) == \E i \in DOMAIN M.edges : (M.edges[i][1] = a /\ M.edges[i][2] = b) \/ (M.edges[i][1] = b /\ M.edges[i][2] = a)
FNode(mp, k) == mp.from.nodes[CHOOSE i \in DOMAIN mp.from.nodes : mp.from.nodes[i].key = k]
FAdj(mp, a, b) == \E i \in DOMAIN mp.from.edges : (mp.from.edges[i][1] = a /\ mp.from.edges[i][2] = b) \/ (mp.from.edges[i][1] = b /\ mp.from.edges[i][2] = a)

NodeFits(mp, M, f, k, n) ==
  /\ n \notin RangeOf(f)
  /\ NodeOf(M, n).resname = FNode(mp, k).resname /\ NodeOf(M, n).atomname = FNode(mp, k).atomname
  /\ \A p \in DOMAIN f :
        /\ FAdj(mp, p, k) = MAdj(M, f[p], n)
        /\ FAdj(mp, p, k) => ((FNode(mp, p).resid = FNode(mp, k).resid) = (NodeOf(M, f[p]).resid = NodeOf(M, n).resid))

RECURSIVE Extend(_, _, _, _)
Extend(mp, M, f, todo) ==
  IF todo = <<>> THEN {f}
  ELSE UNION {Extend(mp, M, (Head(todo) :> n) @@ f, Tail(todo)) : n \in {x \in Ids(M) : NodeFits(mp, M, f, Head(todo), x)}}
EmptyMap == [x \in {} |-> 0]
Placements(mp, M) == Extend(mp, M, EmptyMap, [i \in DOMAIN mp.from.nodes |-> mp.from.nodes[i].key])

MinOf(S) == CHOOSE x \in S : \A y \in S : x <= y
MaxOf(S) == CHOOSE x \in S : \A y \in S : y <= x

\* all placements of all mappings as records [m : mapping index, f], ordered by lowest atom key
AllPlacements(mps, M) == UNION {{[m |-> i, f |-> g] : g \in Placements(mps[i], M)} : i \in DOMAIN mps}
RECURSIVE OrderByMin(_)
OrderByMin(S) == IF S = {} THEN <<>>
                 ELSE LET lo == MinOf({MinOf(RangeOf(p.f)) : p \in S})
                          first == CHOOSE p \in S : MinOf(RangeOf(p.f)) = lo
                      IN <<first>> \o OrderByMin(S \ {first})
\* the order is only determined when no two placements share their lowest atom
OrderDetermined(S) == \A p, q \in S : p # q => MinOf(RangeOf(p.f)) # MinOf(RangeOf(q.f))

\* out == [parts : Seq([key, resid, atomname, cons : Seq(<<atom, w>>), n2o : BOOLEAN, pl : placement number]),
\*         edges : set of <<a, b>> (a < b), inters : Seq([type, atoms, params])]
Norm(a, b) == IF a < b THEN <<a, b>> ELSE <<b, a>>
ToKeyIdx(mp, k) == CHOOSE i \in DOMAIN mp.to.nodes : mp.to.nodes[i].key = k

ApplyBlock(out, mp, f, plno) ==
  LET base == IF out.parts = <<>> THEN 0 ELSE MaxOf({out.parts[i].key : i \in DOMAIN out.parts})
      dres == IF out.parts = <<>> THEN 0 ELSE (out.parts[CHOOSE i \in DOMAIN out.parts : out.parts[i].key = base]).resid
      newkey(k) == base + ToKeyIdx(mp, k)
      wOf(tk) == SelectSeq(mp.w, LAMBDA t : t[2] = tk)
      atoms == [i \in DOMAIN mp.from.nodes |-> f[mp.from.nodes[i].key]]
      part(i) == LET tn == mp.to.nodes[i]  ws == wOf(tn.key) IN
                 [key |-> base + i, resid |-> tn.resid + dres, atomname |-> tn.atomname, pl |-> plno, n2o |-> ws = <<>>,
                  cons |-> IF ws = <<>> THEN [j \in DOMAIN atoms |-> <<atoms[j], 0>>]          \* built from no atom: the whole placement, weight 0
                           ELSE [j \in DOMAIN ws |-> <<f[ws[j][1]], ws[j][3]>>]]
  IN [parts |-> out.parts \o [i \in DOMAIN mp.to.nodes |-> part(i)],
      edges |-> out.edges \cup {Norm(newkey(mp.to.edges[i][1]), newkey(mp.to.edges[i][2])) : i \in DOMAIN mp.to.edges},
      inters |-> out.inters \o [i \in DOMAIN mp.to.inters |->
                   [type |-> mp.to.inters[i].type, params |-> mp.to.inters[i].params,
                    atoms |-> [j \in DOMAIN mp.to.inters[i].atoms |-> newkey(mp.to.inters[i].atoms[j])]]]]

RECURSIVE ApplyAll(_, _, _, _)
ApplyAll(out, mps, order, i) ==
  IF i > Len(order) THEN out ELSE ApplyAll(ApplyBlock(out, mps[order[i].m], order[i].f, i), mps, order, i + 1)

\* particles an atom contributes to (with any weight), none-to-one particles excepted
OutsOf(out, a) == {out.parts[i].key : i \in {j \in DOMAIN out.parts : ~out.parts[j].n2o /\ \E c \in DOMAIN out.parts[j].cons : out.parts[j].cons[c][1] = a}}
InterEdges(out, M, order) ==
  UNION {UNION {{Norm(pa, pb) : <<pa, pb>> \in {q \in OutsOf(out, a) \X OutsOf(out, b) : q[1] # q[2]}}
                 : <<a, b>> \in {e \in RangeOf(order[i].f) \X RangeOf(order[j].f) : MAdj(M, e[1], e[2])}}
         : <<i, j>> \in {p \in (DOMAIN order) \X (DOMAIN order) : p[1] < p[2]}}

Expected(mps, M) ==
  LET order == OrderByMin(AllPlacements(mps, M))
      o1 == ApplyAll([parts |-> <<>>, edges |-> {}, inters |-> <<>>], mps, order, 1)
  IN [o1 EXCEPT !.edges = @ \cup InterEdges(o1, M, order)]

Covered(mps, M) == UNION {RangeOf(p.f) : p \in AllPlacements(mps, M)}
UnmappedHeavy(mps, M) == {n \in Ids(M) : n \notin Covered(mps, M) /\ NodeOf(M, n).element # "H"}
Overlapping(mps, M) == \E p, q \in AllPlacements(mps, M) : p # q /\ RangeOf(p.f) \cap RangeOf(q.f) # {}

(* ---- average_beads: exact weighted mean over the positioned constituents ---- *)
\* cons : Seq([w, cw, has : BOOLEAN, x, y, z])  -> [den, nx, ny, nz]
RECURSIVE MeanFrom(_, _)
MeanFrom(cons, i) ==
  IF i > Len(cons) THEN [den |-> 0, nx |-> 0, ny |-> 0, nz |-> 0]
  ELSE LET r == MeanFrom(cons, i + 1)  c == cons[i] IN
       IF c.has THEN [den |-> r.den + c.w * c.cw, nx |-> r.nx + c.w * c.cw * c.x, ny |-> r.ny + c.w * c.cw * c.y, nz |-> r.nz + c.w * c.cw * c.z]
       ELSE r                                   \* constituents without coordinates never contribute
Mean(cons) == MeanFrom(cons, 1)

(* ===================================================================================================================
   Generic form (added for modification mappings and for the shipped mappings on real structures).
   Nothing above is changed; the operators below are prefixed with G.

   M   == [nodes : Seq([id, resid, name, element, hasmods : BOOLEAN, mods : Seq(STRING), attrs : Seq(<<key, value>>)]),
           edges : Seq(<<a, b>>)]
          name = the name the matcher compares (_old_atomname if the atom has one, else atomname); hasmods = the atom has a
          'modifications' attribute, mods = the names of the modifications in it; attrs = the other attributes some mapping
          compares, values as canonical strings
   mp  == [type : "block" | "modification", names : Seq(STRING),
           from : [nodes : Seq([resid (-1 = none), name, hasmods, mods, attrs : Seq([k, v, falsy])]), edges : Seq(<<i, j>>)],
           to   : [nodes : Seq([resid, atomname, atype, ptm : BOOLEAN, ratype ("-" = no replacement)]), edges : Seq(<<i, j>>),
                   inters : Seq([type, atoms : Seq(i), params, ver])],
           w    : Seq(<<i, j, weight>>)]         nodes are referred to by their position in from.nodes / to.nodes

   Which mappings apply where
     block mapping        : every induced embedding of mp.from that matches names and compared attributes and, on every bond,
                            the same-residue relation                                  (Mapping.map + _old_atomname_match + edge_matcher)
     modification mapping : the atoms carrying modifications fall into connected groups; the modification names of a group are
                            covered exactly by the names of known modification mappings (longest names first, first cover in
                            that order); every mapping needed by some group is placed at every induced embedding of its from
                            graph (names, compared attributes, its modifications among those of the atom; no residue relation
                            on bonds)                                                  (modification_matches + cover + ptm_resname_match)
   In which order       : blocks by their lowest atom; a modification by its highest atom when it touches a particle that must
                            already exist, by its lowest atom when it only creates particles; the lowest key goes first, a
                            block before a modification with the same key             (block_sort_key / mod_sort_key)
   What applying does   : GApplyBlock as ApplyBlock above; GApplyMod re-uses, for every to-node that is not a new particle, the
                            particle of that name to which the atoms mapped onto it already contribute (replacing its type when
                            the mapping says so), appends a new particle (next key) for every other to-node, overrides /
                            extends the weights of exactly the atoms of the placement, adds the modification's bonds, and adds
                            its interactions, replacing an interaction of the same type, atoms and version in place
   =================================================================================================================== *)

GCtx(M) ==
  LET ids == {M.nodes[i].id : i \in DOMAIN M.nodes}
      node == [n \in ids |-> M.nodes[CHOOSE i \in DOMAIN M.nodes : M.nodes[i].id = n]]
      names == {M.nodes[i].name : i \in DOMAIN M.nodes}
  IN [node |-> node,
      nbr |-> [n \in ids |-> {M.edges[i][2] : i \in {j \in DOMAIN M.edges : M.edges[j][1] = n}}
                             \cup {M.edges[i][1] : i \in {j \in DOMAIN M.edges : M.edges[j][2] = n}}],
      byname |-> [nm \in names |-> {n \in ids : node[n].name = nm}]]

GAttr(mn, k) == IF \E i \in DOMAIN mn.attrs : mn.attrs[i][1] = k
                THEN mn.attrs[CHOOSE i \in DOMAIN mn.attrs : mn.attrs[i][1] = k][2] ELSE "<absent>"
GIgnored == {"atype", "charge", "charge_group", "mass", "resid", "replace", "_old_atomname"}
\* one attribute of a from-node against an atom: equal values; an absent attribute only equals None, and 'order' is only
\* compared when the atom has one; a modification mapping does not compare an empty resname or a false PTM_atom
GAttrOK(mn, a, ismod) ==
  \/ a.k \in GIgnored
  \/ ismod /\ a.falsy /\ a.k \in {"resname", "PTM_atom"}
  \/ LET v == GAttr(mn, a.k) IN (v = a.v) \/ (v = "<absent>" /\ (a.k = "order" \/ a.v = "None"))
GModsOK(mn, pn, ismod) ==
  IF ismod THEN (IF mn.hasmods THEN SeqSet(pn.mods) \subseteq SeqSet(mn.mods) ELSE ~pn.hasmods)
  ELSE pn.hasmods => (mn.hasmods /\ mn.mods = pn.mods)

GPat(mp) == [padj |-> [i \in DOMAIN mp.from.nodes |->
                         {mp.from.edges[e][2] : e \in {x \in DOMAIN mp.from.edges : mp.from.edges[x][1] = i}}
                         \cup {mp.from.edges[e][1] : e \in {x \in DOMAIN mp.from.edges : mp.from.edges[x][2] = i}}]]

GFits(C, mp, P, f, k, x) ==
  LET pn == mp.from.nodes[k]  mn == C.node[x]  ismod == (mp.type = "modification") IN
  /\ x \notin RangeOf(f)
  /\ mn.name = pn.name
  /\ GModsOK(mn, pn, ismod)
  /\ \A i \in DOMAIN pn.attrs : GAttrOK(mn, pn.attrs[i], ismod)
  /\ \A p \in DOMAIN f : (p \in P.padj[k]) = (f[p] \in C.nbr[x])                              \* induced
  /\ ~ismod => \A p \in (DOMAIN f) \cap P.padj[k] :
                  (mp.from.nodes[p].resid = pn.resid) = (C.node[f[p]].resid = mn.resid)          \* same-residue relation on bonds

\* candidates are pre-filtered: atoms of the right name, next to the image of an already placed neighbour if there is one
RECURSIVE GExtend(_, _, _, _, _)
GExtend(C, mp, P, f, todo) ==
  IF todo = <<>> THEN {f}
  ELSE LET k == Head(todo)
           nm == mp.from.nodes[k].name
           named == IF nm \in DOMAIN C.byname THEN C.byname[nm] ELSE {}
           prev == (DOMAIN f) \cap P.padj[k]
           cands == IF prev = {} THEN named ELSE C.nbr[f[CHOOSE p \in prev : TRUE]] \cap named
       IN UNION {GExtend(C, mp, P, (k :> n) @@ f, Tail(todo)) : n \in {x \in cands : GFits(C, mp, P, f, k, x)}}
GPlacements(C, mp) == GExtend(C, mp, GPat(mp), EmptyMap, [i \in DOMAIN mp.from.nodes |-> i])

GBlockPl(C, mps) ==
  UNION {{[m |-> i, f |-> g, kind |-> "block", key |-> MinOf(RangeOf(g))] : g \in GPlacements(C, mps[i])}
         : i \in {j \in DOMAIN mps : mps[j].type = "block"}}

\* ---- which modification mappings are needed
GModified(C) == {n \in DOMAIN C.node : C.node[n].mods # <<>>}
RECURSIVE GGrow(_, _, _, _)
GGrow(C, U, S, front) == IF front = {} THEN S
                         ELSE LET new == ((UNION {C.nbr[x] : x \in front}) \cap U) \ S IN GGrow(C, U, S \cup new, new)
GGroups(C) == LET U == GModified(C) IN {GGrow(C, U, {n}, {n}) : n \in U}
GGroupNames(C, g) == UNION {SeqSet(C.node[n].mods) : n \in g}

GModIdx(mps) == SelectSeq([i \in DOMAIN mps |-> i], LAMBDA i : mps[i].type = "modification")
RECURSIVE GOptFrom(_, _)
GOptFrom(mps, L) == IF L = 0 THEN <<>>
                    ELSE SelectSeq(GModIdx(mps), LAMBDA i : Len(mps[i].names) = L) \o GOptFrom(mps, L - 1)
\* known modification mappings, most names first, otherwise in the order in which they are known
GOptions(mps) == LET idx == GModIdx(mps) IN
                 IF idx = <<>> THEN <<>> ELSE GOptFrom(mps, MaxOf({Len(mps[idx[i]].names) : i \in DOMAIN idx}))

\* cover(): the first option all of whose names are still to be covered and after which the rest can be covered
RECURSIVE GCover(_, _, _, _)
GCover(mps, opts, S, i) ==
  IF S = {} THEN [ok |-> TRUE, sel |-> {}]
  ELSE IF i > Len(opts) THEN [ok |-> FALSE, sel |-> {}]
  ELSE LET nm == SeqSet(mps[opts[i]].names)
           sub == IF nm \subseteq S THEN GCover(mps, opts, S \ nm, i) ELSE [ok |-> FALSE, sel |-> {}]
       IN IF sub.ok THEN [ok |-> TRUE, sel |-> sub.sel \cup {opts[i]}] ELSE GCover(mps, opts, S, i + 1)
\* declarative counterpart (checked against GCover by spec/MappingCover.tla): the selections that cover S exactly
GExactCovers(mps, S) == {sel \in SUBSET SeqSet(GModIdx(mps)) :
                           /\ UNION {SeqSet(mps[i].names) : i \in sel} = S
                           /\ \A i, j \in sel : i # j => SeqSet(mps[i].names) \cap SeqSet(mps[j].names) = {}}

GGroupCover(C, mps, g) == GCover(mps, GOptions(mps), GGroupNames(C, g), 1)
GNeeded(C, mps) == UNION {GGroupCover(C, mps, g).sel : g \in {h \in GGroups(C) : GGroupCover(C, mps, h).ok}}
GNoMapping(C, mps) == {g \in GGroups(C) : ~GGroupCover(C, mps, g).ok}          \* each raises an unmapped-atom warning

GModKey(mp, g) == IF \E t \in SeqSet(mp.w) : ~mp.to.nodes[t[2]].ptm THEN MaxOf(RangeOf(g)) ELSE MinOf(RangeOf(g))
GModPl(C, mps) ==
  UNION {{[m |-> i, f |-> g, kind |-> "mod", key |-> GModKey(mps[i], g)] : g \in GPlacements(C, mps[i])} : i \in GNeeded(C, mps)}
\* a placement outside the modified atoms, or two placements sharing an atom
GModOverlap(C, mps) == LET pl == GModPl(C, mps) IN
  \/ \E p \in pl : ~(RangeOf(p.f) \subseteq GModified(C))
  \/ \E p, q \in pl : p # q /\ RangeOf(p.f) \cap RangeOf(q.f) # {}

\* ---- order of application
RECURSIVE GSortByKey(_)
GSortByKey(S) == IF S = {} THEN <<>>
                 ELSE LET lo == MinOf({p.key : p \in S})  first == CHOOSE p \in S : p.key = lo
                      IN <<first>> \o GSortByKey(S \ {first})
RECURSIVE GMerge(_, _)
GMerge(bs, ms) == IF ms = <<>> THEN bs ELSE IF bs = <<>> THEN ms
                  ELSE IF ms[1].key < bs[1].key THEN <<ms[1]>> \o GMerge(bs, Tail(ms)) ELSE <<bs[1]>> \o GMerge(Tail(bs), ms)
GKeysDistinct(S) == \A p, q \in S : p # q => p.key # q.key
GOrderDetermined(C, mps) == GKeysDistinct(GBlockPl(C, mps)) /\ GKeysDistinct(GModPl(C, mps))
GOrder(C, mps) == GMerge(GSortByKey(GBlockPl(C, mps)), GSortByKey(GModPl(C, mps)))

\* ---- effect of one placement
\* out == [parts : Seq([key, resid, atomname, atype, cons, n2o, pl, added, mods : Seq(mapping number)]), edges, inters,
\*         err : a re-used particle does not exist (do_mapping raises), amb : several particles qualify (unspecified)]
GEmpty == [parts |-> <<>>, edges |-> {}, inters |-> <<>>, err |-> FALSE, amb |-> FALSE]
GKeys(out) == {out.parts[i].key : i \in DOMAIN out.parts}

GApplyBlock(out, mp, f, plno) ==
  LET base == IF out.parts = <<>> THEN 0 ELSE MaxOf(GKeys(out))
      prevb == {i \in DOMAIN out.parts : ~out.parts[i].added}
      dres == IF prevb = {} THEN 0 ELSE out.parts[MaxOf(prevb)].resid      \* residue number of the last particle made by a block
      wOf(tk) == SelectSeq(mp.w, LAMBDA t : t[2] = tk)
      part(i) == LET tn == mp.to.nodes[i]  ws == wOf(i) IN
                 [key |-> base + i, resid |-> tn.resid + dres, atomname |-> tn.atomname, atype |-> tn.atype, pl |-> plno,
                  n2o |-> ws = <<>>, added |-> FALSE, mods |-> <<>>,
                  cons |-> IF ws = <<>> THEN [j \in DOMAIN mp.from.nodes |-> <<f[j], 0>>]
                           ELSE [j \in DOMAIN ws |-> <<f[ws[j][1]], ws[j][3]>>]]
  IN [out EXCEPT !.parts = @ \o [i \in DOMAIN mp.to.nodes |-> part(i)],
                 !.edges = @ \cup {Norm(base + mp.to.edges[i][1], base + mp.to.edges[i][2]) : i \in DOMAIN mp.to.edges},
                 !.inters = @ \o [i \in DOMAIN mp.to.inters |->
                                    [mp.to.inters[i] EXCEPT !.atoms = [j \in DOMAIN @ |-> base + @[j]]]]]

GAddOrReplace(inters, it) ==
  LET same == {i \in DOMAIN inters : inters[i].type = it.type /\ inters[i].atoms = it.atoms /\ inters[i].ver = it.ver}
  IN IF same = {} THEN Append(inters, it) ELSE [inters EXCEPT ![MinOf(same)] = it]
RECURSIVE GAddInters(_, _, _)
GAddInters(inters, new, i) == IF i > Len(new) THEN inters ELSE GAddInters(GAddOrReplace(inters, new[i]), new, i + 1)

\* weights of the placement override / extend the constituents of a particle
GOverride(cons, ws) == SelectSeq(cons, LAMBDA c : \A j \in DOMAIN ws : ws[j][1] # c[1]) \o ws

GApplyMod(out, mp, mno, f, plno) ==
  LET tn == mp.to.nodes
      base == IF out.parts = <<>> THEN 0 - 1 ELSE MaxOf(GKeys(out))
      nth(i) == Cardinality({j \in 1..i : tn[j].ptm})
      atomsTo(i) == {f[mp.w[t][1]] : t \in {u \in DOMAIN mp.w : mp.w[u][2] = i}}
      \* particles to which the atoms mapped onto to-node i contribute (with any weight) and that carry its name
      cand(i) == {out.parts[q].key : q \in {r \in DOMAIN out.parts :
                      /\ out.parts[r].atomname = tn[i].atomname
                      /\ \E c \in DOMAIN out.parts[r].cons : out.parts[r].cons[c][1] \in atomsTo(i)}}
      keyOf(i) == IF tn[i].ptm THEN base + nth(i) ELSE IF cand(i) = {} THEN 0 - 1 ELSE MinOf(cand(i))
      err == \E i \in DOMAIN tn : ~tn[i].ptm /\ cand(i) = {}
      amb == \E i \in DOMAIN tn : ~tn[i].ptm /\ Cardinality(cand(i)) > 1
      wsOf(k) == LET sel == SelectSeq(mp.w, LAMBDA t : keyOf(t[2]) = k) IN [j \in DOMAIN sel |-> <<f[sel[j][1]], sel[j][3]>>]
      reused == {keyOf(i) : i \in {j \in DOMAIN tn : ~tn[j].ptm}}
      toOf(k) == CHOOSE i \in DOMAIN tn : ~tn[i].ptm /\ keyOf(i) = k
      upd(p) == IF p.key \notin reused THEN p
                ELSE [p EXCEPT !.cons = GOverride(@, wsOf(p.key)),
                               !.atype = IF tn[toOf(p.key)].ratype = "-" THEN @ ELSE tn[toOf(p.key)].ratype,
                               !.mods = IF \E j \in DOMAIN @ : @[j] = mno THEN @ ELSE Append(@, mno)]
      addedIdx == SelectSeq([i \in DOMAIN tn |-> i], LAMBDA i : tn[i].ptm)
      newp(j) == LET i == addedIdx[j] IN
                 [key |-> keyOf(i), resid |-> tn[i].resid, atomname |-> tn[i].atomname, atype |-> tn[i].atype, pl |-> plno,
                  n2o |-> FALSE, added |-> TRUE, mods |-> <<mno>>, cons |-> wsOf(keyOf(i))]
  IN IF err \/ amb THEN [out EXCEPT !.err = @ \/ err, !.amb = @ \/ amb]
     ELSE [out EXCEPT !.parts = [q \in DOMAIN @ |-> upd(@[q])] \o [j \in DOMAIN addedIdx |-> newp(j)],
                      !.edges = @ \cup {Norm(keyOf(mp.to.edges[e][1]), keyOf(mp.to.edges[e][2])) : e \in DOMAIN mp.to.edges},
                      !.inters = GAddInters(@, [i \in DOMAIN mp.to.inters |->
                                                  [mp.to.inters[i] EXCEPT !.atoms = [j \in DOMAIN @ |-> keyOf(@[j])]]], 1)]

RECURSIVE GApplyAll(_, _, _, _)
GApplyAll(out, mps, order, i) ==
  IF i > Len(order) \/ out.err \/ out.amb THEN out
  ELSE GApplyAll(IF order[i].kind = "block" THEN GApplyBlock(out, mps[order[i].m], order[i].f, i)
                 ELSE GApplyMod(out, mps[order[i].m], order[i].m, order[i].f, i), mps, order, i + 1)

\* ---- bonds between placements: a bonded pair of atoms that lies in two different placements connects every particle
\*      the one atom contributes to with every particle the other contributes to (particles built from no atom excepted)
GOutsOf(out, a) == {out.parts[i].key : i \in {j \in DOMAIN out.parts :
                       ~out.parts[j].n2o /\ \E c \in DOMAIN out.parts[j].cons : out.parts[j].cons[c][1] = a}}
GInterEdges(M, out, order) ==
  LET atomsOf == [i \in DOMAIN order |-> RangeOf(order[i].f)]
      plsOf(a) == {i \in DOMAIN order : a \in atomsOf[i]}
      qual(a, b) == \E i \in plsOf(a) : \E j \in plsOf(b) : i # j
  IN UNION {{Norm(q[1], q[2]) : q \in {r \in GOutsOf(out, M.edges[e][1]) \X GOutsOf(out, M.edges[e][2]) : r[1] # r[2]}}
            : e \in {x \in DOMAIN M.edges : qual(M.edges[x][1], M.edges[x][2])}}

GExpected(M, mps, order) ==
  LET o1 == GApplyAll(GEmpty, mps, order, 1) IN [o1 EXCEPT !.edges = @ \cup GInterEdges(M, o1, order)]

GCovered(order) == UNION {RangeOf(order[i].f) : i \in DOMAIN order}
GUnmappedHeavy(C, order) == {n \in DOMAIN C.node : n \notin GCovered(order) /\ C.node[n].element # "H"}
\* a block is placed on an atom that an earlier placement already uses
GBlockOverlap(order) == \E i, j \in DOMAIN order : i < j /\ order[j].kind = "block" /\ RangeOf(order[i].f) \cap RangeOf(order[j].f) # {}
=============================================================================
