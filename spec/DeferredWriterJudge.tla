------------------------- MODULE DeferredWriterJudge -------------------------
(* TLC as judge of recorded HISTORIES of the real deferred writer (C07), with the operators of DeferredWriterOps as the
   only oracle.  One event = one process: the directory before, the deferred opens (destination, mode, what was written
   through the handle - recorded at the handle, independently of the writer's temporary files), discards, finalisations
   (complete, or interrupted at the k-th file-system primitive by an injected exception, or failing on a destination that
   cannot be written) and - for runs of the real martinize2 command line - the gate (warnings counted by type, records
   above WARNING, the -maxwarn entries, exit status), each with the directory (names -> content) observed after it.

   JSON of an event (built by harness/c07_cli.py; contents are sequences of line identifiers, 0 = no such file):
     K      backup numbers considered (1..K)                     C      table of contents (index -> sequence)
     names  every file name seen in any snapshot                 pre    directory before (content index per name)
     dests  [name, dir, base] of every path of the model: the backup of slot n is  dir "#" base "." n "#"
     exempt names of debug dumps requested with -write-*  (the statement sets them aside)
     steps  open [d, mode, data, snap] | discard [snap, tmpleft] | finalise / gate [halt, prims, bad, crashes, snap, tmpleft,
            ...]   (tmpleft: files left in the directory of temporary files)
   A snapshot <<>> means "not taken".                                                                              *)
EXTENDS WarnCountOps, TLC, Json, IOUtils

ABSENT == <<-1>>
INSTANCE DeferredWriterOps

Batch == JsonDeserialize(IOEnv.TRACE_FILE)

VARIABLES tid, verdict
vars == <<tid, verdict>>

-----------------------------------------------------------------------------
(* abstraction: snapshot -> directory of the model *)
Content(e, c)  == IF c = 0 THEN ABSENT ELSE e.C[c]
P(e)           == {e.dests[i].name : i \in DOMAIN e.dests}
DestRec(e, p)  == e.dests[CHOOSE i \in DOMAIN e.dests : e.dests[i].name = p]
FileName(e, p, n) == IF n = 0 THEN p ELSE DestRec(e, p).dir \o "#" \o DestRec(e, p).base \o "." \o ToString(n) \o "#"
NameIdx(e, nm) == {i \in DOMAIN e.names : e.names[i] = nm}
FsOf(e, snap)  == [x \in P(e) \X (0..e.K) |->
                     LET I == NameIdx(e, FileName(e, x[1], x[2])) IN
                     IF I = {} THEN ABSENT ELSE Content(e, snap[CHOOSE i \in I : TRUE])]
ModelNames(e)  == {FileName(e, p, n) : p \in P(e), n \in 0..e.K}
Exempt(e)      == {e.exempt[i] : i \in DOMAIN e.exempt}

\* names outside the model's name space (the input file, unrelated files, requested debug dumps): unchanged, none new
OutsideVerdict(e, snap) ==
  LET O == {i \in DOMAIN e.names : e.names[i] \notin ModelNames(e) /\ e.names[i] \notin Exempt(e)} IN
  IF \E i \in O : e.pre[i] = 0 /\ snap[i] # 0 THEN "unexpected-new-file"
  ELSE IF \E i \in O : e.pre[i] # 0 /\ snap[i] = 0 THEN "unrelated-file-lost"
  ELSE IF \E i \in O : snap[i] # e.pre[i] THEN "unrelated-file-changed"
  ELSE "ok"
DumpsVerdict(e, snap) ==
  IF \E i \in DOMAIN e.names : e.names[i] \in Exempt(e) /\ snap[i] = 0 THEN "requested-debug-dump-missing" ELSE "ok"

\* nothing may have changed: before finalisation, after a discard, after a refused run
UntouchedVerdict(e, snap, f, why) ==
  IF snap = <<>> THEN "ok"
  ELSE IF FsOf(e, snap) # f THEN why
  ELSE IF OutsideVerdict(e, snap) # "ok" THEN why \o "(" \o OutsideVerdict(e, snap) \o ")"
  ELSE "ok"

-----------------------------------------------------------------------------
(* a path opened in both modes: the statement does not say which decides; every reading is admitted *)
Resolutions(pd, mixed) ==
  {[i \in DOMAIN pd |-> IF pd[i].final \in mixed THEN [pd[i] EXCEPT !.mode = ch[pd[i].final]] ELSE pd[i]] :
      ch \in [mixed -> {"w", "a"}]}

\* a completed finalisation of plan pl from directory f0, observed directory snap
CompleteVerdict(e, f0, pl, snap) ==
  LET f == FsOf(e, snap) IN
  IF \E p \in P(e) : ~HoldsWhatWasWritten(f0, f, pl, p) THEN "destination-does-not-hold-what-was-written-for-it"
  ELSE IF \E p \in P(e) : ~KeptUnderFirstFree(f0, f, pl, p, e.K) THEN "pre-existing-file-not-kept-under-first-free-backup-name"
  ELSE IF ~FinalisedOf(f0, f, pl, P(e), e.K) THEN "other-backup-names-changed"
  ELSE IF f # FinalOf(f0, pl, e.K) THEN "SPEC-INCONSISTENT"
  ELSE IF OutsideVerdict(e, snap) # "ok" THEN OutsideVerdict(e, snap)
  ELSE "ok"

\* finalisation interrupted by an injected exception before primitive k + 1.  Required (the statement): every pre-existing
\* file is intact under its own or a backup name; beyond it: every destination is, on its own, in a state its finalisation
\* passes through, and nothing else appeared or changed.  Whether the directory is EXACTLY the model's state after k
\* primitives (same order of destinations, same primitives) is reported as a fact, not required.
Restrict(e, f, p) == [n \in 0..e.K |-> f[<<p, n>>]]
PassesThrough(e, f0, pl, f) ==
  \A p \in P(e) : \E k \in 0..NPrims(f0, pl, e.K) : Restrict(e, f, p) = Restrict(e, StateAfter(f0, pl, e.K, k), p)
CrashVerdict(e, f0, pl, k, snap) ==
  LET f == FsOf(e, snap) IN
  IF ~SafeOf(f0, f, pl, P(e), e.K) THEN "pre-existing-file-lost-by-interrupted-finalisation"
  ELSE IF ~PassesThrough(e, f0, pl, f) THEN "destination-in-a-state-finalisation-never-passes-through"
  ELSE IF OutsideVerdict(e, snap) # "ok" THEN OutsideVerdict(e, snap)
  ELSE "ok"
CrashExact(e, f0, pl, k, snap, prims) ==
  /\ k <= NPrims(f0, pl, e.K)
  /\ FsOf(e, snap) = StateAfter(f0, pl, e.K, k)
  /\ prims = SubSeq(Kinds(f0, pl, e.K), 1, k)

\* finalisation with destinations that cannot be written (bad): pre-existing files are safe, and every destination is,
\* on its own, in a state finalisation passes through (untouched ... finalised); nothing is said about where it stops
BadVerdict(e, f0, pl, bad, snap) ==
  LET f == FsOf(e, snap) IN
  IF ~SafeOf(f0, f, pl, P(e), e.K) THEN "pre-existing-file-lost-by-failed-finalisation"
  ELSE IF \E p \in bad : Restrict(e, f, p) # Restrict(e, f0, p) THEN "unwritable-destination-changed"
  ELSE IF ~PassesThrough(e, f0, pl, f) THEN "destination-in-a-state-finalisation-never-passes-through"
  ELSE IF OutsideVerdict(e, snap) # "ok" THEN OutsideVerdict(e, snap)
  ELSE "ok"

RECURSIVE CrashesVerdict(_, _, _, _, _)
CrashesVerdict(e, f0, pl, cr, j) ==
  IF j > Len(cr) THEN "ok"
  ELSE LET v == CrashVerdict(e, f0, pl, cr[j].k, cr[j].snap) IN
       IF v # "ok" THEN "crash(k=" \o ToString(cr[j].k) \o "," \o cr[j].exc \o "):" \o v
       ELSE CrashesVerdict(e, f0, pl, cr, j + 1)

\* everything observed about one finalisation (s: step record), for one reading pl of the pending table
FinaliseVerdict(e, f0, pl, s) ==
  LET bad == {s.bad[i] : i \in DOMAIN s.bad} IN
  IF bad # {} THEN BadVerdict(e, f0, pl, bad, s.snap)
  ELSE LET cv == CrashesVerdict(e, f0, pl, s.crashes, 1) IN
       IF cv # "ok" THEN cv
       ELSE IF s.halt >= 0 THEN CrashVerdict(e, f0, pl, s.halt, s.snap)
       ELSE CompleteVerdict(e, f0, pl, s.snap)

\* number of observations of this finalisation that are exactly the model's (crash points: state after k primitives and
\* the primitives executed; completed: the sequence of primitive kinds)
ExactCount(e, f0, pl, s) ==
  IF s.bad # <<>> THEN 0
  ELSE Cardinality({j \in DOMAIN s.crashes : CrashExact(e, f0, pl, s.crashes[j].k, s.crashes[j].snap, s.crashes[j].prims)})
       + (IF s.halt >= 0 THEN (IF CrashExact(e, f0, pl, s.halt, s.snap, s.prims) THEN 1 ELSE 0)
          ELSE (IF s.prims = Kinds(f0, pl, e.K) THEN 1 ELSE 0))

Max3(a, b) == IF a >= b THEN a ELSE b
RECURSIVE CountKind(_, _)
CountKind(ks, kind) == IF ks = <<>> THEN 0 ELSE (IF Head(ks) = kind THEN 1 ELSE 0) + CountKind(Tail(ks), kind)
\* the highest backup number a Backup primitive of this finalisation uses (0: none)
HighSlot(f0, pl, K) ==
  LET st == Steps(f0, pl, K) IN
  LET S == {FirstFree(StateAfter(f0, pl, K, i - 1), st[i].p, K) : i \in {j \in DOMAIN st : st[j].kind = "Backup"}} IN
  IF S = {} THEN 0 ELSE CHOOSE m \in S : \A x \in S : x <= m

-----------------------------------------------------------------------------
Fail(i, why, st) == [v |-> "step " \o ToString(i) \o ": " \o why, facts |-> st.facts]

RECURSIVE Walk(_, _, _)
Walk(e, i, st) ==
  IF i > Len(e.steps) THEN [v |-> "ok", facts |-> st.facts]
  ELSE
  LET s == e.steps[i] IN
  CASE s.op = "open" ->
         LET mix == \E j \in EntryFor(st.pd, s.d) : st.pd[j].mode # s.mode
             v   == UntouchedVerdict(e, s.snap, st.fs, "destination-touched-before-finalisation")
         IN IF v # "ok" THEN Fail(i, v, st)
            ELSE Walk(e, i + 1, [st EXCEPT !.pd = OpenFx(st.pd, s.d, s.mode, s.data),
                                           !.mixed = IF mix THEN @ \cup {s.d} ELSE @,
                                           !.facts.mixed = IF mix THEN @ + 1 ELSE @,
                                           !.facts.reopen = IF EntryFor(st.pd, s.d) # {} THEN @ + 1 ELSE @])
    [] s.op = "discard" ->
         LET v == UntouchedVerdict(e, s.snap, st.fs, "discard-touched-the-directory") IN
         IF v # "ok" THEN Fail(i, v, st)
         ELSE IF s.tmpleft > 0 THEN Fail(i, "discard-left-temporary-files-behind", st)
         ELSE Walk(e, i + 1, [st EXCEPT !.pd = <<>>, !.mixed = {}, !.facts.discards = @ + 1])
    [] s.op \in {"finalise", "gate"} ->
         LET left  == IF s.op = "gate" THEN LeftoverDecl(s.counts, s.above, s.specs) ELSE 0
             warns == IF s.op = "gate" THEN Total(s.counts) ELSE 0
             facts0 == [st.facts EXCEPT !.left = left, !.warns = warns] IN
         IF left > 0
         THEN \* the run must refuse: non-zero exit status, no finalisation, nothing touched (requested dumps aside)
              LET st1 == [st EXCEPT !.facts = [facts0 EXCEPT !.refused = @ + 1]] IN
              IF s.exit = 0 THEN Fail(i, "warnings-left-but-exit-0", st1)
              ELSE IF s.wrote THEN Fail(i, "finalisation-started-although-warnings-were-left", st1)
              ELSE IF UntouchedVerdict(e, s.snap, st.fs, "refused-run-touched-the-directory") # "ok"
                   THEN Fail(i, UntouchedVerdict(e, s.snap, st.fs, "refused-run-touched-the-directory"), st1)
              ELSE IF DumpsVerdict(e, s.snap) # "ok" THEN Fail(i, DumpsVerdict(e, s.snap), st1)
              ELSE IF s.tmpleft > 0 THEN Fail(i, "refused-run-left-its-temporary-files-behind", st1)
              ELSE Walk(e, i + 1, [st1 EXCEPT !.pd = <<>>, !.mixed = {}])
         ELSE
              LET R    == Resolutions(st.pd, st.mixed)
                  good == {pl \in R : FinaliseVerdict(e, st.fs, pl, s) = "ok"}
                  want == IF s.bad # <<>> THEN 0 ELSE Len(s.crashes) + 1
                  best == {pl \in good : ExactCount(e, st.fs, pl, s) = want}      \* among the admitted readings, one that is also exact
                  pl0  == IF best # {} THEN CHOOSE pl \in best : TRUE
                          ELSE IF good # {} THEN CHOOSE pl \in good : TRUE ELSE CHOOSE pl \in R : TRUE
                  ks   == Kinds(st.fs, pl0, e.K)
                  st1  == [st EXCEPT !.facts = [facts0 EXCEPT
                              !.finalised = IF s.halt < 0 /\ s.bad = <<>> THEN @ + 1 ELSE @,
                              !.prims = @ + Len(ks), !.backups = @ + CountKind(ks, "Backup"),
                              !.appends = @ + CountKind(ks, "AppendDest"),
                              !.highslot = Max3(@, HighSlot(st.fs, pl0, e.K)),
                              !.crashes = @ + Len(s.crashes) + (IF s.halt >= 0 THEN 1 ELSE 0),
                              !.exact = @ + ExactCount(e, st.fs, pl0, s),
                              !.observed = @ + (IF s.bad # <<>> THEN 0 ELSE Len(s.crashes) + 1),
                              !.failed = IF s.bad # <<>> THEN @ + 1 ELSE @]]
              IN
              IF s.op = "gate" /\ ~s.wrote THEN Fail(i, "all-warnings-waived-but-run-refused", st1)
              ELSE IF good = {} THEN Fail(i, FinaliseVerdict(e, st.fs, pl0, s), st1)
              ELSE IF s.op = "gate" /\ s.halt < 0 /\ s.exit # 0 THEN Fail(i, "finalised-run-with-non-zero-exit", st1)
              ELSE IF s.op = "gate" /\ DumpsVerdict(e, s.snap) # "ok" THEN Fail(i, DumpsVerdict(e, s.snap), st1)
              ELSE IF s.halt >= 0 \/ s.bad # <<>> THEN [v |-> "ok", facts |-> st1.facts]     \* the history ends with the failure
              ELSE IF s.tmpleft > 0 THEN Fail(i, "finalisation-left-temporary-files-behind", st1)
              ELSE Walk(e, i + 1, [st1 EXCEPT !.fs = FinalOf(st.fs, pl0, e.K), !.pd = <<>>, !.mixed = {}])

Facts0 == [left |-> 0, warns |-> 0, refused |-> 0, finalised |-> 0, prims |-> 0, backups |-> 0, appends |-> 0, highslot |-> 0,
           crashes |-> 0, exact |-> 0, observed |-> 0, failed |-> 0, mixed |-> 0, reopen |-> 0, discards |-> 0]

JudgeHist(e) == Walk(e, 1, [fs |-> FsOf(e, e.pre), pd |-> <<>>, mixed |-> {}, facts |-> Facts0])

\* a destination that is a DIRECTORY is outside the vocabulary of the statement; the one thing required is that no
\* content that existed before is gone afterwards (under whatever name)
JudgeWeak(e) ==
  [v |-> IF \E i \in DOMAIN e.pre : e.pre[i] # 0 /\ \A j \in DOMAIN e.post : e.post[j] # e.pre[i]
         THEN "content-that-existed-before-is-gone" ELSE "ok",
   facts |-> Facts0]

Init == tid \in 1..Len(Batch) /\ verdict = [v |-> "pending", facts |-> Facts0]
Eval == /\ verdict.v = "pending"
        /\ verdict' = IF Batch[tid].kind = "weak" THEN JudgeWeak(Batch[tid]) ELSE JudgeHist(Batch[tid])
        /\ UNCHANGED tid
Spec == Init /\ [][Eval]_vars
=============================================================================
