----------------------------- MODULE DsspFormat -----------------------------
(* C17, DSSP route, part 1: the OUTPUT FORMAT of DSSP (versions 2 and 3) as vermouth.dssp.read_dssp2 documents it.

   A file is a sequence of lines, a line a sequence of one-character strings (TLC cannot index strings).
     * a FIRST line starting with "****" is the header of a pre-1995 DSSP: not supported, error;
     * everything up to and including the first LATER line that starts with "  #  RESIDUE AA" is header/histogram;
       no such line: error;
     * after it every line is one residue, EXCEPT lines containing "!" (chain break / TER: carry no residue) and
       empty lines; a residue line has its class in (1-based) column 17: one of H B E G I T S or blank; blank means
       loop/coil and is reported as "C"; a line shorter than 17 characters or another character in that column
       (e.g. "P", the PPII class of DSSP >= 4, or a literal "C") is an error.
   Result: ERR or OK(sequence of classes over H B E G I T S C), one per residue line, in file order.

   ReadDecl : shaped like the sentence above.     ReadOp : the three-phase line-by-line machine of the code.
   The TAB model over these operators is DsspFile.tla; the table of concrete lines is dumped by DsspLines.tla.
   Not specified by the docstring (never generated): an empty iterable, and a file whose FIRST line already is the
   "  #  RESIDUE AA" line (the code consumes line 1 before it looks for the table).                         *)
EXTENDS Integers, Sequences, FiniteSets, TLC

ERR == [err |-> TRUE]
OK(x) == [err |-> FALSE, val |-> x]

ClassCol   == 17
ClassChars == {"H", "B", "E", "G", "I", "T", "S", " "}
TableMark  == <<" "," ","#"," "," ","R","E","S","I","D","U","E"," ","A","A">>

StartsWith(l, p) == Len(l) >= Len(p) /\ SubSeq(l, 1, Len(p)) = p
IsV1(l)     == StartsWith(l, <<"*","*","*","*">>)
IsTable(l)  == StartsWith(l, TableMark)
HasBang(l)  == \E i \in DOMAIN l : l[i] = "!"
NoResidue(l) == HasBang(l) \/ l = <<>>
Coil(c)     == IF c = " " THEN "C" ELSE c

Unspecified(lines) == lines = <<>> \/ IsTable(lines[1])

(* ---- declarative ---- *)
TableLines(lines) == {i \in 2..Len(lines) : IsTable(lines[i])}
Min(S) == CHOOSE x \in S : \A y \in S : x <= y
ReadDecl(lines) ==
  IF IsV1(lines[1]) THEN ERR
  ELSE IF TableLines(lines) = {} THEN ERR
  ELSE LET t    == Min(TableLines(lines))
           rows == SelectSeq([i \in 1..(Len(lines) - t) |-> lines[t + i]], LAMBDA l : ~NoResidue(l))
       IN IF \E k \in DOMAIN rows : Len(rows[k]) < ClassCol \/ rows[k][ClassCol] \notin ClassChars THEN ERR
          ELSE OK([k \in DOMAIN rows |-> Coil(rows[k][ClassCol])])

(* ---- operational: first line, header phase, table phase ---- *)
RECURSIVE Scan(_, _, _, _)
Scan(lines, i, phase, acc) ==
  IF i > Len(lines) THEN (IF phase = "rows" THEN OK(acc) ELSE ERR)
  ELSE LET l == lines[i] IN
       IF phase = "first" THEN (IF IsV1(l) THEN ERR ELSE Scan(lines, i + 1, "header", acc))
       ELSE IF phase = "header" THEN Scan(lines, i + 1, IF IsTable(l) THEN "rows" ELSE "header", acc)
       ELSE IF NoResidue(l) THEN Scan(lines, i + 1, "rows", acc)
       ELSE IF Len(l) < ClassCol THEN ERR
       ELSE IF l[ClassCol] \notin ClassChars THEN ERR
       ELSE Scan(lines, i + 1, "rows", Append(acc, Coil(l[ClassCol])))
ReadOp(lines) == Scan(lines, 1, "first", <<>>)

(* ---- concrete lines of the TAB model: what real DSSP prints, and near misses ---- *)
Sp(n) == [i \in 1..n |-> " "]
ResPre  == <<" "," "," "," ","7"," "," "," "," ","7"," ","A"," ">>            \* columns 1-13: serial, residue number, chain
ResTail == <<" "," ","3",">","<"," "," ","S","+"," "," "," "," "," ","0"," "," "," ","0"," "," "," ","5","7">>
\* residue line: amino acid in column 14, columns 15-16, class in column 17, then the rest of the STRUCTURE block
Res(aa, c16, cls, tail) == ResPre \o <<aa, " ", c16, cls>> \o tail

Line(k) ==
  CASE k = "hdr"   -> <<"=","=","=","="," ","S","e","c","o","n","d","a","r","y"," ","S","t","r","u","c","t","u","r","e"," ","D","S","S","P"," ","2",".","2",".","1"," ","=","=","=","=">>
    [] k = "v1"    -> <<"*","*","*","*"," ","S","E","C","O","N","D","A","R","Y"," ","S","T","R","U","C","T","U","R","E"," ","D","S","S","P"," ","1","9","8","8"," ","*","*","*","*">>
    [] k = "tot"   -> <<" "," "," ","2","0"," "," ","1"," "," ","0"," "," ","0"," "," ","0"," ","T","O","T","A","L"," ","N","U","M","B","E","R"," ","O","F"," ","R","E","S","I","D","U","E","S">>
    [] k = "hist"  -> <<" "," ","0"," "," ","0"," "," ","0"," "," ","1"," "," ","0"," "," "," "," ","R","E","S","I","D","U","E","S"," ","P","E","R"," ","A","L","P","H","A"," ","H","E","L","I","X">>
    [] k = "near1" -> <<" "," ","#"," "," ","R","E","S","I","D","U","E">>                                       \* the mark cut short
    [] k = "near2" -> <<" ","#"," "," ","R","E","S","I","D","U","E"," ","A","A"," ","S","T","R","U","C","T","U","R","E">>   \* one blank fewer
    [] k = "near3" -> <<" "," ","#"," "," ","R","E","S","I","D","U","E"," "," ","A"," ","S","T","R","U","C","T","U","R","E">> \* not " AA"
    [] k = "near4" -> <<" "," "," ","#"," "," ","R","E","S","I","D","U","E"," ","A","A"," ","S","T","R","U","C","T","U","R","E">> \* one blank more
    [] k = "table" -> TableMark \o <<" ","S","T","R","U","C","T","U","R","E"," ","B","P","1"," ","B","P","2"," "," ","A","C","C">>
    [] k = "rH"    -> Res("S", " ", "H", ResTail)          \* amino acid letters are class letters too
    [] k = "rE"    -> Res("H", " ", "E", ResTail)
    [] k = "rB"    -> Res("G", " ", "B", ResTail)
    [] k = "rG"    -> Res("E", " ", "G", ResTail)
    [] k = "rI"    -> Res("T", " ", "I", ResTail)
    [] k = "rT"    -> Res("I", " ", "T", ResTail)
    [] k = "rS"    -> Res("A", " ", "S", <<" "," "," "," "," "," "," "," ","+">>)
    [] k = "r_"    -> Res("K", " ", " ", ResTail)          \* blank class = coil
    [] k = "rH17"  -> Res("A", " ", "H", <<>>)             \* exactly 17 characters
    [] k = "r_17"  -> Res("A", " ", " ", <<>>)
    [] k = "rEdec" -> Res("H", "T", "E", <<"G"," ","S">>)  \* other class letters right next to column 17
    [] k = "rP"    -> Res("P", " ", "P", ResTail)          \* PPII of DSSP >= 4: not in the supported alphabet
    [] k = "rC"    -> Res("C", " ", "C", ResTail)          \* coil is a blank in the file, never a literal C
    [] k = "rh"    -> Res("A", " ", "h", ResTail)
    [] k = "s16"   -> ResPre \o <<"A", " ", " ">>          \* 16 characters: the class column is missing
    [] k = "s1"    -> <<" ">>
    [] k = "brk"   -> <<" "," "," "," ","8"," "," "," "," "," "," "," "," ","!","*"," "," "," "," "," "," "," "," "," "," "," "," "," ","0"," "," "," ","0">>
    [] k = "brk1"  -> <<" "," "," "," ","8"," "," "," "," "," "," "," "," ","!">>       \* 14 characters
    [] k = "empty" -> <<>>

AllKinds == {"hdr", "v1", "tot", "hist", "near1", "near2", "near3", "near4", "table", "rH", "rE", "rB", "rG", "rI", "rT", "rS",
             "r_", "rH17", "r_17", "rEdec", "rP", "rC", "rh", "s16", "s1", "brk", "brk1", "empty"}
Text(kinds) == [i \in DOMAIN kinds |-> Line(kinds[i])]

=============================================================================
