----------------------------- MODULE AnnotateSeq -----------------------------
(* C17, first half: assigning a per-residue sequence to the selected molecules of a system
   (vermouth.dssp.AnnotateResidues.run_system, the -ss / DSSP path of martinize2).
   system : Seq([sel : BOOLEAN, nres : Nat])     molecules in system order
   n      : length of the sequence; its k-th element is the integer k (distinct symbols)
   Result : ERR, or for every molecule the sequence of per-residue values (0 = left untouched).     *)
EXTENDS Integers, Sequences, FiniteSets, TLC

CONSTANTS MaxMols, MaxRes, MaxSeqExtra

ERR == [err |-> TRUE]
OK(x) == [err |-> FALSE, val |-> x]

RECURSIVE SumSeq(_)
SumSeq(s) == IF s = <<>> THEN 0 ELSE Head(s) + SumSeq(Tail(s))

SelIdx(system) == SelectSeq([i \in DOMAIN system |-> i], LAMBDA i : system[i].sel)   \* indices of selected molecules
Lens(system)   == [j \in DOMAIN SelIdx(system) |-> system[SelIdx(system)[j]].nres]
AllEqual(s)    == \A i, j \in DOMAIN s : s[i] = s[j]
Repeat(s, k)   == [i \in 1..(Len(s) * k) |-> s[((i - 1) % Len(s)) + 1]]
TheSeq(n)      == [k \in 1..n |-> k]

\* the three documented scenarios, in the order the implementation tests them
Reconcile(system, n) ==
  LET L == Lens(system) IN
  IF n > 0 /\ L = <<>> THEN ERR
  ELSE IF L # <<>> /\ n = L[1] /\ AllEqual(L) THEN OK(Repeat(TheSeq(n), Len(L)))
  ELSE IF n = 1 THEN OK(Repeat(TheSeq(1), SumSeq(L)))
  ELSE IF n # SumSeq(L) THEN ERR
  ELSE OK(TheSeq(n))

Offset(L, j) == SumSeq(SubSeq(L, 1, j - 1))

(* declarative: element k of the reconciled sequence is on residue k of the selection *)
AnnotateDecl(system, n) ==
  LET R == Reconcile(system, n)
      S == SelIdx(system)
      L == Lens(system)
  IN IF R.err THEN ERR
     ELSE OK([i \in DOMAIN system |->
             IF system[i].sel
             THEN LET j == CHOOSE x \in DOMAIN S : S[x] = i IN [r \in 1..system[i].nres |-> R.val[Offset(L, j) + r]]
             ELSE [r \in 1..system[i].nres |-> 0]])

(* operational: the cursor walk of the implementation over the selected molecules *)
RECURSIVE Walk(_, _, _, _, _)
Walk(system, R, i, begin, acc) ==
  IF i > Len(system) THEN acc
  ELSE IF system[i].sel
       THEN Walk(system, R, i + 1, begin + system[i].nres,
                 Append(acc, [r \in 1..system[i].nres |-> R[begin + r]]))
       ELSE Walk(system, R, i + 1, begin, Append(acc, [r \in 1..system[i].nres |-> 0]))

AnnotateOp(system, n) ==
  LET R == Reconcile(system, n) IN IF R.err THEN ERR ELSE OK(Walk(system, R.val, 1, 0, <<>>))

(* ---- TAB model: the system grows molecule by molecule, then a sequence length is chosen ---- *)
VARIABLES system, n, out
vars == <<system, n, out>>
NOSEQ == -1

Init == system = <<>> /\ n = NOSEQ /\ out = ERR
AddMol(s, k) == /\ n = NOSEQ /\ Len(system) < MaxMols
                /\ system' = Append(system, [sel |-> s, nres |-> k])
                /\ UNCHANGED <<n, out>>
Choose(k) == /\ n = NOSEQ
             /\ n' = k
             /\ out' = AnnotateDecl(system, k)
             /\ UNCHANGED system
Next == (\E s \in BOOLEAN, k \in 1..MaxRes : AddMol(s, k))
        \/ (\E k \in 0..(MaxMols * MaxRes + MaxSeqExtra) : k <= SumSeq([i \in DOMAIN system |-> system[i].nres]) + MaxSeqExtra /\ Choose(k))
Spec == Init /\ [][Next]_vars

OpIsDecl == n # NOSEQ => AnnotateOp(system, n) = out
UnselectedUntouched ==
  (n # NOSEQ /\ ~out.err) => \A i \in DOMAIN system : ~system[i].sel => \A r \in DOMAIN out.val[i] : out.val[i][r] = 0
EveryElementLands ==       \* when nothing is repeated, element k is on exactly one residue: the k-th of the selection
  (n # NOSEQ /\ ~out.err /\ n = SumSeq(Lens(system)) /\ ~(n = 1) /\ ~(Lens(system) # <<>> /\ n = Lens(system)[1] /\ AllEqual(Lens(system))))
     => \A k \in 1..n : Cardinality({<<i, r>> \in (DOMAIN system) \X (1..MaxRes) : r \in DOMAIN out.val[i] /\ out.val[i][r] = k}) = 1
MismatchIsError ==
  (n # NOSEQ /\ n # 1 /\ n # SumSeq(Lens(system)) /\ ~(Lens(system) # <<>> /\ n = Lens(system)[1] /\ AllEqual(Lens(system))))
     => out.err
=============================================================================
