------------------------------- MODULE Bonds -------------------------------
(* C10 - bond guessing (vermouth.processors.make_bonds.MakeBonds.run_system).

   A system s is a record (also the JSON form judged by Trace_Bonds):
     atoms  : Seq([mol, chain, resid, icode, resname, name, el, x, y, z])
              mol = index of the INPUT molecule; x,y,z integer picometres; the atom is identified by its
              position in the sequence.  "-" = attribute absent (name, el, chain, icode, resname), resid -1 = absent.
     old    : Seq(<<i, j>>)    pre-existing bonds (always inside one input molecule)
     blocks : Seq([resname, names : Seq(STRING), edges : Seq(<<name, name>>)])   reference blocks of the force field
     name, dist : BOOLEAN      allow_name / allow_dist
     fn, fd     : fudge factor = fn / fd

   Every operator takes a variant v.  v = SPEC is the property; every other variant is the property with ONE clause
   dropped or changed.  Sensitive(s) = the variants whose result differs from the property's on s: the input s then
   "decides" those clauses.  This is how TLC (not the harness) certifies that a generated case has a given clause as
   its deciding factor, and how vacuity of a generator family becomes visible.                                      *)
EXTENDS Integers, Sequences, FiniteSets, TLC

CONSTANTS Els, XPairs, Fudges, NameTriples, ResnameTriples, MolTriples, ResidTriples, OldChoices, Modes,
          SweepEls, SweepFudges

SPEC == "spec"

(* Van der Waals radii in pm: A. Bondi, J. Phys. Chem. 68 (1964) 441, table I (non-metals); deuterium as hydrogen.
   This table is part of the specification and is NOT read from the implementation.                               *)
Radius == ( "H" :> 120 @@ "D" :> 120 @@ "He" :> 140 @@ "C" :> 170 @@ "N" :> 155 @@ "O" :> 152 @@ "F" :> 147 @@
            "Ne" :> 154 @@ "Si" :> 210 @@ "P" :> 180 @@ "S" :> 180 @@ "Cl" :> 175 @@ "Ar" :> 188 @@ "As" :> 185 @@
            "Se" :> 190 @@ "Br" :> 185 @@ "Kr" :> 202 @@ "Te" :> 206 @@ "I" :> 198 @@ "Xe" :> 216 )

MAXINT == 2147483647
ConjNames == {"radii", "within", "nonedge", "hh", "hacross", "bonded"}
Variants == ConjNames \cup
            {"tight", "loose", "se1900",                                       \* threshold / table errors
             "no-mol", "no-chain", "no-resid", "no-icode", "no-resname",       \* residue identity lacks one component
             "atomcomp", "allone", "lose-isolated",                            \* molecule split
             "no-old", "no-nameedges", "names-always",                         \* kept / name-based bonds
             "dup-as-named", "nofallback", "fallback-nodist"}                  \* fall-back

\* TLC keeps set expressions lazy (a filter is re-run at every membership test); F forces an explicit set
F(x)      == TLCEval(x)
Idx(s)    == 1..Len(s.atoms)
Pairs(s)  == F({p \in Idx(s) \X Idx(s) : p[1] < p[2]})
Norm(i, j) == IF i < j THEN <<i, j>> ELSE <<j, i>>
At(s, i)  == s.atoms[i]
MinOf(S)  == CHOOSE x \in S : \A y \in S : x <= y
Abs(x)    == IF x < 0 THEN -x ELSE x

(* ---------------------------------------------------------------- residues *)
\* residue identity: the input molecule index is part of it, so is the insertion code
ResKey(v, a) == << IF v = "no-mol" THEN 0 ELSE a.mol,
                   IF v = "no-chain" THEN "" ELSE a.chain,
                   IF v = "no-resid" THEN 0 ELSE a.resid,
                   IF v = "no-icode" THEN "" ELSE a.icode,
                   IF v = "no-resname" THEN "" ELSE a.resname >>
SameRes(s, v, i, j) == ResKey(v, At(s, i)) = ResKey(v, At(s, j))
ResOf(s, v, i)      == F({j \in Idx(s) : SameRes(s, v, i, j)})
Residues(s, v)      == F({ResOf(s, v, i) : i \in Idx(s)})
ResName(s, R)       == At(s, MinOf(R)).resname

(* --------------------------------------------------------- reference blocks *)
HasBlock(s, rn) == \E k \in DOMAIN s.blocks : s.blocks[k].resname = rn
BlockOf(s, rn)  == s.blocks[CHOOSE k \in DOMAIN s.blocks : s.blocks[k].resname = rn]
BNames(b)       == {b.names[k] : k \in DOMAIN b.names}
BEdge(b, n1, n2) == \E k \in DOMAIN b.edges : b.edges[k] = <<n1, n2>> \/ b.edges[k] = <<n2, n1>>

NameOn(s, v) == s.name \/ v = "names-always"
Dup(s, R)    == \E i, j \in R : i < j /\ At(s, i).name # "-" /\ At(s, i).name = At(s, j).name
\* a residue gets its bonds from the block iff names are allowed, the block exists and no atom name occurs twice
NameBased(s, v, R) == NameOn(s, v) /\ HasBlock(s, ResName(s, R)) /\ (v = "dup-as-named" \/ ~Dup(s, R))
\* ... otherwise (names allowed) it is a fall-back residue: distances only, no non-edges
FallBack(s, v, R)  == NameOn(s, v) /\ ~NameBased(s, v, R)

OldE(s, v) == IF v = "no-old" THEN {} ELSE F({Norm(s.old[k][1], s.old[k][2]) : k \in DOMAIN s.old})

PairsIn(R) == {p \in R \X R : p[1] < p[2]}
NamedRes(s, v)    == F({R \in Residues(s, v) : NameBased(s, v, R)})
FallBackRes(s, v) == F({R \in Residues(s, v) : FallBack(s, v, R)})
\* name-based bonds: exactly the block's bonds among the atoms present (by name) in a residue bonded by names
NameEdges(s, v) ==
  IF v = "no-nameedges" THEN {} ELSE
  F(UNION { LET b == BlockOf(s, ResName(s, R)) IN {p \in PairsIn(R) : BEdge(b, At(s, p[1]).name, At(s, p[2]).name)}
            : R \in NamedRes(s, v) })
\* non-edges: pairs of present atoms the block knows and does not bond
NonEdges(s, v) == F(
  UNION { LET b == BlockOf(s, ResName(s, R)) IN
          {p \in PairsIn(R) : LET n1 == At(s, p[1]).name
                                  n2 == At(s, p[2]).name
                              IN n1 \in BNames(b) /\ n2 \in BNames(b) /\ n1 # n2 /\ ~BEdge(b, n1, n2)}
          : R \in NamedRes(s, v) })

(* ------------------------------------------------------------ distance rule *)
Sq(x) == x * x
D2(s, i, j) == Sq(At(s, i).x - At(s, j).x) + Sq(At(s, i).y - At(s, j).y) + Sq(At(s, i).z - At(s, j).z)
Known(el)  == el \in DOMAIN Radius
MinRadius  == 120
\* elements without a radius never bond (conjunct "radii"); the smallest radius is given to them ONLY to classify
\* pairs ("would be close enough whatever the element") and in the variant that drops that conjunct
Rad(v, el) == IF ~Known(el) THEN MinRadius
              ELSE IF v = "se1900" /\ el = "Se" THEN 1900
              ELSE Radius[el] + (IF v = "loose" THEN 3 ELSE IF v = "tight" THEN -3 ELSE 0)
RSum(s, v, i, j) == Rad(v, At(s, i).el) + Rad(v, At(s, j).el)
\* d <= (fn/fd) * (ra + rb)/2   <=>   4 fd^2 d^2 <= (fn (ra+rb))^2   <=>   d^2 <= floor(X^2 / g^2),  X = fn (ra+rb), g = 2 fd.
\* With X = a g + b the floor is a^2 + floor((2 a b g + b^2) / g^2); every intermediate value fits in 32 bits.
Thr2(s, v, i, j) == LET g == 2 * s.fd
                        X == s.fn * RSum(s, v, i, j)
                        a == X \div g
                        b == X % g
                    IN a * a + (2 * a * b * g + b * b) \div (g * g)
Within(s, v, i, j) == D2(s, i, j) <= Thr2(s, v, i, j)
\* "numerically on the threshold": relative difference of the squares <= 1e-6; such inputs are outside the property
Near(s, i, j) == /\ Known(At(s, i).el) /\ Known(At(s, j).el)
                 /\ LET L == 4 * s.fd * s.fd
                        T == s.fn * s.fn * Sq(RSum(s, SPEC, i, j)) IN
                    /\ D2(s, i, j) <= MAXINT \div L      \* beyond that the pair is far from any threshold
                    /\ Abs(D2(s, i, j) * L - T) <= T \div 1000000
AnyNear(s) == \E p \in Pairs(s) : Near(s, p[1], p[2])

\* the six conjuncts
CRadii(s, p)      == Known(At(s, p[1]).el) /\ Known(At(s, p[2]).el)
CWithin(s, v, p)  == Within(s, v, p[1], p[2])
CNonEdge(NE, p)   == p \notin NE
CNotHH(s, p)      == ~(At(s, p[1]).el = "H" /\ At(s, p[2]).el = "H")
CNoHAcross(s, v, p) == SameRes(s, v, p[1], p[2]) \/ (At(s, p[1]).el # "H" /\ At(s, p[2]).el # "H")
CNotBonded(B, p)  == p \notin B

Rule(s, v, p, NE, B) == /\ (v = "radii"   \/ CRadii(s, p))
                        /\ (v = "within"  \/ CWithin(s, v, p))
                        /\ (v = "nonedge" \/ CNonEdge(NE, p))
                        /\ (v = "hh"      \/ CNotHH(s, p))
                        /\ (v = "hacross" \/ CNoHAcross(s, v, p))
                        /\ (v = "bonded"  \/ CNotBonded(B, p))

\* which conjuncts fail for a pair (property variant), given the non-edges NE and the bonds B made before distances
\* are looked at; {} = the pair gets a distance bond when distances are allowed
FailingGiven(s, p, NE, B) ==
                 {c \in ConjNames : \/ c = "radii"   /\ ~CRadii(s, p)
                                    \/ c = "within"  /\ ~CWithin(s, SPEC, p)
                                    \/ c = "nonedge" /\ ~CNonEdge(NE, p)
                                    \/ c = "hh"      /\ ~CNotHH(s, p)
                                    \/ c = "hacross" /\ ~CNoHAcross(s, SPEC, p)
                                    \/ c = "bonded"  /\ ~CNotBonded(B, p)}
Failing(s, p) == FailingGiven(s, p, NonEdges(s, SPEC), OldE(s, SPEC) \cup NameEdges(s, SPEC))

(* ------------------------------------------------- declarative form (statement) *)
\* distance bonds, given the non-edges NE and the bonds B present before distances are looked at
DistEdgesGiven(s, v, NE, B) ==
  LET FB == F(UNION {PairsIn(R) : R \in FallBackRes(s, v)})      \* pairs inside fall-back residues
  IN F(IF s.dist
       THEN {p \in Pairs(s) : Rule(s, v, p, NE, B) /\ ~(v = "nofallback" /\ p \in FB)}
       ELSE IF v = "fallback-nodist" THEN {p \in FB : Rule(s, v, p, {}, B)}
       ELSE {})
DistEdges(s, v) == DistEdgesGiven(s, v, NonEdges(s, v), F(OldE(s, v) \cup NameEdges(s, v)))
Edges(s, v)     == F(OldE(s, v) \cup NameEdges(s, v) \cup DistEdges(s, v))
\* bonds that carry a 'distance' attribute (name-based and guessed ones), with the squared length in pm^2
WithD2(s, P)    == F({<<p[1], p[2], D2(s, p[1], p[2])>> : p \in P})
DistAttr(s, v)  == WithD2(s, NameEdges(s, v) \cup DistEdges(s, v))

(* ------------------------------- operational form (order of the implementation) *)
OpOut(s) ==
  LET NE == NonEdges(s, SPEC)                                            \* gathered in the loop over residues
      P1 == F(OldE(s, SPEC) \cup NameEdges(s, SPEC))                      \* loop over residues: edges by name ...
      FB == IF s.name /\ s.dist                                          \* ... or, in the same loop, the fall-back
            THEN F({p \in UNION {PairsIn(R) : R \in FallBackRes(s, SPEC)} : Rule(s, SPEC, p, {}, P1)})
            ELSE {}
      P2 == F(P1 \cup FB)
      GL == IF s.dist THEN F({p \in Pairs(s) : Rule(s, SPEC, p, NE, P2)}) ELSE {}   \* global pass sees everything so far
  IN [edges |-> F(P2 \cup GL), dist |-> WithD2(s, NameEdges(s, SPEC) \cup FB \cup GL)]

(* ------------------------------------------------------------ molecule split *)
UnitAdj(E, U, W) == U # W /\ \E p \in E : (p[1] \in U /\ p[2] \in W) \/ (p[2] \in U /\ p[1] \in W)
RECURSIVE Close(_, _)
Close(S, A) == LET N == F(S \cup {uw[2] : uw \in {x \in A : x[1] \in S}}) IN IF N = S THEN S ELSE Close(N, A)
Comps(Units, E) == LET A == F({uw \in Units \X Units : UnitAdj(E, uw[1], uw[2])}) IN F({Close({u}, A) : u \in Units})

MolsGiven(s, v, E) ==
  LET Units == IF v = "atomcomp" THEN {{i} : i \in Idx(s)} ELSE Residues(s, v)
      M     == F({UNION c : c \in Comps(Units, E)})
  IN IF v = "allone" THEN {Idx(s)}
     ELSE IF v = "lose-isolated" THEN F({m \in M : Cardinality(m) > 1})
     ELSE M
Molecules(s, v) == MolsGiven(s, v, Edges(s, v))

\* the result of bond guessing: molecules (sets of atoms), bonds, bonds carrying a distance
Out(s, v) == LET O == OldE(s, v)
                 N == NameEdges(s, v)
                 D == DistEdgesGiven(s, v, NonEdges(s, v), F(O \cup N))
                 E == F(O \cup N \cup D)
             IN [mols |-> MolsGiven(s, v, E), edges |-> E, dist |-> WithD2(s, N \cup D)]
Sensitive(s) == LET o == Out(s, SPEC) IN {v \in Variants : Out(s, v) # o}

(* ============================================= the same criteria, arranged for large systems ==
   Out(s, SPEC) looks at every pair of atoms with every operator of the statement and is affordable up to a few dozen
   atoms.  FastOut(s) is the SAME result for systems of thousands of atoms (real structures):
     - residues are computed once (per-atom residue number rid = lowest atom of the residue),
     - name bonds / non-bonds are predicates of a pair instead of sets,
     - the distance rule is only evaluated for pairs whose coordinates differ by at most CMax in every direction;
       CMax is at least the largest threshold any two elements of the table can have, so no pair is missed,
     - components are found by breadth-first search on the residue graph.
   FastIsDecl (TAB model: every 3-atom system) and the trace judge (every generated system of <= 14 atoms) check
   FastOut(s) = Out(s, SPEC); nothing of the statement is restated here - Rule's conjuncts are re-used.            *)
MaxRadius   == 216
RadiusBound == \A e \in DOMAIN Radius : Radius[e] <= MaxRadius
CMax(s)     == (s.fn * MaxRadius) \div s.fd + 1
CloseBox(s, cm, i, j) == /\ Abs(At(s, i).x - At(s, j).x) <= cm
                         /\ Abs(At(s, i).y - At(s, j).y) <= cm
                         /\ Abs(At(s, i).z - At(s, j).z) <= cm
\* all pairs i < j with CloseBox: atoms are sorted into square columns of side cm (x and y), a pair can only be close
\* when the columns are the same or neighbours
CandPairs(s) ==
  LET cm  == CMax(s)
      x0  == MinOf({At(s, i).x : i \in Idx(s)})
      y0  == MinOf({At(s, i).y : i \in Idx(s)})
      bx  == F([i \in Idx(s) |-> (At(s, i).x - x0) \div cm])
      by  == F([i \in Idx(s) |-> (At(s, i).y - y0) \div cm])
      BXs  == F({bx[i] : i \in Idx(s)})
      BYs  == F({by[i] : i \in Idx(s)})
      slab == F([b \in BXs |-> F({i \in Idx(s) : bx[i] = b})])
      col  == F([b \in BXs |-> F([d \in BYs |-> F({i \in slab[b] : by[i] = d})])])
      around(i) == UNION {col[b][d] : b \in {bx[i] - 1, bx[i], bx[i] + 1} \cap BXs, d \in {by[i] - 1, by[i], by[i] + 1} \cap BYs}
  IN F(UNION {{<<i, j>> : j \in {j \in around(i) : i < j /\ CloseBox(s, cm, i, j)}} : i \in Idx(s)})
BlockIdx(s, rn) == IF HasBlock(s, rn) THEN CHOOSE k \in DOMAIN s.blocks : s.blocks[k].resname = rn ELSE 0

\* per-atom tables: rid = residue (its lowest atom), nb = the residue is bonded by names, fb = it is a fall-back
\* residue, bi = index of its block (0 = none); res = the residues as sets of atoms; ats = atoms of residue rid
Ctx(s) ==
  LET rk   == F([i \in Idx(s) |-> ResKey(SPEC, At(s, i))])
      Keys == F({rk[i] : i \in Idx(s)})
      G    == F([k \in Keys |-> F({i \in Idx(s) : rk[i] = k})])
      fst  == F([k \in Keys |-> MinOf(G[k])])
      nbk  == F([k \in Keys |-> NameBased(s, SPEC, G[k])])
      fbk  == F([k \in Keys |-> FallBack(s, SPEC, G[k])])
  IN [rid |-> F([i \in Idx(s) |-> fst[rk[i]]]),
      nb  |-> F([i \in Idx(s) |-> nbk[rk[i]]]),
      fb  |-> F([i \in Idx(s) |-> fbk[rk[i]]]),
      bi  |-> F([i \in Idx(s) |-> BlockIdx(s, At(s, i).resname)]),
      res |-> F({G[k] : k \in Keys}),
      ats |-> F([r \in {fst[k] : k \in Keys} |-> G[rk[r]]])]
SameResC(c, i, j)     == c.rid[i] = c.rid[j]
NameEdgeC(s, c, i, j) == /\ SameResC(c, i, j) /\ c.nb[i]
                         /\ BEdge(s.blocks[c.bi[i]], At(s, i).name, At(s, j).name)
NonEdgeC(s, c, i, j)  == /\ SameResC(c, i, j) /\ c.nb[i]
                         /\ LET b  == s.blocks[c.bi[i]]
                                n1 == At(s, i).name
                                n2 == At(s, j).name
                            IN n1 \in BNames(b) /\ n2 \in BNames(b) /\ n1 # n2 /\ ~BEdge(b, n1, n2)
NoHAcrossC(s, c, p)   == SameResC(c, p[1], p[2]) \/ (At(s, p[1]).el # "H" /\ At(s, p[2]).el # "H")
\* the six conjuncts, cheapest first; ne = FALSE inside the fall-back pass (the block's non-bonds do not apply there)
RuleC(s, c, p, ne, B) == /\ CRadii(s, p) /\ CNotHH(s, p) /\ NoHAcrossC(s, c, p)
                         /\ CWithin(s, SPEC, p)
                         /\ ~(ne /\ NonEdgeC(s, c, p[1], p[2]))
                         /\ CNotBonded(B, p)
FailingC(s, c, p, B) == {x \in ConjNames : \/ x = "radii"   /\ ~CRadii(s, p)
                                           \/ x = "within"  /\ ~CWithin(s, SPEC, p)
                                           \/ x = "nonedge" /\ NonEdgeC(s, c, p[1], p[2])
                                           \/ x = "hh"      /\ ~CNotHH(s, p)
                                           \/ x = "hacross" /\ ~NoHAcrossC(s, c, p)
                                           \/ x = "bonded"  /\ ~CNotBonded(B, p)}
NameEdgesC(s, c) == F(UNION {{p \in PairsIn(R) : NameEdgeC(s, c, p[1], p[2])} : R \in {Q \in c.res : c.nb[MinOf(Q)]}})

\* residue graph and its components by breadth-first search; residues are named by their lowest atom
RECURSIVE Reach(_, _, _)
Reach(V, Fr, A) == IF Fr = {} THEN V
                   ELSE LET N == F({x[2] : x \in {y \in A : y[1] \in Fr}} \ V) IN Reach(F(V \cup N), N, A)
RECURSIVE CompsFrom(_, _, _)
CompsFrom(U, A, acc) == IF U = {} THEN acc
                        ELSE LET cc == Reach({MinOf(U)}, {MinOf(U)}, A) IN CompsFrom(F(U \ cc), A, acc \cup {cc})
MolsC(s, c, E) ==
  LET A  == F(UNION {{<<c.rid[p[1]], c.rid[p[2]]>>, <<c.rid[p[2]], c.rid[p[1]]>>} : p \in {q \in E : c.rid[q[1]] # c.rid[q[2]]}})
      RS == F({c.rid[i] : i \in Idx(s)})
      CC == CompsFrom(RS, A, {})
  IN F({F(UNION {c.ats[r] : r \in cc}) : cc \in CC})

\* cand = CandPairs(s), computed once by the caller
FastOutC(s, c, cand) ==
  LET O  == OldE(s, SPEC)
      N  == NameEdgesC(s, c)
      B0 == F(O \cup N)
      D  == IF s.dist THEN F({p \in cand : RuleC(s, c, p, TRUE, B0)}) ELSE {}
      E  == F(B0 \cup D)
  IN [mols |-> MolsC(s, c, E), edges |-> E, dist |-> WithD2(s, N \cup D), named |-> N, guessed |-> D]
FastOut(s) == LET o == FastOutC(s, Ctx(s), CandPairs(s)) IN [mols |-> o.mols, edges |-> o.edges, dist |-> o.dist]
\* "numerically on a threshold", for large systems
AnyNearC(s, cand) == \E p \in cand : Near(s, p[1], p[2])

(* ------------------------------------------------------------- well-formedness *)
\* large systems: coordinates up to 100 nm (differences stay far below 2^31; squares are only taken of close pairs)
WellFormedBig(s) ==
  /\ Len(s.atoms) >= 1
  /\ s.fn \in 1..20 /\ s.fd \in 1..20
  /\ \A i \in Idx(s) : Abs(At(s, i).x) <= 100000 /\ Abs(At(s, i).y) <= 100000 /\ Abs(At(s, i).z) <= 100000
  /\ \A k \in DOMAIN s.old : /\ s.old[k][1] \in Idx(s) /\ s.old[k][2] \in Idx(s) /\ s.old[k][1] # s.old[k][2]
                             /\ At(s, s.old[k][1]).mol = At(s, s.old[k][2]).mol
  /\ \A k \in DOMAIN s.blocks :
        LET b == s.blocks[k] IN
        /\ b.resname # "-" /\ Len(b.names) >= 1
        /\ \A m \in DOMAIN s.blocks : m # k => s.blocks[m].resname # b.resname
        /\ \A x, y \in DOMAIN b.names : x # y => b.names[x] # b.names[y]
        /\ \A x \in DOMAIN b.names : b.names[x] # "-"
        /\ \A e \in DOMAIN b.edges : b.edges[e][1] \in BNames(b) /\ b.edges[e][2] \in BNames(b) /\ b.edges[e][1] # b.edges[e][2]

WellFormed(s) ==
  /\ Len(s.atoms) >= 1
  /\ s.fn \in 1..20 /\ s.fd \in 1..20
  /\ \A i \in Idx(s) : Abs(At(s, i).x) <= 10000 /\ Abs(At(s, i).y) <= 10000 /\ Abs(At(s, i).z) <= 10000
  /\ \A k \in DOMAIN s.old : /\ s.old[k][1] \in Idx(s) /\ s.old[k][2] \in Idx(s) /\ s.old[k][1] # s.old[k][2]
                             /\ At(s, s.old[k][1]).mol = At(s, s.old[k][2]).mol
  /\ \A k \in DOMAIN s.blocks :
        LET b == s.blocks[k] IN
        /\ b.resname # "-" /\ Len(b.names) >= 1
        /\ \A m \in DOMAIN s.blocks : m # k => s.blocks[m].resname # b.resname
        /\ \A x, y \in DOMAIN b.names : x # y => b.names[x] # b.names[y]
        /\ \A x \in DOMAIN b.names : b.names[x] # "-"
        /\ \A e \in DOMAIN b.edges : b.edges[e][1] \in BNames(b) /\ b.edges[e][2] \in BNames(b) /\ b.edges[e][1] # b.edges[e][2]

(* ================================================================= TAB model ==
   three families of small systems on a line; State = (input, expected result, sensitive variants).
   core  : every system of three atoms: elements x positions x residue numbers x input molecules x residue names
           x atom names (incl. a middle atom the block does not know) x pre-existing bonds x modes x fudge;
   sweep : two atoms of EVERY ordered pair of elements of SweepEls (the whole radius table and an element without
           radius), at the largest lattice distance that is still within the threshold and one lattice step beyond it,
           same residue / two residues, every fudge factor of SweepFudges (rationals below and above 1).  When the
           threshold itself is a lattice point the inner position is ON the threshold: the statement says "within",
           i.e. such a pair IS bonded (OnThresholdInside); out.near marks these states - the harness reports what the
           implementation does with them but does not judge it (floating point decides).                           *)
VARIABLES sys, out, sens
vars == <<sys, out, sens>>
PENDING == {"pending"}
Done == sens # PENDING

TabBlocks == << [resname |-> "R", names |-> <<"A", "B", "C">>, edges |-> << <<"A", "B">> >>] >>
Build(el, xp, rid, ml, rn, nm, od, mode, fu) ==
  [atoms |-> [k \in 1..3 |-> [mol |-> ml[k], chain |-> "A", resid |-> rid[k], icode |-> "", resname |-> rn[k],
                              name |-> nm[k], el |-> el[k], x |-> IF k = 1 THEN 0 ELSE xp[k - 1], y |-> 0, z |-> 0]],
   old |-> od, blocks |-> TabBlocks, name |-> mode[1], dist |-> mode[2], fn |-> fu[1], fd |-> fu[2]]
\* largest multiple of 10 pm that is <= fudge * (r1 + r2) / 2
XIn(e1, e2, fu) == ((fu[1] * (Rad(SPEC, e1) + Rad(SPEC, e2))) \div (20 * fu[2])) * 10
Build2(e1, e2, step, two, fu) ==
  [atoms |-> [k \in 1..2 |-> [mol |-> 0, chain |-> "A", resid |-> IF two /\ k = 2 THEN 2 ELSE 1, icode |-> "",
                              resname |-> "U", name |-> IF k = 1 THEN "A" ELSE "B", el |-> IF k = 1 THEN e1 ELSE e2,
                              x |-> IF k = 1 THEN 0 ELSE XIn(e1, e2, fu) + step, y |-> 0, z |-> 0]],
   old |-> <<>>, blocks |-> TabBlocks, name |-> FALSE, dist |-> TRUE, fn |-> fu[1], fd |-> fu[2]]

Start(s) == /\ WellFormed(s)
            /\ sys = s
            /\ out = [mols |-> {}, edges |-> {}, dist |-> {}, near |-> FALSE]
            /\ sens = PENDING
InitCore  == \E el \in [1..3 -> Els], xp \in XPairs, rid \in ResidTriples, ml \in MolTriples, rn \in ResnameTriples,
                nm \in NameTriples, od \in OldChoices, mode \in Modes, fu \in Fudges :
               LET s == Build(el, xp, rid, ml, rn, nm, od, mode, fu) IN ~AnyNear(s) /\ Start(s)
InitSweep == \E e1 \in SweepEls, e2 \in SweepEls, step \in {0, 10}, two \in BOOLEAN, fu \in SweepFudges :
               Start(Build2(e1, e2, step, two, fu))
Init == InitCore \/ InitSweep
\* the evaluation is a step so that TLC's workers share it
Eval == /\ sens = PENDING
        /\ LET o == Out(sys, SPEC) IN
           out' = [mols |-> o.mols, edges |-> o.edges, dist |-> o.dist, near |-> AnyNear(sys)]
        /\ sens' = Sensitive(sys)
        /\ UNCHANGED sys
Next == Eval
Spec == Init /\ [][Next]_vars

\* second initial predicate: exports the constant table and the variant names to the harness (input generation aims
\* at the thresholds with the SPEC's radii, never with the implementation's)
TblInit == sys = Radius /\ out = Variants /\ sens = ConjNames

(* ---- what the model is checked for (clauses of the statement, written independently of Molecules/Edges) ---- *)
ResIn(M)   == {R \in Residues(sys, SPEC) : R \subseteq M}
Partition_  == /\ UNION out.mols = Idx(sys)
              /\ \A M1, M2 \in out.mols : M1 # M2 => M1 \cap M2 = {}
              /\ {} \notin out.mols
ResiduesWhole_ == \A R \in Residues(sys, SPEC) : \E M \in out.mols : R \subseteq M
\* no way to cut the residues of a molecule in two parts without cutting a bond ...
MolConnected_  == \A M \in out.mols : \A S \in SUBSET ResIn(M) :
                    (S # {} /\ S # ResIn(M)) => \E R \in S, Q \in ResIn(M) \ S : UnitAdj(out.edges, R, Q)
\* ... and no bond between two molecules
MolMaximal_    == \A p \in out.edges : \E M \in out.mols : p[1] \in M /\ p[2] \in M
InputMolsNeverFused_ == \A i, j \in Idx(sys) : At(sys, i).mol # At(sys, j).mol => ResOf(sys, SPEC, i) # ResOf(sys, SPEC, j)
OldKept_       == \A k \in DOMAIN sys.old : Norm(sys.old[k][1], sys.old[k][2]) \in out.edges
NameExact_     ==   \* in a residue bonded by names, two atoms the block knows are bonded iff the block (or the input) says so
  \A p \in Pairs(sys) :
     (SameRes(sys, SPEC, p[1], p[2]) /\ NameBased(sys, SPEC, ResOf(sys, SPEC, p[1]))
      /\ At(sys, p[1]).name \in BNames(BlockOf(sys, At(sys, p[1]).resname))
      /\ At(sys, p[2]).name \in BNames(BlockOf(sys, At(sys, p[1]).resname)))
     => (p \in out.edges <=> (BEdge(BlockOf(sys, At(sys, p[1]).resname), At(sys, p[1]).name, At(sys, p[2]).name)
                              \/ p \in OldE(sys, SPEC)))
GuessedObeyCriteria_ ==   \* every bond that is neither old nor from a block satisfies every conjunct
  \A p \in out.edges \ (OldE(sys, SPEC) \cup NameEdges(sys, SPEC)) :
     /\ sys.dist /\ CRadii(sys, p) /\ Within(sys, SPEC, p[1], p[2]) /\ CNotHH(sys, p) /\ CNoHAcross(sys, SPEC, p)
NothingWithoutMode_ == (~sys.name /\ ~sys.dist) => out.edges = OldE(sys, SPEC)
OpIsDecl_      == OpOut(sys).edges = out.edges /\ OpOut(sys).dist = out.dist
DistOnlyOnNew_ == \A t \in out.dist : <<t[1], t[2]>> \in out.edges
\* the arrangement for large systems is the same function
FastIsDecl_    == LET f == FastOut(sys) IN f.mols = out.mols /\ f.edges = out.edges /\ f.dist = out.dist
\* a pair EXACTLY on the threshold is within it: it is bonded when nothing else forbids it
OnThreshold(s, p) == CRadii(s, p) /\ 4 * s.fd * s.fd * D2(s, p[1], p[2]) = s.fn * s.fn * Sq(RSum(s, SPEC, p[1], p[2]))
OnThresholdInside_ == \A p \in Pairs(sys) :
                        (sys.dist /\ OnThreshold(sys, p) /\ p \notin NonEdges(sys, SPEC) /\ CNotHH(sys, p)
                         /\ CNoHAcross(sys, SPEC, p)) => p \in out.edges
Partition == Done => Partition_
ResiduesWhole == Done => ResiduesWhole_
MolConnected == Done => MolConnected_
MolMaximal == Done => MolMaximal_
InputMolsNeverFused == Done => InputMolsNeverFused_
OldKept == Done => OldKept_
NameExact == Done => NameExact_
GuessedObeyCriteria == Done => GuessedObeyCriteria_
NothingWithoutMode == Done => NothingWithoutMode_
OpIsDecl == Done => OpIsDecl_
DistOnlyOnNew == Done => DistOnlyOnNew_
FastIsDecl == Done => FastIsDecl_
OnThresholdInside == Done => OnThresholdInside_
TableBounded == RadiusBound
=============================================================================
