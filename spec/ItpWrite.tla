------------------------------ MODULE ItpWrite ------------------------------
(* C02 - a written ITP states exactly the molecule held in memory.

   Abstract molecule  m = [nodes |-> Seq([key, aid, f]), inter |-> Seq([type, at, p, g, grp, com])]
     nodes   in INSERTION order of the graph; key = node key (any integer, sparse, unordered);
             aid = the 'atomid' attribute or NOAID when the atom has none;
             f = <<atype, resid, resname, atomname, charge_group, charge, mass>>, opaque tokens (strings),
                 "" for an absent charge / mass
     inter   in insertion order; at = node KEYS, p = parameter tokens, g = guard stack (<<>> or
             <<[kind |-> "ifdef"|"ifndef", name |-> macro]>>), grp = meta 'group' or "", com = meta 'comment' or ""

   Abstract records of the text (what harness/indep_readers.py returns for a file, and what Write produces):
     [k |-> "section", s |-> name] [k |-> "atom", a |-> <<nr>>, p |-> tokens after nr]
     [k |-> "inter", s |-> inline comment, a |-> indices, p |-> parameters]
     [k |-> "ifdef"|"ifndef", s |-> macro] [k |-> "endif"] [k |-> "comment", s |-> text]      (all with fields k,s,a,p)
   The reader splits an interaction line into indices / parameters by the arity of its directive in the GROMACS
   manual; for virtual_sitesn (site, function type, constructing atoms) it returns a = <<site>> \o atoms, p = <<ft>>.

   Write(m)   OPERATIONAL: shaped like vermouth.gmx.itp.write_molecule_itp (stable sort by atom id with missing = +inf,
              the key -> index table, sections ordered by (arity of the first interaction, name), impropers renamed,
              stable sort + groupby on (conditional, group), blank charge / mass columns).
   Canon(m)   DECLARATIVE: what the statement says the text must state.
   ReadMol(r) what a GROMACS-format reader understands from the records.
   Property:  ReadMol(Write(m)) = Canon(m)   (TLC, every m of the bounded domain)   and, bound to the code,
              ReadMol(records of the real text) = Canon(m)   (Judge, evaluated by TLC on recorded runs).

   Records, ReadStep / ReadMol and the prologue reader live in ItpText; the second reader of the text (the
   repository's read_itp) and the agreement of the two readings in ItpAgree.  A molecule may carry three more fields,
   used by JudgeFile only: moltype, nrexcl (tokens) and defs = Seq([name, val : Seq(token)]) (meta 'define').
   Node keys are opaque: integers, or strings when a molecule has keys that are not integers (all keys of ONE molecule
   are of one kind).                                                                                              *)
EXTENDS ItpAgree

NOAID == -1
INF   == 1073741824

(* alphabetical tables: Python compares these strings with <; TLC cannot, so the order is stated here *)
SecNames   == <<"angles", "bonds", "cmap", "constraints", "dihedrals", "exclusions", "impropers", "pairs",
                "position_restraints", "settles", "virtual_sites1", "virtual_sites2", "virtual_sites3", "virtual_sitesn">>
MacroNames == <<"A", "B", "POSRES">>
GroupNames == <<"", "g", "h">>
IndexIn(seq, x) == CHOOSE i \in DOMAIN seq : seq[i] = x

-----------------------------------------------------------------------------
(* OPERATIONAL writer *)

AidV(nd) == IF nd.aid = NOAID THEN INF ELSE nd.aid

\* sorted(nodes, key=atomid or inf): stable insertion sort of the POSITIONS 1..n
RECURSIVE InsertPos(_, _, _)
InsertPos(nodes, s, i) ==
  IF s = <<>> THEN <<i>>
  ELSE IF AidV(nodes[Head(s)]) <= AidV(nodes[i]) THEN <<Head(s)>> \o InsertPos(nodes, Tail(s), i)
  ELSE <<i>> \o s
RECURSIVE SortedPos(_, _)
SortedPos(nodes, n) == IF n = 0 THEN <<>> ELSE InsertPos(nodes, SortedPos(nodes, n - 1), n)

KeysOf(nodes) == {nodes[i].key : i \in DOMAIN nodes}
\* correspondence[original key] = idx, filled while enumerating the sorted nodes from 1
Correspondence(nodes, sp) == [k \in KeysOf(nodes) |-> CHOOSE j \in DOMAIN sp : nodes[sp[j]].key = k]

\* '{charge:>w} {mass:>w}' with '' for a missing value: a blank column is no token at all
Tokens(f) == SubSeq(f, 1, 5) \o (IF f[6] # "" THEN <<f[6]>> ELSE <<>>) \o (IF f[7] # "" THEN <<f[7]>> ELSE <<>>)

AtomRecs(nodes, sp) == [j \in DOMAIN sp |-> Rec("atom", "", <<j>>, Tokens(nodes[sp[j]].f))]

OfType(inter, t) == SelectSeq(inter, LAMBDA x : x.type = t)
TypesOf(inter)   == {inter[i].type : i \in DOMAIN inter}
\* Molecule.sort_interactions: key (len(interactions[0].atoms), name)
SecRank(inter) == [t \in TypesOf(inter) |-> Len(OfType(inter, t)[1].at) * 100 + IndexIn(SecNames, t)]
RECURSIVE SortBy(_, _)
SortBy(S, rank) == IF S = {} THEN <<>>
                   ELSE LET x == CHOOSE x \in S : \A y \in S : rank[x] <= rank[y]
                        IN <<x>> \o SortBy(S \ {x}, rank)

\* _interaction_sorting_key: ((), group) < ((name, False), group) < ((name, True), group), names and groups as strings
GuardRank(g) == IF g = NoGuard THEN 0
                ELSE 2 * IndexIn(MacroNames, g[1].name) + (IF g[1].kind = "ifdef" THEN 1 ELSE 0)
KeyOf(x) == GuardRank(x.g) * 100 + IndexIn(GroupNames, x.grp)
RECURSIVE InsertInter(_, _)
InsertInter(s, x) == IF s = <<>> THEN <<x>>
                     ELSE IF KeyOf(Head(s)) <= KeyOf(x) THEN <<Head(s)>> \o InsertInter(Tail(s), x)
                     ELSE <<x>> \o s
RECURSIVE StableSort(_, _)
StableSort(s, n) == IF n = 0 THEN <<>> ELSE InsertInter(StableSort(s, n - 1), s[n])

InterRec(x, corr) == Rec("inter", x.com, [j \in DOMAIN x.at |-> corr[x.at[j]]], x.p)

GroupRecs(srt, corr) ==
  LET n == Len(srt)
      Start(i) == i = 1 \/ KeyOf(srt[i - 1]) # KeyOf(srt[i])
      End(i)   == i = n \/ KeyOf(srt[i + 1]) # KeyOf(srt[i])
      RECURSIVE Emit(_)
      Emit(i) == IF i > n THEN <<>>
                 ELSE (IF Start(i) /\ srt[i].g # NoGuard THEN <<Rec(srt[i].g[1].kind, srt[i].g[1].name, <<>>, <<>>)>> ELSE <<>>)
                   \o (IF Start(i) /\ srt[i].grp # "" THEN <<Rec("comment", srt[i].grp, <<>>, <<>>)>> ELSE <<>>)
                   \o <<InterRec(srt[i], corr)>>
                   \o (IF End(i) /\ srt[i].g # NoGuard THEN <<Rec("endif", "", <<>>, <<>>)>> ELSE <<>>)
                   \o Emit(i + 1)
  IN Emit(1)

SectionRecs(inter, t, corr) ==
  LET own == OfType(inter, t)
  IN <<Rec("section", IF t = "impropers" THEN "dihedrals" ELSE t, <<>>, <<>>)>>
     \o GroupRecs(StableSort(own, Len(own)), corr)

RECURSIVE Concat(_)
Concat(ss) == IF ss = <<>> THEN <<>> ELSE Head(ss) \o Concat(Tail(ss))

Write(m) ==
  LET sp    == SortedPos(m.nodes, Len(m.nodes))
      corr  == Correspondence(m.nodes, sp)
      order == SortBy(TypesOf(m.inter), SecRank(m.inter))
  IN <<Rec("section", "atoms", <<>>, <<>>)>> \o AtomRecs(m.nodes, sp)
     \o Concat([i \in DOMAIN order |-> SectionRecs(m.inter, order[i], corr)])

-----------------------------------------------------------------------------
(* DECLARATIVE: the molecule the text must state *)

\* position i is written before position j
Before(nodes, i, j) == AidV(nodes[i]) < AidV(nodes[j]) \/ (AidV(nodes[i]) = AidV(nodes[j]) /\ i < j)
RankOf(nodes) == [i \in DOMAIN nodes |-> 1 + Cardinality({h \in DOMAIN nodes : Before(nodes, h, i)})]
\* index of a KEY: through the key, not through the position
IndexOfKey(nodes) == LET rk == RankOf(nodes)
                     IN [k \in KeysOf(nodes) |-> rk[CHOOSE i \in DOMAIN nodes : nodes[i].key = k]]
AtomAt(nodes) == LET rk == RankOf(nodes)
                 IN [r \in DOMAIN nodes |-> nodes[CHOOSE i \in DOMAIN nodes : rk[i] = r].f]

CanonInter(x, idx) == [sec |-> IF x.type = "impropers" THEN "dihedrals" ELSE x.type,
                       a |-> [j \in DOMAIN x.at |-> idx[x.at[j]]], p |-> x.p, g |-> x.g]

Canon(m) ==
  LET idx == IndexOfKey(m.nodes)
  IN [atoms    |-> AtomAt(m.nodes),
      numbered |-> TRUE,
      inters   |-> BagOf([i \in DOMAIN m.inter |-> CanonInter(m.inter[i], idx)]),
      bad      |-> FALSE]

\* the one deviation the format cannot avoid with blank columns: a mass without a charge is READ as a charge
MassOnly(f) == f[6] = "" /\ f[7] # ""
SwapD11(f) == IF MassOnly(f) THEN SubSeq(f, 1, 5) \o <<f[7], "">> ELSE f
CanonD11(m) == LET c == Canon(m) IN [c EXCEPT !.atoms = [i \in DOMAIN c.atoms |-> SwapD11(c.atoms[i])]]
Expressible(m) == \A i \in DOMAIN m.nodes : ~MassOnly(m.nodes[i].f)

WellFormed(m) ==
  /\ \A i, j \in DOMAIN m.nodes : i # j => m.nodes[i].key # m.nodes[j].key
  /\ \A i \in DOMAIN m.inter : Range(m.inter[i].at) \subseteq KeysOf(m.nodes)

Strip(b, F(_)) == BagOf([i \in DOMAIN b |-> F(b[i])])

(* total verdict on (molecule in memory, records read from the text the real writer produced) *)
Judge(m, recs) ==
  LET r == ReadMol(recs)
      c == Canon(m)
      rI == ReadAll(recs).inters
      cI == LET idx == IndexOfKey(m.nodes) IN [i \in DOMAIN m.inter |-> CanonInter(m.inter[i], idx)]
      NoG(x)  == [sec |-> x.sec, a |-> x.a, p |-> x.p]
      Shape(x) == [sec |-> x.sec, n |-> Len(x.a), p |-> x.p, g |-> x.g]
  IN IF ~WellFormed(m) THEN "harness-error-molecule-not-well-formed"
     ELSE IF r = c THEN "ok"
     ELSE IF r.bad THEN "unbalanced-guard-or-unreadable-line"
     ELSE IF r.atoms # c.atoms THEN
            (IF r = CanonD11(m) /\ ~Expressible(m) THEN "mass-in-charge-column"
             ELSE IF Len(r.atoms) # Len(c.atoms) THEN "atom-dropped-or-duplicated"
             ELSE IF BagOf(r.atoms) = BagOf(c.atoms) THEN "atoms-not-in-atom-id-order"
             ELSE "atom-fields-differ")
     ELSE IF ~r.numbered THEN "atoms-not-numbered-1..N"
     ELSE IF Len(rI) # Len(cI) THEN "interaction-dropped-or-duplicated"
     ELSE IF Strip(rI, NoG) = Strip(cI, NoG) THEN "interaction-under-wrong-guard"
     ELSE IF Strip(rI, Shape) = Strip(cI, Shape) THEN "interaction-attached-to-different-atoms"
     ELSE "interaction-section-or-parameters-differ"

(* the whole file: records of the sections, the [ moleculetype ] line, the prologue of guarded defines *)
CanonDefs(defs) == [defs |-> BagOf([i \in DOMAIN defs |->
                                      [name |-> defs[i].name, val |-> defs[i].val,
                                       g |-> <<[kind |-> "ifndef", name |-> defs[i].name]>>]]),
                    bad |-> FALSE]
JudgeFile(m, f) ==
  LET j == Judge(m, f.recs)
  IN IF j # "ok" THEN j
     ELSE IF f.head.moltype # m.moltype \/ f.head.nrexcl # m.nrexcl THEN "moleculetype-line-differs"
     ELSE IF ReadDefs(f.pro) # CanonDefs(m.defs) THEN "define-prologue-differs"
     ELSE "ok"

(* writing is an observation: the molecule is the same afterwards and a second write gives the same text *)
Repeatable(m, recs, again) ==
  IF again.mol # m THEN "writing-changed-the-molecule"
  ELSE IF again.recs # recs THEN "second-write-differs"
  ELSE "ok"

-----------------------------------------------------------------------------
(* TAB model: Init ranges over the bounded domain, Eval computes the outputs *)
CONSTANTS KeySeqs,    \* node orders tried: set of sequences of distinct keys
          AidVals,    \* atom ids tried, NOAID = none
          AtomTab,    \* key -> <<atype, resid, resname, atomname, cg, charge, mass>>
          CMPats,     \* presence of charge / mass: set of sequences of [c, m] applied cyclically along the node order
          Pool,       \* interaction templates; `at` holds POSITIONS in the node order, replaced by the keys there
          MaxInter,
          TokInt,     \* token -> the integer it denotes (resid, charge_group columns of AtomTab)
          TokDec      \* token -> the decimal number it denotes, in units of 10^-6 (charge, mass columns of AtomTab)

VARIABLES mol, out
vars == <<mol, out>>

Applicable(n) == {x \in Pool : \A j \in DOMAIN x.at : x.at[j] <= n}
RECURSIVE SeqsUpTo(_, _)
SeqsUpTo(S, n) == IF n = 0 THEN {<<>>}
                  ELSE LET prev == SeqsUpTo(S, n - 1)
                       IN prev \cup {Append(s, x) : s \in {q \in prev : Len(q) = n - 1}, x \in S}

Build(ks, aids, pat, s) ==
  [nodes |-> [i \in DOMAIN ks |->
                 LET cm == pat[((i - 1) % Len(pat)) + 1]  t == AtomTab[ks[i]]
                 IN [key |-> ks[i], aid |-> aids[i],
                     f |-> SubSeq(t, 1, 5) \o <<IF cm.c THEN t[6] ELSE "">> \o <<IF cm.m THEN t[7] ELSE "">>]],
   inter |-> [i \in DOMAIN s |-> [type |-> s[i].type, at |-> [j \in DOMAIN s[i].at |-> ks[s[i].at[j]]], p |-> s[i].p,
                                  g |-> s[i].g, grp |-> s[i].grp, com |-> s[i].com]]]

Init == /\ \E ks \in KeySeqs : \E aids \in [DOMAIN ks -> AidVals] : \E pat \in CMPats :
             \E s \in SeqsUpTo(Applicable(Len(ks)), MaxInter) : mol = Build(ks, aids, pat, s)
        /\ out = [done |-> FALSE]

\* the numeric reading of the [ atoms ] lines of a record sequence (the harness does this for a real text)
TabHead == [moltype |-> "verif", nrexcl |-> "1", nrexcl_n |-> 1]
NumOfRecs(recs) ==
  LET at == SelectSeq(recs, LAMBDA r : r.k = "atom")
  IN [i \in DOMAIN at |-> [ok |-> TRUE, resid |-> TokInt[at[i].p[2]], cg |-> TokInt[at[i].p[5]],
                           q |-> IF Len(at[i].p) >= 6 THEN [has |-> TRUE, v |-> TokDec[at[i].p[6]]] ELSE NoNum,
                           m |-> IF Len(at[i].p) >= 7 THEN [has |-> TRUE, v |-> TokDec[at[i].p[7]]] ELSE NoNum]]
\* what read_itp must store for the text Write(mol)
ReaderBlock(recs) == BlockOf(DescOfRecs(TabHead, recs, NumOfRecs(recs)))

Eval == /\ ~out.done
        /\ out' = [done |-> TRUE, recs |-> Write(mol), verdict |-> Judge(mol, Write(mol)),
                   rd |-> ReaderBlock(Write(mol))]
        /\ UNCHANGED mol

Spec == Init /\ [][Eval]_vars

(* invariants of the TAB run *)
RoundTrip      == out.done => (ReadMol(out.recs) = Canon(mol)) = Expressible(mol)
OnlyD11        == out.done => out.verdict \in {"ok", "mass-in-charge-column"}
VerdictIsRound == out.done => (out.verdict = "ok") = (ReadMol(out.recs) = Canon(mol))
Numbered       == out.done => ReadMol(out.recs).numbered /\ ~ReadMol(out.recs).bad
NothingLost    == out.done =>
                    /\ Len(SelectSeq(out.recs, LAMBDA r : r.k = "atom")) = Len(mol.nodes)
                    /\ Len(SelectSeq(out.recs, LAMBDA r : r.k = "inter")) = Len(mol.inter)
\* the operational model of the second reader agrees with the declarative description of the same records
ReaderModelAgrees == out.done => AgreeVerdict(TabHead, out.recs, NumOfRecs(out.recs), out.rd) = "ok"
\* ... and therefore states the molecule: atoms in Canon order (tokens), every interaction of Canon once
ReaderStatesMolecule ==
  out.done /\ Expressible(mol) =>
     LET d == DescOfBlock(out.rd)
         c == Canon(mol)
     IN /\ [i \in DOMAIN d.atoms |-> <<d.atoms[i].atype, d.atoms[i].resname, d.atoms[i].name>>]
             = [i \in DOMAIN c.atoms |-> <<c.atoms[i][1], c.atoms[i][3], c.atoms[i][4]>>]
        /\ BagOf([i \in DOMAIN d.inters |-> [sec |-> d.inters[i].sec, a |-> d.inters[i].a, p |-> d.inters[i].p,
                                              g |-> IF d.inters[i].cond = "none" THEN <<>>
                                                    ELSE <<[kind |-> d.inters[i].cond, name |-> d.inters[i].tag]>>]])
             = c.inters
GuardsBalanced == out.done =>
                    Len(SelectSeq(out.recs, LAMBDA r : r.k \in {"ifdef", "ifndef"}))
                      = Len(SelectSeq(out.recs, LAMBDA r : r.k = "endif"))
=============================================================================
