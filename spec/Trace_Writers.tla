---------------------------- MODULE Trace_Writers ----------------------------
(* TLC judges two kinds of recorded observations of the real code (C07):
   writer : directory snapshots before a library writer is called, after the call, and after DeferredFileWriter.write()
            - Untouched (nothing changes before finalisation) and Finalised (destinations written, pre-existing
            destinations kept byte for byte under the first free backup name, nothing else changed)
   gate   : one real bin/martinize2 run AS A SUBPROCESS: warnings logged (by type), records above WARNING, the -maxwarn
            entries, the exit code of the process, what happened to the directory and what is left in the directory of
            temporary files ($TMPDIR) after the process has gone - against Gate of DeferredWriter with
            l = LeftoverDecl (WarnCountOps).  (In-process runs with recorded opens, crash points and the full directory
            comparison are judged by DeferredWriterJudge.) *)
EXTENDS WarnCountOps, TLC, Json, IOUtils

Batch == JsonDeserialize(IOEnv.TRACE_FILE)

VARIABLES tid, verdict
vars == <<tid, verdict>>

Lookup(snap, name) == LET i == CHOOSE j \in DOMAIN snap : snap[j][1] = name IN snap[i][2]      \* 0 = absent
Names(e) == {e.names[i] : i \in DOMAIN e.names}
Dests(e) == {e.dests[i] : i \in DOMAIN e.dests}
BackupName(d, n) == "#" \o d \o "." \o ToString(n) \o "#"
Present(e, snap, name) == name \in Names(e) /\ Lookup(snap, name) # 0
FirstFreeSlot(e, d) == CHOOSE n \in 1..20 : ~Present(e, e.before, BackupName(d, n)) /\ \A j \in 1..(n - 1) : Present(e, e.before, BackupName(d, j))

JudgeWriter(e) ==
  IF e.err # "" THEN "writer-raised"
  ELSE IF e.after_call # e.before THEN "destination-touched-before-finalisation"
  ELSE IF \E d \in Dests(e) : ~Present(e, e.after_write, d) THEN "destination-missing-after-finalisation"
  ELSE IF \E d \in Dests(e) : Present(e, e.before, d) /\
            (~Present(e, e.after_write, BackupName(d, FirstFreeSlot(e, d)))
             \/ Lookup(e.after_write, BackupName(d, FirstFreeSlot(e, d))) # Lookup(e.before, d))
       THEN "pre-existing-file-not-kept-under-first-free-backup-name"
  ELSE IF \E x \in Names(e) : x \notin Dests(e) /\ Lookup(e.before, x) # 0 /\ Lookup(e.after_write, x) # Lookup(e.before, x)
       THEN "unrelated-file-changed"
  ELSE IF \E x \in Names(e) : x \notin Dests(e) /\ Lookup(e.before, x) = 0 /\ Lookup(e.after_write, x) # 0
            /\ ~(\E d \in Dests(e) : Present(e, e.before, d) /\ x = BackupName(d, FirstFreeSlot(e, d)))
       THEN "unexpected-new-file"
  ELSE "ok"

JudgeGate(e) ==
  LET left == LeftoverDecl(e.counts, e.above, e.specs) IN
  IF left > 0
  THEN IF e.exit = 0 THEN "warnings-left-but-exit-0"
       ELSE IF e.new # <<>> \/ e.changed # <<>> \/ e.lost # <<>> THEN "refused-run-touched-the-directory"
       ELSE IF e.tmp_left # <<>> THEN "refused-run-left-its-temporary-files-behind"
       ELSE "ok"
  ELSE IF e.exit # 0 THEN "all-warnings-waived-but-run-refused"
       ELSE IF ~e.outs_present THEN "accepted-run-without-output"
       ELSE IF e.lost # <<>> \/ ~e.backups_ok THEN "accepted-run-lost-a-pre-existing-file"
       ELSE IF e.tmp_left # <<>> THEN "accepted-run-left-temporary-files-behind"
       ELSE "ok"

Init == tid \in 1..Len(Batch) /\ verdict = "pending"
Eval == /\ verdict = "pending"
        /\ verdict' = IF Batch[tid].kind = "writer" THEN JudgeWriter(Batch[tid]) ELSE JudgeGate(Batch[tid])
        /\ UNCHANGED tid
Spec == Init /\ [][Eval]_vars
=============================================================================
