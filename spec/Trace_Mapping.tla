---------------------------- MODULE Trace_Mapping ----------------------------
(* TLC judges recorded runs of the real DoMapping ("map" events) and DoAverageBead ("avg" events).
   map : [kind, M, mps, applied : Seq([m, atoms : Seq(atom)]) (order of application, from the interposed
          apply_block_mapping), parts : Seq([key, resid, oldresids : Seq(Int), atomname, cons : Seq(<<atom, w>>)]),
          edges : Seq(<<a, b>>), inters : Seq([type, atoms, params]), warn_unmapped, warn_overlap : BOOLEAN]
   avg : [kind, cons : Seq([w, cw, has, x, y, z]), isnan : BOOLEAN, px, py, pz : Int]   with p* = round(position * den)   *)
EXTENDS Mapping, Json, IOUtils
Batch == JsonDeserialize(IOEnv.TRACE_FILE)
VARIABLES tid, verdict
vars == <<tid, verdict>>

ConsSet(c) == {c[i] : i \in DOMAIN c}

JudgeMap(e) ==
  LET all == AllPlacements(e.mps, e.M) IN
  IF ~OrderDetermined(all) THEN "ok"                       \* placements sharing their lowest atom: order not specified
  ELSE LET order == OrderByMin(all)
           X == Expected(e.mps, e.M)
       IN IF Len(e.applied) # Len(order) THEN "number-of-placements-differs"
          ELSE IF \E i \in DOMAIN order : e.applied[i].m # order[i].m \/ SeqSet(e.applied[i].atoms) # RangeOf(order[i].f)
               THEN "placements-or-their-order-differ"
          ELSE IF Len(e.parts) # Len(X.parts) THEN "not-one-copy-of-the-block-per-placement"
          ELSE IF \E i \in DOMAIN X.parts : e.parts[i].key # X.parts[i].key \/ e.parts[i].atomname # X.parts[i].atomname
               THEN "particles-not-in-input-order"
          ELSE IF \E i \in DOMAIN X.parts : e.parts[i].resid # X.parts[i].resid THEN "residues-not-renumbered-consecutively"
          ELSE IF \E i \in DOMAIN X.parts : ~X.parts[i].n2o /\
                    SeqSet(e.parts[i].oldresids) # {NodeOf(e.M, X.parts[i].cons[c][1]).resid : c \in DOMAIN X.parts[i].cons}
               THEN "input-residue-number-not-retained"
          ELSE IF \E i \in DOMAIN X.parts : ConsSet(e.parts[i].cons) # ConsSet(X.parts[i].cons) \/ Len(e.parts[i].cons) # Len(X.parts[i].cons)
               THEN "constituents-or-weights-differ"
          ELSE IF SeqSet(e.edges) # X.edges THEN
                  (IF \E x \in X.edges : x \notin SeqSet(e.edges) THEN "bond-missing" ELSE "unjustified-bond")
          ELSE IF SeqSet(e.inters) # SeqSet(X.inters) \/ Len(e.inters) # Len(X.inters) THEN "block-interactions-differ"
          ELSE IF e.warn_unmapped # (UnmappedHeavy(e.mps, e.M) # {}) THEN
                  (IF e.warn_unmapped THEN "spurious-unmapped-atom-warning" ELSE "heavy-atom-vanished-silently")
          ELSE IF SeqSet(e.unmapped_named) # UnmappedHeavy(e.mps, e.M) /\ e.warn_unmapped THEN "unmapped-atom-warning-lists-wrong-atoms"
          ELSE IF e.warn_overlap # Overlapping(e.mps, e.M) THEN
                  (IF e.warn_overlap THEN "spurious-overlap-warning" ELSE "overlap-not-reported")
          ELSE "ok"

JudgeAvg(e) ==
  LET m == Mean(e.cons) IN
  IF m.den = 0 THEN (IF e.isnan THEN "ok" ELSE "position-defined-although-weights-sum-to-zero")
  ELSE IF e.isnan THEN "position-undefined-although-weights-do-not-sum-to-zero"
  ELSE IF e.px # m.nx \/ e.py # m.ny \/ e.pz # m.nz THEN "not-the-weighted-mean"
  ELSE "ok"

Init == tid \in 1..Len(Batch) /\ verdict = "pending"
Eval == /\ verdict = "pending"
        /\ verdict' = IF Batch[tid].kind = "map" THEN JudgeMap(Batch[tid]) ELSE JudgeAvg(Batch[tid])
        /\ UNCHANGED tid
Spec == Init /\ [][Eval]_vars
=============================================================================
