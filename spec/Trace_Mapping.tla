---------------------------- MODULE Trace_Mapping ----------------------------
(* TLC judges recorded runs of the real DoMapping ("map" events) and DoAverageBead ("avg" events).
   map : [kind, M, mps, applied : Seq([m, atoms : Seq(atom)]) (order of application, from the interposed
          apply_block_mapping), parts : Seq([key, resid, oldresids : Seq(Int), atomname, cons : Seq(<<atom, w>>)]),
          edges : Seq(<<a, b>>), inters : Seq([type, atoms, params]), warn_unmapped, warn_overlap : BOOLEAN]
   avg : [kind, cons : Seq([w, cw, has, x, y, z]), isnan : BOOLEAN, px, py, pz : Int]   with p* = round(position * den)   *)
EXTENDS Mapping, Json, IOUtils
Batch == JsonDeserialize(IOEnv.TRACE_FILE)
VARIABLES tid, verdict
vars == <<tid, verdict>>

ConsSet(c) == {c[i] : i \in DOMAIN c}

JudgeMap(e) ==
  LET all == AllPlacements(e.mps, e.M) IN
  IF ~OrderDetermined(all) THEN "ok"                       \* placements sharing their lowest atom: order not specified
  ELSE LET order == OrderByMin(all)
           X == Expected(e.mps, e.M)
       IN IF Len(e.applied) # Len(order) THEN "number-of-placements-differs"
          ELSE IF \E i \in DOMAIN order : e.applied[i].m # order[i].m \/ SeqSet(e.applied[i].atoms) # RangeOf(order[i].f)
               THEN "placements-or-their-order-differ"
          ELSE IF Len(e.parts) # Len(X.parts) THEN "not-one-copy-of-the-block-per-placement"
          ELSE IF \E i \in DOMAIN X.parts : e.parts[i].key # X.parts[i].key \/ e.parts[i].atomname # X.parts[i].atomname
               THEN "particles-not-in-input-order"
          ELSE IF \E i \in DOMAIN X.parts : e.parts[i].resid # X.parts[i].resid THEN "residues-not-renumbered-consecutively"
          ELSE IF \E i \in DOMAIN X.parts : ~X.parts[i].n2o /\
                    SeqSet(e.parts[i].oldresids) # {NodeOf(e.M, X.parts[i].cons[c][1]).resid : c \in DOMAIN X.parts[i].cons}
               THEN "input-residue-number-not-retained"
          ELSE IF \E i \in DOMAIN X.parts : ConsSet(e.parts[i].cons) # ConsSet(X.parts[i].cons) \/ Len(e.parts[i].cons) # Len(X.parts[i].cons)
               THEN "constituents-or-weights-differ"
          ELSE IF SeqSet(e.edges) # X.edges THEN
                  (IF \E x \in X.edges : x \notin SeqSet(e.edges) THEN "bond-missing" ELSE "unjustified-bond")
          ELSE IF SeqSet(e.inters) # SeqSet(X.inters) \/ Len(e.inters) # Len(X.inters) THEN "block-interactions-differ"
          ELSE IF e.warn_unmapped # (UnmappedHeavy(e.mps, e.M) # {}) THEN
                  (IF e.warn_unmapped THEN "spurious-unmapped-atom-warning" ELSE "heavy-atom-vanished-silently")
          ELSE IF SeqSet(e.unmapped_named) # UnmappedHeavy(e.mps, e.M) /\ e.warn_unmapped THEN "unmapped-atom-warning-lists-wrong-atoms"
          ELSE IF e.warn_overlap # Overlapping(e.mps, e.M) THEN
                  (IF e.warn_overlap THEN "spurious-overlap-warning" ELSE "overlap-not-reported")
          ELSE "ok"

JudgeAvg(e) ==
  LET m == Mean(e.cons) IN
  IF m.den = 0 THEN (IF e.isnan THEN "ok" ELSE "position-defined-although-weights-sum-to-zero")
  ELSE IF e.isnan THEN "position-undefined-although-weights-do-not-sum-to-zero"
  ELSE IF e.px # m.nx \/ e.py # m.ny \/ e.pz # m.nz THEN "not-the-weighted-mean"
  ELSE "ok"


(* mapx : a recorded DoMapping run in the generic form of Mapping.tla (modification mappings, shipped mappings):
          [kind, M, mps, applied : Seq([m, kind, atoms]) (interposed apply_block_mapping / apply_mod_mapping),
           parts : Seq([key, resid, oldresids, atomname, atype, mods : Seq(mapping number), cons]), edges, inters,
           warn_unmapped, unmapped_named, warn_overlap, warn_modoverlap : BOOLEAN, n_nomodmap : Int]
   Every clause is evaluated; the verdict is "ok" or the names of all clauses that fail, joined by ";".              *)
RECURSIVE JoinFails(_, _)
JoinFails(s, i) == IF i > Len(s) THEN ""
                   ELSE LET rest == JoinFails(s, i + 1) IN
                        IF s[i][2] THEN (IF rest = "" THEN s[i][1] ELSE s[i][1] \o ";" \o rest) ELSE rest

JudgeMapX(e) ==
  LET C == GCtx(e.M) IN
  IF ~GOrderDetermined(C, e.mps) THEN "unjudged:two-placements-share-their-sort-key"
  ELSE
  LET order == GOrder(C, e.mps)
      X == GExpected(e.M, e.mps, order)
      resOf(a) == C.node[a].resid
      lenA == Len(e.applied) = Len(order)
      lenP == Len(e.parts) = Len(X.parts)
      P == DOMAIN X.parts
      consRes(i) == {resOf(X.parts[i].cons[c][1]) : c \in DOMAIN X.parts[i].cons}
      \* residue numbers (as they should be) of the particles made by blocks from the input residues particle i is made of
      home(i) == {X.parts[j].resid : j \in {k \in P : ~X.parts[k].added /\ consRes(k) \cap consRes(i) # {}}}
      unm == GUnmappedHeavy(C, order)
      nomap == Cardinality(GNoMapping(C, e.mps))
      fails == JoinFails(<<
        <<"number-of-placements-differs", ~lenA>>,
        <<"placements-or-their-order-differ", lenA /\ \E i \in DOMAIN order :
             e.applied[i].m # order[i].m \/ e.applied[i].kind # order[i].kind \/ SeqSet(e.applied[i].atoms) # RangeOf(order[i].f)>>,
        <<"not-one-copy-of-the-target-per-placement", ~lenP>>,
        <<"particles-not-in-input-order", lenP /\ \E i \in P : e.parts[i].key # X.parts[i].key \/ e.parts[i].atomname # X.parts[i].atomname>>,
        <<"particle-not-changed-as-the-modification-says", lenP /\ \E i \in P : e.parts[i].atype # X.parts[i].atype \/ e.parts[i].mods # X.parts[i].mods>>,
        <<"residues-not-renumbered-consecutively", lenP /\ \E i \in P : ~X.parts[i].added /\ e.parts[i].resid # X.parts[i].resid>>,
        <<"new-particle-not-in-the-residue-it-modifies", lenP /\ \E i \in P : X.parts[i].added /\ home(i) # {} /\ e.parts[i].resid \notin home(i)>>,
        <<"input-residue-number-not-retained", lenP /\ \E i \in P : ~(Len(e.parts[i].oldresids) = 1 /\ e.parts[i].oldresids[1] \in consRes(i))>>,
        <<"constituents-or-weights-differ", lenP /\ \E i \in P : ConsSet(e.parts[i].cons) # ConsSet(X.parts[i].cons) \/ Len(e.parts[i].cons) # Len(X.parts[i].cons)>>,
        <<"bond-missing", \E x \in X.edges : x \notin SeqSet(e.edges)>>,
        <<"unjustified-bond", \E x \in SeqSet(e.edges) : x \notin X.edges>>,
        <<"interactions-differ", SeqSet(e.inters) # SeqSet(X.inters) \/ Len(e.inters) # Len(X.inters)>>,
        <<"spurious-unmapped-atom-warning", e.warn_unmapped /\ unm = {}>>,
        <<"heavy-atom-vanished-silently", ~e.warn_unmapped /\ unm # {}>>,
        <<"unmapped-atom-warning-lists-wrong-atoms", e.warn_unmapped /\ unm # {} /\ SeqSet(e.unmapped_named) # unm>>,
        <<"spurious-overlap-warning", e.warn_overlap /\ ~GBlockOverlap(order)>>,
        <<"overlap-not-reported", ~e.warn_overlap /\ GBlockOverlap(order)>>,
        <<"spurious-modification-overlap-warning", e.warn_modoverlap /\ ~GModOverlap(C, e.mps)>>,
        <<"modification-overlap-not-reported", ~e.warn_modoverlap /\ GModOverlap(C, e.mps)>>,
        <<"modification-without-mapping-not-reported", e.n_nomodmap < nomap>>,
        <<"spurious-no-modification-mapping-warning", e.n_nomodmap > nomap>> >>, 1)
  IN IF X.amb THEN "unjudged:several-particles-qualify-for-re-use"
     ELSE IF X.err THEN (IF e.raised THEN "unjudged:re-used-particle-does-not-exist" ELSE "no-error-although-the-re-used-particle-does-not-exist")
     ELSE IF fails = "" THEN "ok" ELSE fails

(* cover : [kind, mps (only type and names used), names : Seq(STRING), found : BOOLEAN, sel : Seq(mapping number)]
           one call of the real cover() on the names of a group and the sorted option list                           *)
JudgeCover(e) ==
  LET r == GCover(e.mps, GOptions(e.mps), SeqSet(e.names), 1) IN
  IF r.ok # e.found THEN (IF r.ok THEN "cover-not-found" ELSE "cover-invented")
  ELSE IF r.ok /\ SeqSet(e.sel) # r.sel THEN "not-the-first-cover"
  ELSE "ok"

Init == tid \in 1..Len(Batch) /\ verdict = "pending"
Eval == /\ verdict = "pending"
        /\ verdict' = IF Batch[tid].kind = "map" THEN JudgeMap(Batch[tid])
                       ELSE IF Batch[tid].kind = "mapx" THEN JudgeMapX(Batch[tid])
                       ELSE IF Batch[tid].kind = "cover" THEN JudgeCover(Batch[tid])
                       ELSE JudgeAvg(Batch[tid])
        /\ UNCHANGED tid
Spec == Init /\ [][Eval]_vars
=============================================================================
