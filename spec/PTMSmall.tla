------------------------------ MODULE PTMSmall ------------------------------
(* Exhaustive small scope for C14 (spec -> code).  Inputs: every way of bonding K unexplained atoms (elements O / P) to the
   recognised atoms CB of residue 1 (atom 1) and CB of residue 2 (atom 2) and to one another, against every choice of at
   most two modifications out of a pool of NT.  TLC enumerates the inputs; the driver builds each as a real molecule, runs
   the real CanonicalizeModifications on it and hands the recorded run to Trace_PTM!JudgeRun, which computes all exact
   covers of every group by brute force.  (Isomorphic inputs are not merged: atom order is part of the input.)             *)
EXTENDS Integers, FiniteSets
CONSTANTS K, NT
VARIABLES inp
F == 3..(2 + K)
Pairs == {p \in ({1, 2} \cup F) \X F : p[1] < p[2]}
Init == inp \in [el : [F -> {"O", "P"}], edges : SUBSET Pairs, ts : {S \in SUBSET (1..NT) : Cardinality(S) <= 2}]
Next == UNCHANGED inp
Spec == Init /\ [][Next]_inp
=============================================================================
