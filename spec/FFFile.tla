------------------------------- MODULE FFFile -------------------------------
(* Loading a .ff file at the level of its top-level sections ("chunks").  A chunk is a top-level header with everything
   up to the next top-level header:
      [k |-> "macros" | "variables" | "citations" | "block" | "link" | "mod" | "fault", name, id, um]
   (um: the chunk uses a macro, so a [macros] chunk must precede it in a well-formed file)
   (id = position-independent identity of the concrete text the harness renders for it).
   The machine is shaped like FFDirector: a new top-level header first FINALISES (stores every open context), then
   opens a context; EOF finalises once more.  CloseOnStore = TRUE is the repaired design (the stored link is
   forgotten); FALSE reproduces the pinned commit, where a link followed by a non-link section was stored twice.
   lib.blocks / lib.mods have dictionary semantics (first insertion fixes the position, last value wins). *)
EXTENDS Integers, Sequences, FiniteSets, TLC

CONSTANTS Menu,          \* set of chunks a file may contain
          MaxChunks,
          CloseOnStore

NONE == [k |-> "none", name |-> "", id |-> 0, um |-> FALSE]

VARIABLES file,      \* chunks read so far
          curBlock, curLink, curMod,   \* open contexts (chunk or NONE)
          linkSeen,
          lib,       \* [blocks : Seq(chunk), links : Seq(chunk), mods : Seq(chunk)]
          macros,    \* ids of macro chunks read so far
          outcome    \* "reading" | "loaded" | "error"
vars == <<file, curBlock, curLink, curMod, linkSeen, lib, macros, outcome>>

IsContext(c) == c.k \in {"block", "link", "mod"}

DictPut(seq, c) ==      \* dict[name] = c : position of first insertion, last value wins
  IF \E i \in DOMAIN seq : seq[i].name = c.name
  THEN [i \in DOMAIN seq |-> IF seq[i].name = c.name THEN c ELSE seq[i]]
  ELSE Append(seq, c)

\* finalize_section: store every open context
Stored(l) ==
  LET l1 == IF curBlock # NONE THEN [l EXCEPT !.blocks = DictPut(@, curBlock)] ELSE l
      l2 == IF curLink # NONE THEN [l1 EXCEPT !.links = Append(@, curLink)] ELSE l1
      l3 == IF curMod # NONE THEN [l2 EXCEPT !.mods = DictPut(@, curMod)] ELSE l2
  IN l3

HasContext == linkSeen \/ curBlock # NONE \/ curLink # NONE \/ curMod # NONE

Init == /\ file = <<>> /\ curBlock = NONE /\ curLink = NONE /\ curMod = NONE /\ linkSeen = FALSE
        /\ lib = [blocks |-> <<>>, links |-> <<>>, mods |-> <<>>] /\ macros = {} /\ outcome = "reading"

Read(c) ==
  /\ outcome = "reading" /\ Len(file) < MaxChunks
  /\ c.um => macros # {}                        \* well-formed files only use macros defined earlier
  /\ file' = Append(file, c)
  /\ IF c.k = "fault" \/ (c.k = "variables" /\ (HasContext \/ \E i \in DOMAIN file : IsContext(file[i])))
     THEN outcome' = "error" /\ UNCHANGED <<curBlock, curLink, curMod, linkSeen, lib, macros>>
     ELSE /\ outcome' = "reading"
          /\ lib' = IF file = <<>> THEN lib ELSE Stored(lib)      \* a header finalises the previous section
          /\ curLink' = IF c.k = "link" THEN c ELSE IF CloseOnStore \/ file = <<>> THEN NONE ELSE curLink
          /\ curBlock' = IF c.k = "block" THEN c ELSE curBlock
          /\ curMod' = IF c.k = "mod" THEN c ELSE curMod
          /\ linkSeen' = (linkSeen \/ c.k = "link")
          /\ macros' = IF c.k = "macros" THEN macros \cup {c.id} ELSE macros

EOF ==
  /\ outcome = "reading"
  /\ outcome' = "loaded"
  /\ lib' = IF file = <<>> THEN lib ELSE Stored(lib)
  /\ UNCHANGED <<file, curBlock, curLink, curMod, linkSeen, macros>>

Next == (\E c \in Menu : Read(c)) \/ EOF
Spec == Init /\ [][Next]_vars

-----------------------------------------------------------------------------
(* what the file declares *)
IsBlock(c) == c.k = "block"
\* dictionary semantics without recursion (shipped files declare hundreds of blocks): position = first occurrence of the
\* name, value = last chunk with that name
DictSeq(cs) ==
  LET firsts == SelectSeq([i \in DOMAIN cs |-> i], LAMBDA i : \A j \in 1..(i - 1) : cs[j].name # cs[i].name)
  IN [k \in DOMAIN firsts |->
        cs[CHOOSE i \in DOMAIN cs : cs[i].name = cs[firsts[k]].name /\ \A j \in (i + 1)..Len(cs) : cs[j].name # cs[i].name]]
DeclaredLinks(f)  == SelectSeq(f, LAMBDA c : c.k = "link")
DeclaredBlocks(f) == DictSeq(SelectSeq(f, IsBlock))
DeclaredMods(f)   == DictSeq(SelectSeq(f, LAMBDA c : c.k = "mod"))
Malformed(f) == \E i \in DOMAIN f : f[i].k = "fault" \/ (f[i].k = "variables" /\ \E j \in 1..(i - 1) : IsContext(f[j]))

ExactlyOnceInOrder ==
  outcome = "loaded" => /\ lib.links = DeclaredLinks(file)
                        /\ lib.blocks = DeclaredBlocks(file)
                        /\ lib.mods = DeclaredMods(file)
ErrorIffMalformed == (outcome = "error") = Malformed(file)
=============================================================================
