------------------------------ MODULE BeadTrace ------------------------------
(* TLC judges particles recorded from REAL martinize2 runs (harness/c09_real.py) with the wide exact mean of MeanWide.

   bead : [kind, role, cwon : BOOLEAN, cons (see MeanWide), isnan : BOOLEAN, pf : <<x, y, z>> (stored position right after
           DoAverageBead, units of 10^-6 A), wrcheck : BOOLEAN (the run wrote cg.pdb), haswr : BOOLEAN (the particle was found in the written structure), wrnan : BOOLEAN,
           wr : <<x, y, z>> (coordinates as WRITTEN to cg.pdb, units of 0.001 A), dummy : BOOLEAN (the force field marks the
           particle as a charge dummy), anchor : [isnan, pf] (role "site" only: the backbone particle of the same residue)]
          role "mapped" : a particle made by a block / modification mapping - the weighted-mean rule
          role "site"   : a virtual site added after the averaging (Go model, water bias): no constituents, GoSite rule
   pair : [kind, m : [perm, sg, sh], cwon, a : [cons, isnan, pf], b : [cons, isnan, pf]]   the same particle in a run on the
          input as shipped (a) and on the rigidly moved input (b)
   avg  : the hand-built particles of the synthetic family (Trace_Mapping!JudgeAvg) - here ALSO the bridge between the
          32-bit Mean of Mapping.tla and the wide WMean: both must give the same numerators and denominator.          *)
EXTENDS Trace_Mapping, MeanWide

TolMean == 1              \* 10^-6 A between the stored float and the exact mean (rounding of pf itself is 0.5)
TolWritten == 501         \* 0.5 * 10^-3 A : half a unit of the last written decimal (+ 10^-6 A for the float)

(* NAMED EXCLUSION.  A charge dummy is averaged like every particle, but LocateChargeDummies then places it at a random
   orientation around its anchor: its WRITTEN coordinate is not the averaged one, and the statement ("after coordinates are
   generated, each particle's position equals the mean ...") does not say where a dummy goes.  Its position right after
   DoAverageBead is judged by the mean rule; only the written-coordinate clause is waived. *)
ChargeDummyMoved(e) == e.dummy

WrittenOk(e, nan, pf) ==
  IF ~e.wrcheck THEN "ok"                           \* a run that writes no structure (history family)
  ELSE IF ~e.haswr THEN "particle-missing-from-the-written-structure"
  ELSE IF ChargeDummyMoved(e) THEN "ok"
  ELSE IF nan THEN (IF e.wrnan THEN "ok" ELSE "written-coordinate-defined-for-an-undefined-position")
  ELSE IF e.wrnan THEN "written-coordinate-undefined-for-a-defined-position"
  ELSE IF \E d \in 1..3 : e.wr[d] * 1000 - pf[d] > TolWritten \/ pf[d] - e.wr[d] * 1000 > TolWritten
       THEN "written-coordinate-is-not-the-stored-one-rounded"
  ELSE "ok"

MeanOk(cwon, cons, isnan, pf) ==
  LET m == WMean(cwon, cons) IN
  IF WIsZero(m.den) THEN (IF isnan THEN "ok" ELSE "position-defined-although-weights-sum-to-zero")
  ELSE IF isnan THEN "position-undefined-although-weights-do-not-sum-to-zero"
  ELSE IF WIsNeg(m.den) THEN "unjudged:negative-denominator"
  ELSE IF \E d \in 1..3 : ~WClose(pf[d], m.n[d], m.den, TolMean) THEN "not-the-weighted-mean"
  ELSE IF WNonNeg(cwon, cons) /\ ~WInBox(cons, pf) THEN "outside-the-bounding-box-of-the-constituents"
  ELSE "ok"

\* GoSite: a virtual site sits exactly on the backbone particle of its residue
SiteOk(e) ==
  IF e.anchor.isnan # e.isnan THEN "virtual-site-not-on-its-backbone-particle"
  ELSE IF ~e.isnan /\ e.pf # e.anchor.pf THEN "virtual-site-not-on-its-backbone-particle"
  ELSE "ok"

\* a particle made by DoMapping states a weight for every atom of its 'graph' (the default weight 1 of do_average_bead is for
\* hand-built particles: synthetic family)
Weighted(e) == \A i \in DOMAIN e.cons : e.cons[i].hasw

JudgeBead(e) ==
  LET first == IF e.role = "site" THEN SiteOk(e)
               ELSE IF ~Weighted(e) THEN "constituent-without-a-mapping-weight"
               ELSE MeanOk(e.cwon, e.cons, e.isnan, e.pf) IN
  IF first # "ok" THEN first ELSE WrittenOk(e, e.isnan, e.pf)

(* The input of run b is the input of run a moved rigidly BY THE HARNESS (exactly: integers of 0.001 A), so the particle of run b
   has to be the moved particle of run a whatever happened in between.  When the atoms handed to DoAverageBead in run b are not
   the moved atoms of run a, something between reading and averaging treated the two inputs differently: if the particle then
   does not follow the motion either, that is the statement's "follows any rigid motion of the input exactly" broken; if it
   does, the pair stays unjudged (the model mean cannot be compared). *)
Follows(e) ==
  LET moved == WMove([perm |-> e.m.perm, sg |-> e.m.sg, sh |-> <<e.m.sh[1] * 1000, e.m.sh[2] * 1000, e.m.sh[3] * 1000>>], e.a.pf)
  IN e.a.isnan = e.b.isnan
     /\ (e.a.isnan \/ \A d \in 1..3 : e.b.pf[d] - moved[d] <= 2 * TolMean /\ moved[d] - e.b.pf[d] <= 2 * TolMean)

JudgePair(e) ==
  IF ~WMoved(e.m, e.a.cons, e.b.cons)
  THEN (IF Follows(e) THEN "unjudged:constituents-are-not-the-moved-ones"
        ELSE "atoms-averaged-are-not-the-moved-input-and-the-particle-does-not-follow-the-motion")
  ELSE LET ma == WMean(e.cwon, e.a.cons)
           mb == WMean(e.cwon, e.b.cons)
       IN IF ~WEquivariant(e.m, ma, mb) THEN "model-mean-not-equivariant"
          ELSE IF e.a.isnan # e.b.isnan THEN "undefined-in-one-run-only"
          ELSE IF e.a.isnan THEN "ok"
          ELSE IF ~Follows(e) THEN "position-does-not-follow-the-rigid-motion"
          ELSE "ok"

\* bridge: the synthetic particles through both operators
AsWide(cons) == [i \in DOMAIN cons |-> [hasw |-> TRUE, w |-> cons[i].w, hascw |-> TRUE, cw |-> cons[i].cw, has |-> cons[i].has,
                                         p |-> <<cons[i].x, cons[i].y, cons[i].z>>]]
JudgeBridge(e) ==
  LET n == Mean(e.cons)
      w == WMean(TRUE, AsWide(e.cons))
  IN IF ~(WIsZero(WSub(w.den, WFromInt(n.den))) /\ WIsZero(WSub(w.n[1], WFromInt(n.nx)))
          /\ WIsZero(WSub(w.n[2], WFromInt(n.ny))) /\ WIsZero(WSub(w.n[3], WFromInt(n.nz))))
     THEN "wide-and-narrow-mean-disagree"
     ELSE JudgeAvg(e)

BInit == tid \in 1..Len(Batch) /\ verdict = "pending"
BEval == /\ verdict = "pending"
         /\ verdict' = IF Batch[tid].kind = "bead" THEN JudgeBead(Batch[tid])
                        ELSE IF Batch[tid].kind = "pair" THEN JudgePair(Batch[tid])
                        ELSE JudgeBridge(Batch[tid])
         /\ UNCHANGED tid
BSpec == BInit /\ [][BEval]_vars
=============================================================================
