--------------------------- MODULE Trace_FixedCol ---------------------------
(* TLC judges structure files written and read back by the real vermouth code (C16).  One event = one slice of one
   written+read system; the harness only projects (splits the text into lines, turns floats into integer thousandths,
   numbers the atoms of the in-memory system 1..N in writing order) - every expected value is computed here.

   atoms event   [kind |-> "atoms", fmt, sizes, g0, atoms : Seq(attrs), lines : Seq(STRING), back : Seq(read atom), readerr]
                 attrs = [name, resname, resid, chain, icode, elem, x, y, z]      (what was handed to the writer)
                 read  = [serial, name, resname, resid, chain, icode, x, y, z, mol] (what the reader returned)
   pdbstruct     [kind, sizes, bonds : Seq(<<g1, g2>>), layout : Seq([rec, n]), ters : Seq([line, resname, chain, resid, icode]),
                  conect : Seq(STRING), read_sizes, read_bonds, readerr]
   grostruct     [kind, natoms, count_line, natomlines, nread, readerr, w, vel, first_line]
   fpdb          a PDB file NOT written by vermouth, read by the real reader:
                 [kind, lines : Seq(STRING) (the whole file), modelidx, back : Seq(read atom + altloc, elem, charge),
                  read_sizes, read_bonds : Seq(<<k1, k2>>) (positions in reading order), readerr,
                  rewrite1, rewrite2 : Seq(STRING)]   (what was read written out, and that read and written once more)
   fgro          a GRO file NOT written by vermouth: [kind, lines, back : Seq(read atom), nbox, readerr, rewrite1, rewrite2] *)
EXTENDS FixedColOps, Json, IOUtils

Batch == JsonDeserialize(IOEnv.TRACE_FILE)

VARIABLES tid, verdict
vars == <<tid, verdict>>

(* GRO events carry the coordinate column width `w` the file was written with (write_gro precision + 1) and whether it
   has velocities; attrs / read atoms then carry vx, vy, vz (integer ten-thousandths of nm/ps) *)
WT(e) == IF e.fmt = "pdb" THEN PdbAtomW ELSE GroAtomWPV(e.w, e.vel)
RT(e) == IF e.fmt = "pdb" THEN PdbAtomR ELSE GroAtomWPV(e.w, e.vel)
BlankCols(fmt) == IF fmt = "pdb" THEN PdbAtomBlank ELSE {}
MinLen(e) == IF e.fmt = "pdb" THEN 54 ELSE GroLineLen(e.w, e.vel)
Least(S) == CHOOSE x \in S : \A y \in S : x <= y
Slice(f, line) == Strip(Cut(line, f.start, f.start + f.w - 1))

JudgeAtom(e, k, cum, fits, part) ==      \* part = "line": the text by the column table; "back": the values read
  LET g    == e.g0 + k - 1
      m    == MolOfC(cum, g)
      a    == e.atoms[k]
      W    == WT(e)
      R    == RT(e)
      rec  == [rec |-> "ATOM", serial |-> IF e.fmt = "pdb" THEN Serial(g, m) ELSE g, name |-> a.name, altloc |-> a.altloc,
               resname |-> a.resname, chain |-> a.chain, resid |-> a.resid, icode |-> a.icode,
               x |-> a.x, y |-> a.y, z |-> a.z, elem |-> a.elem, vx |-> a.vx, vy |-> a.vy, vz |-> a.vz]
      line == e.lines[k]
      txt(f) == TextOf(f.kind, rec[f.name])
      badf == {i \in DOMAIN W : Slice(W[i], line) \notin Admissible(W[i], txt(W[i]))}
      want == Read(R, Render(W, rec))                  \* the statement: what is written is read back
      b    == e.back[k]
      okb(i) == \/ b[R[i].name] = want[i]
                \/ R[i].kind = "str" /\ b[R[i].name] \in Admissible(W[FieldIdx(W, R[i].name)], rec[R[i].name])
      badb == {i \in DOMAIN R : ~okb(i)}
  IN IF part = "back" THEN
       (IF badb # {} THEN "read-back: " \o R[Least(badb)].name \o " differs from what was written"
        ELSE IF e.fmt = "pdb" /\ fits /\ b.mol # m THEN "read-back: atom landed in molecule " \o ToString(b.mol) \o " instead of " \o ToString(m)
        ELSE "ok")
     ELSE IF Len(line) < MinLen(e) THEN "line-too-short"
     ELSE IF e.fmt = "gro" /\ Len(line) # MinLen(e) THEN "column-table: line longer than the fields of a file of this width"
     ELSE IF badf # {} THEN
            LET f == W[Least(badf)] IN
            IF FitsW(txt(f), f.w) THEN "column-table: field " \o f.name \o " shifted or corrupted, columns hold '" \o Slice(f, line) \o "'"
            ELSE "column-table: overflowing field " \o f.name \o " not truncated to its own columns, they hold '" \o Slice(f, line) \o "'"
     ELSE IF \E c \in BlankCols(e.fmt) : Ch(line, c) # " " THEN "column-table: separator column not blank"
     ELSE "ok"

JudgeAtoms(e) ==
  LET cum  == Cum(e.sizes)
      fits == Fits5(e.sizes)
      badl == {k \in DOMAIN e.atoms : JudgeAtom(e, k, cum, fits, "line") # "ok"}      \* the text alone, by the column table
      bad  == {k \in DOMAIN e.atoms : JudgeAtom(e, k, cum, fits, "back") # "ok"}
  IN IF Len(e.lines) # Len(e.atoms) THEN (IF e.readerr # "" THEN "round trip failed: " \o e.readerr ELSE "atom lines missing in the file")
     ELSE IF badl # {} THEN "atom " \o ToString(e.g0 + Least(badl) - 1) \o ": " \o JudgeAtom(e, Least(badl), cum, fits, "line")
     ELSE IF e.readerr # "" THEN "round trip failed: " \o e.readerr
     ELSE IF Len(e.back) # Len(e.atoms) THEN "atoms lost or invented on read"
     ELSE IF bad = {} THEN "ok"
     ELSE "atom " \o ToString(e.g0 + Least(bad) - 1) \o ": " \o JudgeAtom(e, Least(bad), cum, fits, "back")

RECURSIVE SumSeq(_)
SumSeq(s) == IF s = <<>> THEN 0 ELSE Head(s) + SumSeq(Tail(s))
SeqSet(s) == {s[i] : i \in DOMAIN s}

JudgeTer(t, serial) ==
  LET rec == [rec |-> "TER", serial |-> serial, resname |-> t.resname, chain |-> t.chain, resid |-> t.resid, icode |-> t.icode]
      W   == PdbTerW
      must == IF Len(RStrip(t.line)) <= 11 THEN {1, 2} ELSE DOMAIN W       \* a bare "TER   serial" is a TER record too
  IN \A i \in must : Slice(W[i], t.line) \in Admissible(W[i], TextOf(W[i].kind, rec[W[i].name]))

(* the TER after the last molecule may be left out (END closes it); everything else is fixed by SplitByTer *)
LayoutOk(lay) == /\ Len(lay) > 0 /\ lay[Len(lay)].rec = "END"
                 /\ \A i \in DOMAIN lay : lay[i].rec \in {"ATOM", "HETATM", "TER", "CONECT", "END"}
                 /\ \A i, j \in DOMAIN lay : (lay[i].rec = "CONECT" /\ lay[j].rec \in {"ATOM", "HETATM", "TER"}) => j < i

JudgePdbStruct(e) ==
  LET cum   == Cum(e.sizes)
      fits  == Fits5(e.sizes)
      ids   == [i \in DOMAIN e.conect |-> ConectIds(e.conect[i])]
      pairs == UNION {PairsOfIds(ids[i]) : i \in DOMAIN ids}
      ser(g) == Serial(g, MolOfC(cum, g))
      want  == {<<ser(Min(bd[1], bd[2])), ser(Max(bd[1], bd[2]))>> : bd \in SeqSet(e.bonds)}
      norm(S) == {<<Min(bd[1], bd[2]), Max(bd[1], bd[2])>> : bd \in S}
      badter == {m \in DOMAIN e.ters : ~JudgeTer(e.ters[m], TerSerialC(cum, m))}
  IN \* first the text alone, by the column tables
     IF e.layout = <<>> THEN "round trip failed: " \o e.readerr
     ELSE IF SplitByTer(e.layout) # e.sizes THEN "TER records do not divide the file into the molecules of the system"
     ELSE IF ~LayoutOk(e.layout) THEN "record layout: unknown record, CONECT before the last atom, or no END at the end"
     ELSE IF Len(e.ters) \notin {Len(e.sizes), Len(e.sizes) - 1} THEN "TER count differs"
     ELSE IF badter # {} THEN "TER record " \o ToString(Least(badter)) \o " differs from the column table (serial " \o ToString(TerSerialC(cum, Least(badter))) \o ")"
     ELSE IF fits /\ \E i \in DOMAIN ids : Len(ids[i]) < 2 \/ BAD \in SeqSet(ids[i]) THEN "CONECT record unreadable by the column table"
     ELSE IF fits /\ pairs # want THEN
            (IF pairs \subseteq want THEN "CONECT records miss bonds" ELSE "CONECT records name bonds that do not exist: "
                 \o ToString(CHOOSE p \in pairs : p \notin want))
     \* then what the reader returned
     ELSE IF e.readerr # "" THEN "round trip failed: " \o e.readerr
     ELSE IF SumSeq(e.read_sizes) # SumSeq(e.sizes) THEN "read-back: number of atoms differs"
     ELSE IF ~fits THEN "ok"                         \* beyond five digits only the atoms themselves are promised
     ELSE IF e.read_sizes # e.sizes THEN "read-back: division into molecules differs"
     ELSE IF norm(SeqSet(e.read_bonds)) # norm(SeqSet(e.bonds)) THEN "read-back: bonds differ from the bonds written"
     ELSE "ok"

JudgeGroStruct(e) ==
  IF e.natomlines > 0 /\ DotWidth(e.first_line) # e.w THEN "first atom line does not show the column width the file was written with"
  ELSE IF e.natomlines > 0 /\ HasVel(e.first_line) # e.vel THEN "first atom line does not show whether the file has velocities"
  ELSE IF e.readerr # "" THEN "round trip failed: " \o e.readerr
  ELSE IF ParseInt(Strip(e.count_line)) # e.natoms THEN "atom count line differs"
  ELSE IF e.natomlines # e.natoms THEN "number of atom lines differs"
  ELSE IF e.nread # e.natoms THEN "read-back: number of atoms differs"
  ELSE "ok"

(* ------------------------------------------------------------------------------------------------------------
   Files that vermouth did not write.  TLC reads the TEXT with the column tables: which lines are atoms of the model
   asked for, which alternate locations stay (blank or A), where TER / END / ENDMDL close a molecule, what every
   column holds, which atoms the CONECT records (continuation lines, unseparated five-wide serials) join - and
   compares with what the real reader returned.                                                                  *)
Greatest(S) == CHOOSE x \in S : \A y \in S : y <= x
RecName(line) == Strip(Cut(line, 1, 6))
SkipRecs == {"HEADER", "TITLE", "COMPND", "SOURCE", "KEYWDS", "EXPDTA", "AUTHOR", "REVDAT", "JRNL", "REMARK", "DBREF", "SEQADV",
             "SEQRES", "MODRES", "HET", "HETNAM", "HETSYN", "FORMUL", "HELIX", "SHEET", "SSBOND", "LINK", "CISPEP", "SITE",
             "CRYST1", "ORIGX1", "ORIGX2", "ORIGX3", "SCALE1", "SCALE2", "SCALE3", "MTRIX1", "MTRIX2", "MTRIX3", "ANISOU",
             "MASTER", "NUMMDL", "MDLTYP", "CAVEAT", "OBSLTE", "SPLT", "SPRSDE", "DBREF1", "DBREF2"}
UsedRecs == {"ATOM", "HETATM", "TER", "END", "ENDMDL", "MODEL", "CONECT"}

FPdbView(L, modelidx) ==
  LET n  == Len(L)
      rn == [i \in 1..n |-> RecName(L[i])]
      modelnr(i) == ParseInt(Strip(Cut(L[i], 11, 14)))
      models  == {i \in 1..n : rn[i] = "MODEL" /\ modelnr(i) # BAD}
      skipped(i) == LET ms == {j \in models : j < i} IN ms # {} /\ modelnr(Greatest(ms)) # modelidx
      kept    == SelectSeq([i \in 1..n |-> i], LAMBDA i : /\ rn[i] \in {"ATOM", "HETATM"} /\ ~skipped(i)
                                                            /\ Strip(Cut(L[i], 17, 17)) \in {"", "A"})
      closers == {i \in 1..n : rn[i] \in {"TER", "END", "ENDMDL"}}
      starts  == {k \in 1..Len(kept) : k = 1 \/ \E c \in closers : kept[k - 1] < c /\ c < kept[k]}
      molOf   == [k \in 1..Len(kept) |-> Cardinality({st \in starts : st <= k})]
      conect  == SelectSeq([i \in 1..n |-> i], LAMBDA i : rn[i] = "CONECT")
  IN [rn |-> rn, kept |-> kept, molOf |-> molOf, nmol |-> Cardinality(starts),
      sizes |-> [m \in 1..Cardinality(starts) |-> Cardinality({k \in 1..Len(kept) : molOf[k] = m})],
      want |-> [k \in 1..Len(kept) |-> Read(PdbAtomRF, L[kept[k]])],
      ids |-> [j \in 1..Len(conect) |-> ConectIds(L[conect[j]])],
      dropped |-> Cardinality({i \in 1..n : rn[i] \in {"ATOM", "HETATM"}}) - Len(kept)]

FPdbBonds(v) ==       \* pairs of positions (reading order) joined by the CONECT records; serials naming no kept atom are ignored
  LET ser(k) == v.want[k][FieldIdx(PdbAtomRF, "serial")]
      pos(id) == {k \in 1..Len(v.kept) : ser(k) = id}
  IN UNION {UNION {{<<Min(a, b), Max(a, b)>> : a \in pos(v.ids[j][1]), b \in pos(v.ids[j][t])} : t \in 2..Len(v.ids[j])} : j \in DOMAIN v.ids}

JudgeFAtom(want, b, mol) ==        \* -> "" or the name of the first differing field
  LET R == PdbAtomRF
      num(nm) == want[FieldIdx(R, nm)]
      bad == {i \in DOMAIN R : /\ R[i].name \notin {"elem", "charge"}
                               /\ b[R[i].name] # want[i]}
  IN IF bad # {} THEN R[Least(bad)].name
     ELSE IF num("elem") # "" /\ b.elem # num("elem") THEN "elem"
     ELSE IF b.charge # ParseCharge(num("charge")) THEN "charge"
     ELSE IF b.mol # mol THEN "molecule"
     ELSE ""

JudgeRewrite(e) == IF e.rewrite1 = <<>> THEN "writing what was read failed"
                   ELSE IF e.rewrite1 # e.rewrite2 THEN "what was read, written and read again is written differently the second time"
                   ELSE "ok"

JudgeFPdb(e) ==
  LET L == e.lines
      v == FPdbView(L, e.modelidx)
      nk == Len(v.kept)
      bonds == FPdbBonds(v)
      norm(S) == {<<Min(bd[1], bd[2]), Max(bd[1], bd[2])>> : bd \in S}
      badat == {k \in 1..Min(nk, Len(e.back)) : JudgeFAtom(v.want[k], e.back[k], v.molOf[k]) # ""}
      sers == {v.want[k][FieldIdx(PdbAtomRF, "serial")] : k \in 1..nk}
  IN \* is the file inside what is specified at all?  (generator errors, not verdicts on vermouth)
     IF \E i \in DOMAIN L : v.rn[i] \notin SkipRecs \cup UsedRecs THEN "unspecified: record " \o v.rn[CHOOSE i \in DOMAIN L : v.rn[i] \notin SkipRecs \cup UsedRecs]
     ELSE IF Cardinality(sers) # nk \/ BAD \in sers THEN "unspecified: serial numbers of the kept atoms repeat or are unreadable"
     ELSE IF \E bd \in bonds : v.molOf[bd[1]] # v.molOf[bd[2]] THEN "unspecified: CONECT across a TER"
     ELSE IF \E j \in DOMAIN v.ids : Len(v.ids[j]) < 2 \/ BAD \in SeqSet(v.ids[j]) THEN "unspecified: unreadable CONECT"
     ELSE IF e.readerr # "" THEN "foreign-pdb: " \o e.readerr
     ELSE IF Len(e.back) # nk THEN "foreign-pdb: " \o ToString(Len(e.back)) \o " atoms read, the text holds " \o ToString(nk)
                                     \o " ATOM/HETATM records of model " \o ToString(e.modelidx) \o " with blank or A alternate location"
     ELSE IF badat # {} THEN "foreign-pdb: atom " \o ToString(Least(badat)) \o " (line " \o ToString(v.kept[Least(badat)]) \o "): "
                             \o JudgeFAtom(v.want[Least(badat)], e.back[Least(badat)], v.molOf[Least(badat)]) \o " differs from the columns of the text"
     ELSE IF e.read_sizes # v.sizes THEN "foreign-pdb: division into molecules differs from TER / END / ENDMDL of the text"
     ELSE IF norm(SeqSet(e.read_bonds)) # bonds THEN
            (IF norm(SeqSet(e.read_bonds)) \subseteq bonds THEN "foreign-pdb: bonds of the CONECT records missing"
             ELSE "foreign-pdb: bonds that no CONECT record states")
     ELSE JudgeRewrite(e)

JudgeFGro(e) ==
  LET L   == e.lines
      n   == Len(L)
      cnt == IF n >= 2 THEN ParseInt(Strip(L[2])) ELSE BAD
      w   == DotWidth(L[3])
      vel == HasVel(L[3])
      R   == GroAtomWPV(w, vel)
      bad == {k \in 1..cnt : LET want == Read(R, L[2 + k]) IN \E i \in DOMAIN R : e.back[k][R[i].name] # want[i]}
  IN IF cnt = BAD \/ cnt < 1 \/ n # cnt + 3 THEN "unspecified: not a GRO file (title, count, atoms, box)"
     ELSE IF w < 5 THEN "unspecified: no column width in the first atom line"
     ELSE IF \E k \in 1..cnt : Len(L[2 + k]) # GroLineLen(w, vel) THEN "unspecified: atom lines of different lengths"
     ELSE IF e.readerr # "" THEN "foreign-gro: " \o e.readerr
     ELSE IF Len(e.back) # cnt THEN "foreign-gro: " \o ToString(Len(e.back)) \o " atoms read, the count line says " \o ToString(cnt)
     ELSE IF bad # {} THEN "foreign-gro: atom " \o ToString(Least(bad)) \o " differs from the columns of the text (width " \o ToString(w) \o ")"
     ELSE IF e.nbox # Tokens(L[n]) THEN "foreign-gro: box line read as " \o ToString(e.nbox) \o " numbers"
     ELSE JudgeRewrite(e)

Judge(e) == IF e.kind = "atoms" THEN JudgeAtoms(e)
            ELSE IF e.kind = "pdbstruct" THEN JudgePdbStruct(e)
            ELSE IF e.kind = "fpdb" THEN JudgeFPdb(e)
            ELSE IF e.kind = "fgro" THEN JudgeFGro(e)
            ELSE JudgeGroStruct(e)

Init == tid \in 1..Len(Batch) /\ verdict = "pending"
Eval == /\ verdict = "pending"
        /\ verdict' = Judge(Batch[tid])
        /\ UNCHANGED tid
Spec == Init /\ [][Eval]_vars
=============================================================================
