--------------------------- MODULE Trace_FixedCol ---------------------------
(* TLC judges structure files written and read back by the real vermouth code (C16).  One event = one slice of one
   written+read system; the harness only projects (splits the text into lines, turns floats into integer thousandths,
   numbers the atoms of the in-memory system 1..N in writing order) - every expected value is computed here.

   atoms event   [kind |-> "atoms", fmt, sizes, g0, atoms : Seq(attrs), lines : Seq(STRING), back : Seq(read atom), readerr]
                 attrs = [name, resname, resid, chain, icode, elem, x, y, z]      (what was handed to the writer)
                 read  = [serial, name, resname, resid, chain, icode, x, y, z, mol] (what the reader returned)
   pdbstruct     [kind, sizes, bonds : Seq(<<g1, g2>>), layout : Seq([rec, n]), ters : Seq([line, resname, chain, resid, icode]),
                  conect : Seq(STRING), read_sizes, read_bonds, readerr]
   grostruct     [kind, natoms, count_line, natomlines, nread, readerr]                                          *)
EXTENDS FixedColOps, Json, IOUtils

Batch == JsonDeserialize(IOEnv.TRACE_FILE)

VARIABLES tid, verdict
vars == <<tid, verdict>>

WT(fmt) == IF fmt = "pdb" THEN PdbAtomW ELSE GroAtomW
RT(fmt) == IF fmt = "pdb" THEN PdbAtomR ELSE GroAtomR
BlankCols(fmt) == IF fmt = "pdb" THEN PdbAtomBlank ELSE {}
MinLen(fmt) == IF fmt = "pdb" THEN 54 ELSE 44
Least(S) == CHOOSE x \in S : \A y \in S : x <= y
Slice(f, line) == Strip(Cut(line, f.start, f.start + f.w - 1))

JudgeAtom(e, k, cum, fits, part) ==      \* part = "line": the text by the column table; "back": the values read
  LET g    == e.g0 + k - 1
      m    == MolOfC(cum, g)
      a    == e.atoms[k]
      W    == WT(e.fmt)
      R    == RT(e.fmt)
      rec  == [rec |-> "ATOM", serial |-> IF e.fmt = "pdb" THEN Serial(g, m) ELSE g, name |-> a.name, altloc |-> "",
               resname |-> a.resname, chain |-> a.chain, resid |-> a.resid, icode |-> a.icode,
               x |-> a.x, y |-> a.y, z |-> a.z, elem |-> a.elem]
      line == e.lines[k]
      txt(f) == TextOf(f.kind, rec[f.name])
      badf == {i \in DOMAIN W : Slice(W[i], line) \notin Admissible(W[i], txt(W[i]))}
      want == Read(R, Render(W, rec))                  \* the statement: what is written is read back
      b    == e.back[k]
      okb(i) == \/ b[R[i].name] = want[i]
                \/ R[i].kind = "str" /\ b[R[i].name] \in Admissible(W[FieldIdx(W, R[i].name)], rec[R[i].name])
      badb == {i \in DOMAIN R : ~okb(i)}
  IN IF part = "back" THEN
       (IF badb # {} THEN "read-back: " \o R[Least(badb)].name \o " differs from what was written"
        ELSE IF e.fmt = "pdb" /\ fits /\ b.mol # m THEN "read-back: atom landed in molecule " \o ToString(b.mol) \o " instead of " \o ToString(m)
        ELSE "ok")
     ELSE IF Len(line) < MinLen(e.fmt) THEN "line-too-short"
     ELSE IF badf # {} THEN
            LET f == W[Least(badf)] IN
            IF FitsW(txt(f), f.w) THEN "column-table: field " \o f.name \o " shifted or corrupted, columns hold '" \o Slice(f, line) \o "'"
            ELSE "column-table: overflowing field " \o f.name \o " not truncated to its own columns, they hold '" \o Slice(f, line) \o "'"
     ELSE IF \E c \in BlankCols(e.fmt) : Ch(line, c) # " " THEN "column-table: separator column not blank"
     ELSE "ok"

JudgeAtoms(e) ==
  LET cum  == Cum(e.sizes)
      fits == Fits5(e.sizes)
      badl == {k \in DOMAIN e.atoms : JudgeAtom(e, k, cum, fits, "line") # "ok"}      \* the text alone, by the column table
      bad  == {k \in DOMAIN e.atoms : JudgeAtom(e, k, cum, fits, "back") # "ok"}
  IN IF Len(e.lines) # Len(e.atoms) THEN (IF e.readerr # "" THEN "round trip failed: " \o e.readerr ELSE "atom lines missing in the file")
     ELSE IF badl # {} THEN "atom " \o ToString(e.g0 + Least(badl) - 1) \o ": " \o JudgeAtom(e, Least(badl), cum, fits, "line")
     ELSE IF e.readerr # "" THEN "round trip failed: " \o e.readerr
     ELSE IF Len(e.back) # Len(e.atoms) THEN "atoms lost or invented on read"
     ELSE IF bad = {} THEN "ok"
     ELSE "atom " \o ToString(e.g0 + Least(bad) - 1) \o ": " \o JudgeAtom(e, Least(bad), cum, fits, "back")

RECURSIVE SumSeq(_)
SumSeq(s) == IF s = <<>> THEN 0 ELSE Head(s) + SumSeq(Tail(s))
SeqSet(s) == {s[i] : i \in DOMAIN s}

JudgeTer(t, serial) ==
  LET rec == [rec |-> "TER", serial |-> serial, resname |-> t.resname, chain |-> t.chain, resid |-> t.resid, icode |-> t.icode]
      W   == PdbTerW
      must == IF Len(RStrip(t.line)) <= 11 THEN {1, 2} ELSE DOMAIN W       \* a bare "TER   serial" is a TER record too
  IN \A i \in must : Slice(W[i], t.line) \in Admissible(W[i], TextOf(W[i].kind, rec[W[i].name]))

(* the TER after the last molecule may be left out (END closes it); everything else is fixed by SplitByTer *)
LayoutOk(lay) == /\ Len(lay) > 0 /\ lay[Len(lay)].rec = "END"
                 /\ \A i \in DOMAIN lay : lay[i].rec \in {"ATOM", "HETATM", "TER", "CONECT", "END"}
                 /\ \A i, j \in DOMAIN lay : (lay[i].rec = "CONECT" /\ lay[j].rec \in {"ATOM", "HETATM", "TER"}) => j < i

JudgePdbStruct(e) ==
  LET cum   == Cum(e.sizes)
      fits  == Fits5(e.sizes)
      ids   == [i \in DOMAIN e.conect |-> ConectIds(e.conect[i])]
      pairs == UNION {PairsOfIds(ids[i]) : i \in DOMAIN ids}
      ser(g) == Serial(g, MolOfC(cum, g))
      want  == {<<ser(Min(bd[1], bd[2])), ser(Max(bd[1], bd[2]))>> : bd \in SeqSet(e.bonds)}
      norm(S) == {<<Min(bd[1], bd[2]), Max(bd[1], bd[2])>> : bd \in S}
      badter == {m \in DOMAIN e.ters : ~JudgeTer(e.ters[m], TerSerialC(cum, m))}
  IN \* first the text alone, by the column tables
     IF e.layout = <<>> THEN "round trip failed: " \o e.readerr
     ELSE IF SplitByTer(e.layout) # e.sizes THEN "TER records do not divide the file into the molecules of the system"
     ELSE IF ~LayoutOk(e.layout) THEN "record layout: unknown record, CONECT before the last atom, or no END at the end"
     ELSE IF Len(e.ters) \notin {Len(e.sizes), Len(e.sizes) - 1} THEN "TER count differs"
     ELSE IF badter # {} THEN "TER record " \o ToString(Least(badter)) \o " differs from the column table (serial " \o ToString(TerSerialC(cum, Least(badter))) \o ")"
     ELSE IF fits /\ \E i \in DOMAIN ids : Len(ids[i]) < 2 \/ BAD \in SeqSet(ids[i]) THEN "CONECT record unreadable by the column table"
     ELSE IF fits /\ pairs # want THEN
            (IF pairs \subseteq want THEN "CONECT records miss bonds" ELSE "CONECT records name bonds that do not exist: "
                 \o ToString(CHOOSE p \in pairs : p \notin want))
     \* then what the reader returned
     ELSE IF e.readerr # "" THEN "round trip failed: " \o e.readerr
     ELSE IF SumSeq(e.read_sizes) # SumSeq(e.sizes) THEN "read-back: number of atoms differs"
     ELSE IF ~fits THEN "ok"                         \* beyond five digits only the atoms themselves are promised
     ELSE IF e.read_sizes # e.sizes THEN "read-back: division into molecules differs"
     ELSE IF norm(SeqSet(e.read_bonds)) # norm(SeqSet(e.bonds)) THEN "read-back: bonds differ from the bonds written"
     ELSE "ok"

JudgeGroStruct(e) ==
  IF e.readerr # "" THEN "round trip failed: " \o e.readerr
  ELSE IF ParseInt(Strip(e.count_line)) # e.natoms THEN "atom count line differs"
  ELSE IF e.natomlines # e.natoms THEN "number of atom lines differs"
  ELSE IF e.nread # e.natoms THEN "read-back: number of atoms differs"
  ELSE "ok"

Judge(e) == IF e.kind = "atoms" THEN JudgeAtoms(e)
            ELSE IF e.kind = "pdbstruct" THEN JudgePdbStruct(e)
            ELSE JudgeGroStruct(e)

Init == tid \in 1..Len(Batch) /\ verdict = "pending"
Eval == /\ verdict = "pending"
        /\ verdict' = Judge(Batch[tid])
        /\ UNCHANGED tid
Spec == Init /\ [][Eval]_vars
=============================================================================
