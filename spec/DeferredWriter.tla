--------------------------- MODULE DeferredWriter ---------------------------
(* vermouth.file_writer.DeferredFileWriter and the martinize2 output gate.
   The directory is  fs : [Path \X (0..K) -> content]  where <<p, 0>> is the destination p itself and <<p, n>>
   its backup "#p.n#"; content is a sequence of tokens or ABSENT.  Every deferred open creates (or re-uses) a pending
   entry with its own temporary file, whose content is kept inline (`data`).
   Finalisation (write()) is modelled primitive by primitive - one action per file-system primitive the
   implementation performs - so that `Crash` can fall between any two of them:
        mode "w":  [Backup  = move(dest -> first free "#dest.n#")]  if dest exists ;  MoveTmp = move(tmp -> dest)
        mode "a":  Append = append tmp's content to dest (creating it) ;  RmTmp = remove(tmp)
   Gate(l) is the end of a martinize2 run: l = number of warnings left after -maxwarn (spec WarnCount).
   The effect of every primitive, the first-free-backup rule and the safety / finalisation predicates are the pure
   operators of DeferredWriterOps (shared with the judge of recorded runs, DeferredWriterJudge); the invariants
   StepsAgree / FinalAgrees tie the state machine below to the closed forms Steps / FinalOf the judge uses.        *)
EXTENDS Integers, Sequences, FiniteSets, TLC

CONSTANTS Path, K, Tok, MaxOpens, MaxRounds

ABSENT == <<"#absent">>
INSTANCE DeferredWriterOps
Slot == 1..K
Name == Path \X (0..K)

VARIABLES fs,       \* the directory
          pending,  \* Seq([final, mode, data]) in order of first open
          pc,       \* "start" | "backedup" | "appended": progress inside the head entry during finalisation
          phase,    \* "running" | "finalising" | "crashed" | "refused"
          pre,      \* the directory when the current/last finalisation began (or initially)
          opens, rounds, plan   \* bounds ; plan = pending at the start of the finalisation (for `Finalised`)
vars == <<fs, pending, pc, phase, pre, opens, rounds, plan>>


-----------------------------------------------------------------------------
Init ==
  /\ fs \in [Name -> {ABSENT, <<"old">>}]
  /\ \A p \in Path : HasFree(fs, p, K)
  /\ pending = <<>> /\ pc = "start" /\ phase = "running" /\ pre = fs /\ opens = 0 /\ rounds = 0 /\ plan = <<>>

(* deferred open in mode m + one write of token t through the returned handle + closing the handle *)
OpenWrite(p, m, t) ==
  /\ phase = "running" /\ opens < MaxOpens
  \* mixing "w" and "a" on one path: which of the two decides how the destination is finalised is not stated; the state
  \* machine leaves it out, the judge of recorded histories admits either reading (DeferredWriterJudge.Resolutions)
  /\ \A i \in EntryFor(pending, p) : pending[i].mode = m
  /\ pending' = OpenFx(pending, p, m, <<t>>)
  /\ opens' = opens + 1
  /\ UNCHANGED <<fs, pc, phase, pre, rounds, plan>>

(* close(): discard everything that was deferred *)
Discard ==
  /\ phase = "running" /\ pending # <<>>
  /\ pending' = <<>>
  /\ UNCHANGED <<fs, pc, phase, pre, opens, rounds, plan>>

BeginWrite ==
  /\ phase = "running" /\ rounds < MaxRounds
  /\ \A i \in DOMAIN pending : HasFree(fs, pending[i].final, K)
  /\ phase' = "finalising" /\ pc' = "start" /\ pre' = fs /\ plan' = pending /\ rounds' = rounds + 1
  /\ UNCHANGED <<fs, pending, opens>>

Hd == pending[1]

Backup ==
  /\ phase = "finalising" /\ pending # <<>> /\ pc = "start" /\ Hd.mode = "w" /\ Exists(fs, Hd.final, 0)
  /\ fs' = BackupFx(fs, Hd.final, K)
  /\ pc' = "backedup"
  /\ UNCHANGED <<pending, phase, pre, opens, rounds, plan>>

MoveTmp ==
  /\ phase = "finalising" /\ pending # <<>> /\ Hd.mode = "w"
  /\ pc = "backedup" \/ (pc = "start" /\ ~Exists(fs, Hd.final, 0))
  /\ fs' = MoveFx(fs, Hd.final, Hd.data)
  /\ pending' = Tail(pending) /\ pc' = "start"
  /\ UNCHANGED <<phase, pre, opens, rounds, plan>>

AppendDest ==
  /\ phase = "finalising" /\ pending # <<>> /\ pc = "start" /\ Hd.mode = "a"
  /\ fs' = AppendFx(fs, Hd.final, Hd.data)
  /\ pc' = "appended"
  /\ UNCHANGED <<pending, phase, pre, opens, rounds, plan>>

RmTmp ==
  /\ phase = "finalising" /\ pending # <<>> /\ pc = "appended"
  /\ pending' = Tail(pending) /\ pc' = "start"
  /\ UNCHANGED <<fs, phase, pre, opens, rounds, plan>>

Done ==
  /\ phase = "finalising" /\ pending = <<>>
  /\ phase' = "running"
  /\ UNCHANGED <<fs, pending, pc, pre, opens, rounds, plan>>

Crash ==          \* the process dies (or a primitive raises) between two primitives of finalisation
  /\ phase = "finalising"
  /\ phase' = "crashed"
  /\ UNCHANGED <<fs, pending, pc, pre, opens, rounds, plan>>

(* end of a martinize2 run with l warnings left after -maxwarn *)
Gate(l) ==
  IF l = 0 THEN BeginWrite
  ELSE /\ phase = "running"
       /\ phase' = "refused" /\ pending' = <<>> /\ pre' = fs /\ plan' = <<>>
       /\ UNCHANGED <<fs, pc, opens, rounds>>

Next == (\E p \in Path, m \in {"w", "a"}, t \in Tok : OpenWrite(p, m, t)) \/ Discard \/ (\E l \in {0, 1} : Gate(l))
        \/ Backup \/ MoveTmp \/ AppendDest \/ RmTmp \/ Done \/ Crash
Spec == Init /\ [][Next]_vars

-----------------------------------------------------------------------------
(* properties *)
\* destinations are untouched until finalisation; discarding / refusing leaves them untouched for good
UntouchedUntilFinalise == [][(phase = "running" /\ phase' \in {"running", "refused"}) => fs' = fs]_vars
RefusedIsFinal == phase = "refused" => (fs = pre /\ pending = <<>>)

AppendTarget(p) == AppendTargetIn(plan, p)

\* in EVERY reachable state - in particular every crash point - each file that existed when finalisation began is
\* intact under its own name or a backup name (append destinations: the old content is a prefix)
PreExistingSafe == SafeOf(pre, fs, plan, Path, K)

\* a primitive never overwrites an existing name, except that an append destination grows
NeverOverwrites ==
  [][\A q \in Name : (fs[q] # ABSENT /\ fs'[q] # fs[q]) =>
        \/ fs'[q] = ABSENT
        \/ q[2] = 0 /\ AppendTarget(q[1]) /\ IsPrefix(fs[q], fs'[q])]_vars

\* after a complete finalisation every destination holds exactly what was written for it, a pre-existing destination
\* written in "w" mode sits byte for byte under the first backup name that was free, nothing else changed
FinalisedState == FinalisedOf(pre, fs, plan, Path, K)
FinalisedAtDone == [][Done => FinalisedState']_vars
OneEntryPerDestination == \A i, j \in DOMAIN pending : i # j => pending[i].final # pending[j].final

\* the closed forms used by the judge of recorded runs agree with the state machine: during (and after an interrupted)
\* finalisation the directory is the one after the first `done` primitives of Steps(pre, plan), and a completed
\* finalisation ends in FinalOf(pre, plan), which satisfies the declarative FinalisedOf
Remaining == IF pc = "appended" THEN 1 + NPrims(fs, Tail(pending), K) ELSE NPrims(fs, pending, K)
StepsAgree ==
  phase \in {"finalising", "crashed"} =>
     LET total == NPrims(pre, plan, K) IN
     /\ Remaining <= total
     /\ fs = StateAfter(pre, plan, K, total - Remaining)
FinalAgrees ==
  (phase = "finalising" /\ pending = <<>>) =>
     /\ fs = FinalOf(pre, plan, K)
     /\ FinalisedOf(pre, FinalOf(pre, plan, K), plan, Path, K)
     /\ \A k \in 0..NPrims(pre, plan, K) : SafeOf(pre, StateAfter(pre, plan, K, k), plan, Path, K)
=============================================================================
