--------------------------- MODULE DeferredWriter ---------------------------
(* vermouth.file_writer.DeferredFileWriter and the martinize2 output gate.
   The directory is  fs : [Path \X (0..K) -> content]  where <<p, 0>> is the destination p itself and <<p, n>>
   its backup "#p.n#"; content is a sequence of tokens or ABSENT.  Every deferred open creates (or re-uses) a pending
   entry with its own temporary file, whose content is kept inline (`data`).
   Finalisation (write()) is modelled primitive by primitive - one action per file-system primitive the
   implementation performs - so that `Crash` can fall between any two of them:
        mode "w":  [Backup  = move(dest -> first free "#dest.n#")]  if dest exists ;  MoveTmp = move(tmp -> dest)
        mode "a":  Append = append tmp's content to dest (creating it) ;  RmTmp = remove(tmp)
   Gate(l) is the end of a martinize2 run: l = number of warnings left after -maxwarn (spec WarnCount).        *)
EXTENDS Integers, Sequences, FiniteSets, TLC

CONSTANTS Path, K, Tok, MaxOpens, MaxRounds

ABSENT == <<"#absent">>
Slot == 1..K
Name == Path \X (0..K)

VARIABLES fs,       \* the directory
          pending,  \* Seq([final, mode, data]) in order of first open
          pc,       \* "start" | "backedup" | "appended": progress inside the head entry during finalisation
          phase,    \* "running" | "finalising" | "crashed" | "refused"
          pre,      \* the directory when the current/last finalisation began (or initially)
          opens, rounds, plan   \* bounds ; plan = pending at the start of the finalisation (for `Finalised`)
vars == <<fs, pending, pc, phase, pre, opens, rounds, plan>>

IsPrefix(s, t) == Len(s) <= Len(t) /\ SubSeq(t, 1, Len(s)) = s
Exists(f, p, n) == f[<<p, n>>] # ABSENT
HasFree(f, p)  == \E n \in Slot : ~Exists(f, p, n)
FirstFree(f, p) == CHOOSE n \in Slot : ~Exists(f, p, n) /\ \A j \in 1..(n - 1) : Exists(f, p, j)
EntryFor(pd, p) == {i \in DOMAIN pd : pd[i].final = p}

-----------------------------------------------------------------------------
Init ==
  /\ fs \in [Name -> {ABSENT, <<"old">>}]
  /\ \A p \in Path : HasFree(fs, p)
  /\ pending = <<>> /\ pc = "start" /\ phase = "running" /\ pre = fs /\ opens = 0 /\ rounds = 0 /\ plan = <<>>

(* deferred open in mode m + one write of token t through the returned handle + closing the handle *)
OpenWrite(p, m, t) ==
  /\ phase = "running" /\ opens < MaxOpens
  /\ IF EntryFor(pending, p) # {}
     THEN LET i == CHOOSE x \in EntryFor(pending, p) : TRUE IN
          /\ pending[i].mode = m                         \* mixing "w" and "a" on one path is not specified
          /\ pending' = [pending EXCEPT ![i].data = IF m = "w" THEN <<t>> ELSE Append(@, t)]
     ELSE pending' = Append(pending, [final |-> p, mode |-> m, data |-> <<t>>])
  /\ opens' = opens + 1
  /\ UNCHANGED <<fs, pc, phase, pre, rounds, plan>>

(* close(): discard everything that was deferred *)
Discard ==
  /\ phase = "running" /\ pending # <<>>
  /\ pending' = <<>>
  /\ UNCHANGED <<fs, pc, phase, pre, opens, rounds, plan>>

BeginWrite ==
  /\ phase = "running" /\ rounds < MaxRounds
  /\ \A i \in DOMAIN pending : HasFree(fs, pending[i].final)
  /\ phase' = "finalising" /\ pc' = "start" /\ pre' = fs /\ plan' = pending /\ rounds' = rounds + 1
  /\ UNCHANGED <<fs, pending, opens>>

Hd == pending[1]

Backup ==
  /\ phase = "finalising" /\ pending # <<>> /\ pc = "start" /\ Hd.mode = "w" /\ Exists(fs, Hd.final, 0)
  /\ fs' = [fs EXCEPT ![<<Hd.final, FirstFree(fs, Hd.final)>>] = fs[<<Hd.final, 0>>], ![<<Hd.final, 0>>] = ABSENT]
  /\ pc' = "backedup"
  /\ UNCHANGED <<pending, phase, pre, opens, rounds, plan>>

MoveTmp ==
  /\ phase = "finalising" /\ pending # <<>> /\ Hd.mode = "w"
  /\ pc = "backedup" \/ (pc = "start" /\ ~Exists(fs, Hd.final, 0))
  /\ fs' = [fs EXCEPT ![<<Hd.final, 0>>] = Hd.data]
  /\ pending' = Tail(pending) /\ pc' = "start"
  /\ UNCHANGED <<phase, pre, opens, rounds, plan>>

AppendDest ==
  /\ phase = "finalising" /\ pending # <<>> /\ pc = "start" /\ Hd.mode = "a"
  /\ fs' = [fs EXCEPT ![<<Hd.final, 0>>] = (IF @ = ABSENT THEN <<>> ELSE @) \o Hd.data]
  /\ pc' = "appended"
  /\ UNCHANGED <<pending, phase, pre, opens, rounds, plan>>

RmTmp ==
  /\ phase = "finalising" /\ pending # <<>> /\ pc = "appended"
  /\ pending' = Tail(pending) /\ pc' = "start"
  /\ UNCHANGED <<fs, phase, pre, opens, rounds, plan>>

Done ==
  /\ phase = "finalising" /\ pending = <<>>
  /\ phase' = "running"
  /\ UNCHANGED <<fs, pending, pc, pre, opens, rounds, plan>>

Crash ==          \* the process dies (or a primitive raises) between two primitives of finalisation
  /\ phase = "finalising"
  /\ phase' = "crashed"
  /\ UNCHANGED <<fs, pending, pc, pre, opens, rounds, plan>>

(* end of a martinize2 run with l warnings left after -maxwarn *)
Gate(l) ==
  IF l = 0 THEN BeginWrite
  ELSE /\ phase = "running"
       /\ phase' = "refused" /\ pending' = <<>> /\ pre' = fs /\ plan' = <<>>
       /\ UNCHANGED <<fs, pc, opens, rounds>>

Next == (\E p \in Path, m \in {"w", "a"}, t \in Tok : OpenWrite(p, m, t)) \/ Discard \/ (\E l \in {0, 1} : Gate(l))
        \/ Backup \/ MoveTmp \/ AppendDest \/ RmTmp \/ Done \/ Crash
Spec == Init /\ [][Next]_vars

-----------------------------------------------------------------------------
(* properties *)
\* destinations are untouched until finalisation; discarding / refusing leaves them untouched for good
UntouchedUntilFinalise == [][(phase = "running" /\ phase' \in {"running", "refused"}) => fs' = fs]_vars
RefusedIsFinal == phase = "refused" => (fs = pre /\ pending = <<>>)

AppendTarget(p) == \E i \in DOMAIN plan : plan[i].final = p /\ plan[i].mode = "a"

\* in EVERY reachable state - in particular every crash point - each file that existed when finalisation began is
\* intact under its own name or a backup name (append destinations: the old content is a prefix)
PreExistingSafe ==
  \A p \in Path : \A n \in 0..K :
     Exists(pre, p, n) =>
        \/ fs[<<p, n>>] = pre[<<p, n>>]
        \/ n = 0 /\ \E m \in Slot : ~Exists(pre, p, m) /\ fs[<<p, m>>] = pre[<<p, 0>>]
        \/ n = 0 /\ AppendTarget(p) /\ IsPrefix(pre[<<p, 0>>], fs[<<p, 0>>])

\* a primitive never overwrites an existing name, except that an append destination grows
NeverOverwrites ==
  [][\A q \in Name : (fs[q] # ABSENT /\ fs'[q] # fs[q]) =>
        \/ fs'[q] = ABSENT
        \/ q[2] = 0 /\ AppendTarget(q[1]) /\ IsPrefix(fs[q], fs'[q])]_vars

\* after a complete finalisation every destination holds exactly what was written for it, a pre-existing destination
\* written in "w" mode sits byte for byte under the first backup name that was free, nothing else changed
FinalisedState ==
  \A p \in Path :
     LET E == {i \in DOMAIN plan : plan[i].final = p} IN
     IF E = {} THEN \A n \in 0..K : fs[<<p, n>>] = pre[<<p, n>>]
     ELSE LET e == plan[CHOOSE i \in E : TRUE] IN
          IF e.mode = "w"
          THEN /\ fs[<<p, 0>>] = e.data
               /\ IF Exists(pre, p, 0)
                  THEN /\ fs[<<p, FirstFree(pre, p)>>] = pre[<<p, 0>>]
                       /\ \A n \in Slot \ {FirstFree(pre, p)} : fs[<<p, n>>] = pre[<<p, n>>]
                  ELSE \A n \in Slot : fs[<<p, n>>] = pre[<<p, n>>]
          ELSE /\ fs[<<p, 0>>] = (IF Exists(pre, p, 0) THEN pre[<<p, 0>>] ELSE <<>>) \o e.data
               /\ \A n \in Slot : fs[<<p, n>>] = pre[<<p, n>>]
FinalisedAtDone == [][Done => FinalisedState']_vars
OneEntryPerDestination == \A i, j \in DOMAIN pending : i # j => pending[i].final # pending[j].final
=============================================================================
