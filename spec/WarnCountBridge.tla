--------------------------- MODULE WarnCountBridge ---------------------------
(* Ties the Apalache module (WarnCountApa: three types, recursion written out, checked by SMT for ALL integers) to the
   module the rest of the C08 check uses (WarnCountOps: any number of types, recursive operators, checked and replayed by
   TLC): on every state of a small domain both give the same declarative and the same operational value.  So what Apalache
   proves about WarnCountApa!Decl / WarnCountApa!Op is a statement about LeftoverDecl / LeftoverOp for three types. *)
EXTENDS WarnCountOps, TLC

CONSTANTS MaxCount, Limits, Blankets

VARIABLES cnt, mode, lim, blanket, above, order
vars == <<cnt, mode, lim, blanket, above, order>>

A == INSTANCE WarnCountApa

Name(t) == <<"t1", "t2", "t3">>[t]
Idx(s) == CHOOSE t \in 1..3 : Name(t) = s
Counts == [s \in {"t1", "t2", "t3"} |-> cnt[Idx(s)]]
EntryOf(t) == IF mode[t] = "limit" THEN <<[t |-> Name(t), n |-> lim[t]]>>
              ELSE IF mode[t] = "named" THEN <<[t |-> Name(t), n |-> NONE]>> ELSE <<>>
Specs == EntryOf(1) \o EntryOf(2) \o <<[t |-> BLANKET, n |-> blanket]>> \o EntryOf(3)
Order == [i \in 1..3 |-> Name(order[i])]

Init == /\ cnt \in [1..3 -> 0..MaxCount]
        /\ mode \in [1..3 -> {"limit", "named", "none"}]
        /\ lim \in [1..3 -> Limits]
        /\ blanket \in Blankets
        /\ above \in 0..1
        /\ order \in {<<1, 2, 3>>, <<1, 3, 2>>, <<2, 1, 3>>, <<2, 3, 1>>, <<3, 1, 2>>, <<3, 2, 1>>}
Next == UNCHANGED vars
Spec == Init /\ [][Next]_vars

SameDecl == A!Decl = LeftoverDecl(Counts, above, Specs)
SameOp   == A!Op = LeftoverOp(Counts, above, Specs, Order)
SameCovered == A!AllCovered = AllCovered(Counts, above, Specs)
=============================================================================
