------------------------------ MODULE PairGraph ------------------------------
(* Shared pure operators of the "conjunction of pairwise criteria" properties (C15 elastic network,
   C18 Go model):
     - residue identity and the residue (quotient) graph of a particle graph,
     - graph distance with a cut-off, operationally (breadth-first frontier expansion, the shape of
       networkx.all_pairs_shortest_path_length(cutoff=k)) and declaratively (existence of a walk),
     - squared distances in integer picometres,
     - two-limb (base 10^8) products for the few comparisons that exceed TLC's 32-bit integers.
   Particles are records with at least the fields chain, resid, resname; a residue is the set of
   particles agreeing on these three (vermouth.graph_utils.make_residue_graph; insertion codes are not
   generated).  Edges are sequences/sets of pairs of particle identifiers.                              *)
EXTENDS Integers, Sequences, FiniteSets

Min2(a, b) == IF a <= b THEN a ELSE b
Max2(a, b) == IF a >= b THEN a ELSE b
Abs(a)     == IF a < 0 THEN -a ELSE a
Range(s)   == {s[i] : i \in DOMAIN s}

(* ---------------------------------- geometry ---------------------------------- *)
\* squared distance of two integer points given as <<x, y, z>> (pm -> pm^2)
D2(p, q) == (p[1] - q[1]) * (p[1] - q[1]) + (p[2] - q[2]) * (p[2] - q[2]) + (p[3] - q[3]) * (p[3] - q[3])

(* ------------------------- products beyond 32 bits ---------------------------- *)
B4 == 10000
B8 == 100000000
\* x * y for 0 <= x, y < 10^8 as <<high, low>> limbs in base 10^8 (every intermediate < 2^31)
Mul(x, y) ==
  LET x1 == x \div B4   x0 == x % B4
      y1 == y \div B4   y0 == y % B4
      c  == x1 * y0 + x0 * y1                  \* < 2 * 10^8
      l  == (c % B4) * B4 + x0 * y0            \* < 2 * 10^8
  IN <<x1 * y1 + c \div B4 + l \div B8, l % B8>>
BigLeq(a, b) == a[1] < b[1] \/ (a[1] = b[1] /\ a[2] <= b[2])

\* L is the integer nearest to 100 * sqrt(d2):  (2L-1)^2 <= 40000 d2 <= (2L+1)^2
\* (a length of sqrt(d2) pm printed with five decimals of a nanometre is L * 10^-5 nm)
RoundsTo(L, d2) ==
  /\ L >= 1 /\ L < 40000000 /\ d2 >= 1 /\ d2 < B8
  /\ BigLeq(Mul(2 * L - 1, 2 * L - 1), Mul(40000, d2))
  /\ BigLeq(Mul(40000, d2), Mul(2 * L + 1, 2 * L + 1))

(* ------------------------------ graph distance -------------------------------- *)
Sym(E)    == E \cup {<<e[2], e[1]>> : e \in E}            \* E: set of pairs
Adj(E, n) == {e[2] : e \in {f \in E : f[1] = n}}          \* E symmetric

\* operational: all nodes within k edges of the frontier's origin
RECURSIVE Expand(_, _, _, _)
Expand(E, frontier, seen, k) ==
  IF k <= 0 \/ frontier = {} THEN seen
  ELSE LET nxt == (UNION {Adj(E, n) : n \in frontier}) \ seen
       IN Expand(E, nxt, seen \cup nxt, k - 1)
Ball(E, a, k) == Expand(E, {a}, {a}, k)

\* "a and b are further apart along the graph than k" (unreachable counts as further apart)
Far(E, a, b, k) == b \notin Ball(E, a, k)

\* declarative: some walk of at most k edges leads from a to b (for small models only)
WalkWithin(N, E, a, b, k) ==
  \E len \in 0..k : \E w \in [0..len -> N] :
     /\ w[0] = a /\ w[len] = b
     /\ \A i \in 0..(len - 1) : <<w[i], w[i + 1]>> \in E

(* ------------------------------ residue graph --------------------------------- *)
SameRes(x, y) == x.chain = y.chain /\ x.resid = y.resid /\ x.resname = y.resname

\* atoms: sequence of particle records; a residue is represented by the lowest index of its particles
Rep(atoms, i) == LET S == {j \in DOMAIN atoms : SameRes(atoms[j], atoms[i])}
                 IN CHOOSE j \in S : \A l \in S : j <= l
RepTable(atoms) == [i \in DOMAIN atoms |-> Rep(atoms, i)]

\* quotient of the particle graph: edges between different residues (symmetric); edges by index
ResEdgesOf(rep, edges) ==
  Sym({<<rep[e[1]], rep[e[2]]>> : e \in {f \in Range(edges) : rep[f[1]] # rep[f[2]]}})

(* ---- added for the file-level judges (C15 ElasticFiles): adjacency computed once, balls looked up ---- *)
\* adjacency of a symmetric edge set as a function over the node set N
AdjTable(N, E) == [n \in N |-> {e[2] : e \in {f \in E : f[1] = n}}]
RECURSIVE ExpandT(_, _, _, _)
ExpandT(adj, frontier, seen, k) ==
  IF k <= 0 \/ frontier = {} THEN seen
  ELSE LET nxt == (UNION {adj[n] : n \in frontier}) \ seen
       IN ExpandT(adj, nxt, seen \cup nxt, k - 1)
\* all nodes within k edges of a (a included); same set as Ball(E, a, k)
BallT(adj, a, k) == ExpandT(adj, {a}, {a}, k)
\* every coordinate of p and q differs by at most r (then D2(p, q) <= 3 r^2: no overflow for r <= 26000)
NearBox(p, q, r) == Abs(p[1] - q[1]) <= r /\ Abs(p[2] - q[2]) <= r /\ Abs(p[3] - q[3]) <= r
=============================================================================
