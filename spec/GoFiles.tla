------------------------------- MODULE GoFiles -------------------------------
(* C18 on the real command line: what `martinize2 -go ...` must have WRITTEN, and what must not depend on how the contact
   map reached the Go pipeline.  The selection rule itself is GoModel's (one definition); this module adds

     - geometry known only to a tolerance: coordinates are the digits printed in cg.pdb (0.001 A, "mA"), i.e. the in-memory
       numbers rounded to half a unit per coordinate, so a backbone distance is known to within Tol = 2 mA.  A pair whose
       distance lies within Tol of a cut-off may or may not have a potential (the statement's "strictly between" cannot be
       decided from the files); every other pair is decided:        must \subseteq written \subseteq may.
       (With tol = 0 both sets are GoModel!ExpectedFast.)
     - the record of the written files (molecule ITP + cg.pdb joined by index, go_atomtypes.itp, go_nbparams.itp, the .top),
     - the contact-map file format (which lines count), the round trip of a generated map through that format,
     - what -water-bias / -id-regions may change about the Go model.

   Records (all produced by harness/c18_real.py from the files; units: lengths mA, sigma as sigma*2^(1/6) in mA, 10^-3 else):
     opts  : [name, bb, vs : strings, lo, up, sep, eps]
     lines : Seq([ra, ca, rb, cb, ov, rcsu])      contact-map lines (18 columns, first R): residue number + chain twice, flags
     files : [has : [itp, types, nb, top, pdb : BOOLEAN], moltype, joined : BOOLEAN,
              atoms : Seq([key, chain, resid, old, resname, name, atype, pos, mass, charge, pname, presname, presid]),
              vs : Seq([site, from, one, group]), excl : Seq([a, b]), exclbad, edges : Seq(<<i, j>>),
              decl : Seq([t, mass, charge, ptype, sigma, eps]), declok, nb : Seq([ta, tb, f, s, eps]), nbok,
              top : [defines, includes : Seq(string), molecules : Seq(<<name, count>>)]]                                   *)
EXTENDS Integers, Sequences, FiniteSets, TLC

GM == INSTANCE GoModel WITH NR <- 0, Spacing <- 0, Seps <- {}, Windows <- {}, XLinks <- {}, inp <- <<>>, out <- {}

Sq(x) == x * x
Cap   == 25000                       \* per-coordinate difference beyond which two particles are simply "far" (32-bit integers)
Far2  == 2000000000
D2c(p, q) == IF \E k \in 1..3 : GM!Abs(p[k] - q[k]) > Cap THEN Far2 ELSE GM!D2(p, q)
NormP(x, y) == <<GM!Min2(x, y), GM!Max2(x, y)>>

(* ------------------------------------------- the window with a tolerance ------------------------------------------- *)
Sure(g, d2, tol)  == d2 > Sq(g.lo + tol) /\ g.up > tol /\ d2 < Sq(g.up - tol)
Maybe(g, d2, tol) == (g.lo <= tol \/ d2 > Sq(g.lo - tol)) /\ d2 < Sq(g.up + tol)

Anchored(cx) == {r \in cx.R : cx.bbof[r] # 0}
BBD2(g, cx, p) == D2c(g.atoms[cx.bbof[p[1]]].pos, g.atoms[cx.bbof[p[2]]].pos)

\* GoModel's selection (listed both ways / further apart than sep / inside the window), the window with tolerance
BandD(g, cx, D, tol) ==
  LET L    == {p \in GM!SymOf(D) : cx.bbof[p[1]] # 0 /\ cx.bbof[p[2]] # 0}
      ball == [r \in {p[1] : p \in L} |-> GM!Ball(cx.E, r, g.sep)]
      far  == {p \in L : p[2] \notin ball[p[1]]}
      d2   == [p \in far |-> BBD2(g, cx, p)]
  IN [must |-> {p \in far : Sure(g, d2[p], tol)}, may |-> {p \in far : Maybe(g, d2[p], tol)}, listed |-> L, far |-> far]
Band(g, cx, tol) == BandD(g, cx, GM!DirPairs(g, cx), tol)

\* entries naming a residue that exists but has no anchor particle: never generated (the implementation exits)
NamesUnanchored(cx, D) == \E p \in D : cx.bbof[p[1]] = 0 \/ cx.bbof[p[2]] = 0

(* pair potentials nb : Seq([ta, tb, s, eps]) and Go exclusions excl : Seq([a, b]) against the selection *)
JudgeBand(g, cx, nb, excl, tol) ==
  LET D      == GM!DirPairs(g, cx)
      B      == BandD(g, cx, D, tol)
      A      == Anchored(cx)
      typeOf == [r \in A |-> GM!SiteType(g, cx.bbof[r])]
      ResOf(t) == LET S == {r \in A : typeOf[r] = t} IN IF S = {} THEN 0 ELSE CHOOSE r \in S : TRUE
      ra     == [k \in DOMAIN nb |-> ResOf(nb[k].ta)]
      rb     == [k \in DOMAIN nb |-> ResOf(nb[k].tb)]
      pr     == [k \in DOMAIN nb |-> NormP(ra[k], rb[k])]
      got    == {pr[k] : k \in DOMAIN nb}
      xgot   == {NormP(excl[k].a, excl[k].b) : k \in DOMAIN excl}
      xexp   == {NormP(cx.bbof[q[1]], cx.bbof[q[2]]) : q \in got}
  IN IF NamesUnanchored(cx, D) THEN "input-names-a-residue-without-anchor-particle"
     ELSE IF \E k \in DOMAIN nb : ra[k] = 0 \/ rb[k] = 0 THEN "pair-potential-between-types-that-are-not-site-types"
     ELSE IF \E k \in DOMAIN nb : ra[k] = rb[k] THEN "pair-potential-of-a-residue-with-itself"
     ELSE IF Cardinality(got) # Len(nb) THEN "pair-potential-repeated"
     ELSE IF got \ B.may # {} THEN
            LET q == CHOOSE x \in got \ B.may : TRUE
            IN "pair-potential-on-contact-failing-" \o
               (IF q \notin B.listed THEN "sym" ELSE IF q \notin B.far THEN "sep"
                ELSE IF ~(g.lo <= tol \/ BBD2(g, cx, q) > Sq(g.lo - tol)) THEN "lo" ELSE "up")
     ELSE IF B.must \ got # {} THEN "qualifying-contact-without-pair-potential"
     ELSE IF \E k \in DOMAIN nb : nb[k].s < tol \/ nb[k].s > 40000 \/ ~(Sq(nb[k].s - tol) <= BBD2(g, cx, pr[k]) /\ BBD2(g, cx, pr[k]) <= Sq(nb[k].s + tol))
          THEN "sigma-is-not-distance-over-2^(1/6)"
     ELSE IF \E k \in DOMAIN nb : nb[k].eps # g.eps THEN "depth-is-not-the-requested-one"
     ELSE IF Cardinality(xgot) # Len(excl) THEN "exclusion-repeated"
     ELSE IF xgot # xexp THEN "exclusions-are-not-the-backbone-pairs-of-the-contacts"
     ELSE "ok"

(* vacuity report: residue pairs the map names (either direction), classified with the exact window *)
BandClasses(g, cx, tol) ==
  LET D  == GM!DirPairs(g, cx)
      B  == BandD(g, cx, D, tol)
      M  == {q \in {NormP(p[1], p[2]) : p \in {d \in D : d[1] # d[2]}} : cx.bbof[q[1]] # 0 /\ cx.bbof[q[2]] # 0}
      ball == [r \in {p[1] : p \in M} |-> GM!Ball(cx.E, r, g.sep)]
      F(p) == (IF p \in B.listed THEN {} ELSE {"sym"}) \cup (IF p[2] \in ball[p[1]] THEN {"sep"} ELSE {})
              \cup (IF BBD2(g, cx, p) > Sq(g.lo) THEN {} ELSE {"lo"}) \cup (IF BBD2(g, cx, p) < Sq(g.up) THEN {} ELSE {"up"})
      Class(p) == LET f == F(p) IN IF f = {} THEN "pair" ELSE IF Cardinality(f) = 1 THEN CHOOSE c \in f : TRUE ELSE "multi"
      cl == {<<p, Class(p)>> : p \in M}
      N(c) == Cardinality({x \in cl : x[2] = c})
      Inter(S) == Cardinality({p \in S : g.atoms[p[1]].chain # g.atoms[p[2]].chain})
  IN [pair |-> N("pair"), sym |-> N("sym"), sep |-> N("sep"), lo |-> N("lo"), up |-> N("up"), multi |-> N("multi"),
      absent |-> Cardinality({k \in DOMAIN g.cmap : GM!Lookup(g, cx, g.cmap[k].ca, g.cmap[k].ra) = 0 \/ GM!Lookup(g, cx, g.cmap[k].cb, g.cmap[k].rb) = 0}),
      sites |-> Cardinality(GM!Backbone(g)), band |-> Cardinality(B.may \ B.must), inter |-> Inter(B.must),
      \* one-directional inter-chain entries whose residue-swapped image is also listed one-directionally (A2->B3 with A3->B2)
      mirror |-> Cardinality({p \in D : g.atoms[p[1]].chain # g.atoms[p[2]].chain /\ <<p[2], p[1]>> \notin D
                                /\ \E q \in D : q # p /\ <<q[2], q[1]>> \notin D /\ g.atoms[q[1]].chain = g.atoms[p[1]].chain
                                      /\ g.atoms[q[2]].chain = g.atoms[p[2]].chain /\ g.atoms[q[1]].old = g.atoms[p[2]].old
                                      /\ g.atoms[q[2]].old = g.atoms[p[1]].old}),
      chains |-> Cardinality({g.atoms[i].chain : i \in DOMAIN g.atoms}),
      overlap |-> Cardinality({p \in cx.R \X cx.R : p[1] < p[2] /\ g.atoms[p[1]].old = g.atoms[p[2]].old})]

(* ------------------------------------------------ contact-map file ------------------------------------------------- *)
\* "this is a OV or rCSU contact we take it": overlap flag set, or no overlap but a net rCSU contact
Taken(l) == l.ov = 1 \/ (l.ov = 0 /\ l.rcsu = 1)
CmapOf(lines) == LET s == SelectSeq(lines, Taken) IN [i \in DOMAIN s |-> [ra |-> s[i].ra, ca |-> s[i].ca, rb |-> s[i].rb, cb |-> s[i].cb]]

(* ------------------------------------------------- the written files ----------------------------------------------- *)
\* the input of the selection as the files show it: every particle that is not a Go site, bonds among them
FileG(opts, cmap, f) ==
  LET A == f.atoms
      S == {i \in DOMAIN A : A[i].name = opts.vs}
      n == Len(A) - Cardinality(S)
  IN [atoms |-> SubSeq(A, 1, n), edges |-> SelectSeq(f.edges, LAMBDA e : e[1] <= n /\ e[2] <= n), cmap |-> cmap,
      name |-> opts.name, bb |-> opts.bb, vs |-> opts.vs, lo |-> opts.lo, up |-> opts.up, sep |-> opts.sep, eps |-> opts.eps]

JudgeTop(opts, f) ==
  \* go_nbparams.itp is not written when there is no pair potential to write: an absent file is a file without lines
  IF ~(f.has.itp /\ f.has.types /\ f.has.top /\ f.has.pdb) THEN "an-output-file-is-missing"
  ELSE IF f.moltype # opts.name THEN "molecule-type-not-named-as-requested"
  ELSE IF \A k \in DOMAIN f.top.defines : f.top.defines[k] # "GO_VIRT" THEN "top-does-not-define-GO_VIRT"
  ELSE IF Cardinality({k \in DOMAIN f.top.includes : f.top.includes[k] = opts.name \o ".itp"}) # 1 THEN "top-does-not-include-the-molecule-itp-once"
  ELSE IF f.top.molecules # <<<<opts.name, 1>>>> THEN "top-does-not-list-one-molecule-of-the-type"
  ELSE IF ~f.joined THEN "itp-and-pdb-do-not-list-the-same-particles"
  ELSE IF \E i \in DOMAIN f.atoms : f.atoms[i].pname # f.atoms[i].name \/ f.atoms[i].presname # f.atoms[i].resname
                                     \/ f.atoms[i].presid # f.atoms[i].resid % 10000 THEN "itp-and-pdb-disagree-on-a-particle"
  ELSE IF ~f.declok THEN "go_atomtypes-has-a-malformed-line"
  ELSE IF ~f.nbok THEN "go_nbparams-has-a-malformed-line"
  ELSE IF f.exclbad THEN "go-exclusion-line-without-exactly-two-particles"
  ELSE "ok"

JudgeFileSites(g, opts, f) ==
  LET A     == f.atoms
      N     == Len(A)
      n     == Len(g.atoms)
      BB    == GM!Backbone(g)
      Sites == {i \in DOMAIN A : A[i].name = opts.vs}
      Cons(j) == {k \in DOMAIN f.vs : f.vs[k].site = j}
      From(j) == f.vs[CHOOSE k \in Cons(j) : TRUE].from[1]
      Decl(t) == {k \in DOMAIN f.decl : f.decl[k].t = t}
  IN IF Sites # (n + 1)..N THEN "site-not-placed-after-all-existing-atoms"
     ELSE IF N - n # Cardinality(BB) THEN "number-of-new-particles-is-not-number-of-backbone-particles"
     ELSE IF \E k \in DOMAIN f.vs : f.vs[k].group = "Virtual go site" /\ f.vs[k].site \notin Sites THEN "construction-for-a-particle-that-is-not-a-new-site"
     ELSE IF \E j \in Sites : Cardinality(Cons(j)) # 1 THEN "site-without-exactly-one-construction"
     ELSE IF \E j \in Sites : \E k \in Cons(j) : Len(f.vs[k].from) # 1 \/ ~f.vs[k].one THEN "site-not-constructed-from-one-particle-with-weight-1"
     ELSE IF \E j \in Sites : From(j) \notin BB THEN "site-not-constructed-from-a-backbone-particle"
     ELSE IF \E j, l \in Sites : j # l /\ From(j) = From(l) THEN "backbone-particle-with-two-sites"
     ELSE IF \E j \in Sites : LET b == A[From(j)] s == A[j] IN s.resid # b.resid \/ s.resname # b.resname \/ s.chain # b.chain
          THEN "site-does-not-carry-the-residue-identity"
     ELSE IF \E j \in Sites : A[j].pos # A[From(j)].pos THEN "site-not-co-located-with-its-backbone-particle"
     ELSE IF \E j \in Sites : A[j].mass # 0 \/ A[j].charge # 0 THEN "site-mass-or-charge-not-zero"
     ELSE IF \E j \in Sites : A[j].atype # GM!SiteType(g, From(j)) THEN "site-type-not-named-after-molecule-and-residue"
     ELSE IF \E j \in Sites : \E l \in 1..N : l # j /\ A[l].atype = A[j].atype THEN "site-type-not-unique"
     ELSE IF \E j \in Sites : Cardinality(Decl(A[j].atype)) # 1 THEN "site-type-not-declared-exactly-once"
     ELSE IF \E k \in DOMAIN f.decl : \A j \in Sites : A[j].atype # f.decl[k].t THEN "declared-type-that-is-no-site-type"
     ELSE IF \E k \in DOMAIN f.decl : f.decl[k].mass # 0 \/ f.decl[k].charge # 0 \/ f.decl[k].sigma # 0 \/ f.decl[k].eps # 0 \/ f.decl[k].ptype # "A"
          THEN "site-type-not-declared-with-zero-parameters"
     ELSE "ok"

\* lines of go_nbparams.itp: Go pair potentials (two site types) / water-bias lines (site type + the water bead type)
IsSiteType(f, opts, t) == \E i \in DOMAIN f.atoms : f.atoms[i].name = opts.vs /\ f.atoms[i].atype = t
GoLines(f, opts)    == SelectSeq(f.nb, LAMBDA l : IsSiteType(f, opts, l.ta) /\ IsSiteType(f, opts, l.tb))
WaterLines(f, opts) == SelectSeq(f.nb, LAMBDA l : (l.ta = "W" /\ IsSiteType(f, opts, l.tb)) \/ (l.tb = "W" /\ IsSiteType(f, opts, l.ta)))

JudgeFiles(e) ==
  LET f  == e.files
      t  == JudgeTop(e.opts, f)
  IN IF e.rc # 0 THEN "command-failed"
     ELSE IF t # "ok" THEN t
     ELSE LET g  == FileG(e.opts, CmapOf(e.lines), f)
              s  == JudgeFileSites(g, e.opts, f)
          IN IF s # "ok" THEN s
             ELSE IF \E k \in DOMAIN f.nb : f.nb[k].f # "1" THEN "pair-potential-not-of-function-type-1"
             ELSE JudgeBand(g, GM!Ctx(g), f.nb, f.excl, e.tol)

FileClasses(e) == LET g == FileG(e.opts, CmapOf(e.lines), e.files) IN BandClasses(g, GM!Ctx(g), e.tol)

(* ------------------------------------ generated map: round trip through the file format ---------------------------- *)
(* e.g    : the molecule in memory (GoModel input) with cmap = the map GenerateContactMap put into the system
   e.back : that map written with -go-write-file, one column appended to every R line (see the driver), read by read_go_map
   e.legend : the written file parsed by the column legend in its own header, with the OV / rCSU flags
   The map is an input of the property; what must not change is what the Go model makes of it.                          *)
AsCmap(m) == [i \in DOMAIN m |-> [ra |-> m[i][1], ca |-> m[i][2], rb |-> m[i][3], cb |-> m[i][4]]]
JudgeRoundTrip(e) ==
  LET g   == e.g
      cx  == GM!Ctx(g)
      b1  == Band(g, cx, e.tol)
      b2  == Band([g EXCEPT !.cmap = AsCmap(e.back)], cx, e.tol)
      b3  == Band([g EXCEPT !.cmap = CmapOf(e.legend)], cx, e.tol)
  IN IF ~e.backok THEN "padded-map-not-readable"
     ELSE IF b2.must # b1.must \/ b2.may # b1.may THEN "map-read-back-from-the-written-file-selects-other-contacts"
     ELSE IF b3.must # b1.must \/ b3.may # b1.may THEN "written-file-read-by-its-own-legend-selects-other-contacts"
     ELSE IF b1.must = {} THEN "vacuous-no-contact-selected"
     ELSE "ok"
RoundTripFacts(e) ==
  [same_entries_back |-> GM!Range(AsCmap(e.back)) = GM!Range(e.g.cmap), same_entries_legend |-> GM!Range(CmapOf(e.legend)) = GM!Range(e.g.cmap),
   entries |-> Len(e.g.cmap),
   inter |-> LET b == Band(e.g, GM!Ctx(e.g), e.tol) IN Cardinality({p \in b.must : e.g.atoms[p[1]].chain # e.g.atoms[p[2]].chain}),
   symmetric |-> \A k \in DOMAIN e.g.cmap : \E l \in DOMAIN e.g.cmap :
                                               e.g.cmap[l] = [ra |-> e.g.cmap[k].rb, ca |-> e.g.cmap[k].cb, rb |-> e.g.cmap[k].ra, cb |-> e.g.cmap[k].ca]]

(* two runs that must have written the same Go model (map generated in memory / the same map read from the file) *)
NbPairs(f) == {<<{f.nb[k].ta, f.nb[k].tb}, f.nb[k].s, f.nb[k].eps>> : k \in DOMAIN f.nb}
ExSet(f)   == {NormP(f.excl[k].a, f.excl[k].b) : k \in DOMAIN f.excl}
Plain(a)   == [key |-> a.key, chain |-> a.chain, resid |-> a.resid, resname |-> a.resname, name |-> a.name, atype |-> a.atype,
               pos |-> a.pos, mass |-> a.mass, charge |-> a.charge]
JudgeSame(e) ==
  LET a == e.first  b == e.second
  IN IF e.rc # 0 THEN "command-failed"
     ELSE IF Len(a.atoms) # Len(b.atoms) \/ \E i \in DOMAIN a.atoms : Plain(a.atoms[i]) # Plain(b.atoms[i]) THEN "second-run-wrote-other-particles"
     ELSE IF GM!Range(a.decl) # GM!Range(b.decl) THEN "second-run-declared-other-types"
     ELSE IF NbPairs(a) # NbPairs(b) THEN "second-run-wrote-other-pair-potentials"
     ELSE IF ExSet(a) # ExSet(b) THEN "second-run-wrote-other-exclusions"
     ELSE IF a.nb = <<>> THEN "vacuous-no-pair-potential"
     ELSE "ok"

(* --------------------------------------- water bias / disordered regions ------------------------------------------- *)
(* Documented (bin/martinize2, ComputeWaterBias.remove_cross_nb_interactions, doc/source/tutorials/water_biasing.rst):
     - water bias adds non-bonded parameters between the water bead and a residue's virtual site (their numbers: not judged here);
     - "-id-regions <first>:<last> ..." names disordered residues by residue number of the input, bounds included;
     - "Remove Go bonds between folded and disordered regions of a molecule".
   Required: the options change nothing about sites, their types, their declarations and constructions; every Go pair potential
   between two folded residues stays as it was; every Go pair potential between a folded and a disordered residue is gone; no
   Go pair potential appears or changes.  Not specified (either outcome accepted): potentials between two disordered residues,
   and whether the exclusion of a removed potential stays (exclusions may only disappear, never for a kept potential).      *)
InRegion(old, regions) == \E k \in DOMAIN regions : regions[k][1] <= old /\ old <= regions[k][2]
JudgeWater(e) ==
  LET a    == e.first
      b    == e.second
      o    == e.opts
      ga   == GoLines(a, o)
      gb   == GoLines(b, o)
      P(s) == {<<{s[k].ta, s[k].tb}, s[k].s, s[k].eps>> : k \in DOMAIN s}
      OldOf(t) == LET i == CHOOSE j \in DOMAIN a.atoms : a.atoms[j].name = o.vs /\ a.atoms[j].atype = t
                      c == CHOOSE k \in DOMAIN a.vs : a.vs[k].site = i
                  IN a.atoms[a.vs[c].from[1]].old
      Dis(t) == InRegion(OldOf(t), e.regions)
      NDis(p) == Cardinality({t \in p[1] : Dis(t)})
      bbp(s) == {LET i == CHOOSE j \in DOMAIN a.atoms : a.atoms[j].name = o.vs /\ a.atoms[j].atype = s[k].ta
                     j == CHOOSE l \in DOMAIN a.atoms : a.atoms[l].name = o.vs /\ a.atoms[l].atype = s[k].tb
                     ci == CHOOSE c \in DOMAIN a.vs : a.vs[c].site = i
                     cj == CHOOSE c \in DOMAIN a.vs : a.vs[c].site = j
                 IN NormP(a.vs[ci].from[1], a.vs[cj].from[1]) : k \in DOMAIN s}
  IN IF e.rc # 0 THEN "command-failed"
     ELSE IF JudgeTop(o, a) # "ok" \/ JudgeFileSites(FileG(o, <<>>, a), o, a) # "ok" THEN "run-without-water-bias-rejected"
     ELSE IF JudgeTop(o, b) # "ok" THEN JudgeTop(o, b)
     ELSE IF Len(a.atoms) # Len(b.atoms) \/ \E i \in DOMAIN a.atoms : Plain(a.atoms[i]) # Plain(b.atoms[i]) THEN "water-bias-options-changed-the-particles"
     ELSE IF a.vs # b.vs THEN "water-bias-options-changed-the-site-constructions"
     ELSE IF GM!Range(a.decl) # GM!Range(b.decl) \/ Len(a.decl) # Len(b.decl) THEN "water-bias-options-changed-the-type-declarations"
     ELSE IF Len(ga) # Len(a.nb) THEN "run-without-water-bias-has-a-line-that-is-no-go-potential"
     ELSE IF Len(gb) + Len(WaterLines(b, o)) # Len(b.nb) THEN "nonbond-line-neither-go-potential-nor-water-bias"
     ELSE IF P(gb) \ P(ga) # {} THEN "go-potential-added-or-changed-by-water-bias-options"
     ELSE IF \E p \in P(ga) \ P(gb) : NDis(p) = 0 THEN "go-potential-between-folded-residues-removed"
     ELSE IF \E p \in P(gb) : NDis(p) = 1 THEN "go-potential-between-folded-and-disordered-residue-kept"
     ELSE IF ExSet(b) \ ExSet(a) # {} THEN "exclusion-added-by-water-bias-options"
     ELSE IF bbp(gb) \ ExSet(b) # {} THEN "exclusion-of-a-kept-go-potential-removed"
     ELSE "ok"
WaterFacts(e) ==
  LET o == e.opts
      ga == GoLines(e.first, o)
      gb == GoLines(e.second, o)
      OldOf(t) == LET i == CHOOSE j \in DOMAIN e.first.atoms : e.first.atoms[j].name = o.vs /\ e.first.atoms[j].atype = t
                      c == CHOOSE k \in DOMAIN e.first.vs : e.first.vs[k].site = i
                  IN e.first.atoms[e.first.vs[c].from[1]].old
      ND(l) == Cardinality({t \in {l.ta, l.tb} : InRegion(OldOf(t), e.regions)})
  IN [go_before |-> Len(ga), go_after |-> Len(gb), water_lines |-> Len(WaterLines(e.second, o)),
      cross |-> Cardinality({k \in DOMAIN ga : ND(ga[k]) = 1}), folded |-> Cardinality({k \in DOMAIN ga : ND(ga[k]) = 0}),
      both_disordered |-> Cardinality({k \in DOMAIN ga : ND(ga[k]) = 2}),
      both_disordered_kept |-> Cardinality({k \in DOMAIN gb : ND(gb[k]) = 2})]
=============================================================================
