--------------------------- MODULE Trace_ElasticNet ---------------------------
(* Batch validation of recorded runs of the real ApplyRubberBand.run_molecule (C15).
   Batch[i] = [fam  : generator family,
               m    : input as in ElasticNet, plus  lo : lower bound (pm, only used to count distances below it),
                      name per atom, rmdspec / btspec : [given, val, ffhas, ffval] how separation and bond function type reach the
                      processor (argument, variable of the molecule's force field, neither),
               rec  : [exc : BOOLEAN, warn : number of warnings logged,
                       bonds : Seq([a, b : particle index, len : length in 10^-5 nm, k : constant in 10^-6, ft : function type]),
                               the bonds of group "Rubber band" ADDED by the recorded call (a molecule may have a network already)
                       others : BOOLEAN  (every interaction present before the call is still what and where it was)],
               twin : [has : BOOLEAN, exc, bonds]  the same molecule after a rigid motion and with another atom
                      order / other node keys, bonds mapped back to the particle indices of m]
   Verdict: [v |-> "ok" or the first reason for rejection, cls |-> number of particle pairs per class
   (bonded / excluded by exactly one criterion / by several), computed from the criteria of ElasticNet.  *)
EXTENDS Integers, Sequences, FiniteSets, TLC, Json, IOUtils

Batch == JsonDeserialize(IOEnv.TRACE_FILE)

EN == INSTANCE ElasticNet WITH NB <- 0, Spacing <- 0, Ups <- {}, Rmds <- {}, Minfs <- {}, Base <- 0, Partitions <- {},
                               ChainSplits <- {}, DomKinds <- {}, TabRegions <- {}, m <- <<>>, out <- {}

VARIABLES tid, verdict
vars == <<tid, verdict>>

Norm(b)   == <<EN!Min2(b.a, b.b), EN!Max2(b.a, b.b)>>
PairSet(bs) == {Norm(bs[i]) : i \in DOMAIN bs}

BondsWellFormed(m, bs) == \A i \in DOMAIN bs : bs[i].a \in 1..EN!NA(m) /\ bs[i].b \in 1..EN!NA(m) /\ bs[i].a # bs[i].b
NoDuplicates(bs)       == \A i, j \in DOMAIN bs : i # j => Norm(bs[i]) # Norm(bs[j])
LengthsOK(m, bs)   == \A i \in DOMAIN bs : EN!RoundsTo(bs[i].len, EN!Dist2(m, bs[i].a, bs[i].b))
ConstantsOK(m, bs) == \A i \in DOMAIN bs : EN!Abs(bs[i].k - EN!K(m, bs[i].a, bs[i].b)) <= 1
\* beyond the statement, named separately: the function type is the one given, else the force field's, else 6
TypesOK(m, bs)     == \A i \in DOMAIN bs : bs[i].ft = EN!ResolveSpec(m.btspec, EN!DefaultBondType)
\* the input with the separation the processor documents (m.rmd of the recording is a placeholder when m.rmdspec is there)
Resolved(m) == [m EXCEPT !.rmd = EN!ResolveSpec(m.rmdspec, EN!DefaultRmd)]

JudgeBonds(m, cx, exp, bs, tag) ==
  LET got == PairSet(bs)
  IN IF ~BondsWellFormed(m, bs) THEN tag \o "bond-to-itself-or-unknown-particle"
     ELSE IF ~NoDuplicates(bs) THEN tag \o "pair-bonded-more-than-once"
     ELSE IF got \ exp # {} THEN
            LET p == CHOOSE q \in got \ exp : TRUE
                F == EN!Failing(m, cx, p[1], p[2])
                c == CHOOSE x \in F : \A y \in F : x <= y
            IN tag \o "bond-on-pair-failing-" \o EN!Crit[c]
     ELSE IF exp \ got # {} THEN tag \o "qualifying-pair-without-bond"
     ELSE IF ~LengthsOK(m, bs) THEN tag \o "length-is-not-the-distance-to-5-decimals"
     ELSE IF ~ConstantsOK(m, bs) THEN tag \o "constant-is-not-the-capped-decayed-base"
     ELSE IF ~TypesOK(m, bs) THEN tag \o "bond-function-type-not-as-documented"
     ELSE "ok"

SameNetwork(bs, ts) ==
  /\ PairSet(bs) = PairSet(ts)
  /\ \A i \in DOMAIN bs : \A j \in DOMAIN ts :
        Norm(bs[i]) = Norm(ts[j]) => bs[i].len = ts[j].len /\ EN!Abs(bs[i].k - ts[j].k) <= 1

Judge(e) ==
  LET m   == Resolved(e.m)
      cx  == EN!Ctx(m)
      exp == EN!ExpectedWith(m, cx)
  IN IF e.rec.exc THEN "exception"
     ELSE IF EN!HasNan(m) THEN
            (IF e.rec.bonds # <<>> THEN "network-built-despite-undefined-coordinates"
             ELSE IF e.rec.warn = 0 THEN "undefined-coordinates-without-warning"
             ELSE IF ~e.rec.others THEN "other-bonds-changed"
             ELSE "ok")
     ELSE LET j == JudgeBonds(m, cx, exp, e.rec.bonds, "") IN
          IF j # "ok" THEN j
          ELSE IF ~e.rec.others THEN "other-bonds-changed"
          ELSE IF ~e.twin.has THEN "ok"
          ELSE IF e.twin.exc THEN "twin-exception"
          ELSE LET t == JudgeBonds(m, cx, exp, e.twin.bonds, "twin-") IN
               IF t # "ok" THEN t
               ELSE IF ~SameNetwork(e.rec.bonds, e.twin.bonds) THEN "twin-network-differs"
               ELSE "ok"

Classes(e) ==
  LET m  == Resolved(e.m)
      A  == m.atoms
      cx == EN!Ctx(m)
      P  == {p \in EN!Pairs(m) : ~A[p[1]].nan /\ ~A[p[2]].nan}
      cl == [p \in P |-> EN!ClassOf(m, cx, p[1], p[2])]
      Of(c) == {p \in P : cl[p] = c}
      N(c) == Cardinality(Of(c))
      B  == Of("bond")
      inreg(x) == {i \in DOMAIN m.dom.regions : EN!InRegion(m.dom.regions[i], EN!RegResid(x))}
      below(p) == EN!Dist2(m, p[1], p[2]) < m.lo * m.lo
  IN [bond |-> N("bond"), sel |-> N("sel"), dom |-> N("dom"), sep |-> N("sep"), cut |-> N("cut"),
      force |-> N("force"), multi |-> N("multi"),
      \* excluded by the separation alone although the residue numbers (same chain) are further apart than rmd: a ring or a branch
      shortcut |-> Cardinality({p \in Of("sep") : A[p[1]].chain = A[p[2]].chain /\ EN!Abs(A[p[1]].resid - A[p[2]].resid) > m.rmd}),
      \* bonded although the residue numbers are within rmd of each other: a chain break, another chain, numbers that restart
      bynumber |-> Cardinality({p \in B : EN!Abs(A[p[1]].resid - A[p[2]].resid) <= m.rmd}),
      \* bonded pairs that share a region although one of the beads lies in several regions (hinge, nested, overlapping)
      hinge |-> IF m.dom.kind = "regions"
                THEN Cardinality({p \in B : Cardinality(inreg(A[p[1]])) > 1 \/ Cardinality(inreg(A[p[2]])) > 1}) ELSE 0,
      \* decay with a distance below the lower bound: bonded at the cap (odd power) / bonded below the base, or excluded by the
      \* force alone (even power)
      lowcap |-> IF m.decay THEN Cardinality({p \in B : below(p) /\ EN!RawK(m, p[1], p[2]) > m.base}) ELSE 0,
      lowdec |-> IF m.decay THEN Cardinality({p \in B \cup Of("force") : below(p) /\ EN!RawK(m, p[1], p[2]) < m.base}) ELSE 0,
      \* bonded pairs of selected beads of which one shares its name with another bead of its residue
      dupname |-> Cardinality({p \in B : \E x \in {p[1], p[2]} : \E y \in DOMAIN A :
                                 y # x /\ cx.rep[y] = cx.rep[x] /\ A[y].name = A[x].name})]

NoClasses == [bond |-> 0, sel |-> 0, dom |-> 0, sep |-> 0, cut |-> 0, force |-> 0, multi |-> 0, shortcut |-> 0, bynumber |-> 0,
              hinge |-> 0, lowcap |-> 0, lowdec |-> 0, dupname |-> 0]
Init == tid \in 1..Len(Batch) /\ verdict = [v |-> "pending", cls |-> NoClasses]
Eval == /\ verdict.v = "pending"
        /\ verdict' = [v |-> Judge(Batch[tid]), cls |-> Classes(Batch[tid])]
        /\ UNCHANGED tid
Spec == Init /\ [][Eval]_vars
=============================================================================
