----------------------------- MODULE ElasticFiles -----------------------------
(* C15, real command line: the rubber-band network as bin/martinize2 WRITES it, judged from the files.

   One event = one run of the unmodified entry():
     fam   : generator family
     tol   : band in thousandths of an Angstrom (mA).  cg.pdb prints coordinates to 0.001 A, so a distance computed
             from the file is within sqrt(3) mA of the distance the program saw; pairs whose distance lies within
             `tol` of the upper cut-off, or whose decayed constant interval straddles the minimum force, may go
             either way ("free" pairs; counted).
     rc    : 0 = entry() returned normally and wrote its files
     nanwarn : the log of the run holds the warning about undefined coordinates
     o     : the request, as given on the command line
               flag  : -elastic given           ff : target force field (ForcedFFs switch the network on)
               unit  : "molecule" | "all" | "chain" | "regions"     regions : Seq(<<first, last>>) input numbers
               rmd   : minimum separation in force (given with -ermd, else the processor's documented fallback)
               up    : upper cut-off, mA         base, minf : constants in 10^-6 kJ/mol/nm^2
               names : bead names selected (-eb, else the backbone bead)
               decay : decay factor # 0 (then f.klo / f.khi hold the interval of base*exp(-a(d-lower)^p) per pair,
                       evaluated outside TLC over the distances compatible with the printed coordinates)
               merge : Seq(set of chain labels) given with -merge,  mergeall : -merge all
     inp   : what the harness knows about the structure it wrote
               segs  : Seq(chain label)  one entry per bonded chain segment of the input, in file order
               links : Seq(<<i, j>>)     segments joined by a disulfide bridge in the input
     f     : the written files, projected without interpretation
               ok       : cg.pdb, topol.top and every included molecule file exist
               topsizes : particles per molecule instance according to [ molecules ] and the [ atoms ] sections
               tersizes : particles per TER-closed block of cg.pdb
               atoms    : Seq([mol : instance number, chain, name : bead name (ITP), pos : <<x, y, z>> mA, nan : BOOLEAN,
                               seg, res : segment and residue of the INPUT the bead belongs to (identified by geometry),
                               old : that residue's number in the input])
               edges    : Seq(<<i, j>>)  CONECT records (the bonds of the molecules), by particle index
               bonds    : Seq([a, b : particle index, len : 10^-5 nm, k : 10^-6, ft : function type])
                          the lines under the comment "Rubber band" of [ bonds ], one copy per molecule instance
               strays   : lines marked "Rubber band" anywhere else (other section, conditional block, malformed)
               klo, khi : N x N (only with decay)

   Required (the statement of C15 read on the files):
     * no request -> no rubber-band line;
     * the written molecules are the chain sets joined by bridges / -merge / -eunit all (a bond never leaves a molecule);
     * inside a molecule a pair is bonded exactly when both beads are selected, share the domain, their residues are further
       apart on the residue graph (CONECT, residues of the input) than rmd, the distance does not exceed the cut-off and
       the capped decayed constant exceeds the minimum force - up to the band;
     * one line per pair, length = distance to 5 decimals (within the band), constant inside the interval.            *)
EXTENDS PairGraph, TLC, Json, IOUtils

Batch == JsonDeserialize(IOEnv.TRACE_FILE)

ForcedFFs == {"elnedyn", "elnedyn22", "elnedyn22p"}
Requested(o) == o.flag \/ o.ff \in ForcedFFs

Crit == <<"sel", "dom", "sep", "cut", "force">>

(* -------------------------------------------- molecules of the written system -------------------------------------------- *)
\* Molecules of the input: chain segments joined by bridges.  -merge <set> then unites, set after set, the molecules ALL of whose
\* chain labels are in the set (merge_chains: "merged only if all the chains it comprises are part of the selection");
\* -merge all and a requested -eunit all unite everything.
RECURSIVE ApplyMerges(_, _, _)
ApplyMerges(comp, labels, ms) ==
  IF ms = <<>> THEN comp
  ELSE LET set    == Range(Head(ms))
           member == {i \in DOMAIN comp : {labels[j] : j \in comp[i]} \subseteq set}
       IN ApplyMerges([i \in DOMAIN comp |-> IF i \in member THEN member ELSE comp[i]], labels, Tail(ms))
SegComponents(e) ==
  LET n     == Len(e.inp.segs)
      adj   == AdjTable(1..n, Sym({<<l[1], l[2]>> : l \in Range(e.inp.links)}))
      comp0 == [i \in 1..n |-> BallT(adj, i, n)]
  IN IF e.o.mergeall \/ (e.o.unit = "all" /\ Requested(e.o)) THEN [i \in 1..n |-> 1..n]
     ELSE ApplyMerges(comp0, e.inp.segs, e.o.merge)
MoleculesOK(e) ==
  LET comp == SegComponents(e)
      A    == e.f.atoms
  IN \A a, b \in DOMAIN A : (A[a].mol = A[b].mol) = (A[b].seg \in comp[A[a].seg])
\* cheaper equivalent used by the judge: per molecule instance the set of segments is one whole component
MoleculesOKFast(e) ==
  LET comp == SegComponents(e)
      A    == e.f.atoms
      M    == {A[a].mol : a \in DOMAIN A}
      segsOf == [mo \in M |-> {A[a].seg : a \in {x \in DOMAIN A : A[x].mol = mo}}]
  IN /\ \A mo \in M : \E s \in segsOf[mo] : segsOf[mo] = comp[s]
     /\ \A m1, m2 \in M : m1 # m2 => segsOf[m1] \cap segsOf[m2] = {}

(* ----------------------------------------------------- the criteria ----------------------------------------------------- *)
InRegion(r, v) == Min2(r[1], r[2]) <= v /\ v <= Max2(r[1], r[2])

SelY(e, a, b) == LET A == e.f.atoms IN A[a].name \in Range(e.o.names) /\ A[b].name \in Range(e.o.names)
DomY(e, a, b) ==
  LET A == e.f.atoms IN
  CASE e.o.unit \in {"molecule", "all"} -> TRUE
    [] e.o.unit = "chain"   -> A[a].chain = A[b].chain
    [] e.o.unit = "regions" -> \E i \in DOMAIN e.o.regions : InRegion(e.o.regions[i], A[a].old) /\ InRegion(e.o.regions[i], A[b].old)

\* residue graph of the written molecules: residues of the input, joined when a CONECT record joins two of their beads
ResAdj(e) ==
  LET A == e.f.atoms
      R == {A[a].res : a \in DOMAIN A}
      E == Sym({<<A[x[1]].res, A[x[2]].res>> : x \in {y \in Range(e.f.edges) : A[y[1]].res # A[y[2]].res}})
  IN AdjTable(R, E)
ResBalls(e) == LET adj == ResAdj(e) IN [r \in DOMAIN adj |-> BallT(adj, r, e.o.rmd)]

\* three-valued: "y" holds, "n" fails, "b" within the band of the threshold
CutV(e, a, b) ==
  LET p == e.f.atoms[a].pos
      q == e.f.atoms[b].pos
      r == e.o.up + e.tol
  IN IF ~NearBox(p, q, r) THEN "n"
     ELSE LET d2 == D2(p, q) IN
          IF d2 > r * r THEN "n"
          ELSE IF e.o.up > e.tol /\ d2 <= (e.o.up - e.tol) * (e.o.up - e.tol) THEN "y" ELSE "b"
KLo(e, a, b) == IF e.o.decay THEN Min2(e.f.klo[a][b], e.o.base) ELSE e.o.base
KHi(e, a, b) == IF e.o.decay THEN Min2(e.f.khi[a][b], e.o.base) ELSE e.o.base
ForceV(e, a, b) == IF KLo(e, a, b) > e.o.minf THEN "y" ELSE IF KHi(e, a, b) <= e.o.minf THEN "n" ELSE "b"

YN(x) == IF x THEN "y" ELSE "n"
\* balls: ResBalls(e), handed in so that it is computed once per event
Status(e, balls, a, b) ==
  LET A == e.f.atoms
      v == <<YN(SelY(e, a, b)), YN(DomY(e, a, b)), YN(A[b].res \notin balls[A[a].res]), CutV(e, a, b), ForceV(e, a, b)>>
  IN [f |-> {c \in 1..5 : v[c] = "n"}, b |-> {c \in 1..5 : v[c] = "b"}]

\* "bond": every criterion holds; "free": none fails, some within its band; a criterion name: it alone fails and nothing is within a
\* band; "multi" otherwise.  (An unselected pair beyond the cut-off is "multi" without looking further: that is most pairs.)
ClassOf(e, balls, a, b) ==
  IF ~SelY(e, a, b) /\ CutV(e, a, b) = "n" THEN "multi"
  ELSE LET st == Status(e, balls, a, b) IN
       IF st.f = {} THEN (IF st.b = {} THEN "bond" ELSE "free")
       ELSE IF Cardinality(st.f) = 1 /\ st.b = {} THEN Crit[CHOOSE c \in st.f : TRUE] ELSE "multi"

\* pairs of particles of one written molecule that have coordinates
Pairs(e) == LET A == e.f.atoms
            IN {p \in (DOMAIN A) \X (DOMAIN A) : p[1] < p[2] /\ A[p[1]].mol = A[p[2]].mol /\ ~A[p[1]].nan /\ ~A[p[2]].nan}
\* molecules with an undefined coordinate among the selected beads get no network at all
NanMols(e) == LET A == e.f.atoms IN {A[a].mol : a \in {x \in DOMAIN A : A[x].nan /\ A[x].name \in Range(e.o.names)}}

(* ------------------------------------------------------ the judge ------------------------------------------------------- *)
Norm(b)     == <<Min2(b.a, b.b), Max2(b.a, b.b)>>
PairSet(bs) == {Norm(bs[i]) : i \in DOMAIN bs}

\* L (10^-5 nm = 0.1 mA) is the distance of the printed positions to within the band
LenOK(e, b) ==
  LET p  == e.f.atoms[b.a].pos
      q  == e.f.atoms[b.b].pos
      Lm == b.len \div 10
  IN /\ b.len >= 0 /\ Lm <= 40000 /\ NearBox(p, q, 26000)
     /\ (Lm <= e.tol \/ (Lm - e.tol) * (Lm - e.tol) <= D2(p, q))
     /\ D2(p, q) <= (Lm + 1 + e.tol) * (Lm + 1 + e.tol)
ConstOK(e, b) == b.k >= KLo(e, b.a, b.b) - 1 /\ b.k <= KHi(e, b.a, b.b) + 1

NoAt == <<0, 0>>
R(v, at) == [v |-> v, at |-> at]

\* cls: [Pairs(e) -> class], nan: NanMols(e)
JudgeNetwork(e, balls, cls, nan) ==
  LET A     == e.f.atoms
      bs    == e.f.bonds
      P     == DOMAIN cls
      got   == PairSet(bs)
      wrong == {p \in got : p \notin P \/ A[p[1]].mol \in nan \/ cls[p] \notin {"bond", "free"}}
      lost  == {p \in P : cls[p] = "bond" /\ p \notin got /\ A[p[1]].mol \notin nan}
      badl  == {i \in DOMAIN bs : ~LenOK(e, bs[i])}
      badk  == {i \in DOMAIN bs : ~ConstOK(e, bs[i])}
  IN IF \E i \in DOMAIN bs : bs[i].a \notin DOMAIN A \/ bs[i].b \notin DOMAIN A \/ bs[i].a = bs[i].b
       THEN R("bond-to-itself-or-unknown-particle", NoAt)
     ELSE IF Cardinality(got) # Len(bs)
       THEN R("pair-bonded-more-than-once", LET i == CHOOSE x \in DOMAIN bs : \E j \in DOMAIN bs : x < j /\ Norm(bs[x]) = Norm(bs[j]) IN Norm(bs[i]))
     ELSE IF wrong # {} THEN
       LET p == CHOOSE q \in wrong : TRUE IN
       IF p \notin P \/ A[p[1]].mol \in nan THEN R("bond-in-molecule-with-undefined-coordinates", p)
       ELSE LET st == Status(e, balls, p[1], p[2]) IN
            R("bond-on-pair-failing-" \o Crit[CHOOSE c \in st.f : \A d \in st.f : c <= d], p)
     ELSE IF lost # {} THEN R("qualifying-pair-without-bond", CHOOSE q \in lost : TRUE)
     ELSE IF badl # {} THEN R("length-is-not-the-distance", Norm(bs[CHOOSE i \in badl : TRUE]))
     ELSE IF badk # {} THEN R("constant-is-not-the-capped-decayed-base", Norm(bs[CHOOSE i \in badk : TRUE]))
     ELSE R("ok", NoAt)

Judge(e, balls, cls, nan) ==
  IF e.rc # 0 THEN R("run-failed", NoAt)
  ELSE IF ~e.f.ok THEN R("files-missing", NoAt)
  ELSE IF e.f.topsizes # e.f.tersizes THEN R("structure-and-topology-disagree-on-the-molecules", NoAt)
  ELSE IF e.f.strays > 0 THEN R("rubber-band-lines-outside-the-bonds-section-or-conditional", NoAt)
  ELSE IF ~Requested(e.o) THEN (IF e.f.bonds # <<>> THEN R("network-without-request", NoAt) ELSE R("ok", NoAt))
  ELSE IF ~MoleculesOKFast(e) THEN R("molecules-are-not-the-bridged-or-merged-chain-sets", NoAt)
  ELSE IF nan # {} /\ ~e.nanwarn THEN R("undefined-coordinates-without-warning", NoAt)
  ELSE JudgeNetwork(e, balls, cls, nan)

(* ------------------------------------- classes, for the vacuity report of the driver ------------------------------------- *)
NoClasses == [bond |-> 0, free |-> 0, sel |-> 0, dom |-> 0, sep |-> 0, cut |-> 0, force |-> 0, multi |-> 0,
              shortcut |-> 0, acrossgap |-> 0, interchain |-> 0, capped |-> 0, decayed |-> 0, hinge |-> 0, nanmols |-> 0, mols |-> 0]
Classes(e, cls, nan) ==
  LET A     == e.f.atoms
      P     == DOMAIN cls
      Of(c) == {p \in P : cls[p] = c}
      B     == Of("bond")
      inreg(v) == {i \in DOMAIN e.o.regions : InRegion(e.o.regions[i], v)}
  IN [bond |-> Cardinality(B), free |-> Cardinality(Of("free")), sel |-> Cardinality(Of("sel")), dom |-> Cardinality(Of("dom")),
      sep |-> Cardinality(Of("sep")), cut |-> Cardinality(Of("cut")), force |-> Cardinality(Of("force")), multi |-> Cardinality(Of("multi")),
      \* excluded by the separation alone although the input numbers are further apart than rmd (ring closed by a bridge)
      shortcut |-> Cardinality({p \in Of("sep") : Abs(A[p[1]].old - A[p[2]].old) > e.o.rmd /\ A[p[1]].res # A[p[2]].res}),
      \* bonded although the input numbers are within rmd of each other (chain break, numbering restarted, other chain)
      acrossgap |-> Cardinality({p \in B : Abs(A[p[1]].old - A[p[2]].old) <= e.o.rmd}),
      \* bonded pairs of different chains of one molecule
      interchain |-> Cardinality({p \in B : A[p[1]].chain # A[p[2]].chain}),
      \* bonded pairs whose constant is the cap / is strictly below the base for every compatible distance
      capped  |-> IF e.o.decay THEN Cardinality({p \in B : e.f.klo[p[1]][p[2]] >= e.o.base}) ELSE 0,
      decayed |-> IF e.o.decay THEN Cardinality({p \in B : e.f.khi[p[1]][p[2]] < e.o.base}) ELSE 0,
      \* bonded pairs that share a region although one of the two beads lies in several regions
      hinge |-> IF e.o.unit = "regions"
                THEN Cardinality({p \in B : Cardinality(inreg(A[p[1]].old)) > 1 \/ Cardinality(inreg(A[p[2]].old)) > 1}) ELSE 0,
      nanmols |-> Cardinality(nan),
      mols |-> Cardinality({A[a].mol : a \in DOMAIN A})]

Outcome(e) ==
  IF e.rc # 0 \/ ~e.f.ok \/ e.f.topsizes # e.f.tersizes
  THEN LET j == Judge(e, <<>>, <<>>, {}) IN [v |-> j.v, at |-> j.at, cls |-> NoClasses]
  ELSE LET balls == ResBalls(e)
           cls   == [p \in Pairs(e) |-> ClassOf(e, balls, p[1], p[2])]
           nan   == NanMols(e)
           j     == Judge(e, balls, cls, nan)
       IN [v |-> j.v, at |-> j.at, cls |-> Classes(e, cls, nan)]

VARIABLES tid, verdict
vars == <<tid, verdict>>
Init == tid \in 1..Len(Batch) /\ verdict = [v |-> "pending"]
Eval == /\ verdict.v = "pending"
        /\ verdict' = Outcome(Batch[tid])
        /\ UNCHANGED tid
Spec == Init /\ [][Eval]_vars
=============================================================================
