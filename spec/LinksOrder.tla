----------------------------- MODULE LinksOrder -----------------------------
(* TAB model for the residue-order relation: every pair of orders x every pair of resids in the bound is a state;
   invariant: the implementation-shaped relation equals the documented matrix, and the matrix is symmetric. *)
EXTENDS Links
CONSTANTS MaxNum, MaxArrow, Resids
Orders == {[k |-> "num", v |-> n] : n \in -MaxNum..MaxNum} \cup {[k |-> kk, v |-> n] : kk \in {"gt", "lt", "star"}, n \in 1..MaxArrow}
VARIABLES o1, r1, o2, r2, res
vars == <<o1, r1, o2, r2, res>>
Init == o1 \in Orders /\ o2 \in Orders /\ r1 \in Resids /\ r2 \in Resids /\ res = MatchOrderDoc(o1, r1, o2, r2)
Next == UNCHANGED vars
Spec == Init /\ [][Next]_vars
OpIsDoc == MatchOrderOp(o1, r1, o2, r2) = res
Symmetric == MatchOrderDoc(o2, r2, o1, r1) = res
SameOrderSameResidue == (o1 = o2 /\ o1.k # "num") => (res = (r1 = r2))
\* the typed copies that Apalache proves correct for all integers (LinksOrderApa) are the operators used here
A == INSTANCE LinksOrderApa
ApaIsTheSame == /\ A!MatchOrderOp(o1, r1, o2, r2) = MatchOrderOp(o1, r1, o2, r2)
                /\ A!MatchOrderDoc(o1, r1, o2, r2) = MatchOrderDoc(o1, r1, o2, r2)
=============================================================================
