----------------------------- MODULE Trace_Links -----------------------------
(* TLC judges recorded runs of the real DoLinks.run_molecule and rows of the real match_order.
   order row : [kind |-> "order", o1, r1, o2, r2, res : BOOLEAN]
   run       : [kind |-> "run", M, links : Seq(L), steps : Seq([link : index, before : nodes, matches : Seq(Seq(<<key, node>>))]),
                final : [ids : Seq(node), inters : Seq([type, atoms, params, ver])]]                                  *)
EXTENDS Links, Json, IOUtils

Batch == JsonDeserialize(IOEnv.TRACE_FILE)
VARIABLES tid, verdict
vars == <<tid, verdict>>

JudgeOrder(e) ==
  IF MatchOrderOp(e.o1, e.r1, e.o2, e.r2) # MatchOrderDoc(e.o1, e.r1, e.o2, e.r2) THEN "operational-differs-from-documented-matrix"
  ELSE IF e.res # MatchOrderDoc(e.o1, e.r1, e.o2, e.r2) THEN "order-relation-differs-from-documented-matrix"
  ELSE "ok"

AsMap(m) == [k \in {m[i][1] : i \in DOMAIN m} |-> m[CHOOSE i \in DOMAIN m : m[i][1] = k][2]]

RECURSIVE ApplyAll(_, _, _, _)
ApplyAll(M, L, ms, i) == IF i > Len(ms) THEN M ELSE ApplyAll(ApplyPlacement(M, L, AsMap(ms[i])), L, ms, i + 1)

\* atoms a link deletes (replace atomname -> null) disappear after all placements of THAT link have been applied,
\* together with their bonds and interactions
DeleteNodes(M, dead) ==
  [M EXCEPT !.nodes = SelectSeq(@, LAMBDA n : n.id \notin dead),
            !.edges = SelectSeq(@, LAMBDA e : e[1] \notin dead /\ e[2] \notin dead),
            !.inters = SelectSeq(@, LAMBDA x : SeqSet(x.atoms) \cap dead = {})]
DeadOf(L, ms) == UNION {{AsMap(ms[j])[L.deletes[d]] : d \in DOMAIN L.deletes} : j \in DOMAIN ms}

\* walk over the steps; the state carries the model molecule
RECURSIVE Walk(_, _, _)
Walk(e, M, s) ==
  IF s > Len(e.steps)
  THEN IF SeqSet(e.final.ids) # NodeIds(M) THEN "deleted-atoms-differ"
       ELSE IF SeqSet(e.final.inters) # SeqSet(M.inters) \/ Len(e.final.inters) # Len(M.inters) THEN "final-interactions-differ"
       ELSE "ok"
  ELSE LET st == e.steps[s]
           L == e.links[st.link]
           F == Fits(L, M)
           got == {AsMap(st.matches[j]) : j \in DOMAIN st.matches}
       IN IF st.before # M.nodes THEN "attribute-replacements-not-as-declared"
          ELSE IF \E f \in got : f \notin F THEN "link-applied-where-it-does-not-fit"
          ELSE IF \E f \in F : f \notin got THEN "fitting-placement-not-applied"
          ELSE IF Len(st.matches) # Cardinality(got) THEN "placement-applied-twice"
          ELSE Walk(e, DeleteNodes(ApplyAll(M, L, st.matches, 1), DeadOf(L, st.matches)), s + 1)

Init == tid \in 1..Len(Batch) /\ verdict = "pending"
Eval == /\ verdict = "pending"
        /\ verdict' = LET e == Batch[tid] IN IF e.kind = "order" THEN JudgeOrder(e) ELSE Walk(e, e.M, 1)
        /\ UNCHANGED tid
Spec == Init /\ [][Eval]_vars
=============================================================================
