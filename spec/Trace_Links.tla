----------------------------- MODULE Trace_Links -----------------------------
(* TLC judges recorded runs of the real DoLinks.run_molecule and rows of the real match_order.
   order row : [kind |-> "order", o1, r1, o2, r2, res : BOOLEAN]
   run       : [kind |-> "run", M, links : Seq(L),
                steps : Seq([link : index, before : nodes (<<>> = not recorded), matches : Seq(Seq(<<key, node>>))]),
                final : [ids : Seq(node), nodes : nodes, inters : Seq([type, atoms, params, ver, meta])]]
               A run may be a SEGMENT of a longer real run: M is then the recorded state when the segment's first link started
               and final the recorded state when its last link was done (the recorder takes both from the same object, so
               consecutive segments chain by construction).
               Recorded geometry-derived parameters arrive as <<"geo", kind>>: the judge compares the tables with the values
               masked and hands the exact invariants of the model's final table back (verdict.geo); the driver matches the floats
               the real code produced against them with a stated tolerance.                                              *)
EXTENDS Links, Json, IOUtils

Batch == JsonDeserialize(IOEnv.TRACE_FILE)
VARIABLES tid, verdict
vars == <<tid, verdict>>

JudgeOrder(e) ==
  IF MatchOrderOp(e.o1, e.r1, e.o2, e.r2) # MatchOrderDoc(e.o1, e.r1, e.o2, e.r2) THEN "operational-differs-from-documented-matrix"
  ELSE IF e.res # MatchOrderDoc(e.o1, e.r1, e.o2, e.r2) THEN "order-relation-differs-from-documented-matrix"
  ELSE "ok"

AsMap(m) == [k \in {m[i][1] : i \in DOMAIN m} |-> m[CHOOSE i \in DOMAIN m : m[i][1] = k][2]]

RECURSIVE ApplyAll(_, _, _, _)
ApplyAll(M, L, ms, i) == IF i > Len(ms) THEN M ELSE ApplyAll(ApplyPlacement(M, L, AsMap(ms[i])), L, ms, i + 1)

\* atoms a link deletes (replace atomname -> null) disappear after all placements of THAT link have been applied,
\* together with their bonds and interactions
DeleteNodes(M, dead) ==
  IF dead = {} THEN M
  ELSE [M EXCEPT !.nodes = SelectSeq(@, LAMBDA n : n.id \notin dead),
                 !.edges = SelectSeq(@, LAMBDA e : e[1] \notin dead /\ e[2] \notin dead),
                 !.inters = SelectSeq(@, LAMBDA x : SeqSet(x.atoms) \cap dead = {})]
DeadOf(L, ms) == UNION {{AsMap(ms[j])[L.deletes[d]] : d \in DOMAIN L.deletes} : j \in DOMAIN ms}

\* node attributes are compared as sets of (key, value) pairs: the order in which attributes were set is not observable
NodeView(ns) == [i \in DOMAIN ns |-> [id |-> ns[i].id, resid |-> ns[i].resid, attrs |-> SeqSet(ns[i].attrs), mods |-> ns[i].mods]]

\* the final table is compared as a bag, geometry-derived values masked (they are matched by the driver, see verdict.geo)
IsGeo(p) == p[1] = "geo"
Masked(x) == [x EXCEPT !.params = [i \in DOMAIN x.params |-> IF IsGeo(x.params[i]) THEN <<"geo", x.params[i][2]>> ELSE x.params[i]]]
SameBag(s, t) ==
  /\ Len(s) = Len(t)
  /\ SeqSet(s) = SeqSet(t)
  /\ (Cardinality(SeqSet(s)) = Len(s) \/ \A x \in SeqSet(s) : Cardinality({i \in DOMAIN s : s[i] = x}) = Cardinality({i \in DOMAIN t : t[i] = x}))
GeoOf(inters) ==
  UNION {{[type |-> inters[i].type, atoms |-> inters[i].atoms, ver |-> inters[i].ver, idx |-> j, tok |-> inters[i].params[j]] :
            j \in {jj \in DOMAIN inters[i].params : IsGeo(inters[i].params[jj])}} : i \in DOMAIN inters}

Res(v, g) == [v |-> v, geo |-> g]

\* walk over the steps; the state carries the model molecule
RECURSIVE Walk(_, _, _)
Walk(e, M, s) ==
  IF s > Len(e.steps)
  THEN IF SeqSet(e.final.ids) # NodeIds(M) THEN Res("deleted-atoms-differ", {})
       ELSE IF NodeView(e.final.nodes) # NodeView(M.nodes) THEN Res("final-node-attributes-differ", {})
       ELSE LET mine == [i \in DOMAIN M.inters |-> Masked(M.inters[i])] IN
            IF ~SameBag(e.final.inters, mine) THEN Res("final-interactions-differ", {})
            ELSE Res("ok", GeoOf(M.inters))
  ELSE LET st == e.steps[s]
           L == e.links[st.link]
           F == Fits(L, M)
           got == {AsMap(st.matches[j]) : j \in DOMAIN st.matches}
       IN IF st.before # <<>> /\ NodeView(st.before) # NodeView(M.nodes) THEN Res("attribute-replacements-not-as-declared", {})
          ELSE IF \E f \in got : f \notin F THEN Res("link-applied-where-it-does-not-fit", {})
          ELSE IF \E f \in F : f \notin got THEN Res("fitting-placement-not-applied", {})
          ELSE IF Len(st.matches) # Cardinality(got) THEN Res("placement-applied-twice", {})
          ELSE Walk(e, DeleteNodes(ApplyAll(M, L, st.matches, 1), DeadOf(L, st.matches)), s + 1)

Init == tid \in 1..Len(Batch) /\ verdict = Res("pending", {})
Eval == /\ verdict.v = "pending"
        /\ verdict' = LET e == Batch[tid] IN IF e.kind = "order" THEN Res(JudgeOrder(e), {}) ELSE Walk(e, e.M, 1)
        /\ UNCHANGED tid
Spec == Init /\ [][Eval]_vars
=============================================================================
