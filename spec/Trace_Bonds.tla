----------------------------- MODULE Trace_Bonds -----------------------------
(* C10: TLC judges recorded runs of the real MakeBonds.run_system.
   Batch[i] = [sys   |-> system as in Bonds.tla,
               got   |-> [err   : BOOLEAN,                        the real code raised
                          mols  : Seq(Seq(atom)),                  node sets of system.molecules afterwards
                          edges : Seq([a, b, hasd, d2, old])],     bonds found in those molecules: 'distance' present,
                                                                   its square in pm^2 (-1 = not an integer within the
                                                                   tolerance), marker attribute of input bonds present
               focus |-> [a, b]]                                   pair the generator aimed at (0,0 = none)
   The verdict names the first clause of the statement that the recorded result breaks.  `info` reports, for the
   evidence, which variants (dropped clauses) this input distinguishes from the property and which conjuncts fail
   for the focus pair - computed here, from the specification, not by the generator.                              *)
EXTENDS Integers, Sequences, FiniteSets, TLC, Json, IOUtils

Batch == JsonDeserialize(IOEnv.TRACE_FILE)

B == INSTANCE Bonds WITH Els <- {}, XPairs <- {}, Fudges <- {}, NameTriples <- {}, ResnameTriples <- {},
                         MolTriples <- {}, ResidTriples <- {}, OldChoices <- {}, Modes <- {},
                         sys <- <<>>, out <- <<>>, sens <- {}

VARIABLES tid, verdict, info
vars == <<tid, verdict, info>>

RECURSIVE SumLen(_)
SumLen(ss) == IF ss = <<>> THEN 0 ELSE Len(Head(ss)) + SumLen(Tail(ss))
ToSet(q)   == {q[k] : k \in DOMAIN q}
Pick(S)    == CHOOSE x \in S : TRUE
\* report the failing conjunct in a fixed order
FirstFailing(F) == IF "radii" \in F THEN "radii" ELSE IF "within" \in F THEN "within" ELSE IF "hh" \in F THEN "hh"
                   ELSE IF "hacross" \in F THEN "hacross" ELSE IF "nonedge" \in F THEN "nonedge" ELSE "bonded"

Judge(e) ==
  LET s  == e.sys
      g  == e.got
  IN IF ~B!WellFormed(s) THEN "malformed-input"
     ELSE IF B!AnyNear(s) THEN "unspecified-near-threshold"
     ELSE
     LET o   == B!Out(s, B!SPEC)
         Old == B!OldE(s, B!SPEC)
         NEd == B!NameEdges(s, B!SPEC)
         GM  == {ToSet(g.mols[k]) : k \in DOMAIN g.mols}
         GE  == {B!Norm(g.edges[k].a, g.edges[k].b) : k \in DOMAIN g.edges}
         GD  == {<<B!Norm(g.edges[k].a, g.edges[k].b)[1], B!Norm(g.edges[k].a, g.edges[k].b)[2], g.edges[k].d2>> :
                  k \in {x \in DOMAIN g.edges : g.edges[x].hasd}}
         GO  == {B!Norm(g.edges[k].a, g.edges[k].b) : k \in {x \in DOMAIN g.edges : g.edges[x].old}}
         op  == B!OpOut(s)
     IN IF op.edges # o.edges \/ op.dist # o.dist THEN "operational-differs-from-declarative"
        ELSE IF g.err THEN "exception"
        ELSE IF SumLen(g.mols) # Len(s.atoms) \/ UNION GM # B!Idx(s) THEN "atoms-not-partitioned"
        ELSE IF \E R \in B!Residues(s, B!SPEC) : ~\E M \in GM : R \subseteq M THEN "residue-split"
        ELSE IF Old \ GE # {} THEN "old-bond-lost " \o ToString(Pick(Old \ GE))
        ELSE IF Old \ GO # {} THEN "old-bond-attributes-lost " \o ToString(Pick(Old \ GO))
        ELSE IF NEd \ GE # {} THEN "name-bond-missing " \o ToString(Pick(NEd \ GE))
        ELSE IF GE \ o.edges # {}
             THEN LET p == Pick(GE \ o.edges) IN
                  IF p \in B!NonEdges(s, B!SPEC) THEN "bond-on-block-non-edge " \o ToString(p)
                  ELSE IF ~s.dist THEN "distance-bond-although-distances-off " \o ToString(p)
                  ELSE "bond-violates-" \o FirstFailing(B!Failing(s, p)) \o " " \o ToString(p)
        ELSE IF o.edges \ GE # {} THEN "distance-bond-missing " \o ToString(Pick(o.edges \ GE))
        ELSE IF GD # o.dist
             THEN IF \E t \in GD \ o.dist : <<t[1], t[2]>> \in Old /\ <<t[1], t[2]>> \notin NEd
                  THEN "existing-bond-rebonded " \o ToString(Pick(GD \ o.dist))
                  ELSE "distance-attribute-wrong " \o ToString(Pick((GD \ o.dist) \cup (o.dist \ GD)))
        ELSE IF GM # o.mols THEN "molecule-not-connected-on-residue-graph"
        ELSE "ok"

Info(e) ==
  LET s == e.sys IN
  IF ~B!WellFormed(s) \/ B!AnyNear(s) THEN [sens |-> {}, sensE |-> {}, failing |-> {}, sole |-> <<>>, nbond |-> 0, nmol |-> 0]
  ELSE LET o  == B!Out(s, B!SPEC)
           vo == TLCEval([v \in B!Variants |-> B!Out(s, v)])
           NE == B!NonEdges(s, B!SPEC)
           Bd == B!OldE(s, B!SPEC) \cup B!NameEdges(s, B!SPEC)
           F  == TLCEval([p \in B!Pairs(s) |-> B!FailingGiven(s, p, NE, Bd)])
       IN [sens    |-> {v \in B!Variants : vo[v] # o},                                   \* result differs
           sensE   |-> {v \in B!Variants : vo[v].edges # o.edges \/ vo[v].dist # o.dist},  \* bonds differ
           failing |-> IF e.focus.a > 0 THEN F[B!Norm(e.focus.a, e.focus.b)] ELSE {},
           \* pairs per "sole failing conjunct" class (only meaningful when distances are allowed)
           sole    |-> [c \in B!ConjNames |-> IF s.dist THEN Cardinality({p \in B!Pairs(s) : F[p] = {c}}) ELSE 0],
           nbond   |-> Cardinality(o.edges \ Bd),
           nmol    |-> Cardinality(o.mols)]

Init == tid \in 1..Len(Batch) /\ verdict = "pending" /\ info = <<>>
Eval == /\ verdict = "pending"
        /\ verdict' = Judge(Batch[tid])
        /\ info' = Info(Batch[tid])
        /\ UNCHANGED tid
Spec == Init /\ [][Eval]_vars
=============================================================================
