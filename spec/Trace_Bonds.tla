----------------------------- MODULE Trace_Bonds -----------------------------
(* C10: TLC judges recorded runs of the real MakeBonds.run_system.

   SMALL events (generator families, <= 14 atoms):
   Batch[i] = [sys   |-> system as in Bonds.tla,
               got   |-> [err   : BOOLEAN,                        the real code raised
                          mols  : Seq(Seq(atom)),                  system.molecules afterwards, atoms in NODE ORDER
                          inorder : Seq(atom),                     the atoms in the order MakeBonds received them
                                                                   (input molecules one after the other, node order)
                          edges : Seq([a, b, hasd, d2, old])],     bonds found in those molecules: 'distance' present,
                                                                   its square in pm^2 (-1 = not an integer within the
                                                                   tolerance), marker attribute of input bonds present
               focus |-> [a, b]]                                   pair the generator aimed at (0,0 = none)
   The verdict names the first clause of the statement that the recorded result breaks.  `info` reports, for the
   evidence, which variants (dropped clauses) this input distinguishes from the property and which conjuncts fail
   for the focus pair - computed here, from the specification, not by the generator.

   REAL events (kind = "real": real structures through the reading front end, hundreds to thousands of atoms):
   Batch[i] = [kind |-> "real",
               hasfile |-> BOOLEAN, file |-> BondsRead file, read |-> what the reader returned      (see BondsRead.tla)
               sys  |-> the system MakeBonds received, atoms in input order, plus oldd : Seq([hasd, d2]) = the
                        'distance' attribute every input bond had,
               got  |-> [err, mols, molof : Seq(molecule index per atom), edges, wunk, wdup : warnings of type
                         unknown-residue / inconsistent-data]]
   judged with the arrangement for large systems (Bonds!FastOutC), which the TAB model and every SMALL event check
   against the declarative form.                                                                                  *)
EXTENDS Integers, Sequences, FiniteSets, TLC, Json, IOUtils

Batch == JsonDeserialize(IOEnv.TRACE_FILE)

B == INSTANCE Bonds WITH Els <- {}, XPairs <- {}, Fudges <- {}, NameTriples <- {}, ResnameTriples <- {},
                         MolTriples <- {}, ResidTriples <- {}, OldChoices <- {}, Modes <- {}, SweepEls <- {}, SweepFudges <- {},
                         sys <- <<>>, out <- <<>>, sens <- {}
R == INSTANCE BondsRead

VARIABLES tid, verdict, info
vars == <<tid, verdict, info>>

RECURSIVE SumLen(_)
SumLen(ss) == IF ss = <<>> THEN 0 ELSE Len(Head(ss)) + SumLen(Tail(ss))
ToSet(q)   == {q[k] : k \in DOMAIN q}
Pick(S)    == CHOOSE x \in S : TRUE
\* report the failing conjunct in a fixed order
FirstFailing(F) == IF "radii" \in F THEN "radii" ELSE IF "within" \in F THEN "within" ELSE IF "hh" \in F THEN "hh"
                   ELSE IF "hacross" \in F THEN "hacross" ELSE IF "nonedge" \in F THEN "nonedge" ELSE "bonded"
\* the atoms of a molecule are listed in the order of the input
Increasing(q) == \A k \in 1..(Len(q) - 1) : q[k] < q[k + 1]

Judge(e) ==
  LET s  == e.sys
      g  == e.got
  IN IF ~B!WellFormed(s) THEN "malformed-input"
     ELSE IF B!AnyNear(s) THEN "unspecified-near-threshold"
     ELSE
     LET o   == B!Out(s, B!SPEC)
         Old == B!OldE(s, B!SPEC)
         NEd == B!NameEdges(s, B!SPEC)
         GM  == {ToSet(g.mols[k]) : k \in DOMAIN g.mols}
         GE  == {B!Norm(g.edges[k].a, g.edges[k].b) : k \in DOMAIN g.edges}
         GD  == {<<B!Norm(g.edges[k].a, g.edges[k].b)[1], B!Norm(g.edges[k].a, g.edges[k].b)[2], g.edges[k].d2>> :
                  k \in {x \in DOMAIN g.edges : g.edges[x].hasd}}
         GO  == {B!Norm(g.edges[k].a, g.edges[k].b) : k \in {x \in DOMAIN g.edges : g.edges[x].old}}
         op  == B!OpOut(s)
         fo  == B!FastOut(s)
         pos == [t \in ToSet(g.inorder) |-> CHOOSE k \in DOMAIN g.inorder : g.inorder[k] = t]
     IN IF op.edges # o.edges \/ op.dist # o.dist THEN "operational-differs-from-declarative"
        ELSE IF fo.edges # o.edges \/ fo.dist # o.dist \/ fo.mols # o.mols \/ B!AnyNearC(s, B!CandPairs(s)) THEN "fast-differs-from-declarative"
        ELSE IF g.err THEN "exception"
        ELSE IF SumLen(g.mols) # Len(s.atoms) \/ UNION GM # B!Idx(s) THEN "atoms-not-partitioned"
        ELSE IF Len(g.inorder) # Len(s.atoms) \/ ToSet(g.inorder) # B!Idx(s) THEN "malformed-input"
        ELSE IF \E Q \in B!Residues(s, B!SPEC) : ~\E M \in GM : Q \subseteq M THEN "residue-split"
        ELSE IF Old \ GE # {} THEN "old-bond-lost " \o ToString(Pick(Old \ GE))
        ELSE IF Old \ GO # {} THEN "old-bond-attributes-lost " \o ToString(Pick(Old \ GO))
        ELSE IF NEd \ GE # {} THEN "name-bond-missing " \o ToString(Pick(NEd \ GE))
        ELSE IF GE \ o.edges # {}
             THEN LET p == Pick(GE \ o.edges) IN
                  IF p \in B!NonEdges(s, B!SPEC) THEN "bond-on-block-non-edge " \o ToString(p)
                  ELSE IF ~s.dist THEN "distance-bond-although-distances-off " \o ToString(p)
                  ELSE "bond-violates-" \o FirstFailing(B!Failing(s, p)) \o " " \o ToString(p)
        ELSE IF o.edges \ GE # {} THEN "distance-bond-missing " \o ToString(Pick(o.edges \ GE))
        ELSE IF GD # o.dist
             THEN IF \E t \in GD \ o.dist : <<t[1], t[2]>> \in Old /\ <<t[1], t[2]>> \notin NEd
                  THEN "existing-bond-rebonded " \o ToString(Pick(GD \ o.dist))
                  ELSE "distance-attribute-wrong " \o ToString(Pick((GD \ o.dist) \cup (o.dist \ GD)))
        ELSE IF GM # o.mols THEN "molecule-not-connected-on-residue-graph"
        ELSE IF \E m \in DOMAIN g.mols : ~Increasing([k \in DOMAIN g.mols[m] |-> pos[g.mols[m][k]]])
             THEN "molecule-atoms-not-in-input-order"
        ELSE "ok"

Info(e) ==
  LET s == e.sys IN
  IF ~B!WellFormed(s) \/ B!AnyNear(s) THEN [sens |-> {}, sensE |-> {}, failing |-> {}, sole |-> <<>>, nbond |-> 0, nmol |-> 0]
  ELSE LET o  == B!Out(s, B!SPEC)
           vo == TLCEval([v \in B!Variants |-> B!Out(s, v)])
           NE == B!NonEdges(s, B!SPEC)
           Bd == B!OldE(s, B!SPEC) \cup B!NameEdges(s, B!SPEC)
           F  == TLCEval([p \in B!Pairs(s) |-> B!FailingGiven(s, p, NE, Bd)])
       IN [sens    |-> {v \in B!Variants : vo[v] # o},                                   \* result differs
           sensE   |-> {v \in B!Variants : vo[v].edges # o.edges \/ vo[v].dist # o.dist},  \* bonds differ
           failing |-> IF e.focus.a > 0 THEN F[B!Norm(e.focus.a, e.focus.b)] ELSE {},
           \* pairs per "sole failing conjunct" class (only meaningful when distances are allowed)
           sole    |-> [c \in B!ConjNames |-> IF s.dist THEN Cardinality({p \in B!Pairs(s) : F[p] = {c}}) ELSE 0],
           nbond   |-> Cardinality(o.edges \ Bd),
           nmol    |-> Cardinality(o.mols)]

(* ------------------------------------------------------------------ real structures *)
\* c = Bonds!Ctx(s), cand = Bonds!CandPairs(s), o = Bonds!FastOutC(s, c, cand): computed once per event
JudgeBig(e, c, o) ==
  LET s == e.sys
      g == e.got
  IN IF g.err THEN "exception"
     ELSE
     LET n   == Len(s.atoms)
         Old == B!OldE(s, B!SPEC)
         B0  == TLCEval(Old \cup o.named)
         GE  == TLCEval({B!Norm(g.edges[k].a, g.edges[k].b) : k \in DOMAIN g.edges})
         GO  == TLCEval({B!Norm(g.edges[k].a, g.edges[k].b) : k \in {x \in DOMAIN g.edges : g.edges[x].old}})
         \* 'distance' attributes: of bonds made by name or guessed / of input bonds that no block re-made
         OldOnly == TLCEval(Old \ o.named)
         GDnew == TLCEval({<<B!Norm(g.edges[k].a, g.edges[k].b)[1], B!Norm(g.edges[k].a, g.edges[k].b)[2], g.edges[k].d2>> :
                           k \in {x \in DOMAIN g.edges : g.edges[x].hasd /\ B!Norm(g.edges[x].a, g.edges[x].b) \notin OldOnly}})
         GDold == TLCEval({<<B!Norm(g.edges[k].a, g.edges[k].b), g.edges[k].hasd, g.edges[k].d2>> :
                           k \in {x \in DOMAIN g.edges : B!Norm(g.edges[x].a, g.edges[x].b) \in OldOnly}})
         IDold == TLCEval({<<B!Norm(s.old[k][1], s.old[k][2]), s.oldd[k].hasd, s.oldd[k].d2>> :
                           k \in {x \in DOMAIN s.old : B!Norm(s.old[x][1], s.old[x][2]) \in OldOnly}})
         GM  == TLCEval({ToSet(g.mols[k]) : k \in DOMAIN g.mols})
         nfbU == Cardinality({Q \in c.res : c.fb[B!MinOf(Q)] /\ ~B!HasBlock(s, B!ResName(s, Q))})
         nfbD == Cardinality({Q \in c.res : c.fb[B!MinOf(Q)] /\ B!HasBlock(s, B!ResName(s, Q))})
     IN IF SumLen(g.mols) # n \/ Len(g.molof) # n
           \/ \E m \in DOMAIN g.mols : \E k \in DOMAIN g.mols[m] : ~(g.mols[m][k] \in 1..n /\ g.molof[g.mols[m][k]] = m)
        THEN "atoms-not-partitioned"
        ELSE IF \E i \in 1..n : g.molof[i] # g.molof[c.rid[i]] THEN "residue-split"
        ELSE IF Old \ GE # {} THEN "old-bond-lost " \o ToString(Pick(Old \ GE))
        ELSE IF Old \ GO # {} THEN "old-bond-attributes-lost " \o ToString(Pick(Old \ GO))
        ELSE IF o.named \ GE # {} THEN "name-bond-missing " \o ToString(Pick(o.named \ GE))
        ELSE IF GE \ o.edges # {}
             THEN LET p == Pick(GE \ o.edges) IN
                  IF B!NonEdgeC(s, c, p[1], p[2]) THEN "bond-on-block-non-edge " \o ToString(p)
                  ELSE IF ~s.dist THEN "distance-bond-although-distances-off " \o ToString(p)
                  ELSE IF ~B!CloseBox(s, B!CMax(s), p[1], p[2]) THEN "bond-violates-within " \o ToString(p)
                  ELSE "bond-violates-" \o FirstFailing(B!FailingC(s, c, p, B0)) \o " " \o ToString(p)
        ELSE IF o.edges \ GE # {} THEN "distance-bond-missing " \o ToString(Pick(o.edges \ GE))
        ELSE IF GDold # IDold THEN "existing-bond-rebonded " \o ToString(Pick((GDold \ IDold) \cup (IDold \ GDold)))
        ELSE IF GDnew # o.dist THEN "distance-attribute-wrong " \o ToString(Pick((GDnew \ o.dist) \cup (o.dist \ GDnew)))
        ELSE IF GM # o.mols THEN "molecule-not-connected-on-residue-graph"
        ELSE IF \E m \in DOMAIN g.mols : ~Increasing(g.mols[m]) THEN "molecule-atoms-not-in-input-order"
        \* make_bonds documents one warning per residue that falls back to distances
        ELSE IF s.name /\ (g.wunk # nfbU \/ g.wdup # nfbD) THEN "fall-back-warnings-wrong"
        ELSE "ok"

InfoBig(e, c, o, cand) ==
  LET s  == e.sys
      B0 == TLCEval(B!OldE(s, B!SPEC) \cup o.named)
      \* close pairs that are within the threshold (or have an element without radius): which conjuncts stop them
      Fl == TLCEval([p \in {q \in cand : B!CWithin(s, B!SPEC, q)} |-> B!FailingC(s, c, p, B0)])
      firsts == TLCEval({B!MinOf(Q) : Q \in c.res})
      keys   == TLCEval([i \in firsts |-> B!ResKey("no-mol", s.atoms[i])])
  IN [natoms |-> Len(s.atoms), nres |-> Cardinality(c.res),
      nnamed |-> Cardinality({i \in firsts : c.nb[i]}),
      nfallback |-> Cardinality({i \in firsts : c.fb[i]}),
      nold |-> Cardinality(B!OldE(s, B!SPEC)), nname |-> Cardinality(o.named), nguess |-> Cardinality(o.guessed),
      nnew |-> Cardinality(o.edges \ B!OldE(s, B!SPEC)),        \* bonds this run has to ADD to its input
      nmol |-> Cardinality(o.mols), ninmol |-> Cardinality({s.atoms[i].mol : i \in DOMAIN s.atoms}),
      ncand |-> Cardinality(cand),
      \* close pairs whose only failing conjunct is x: each of them is a bond the real code must NOT have made
      \* ("within" is not counted: every far pair)
      sole |-> [x \in B!ConjNames |-> IF s.dist THEN Cardinality({p \in DOMAIN Fl : Fl[p] = {x}}) ELSE 0],
      \* residues of different input molecules with coinciding chain / number / name / insertion code
      twins |-> Cardinality({i \in firsts : \E j \in firsts : j # i /\ keys[i] = keys[j]})]

RealBoth(e) ==
  LET s    == e.sys
      rd   == R!Read(e.file)
      rv   == IF e.hasfile THEN R!JudgeReadR(e.file, e.read, rd) ELSE "ok"
      ri   == IF e.hasfile /\ rv # "malformed-input" THEN R!ReadInfo(e.file, rd) ELSE [nrecs |-> 0]
      wf   == B!WellFormedBig(s) /\ Len(s.oldd) = Len(s.old)
      cand == B!CandPairs(s)
      near == B!AnyNearC(s, cand)
      c    == B!Ctx(s)
      o    == B!FastOutC(s, c, cand)
  IN IF e.hasfile /\ rv # "ok"       \* the reader's result is wrong (or it raised): nothing to say about bonds
     THEN [v |-> rv, i |-> [natoms |-> 0, read |-> ri]]
     ELSE [v |-> IF ~wf THEN "malformed-input" ELSE IF near THEN "unspecified-near-threshold" ELSE JudgeBig(e, c, o),
           i |-> IF ~wf \/ near THEN [natoms |-> 0, read |-> ri] ELSE InfoBig(e, c, o, cand) @@ [read |-> ri]]

IsReal(e) == "kind" \in DOMAIN e /\ e.kind = "real"
Init == tid \in 1..Len(Batch) /\ verdict = "pending" /\ info = <<>>
Eval == /\ verdict = "pending"
        /\ IF IsReal(Batch[tid])
           THEN LET r == RealBoth(Batch[tid]) IN verdict' = r.v /\ info' = r.i
           ELSE verdict' = Judge(Batch[tid]) /\ info' = Info(Batch[tid])
        /\ UNCHANGED tid
Spec == Init /\ [][Eval]_vars
=============================================================================
