---------------------------- MODULE Trace_Output ----------------------------
(* C03: TLC judges the files a real run wrote (library writers through DeferredFileWriter, or the martinize2 CLI).
   Event "Files(system, names, pdb, itps, top)" of DESIGN.md appendix B, one per trace:
     names : Seq(STRING)                 meta['moltype'] of the molecules, in system (= coordinate file) order
     pdb   : Seq(Seq([name, resname, resid]))   coordinate records per molecule (TER-delimited), strings
     itps  : Seq([name, itp])            every <name>.itp found in the directory;
             itp = [moltype, nrexcl, recs]   recs = abstract records of indep_readers.read_itp (see ItpWrite)
     top   : [includes : Seq(STRING) (".itp" stripped), molecules : Seq([name, n])]
     own   : Seq(itp)                    what the ITP writer states for molecule j written on its own under names[j]
   The verdict is the statement of C03, evaluated on the real files.                                           *)
EXTENDS Integers, Sequences, FiniteSets, TLC, Json, IOUtils

Batch == JsonDeserialize(IOEnv.TRACE_FILE)
Ambient == {"martini"}                 \* force-field include, not a molecule type
Range(s) == {s[i] : i \in DOMAIN s}

VARIABLES tid, verdict
vars == <<tid, verdict>>

RECURSIVE Expand(_)
Expand(ms) == IF ms = <<>> THEN <<>> ELSE [i \in 1..Head(ms).n |-> Head(ms).name] \o Expand(Tail(ms))

AtomsOf(itp) == SelectSeq(itp.recs, LAMBDA r : r.k = "atom")
\* [ atoms ] line: nr | type resnr residue atom cgnr ...
Coord(r) == [name |-> r.p[4], resname |-> r.p[3], resid |-> r.p[2]]

Judge(e) ==
  LET names == e.names
      incl  == SelectSeq(e.top.includes, LAMBDA x : x \notin Ambient)
      Files(nm) == {i \in DOMAIN e.itps : e.itps[i].name = nm}
      Itp(nm) == e.itps[CHOOSE i \in DOMAIN e.itps : e.itps[i].name = nm].itp
  IN IF \E i \in DOMAIN e.top.molecules : e.top.molecules[i].n < 1 THEN "top-count-not-positive"
     ELSE IF Expand(e.top.molecules) # names THEN "top-does-not-list-the-molecule-types-in-coordinate-order-with-correct-counts"
     ELSE IF \E nm \in Range(names) : Cardinality({i \in DOMAIN incl : incl[i] = nm}) # 1
          THEN "molecule-type-file-not-included-exactly-once"
     ELSE IF \E i \in DOMAIN incl : incl[i] \notin Range(names) THEN "include-of-a-file-that-is-no-molecule-type-of-the-system"
     ELSE IF \E nm \in Range(names) : Cardinality(Files(nm)) # 1 THEN "no-single-itp-file-for-a-molecule-type"
     ELSE IF \E nm \in Range(names) : Itp(nm).moltype # nm THEN "itp-file-declares-another-molecule-type"
     ELSE IF Len(e.pdb) # Len(names) THEN "coordinate-file-has-another-number-of-molecules"
     ELSE IF \E j \in DOMAIN names : Len(e.pdb[j]) # Len(AtomsOf(Itp(names[j])))
          THEN "atom-count-differs-between-coordinates-and-itp"
     ELSE IF \E j \in DOMAIN names : \E k \in DOMAIN e.pdb[j] : e.pdb[j][k] # Coord(AtomsOf(Itp(names[j]))[k])
          THEN "kth-coordinate-record-is-not-the-kth-itp-atom"
     ELSE IF \E j \in DOMAIN names : e.own[j] # Itp(names[j]) THEN "same-name-for-molecules-with-different-topologies"
     ELSE "ok"

Init == tid \in 1..Len(Batch) /\ verdict = "pending"
Eval == /\ verdict = "pending"
        /\ verdict' = Judge(Batch[tid])
        /\ UNCHANGED tid
Spec == Init /\ [][Eval]_vars
=============================================================================
