---------------------------- MODULE Trace_Output ----------------------------
(* C03: TLC judges the COMPLETE set of files a real run wrote (library writers through DeferredFileWriter, or the
   martinize2 command line with its output-shaping options).  One event per run (DESIGN.md appendix B, "Files"):

     names : Seq(STRING)                 meta['moltype'] of the molecules, in system (= coordinate file) order
     pdb   : Seq(Seq([name, resname, resid, chain]))   coordinate records per molecule (TER-delimited), strings
     gro   : <<>> or <<Seq([name, resname, resid])>>   the records of the GRO file of the same system (the format has no
                                                       molecule delimiter: one flat list)
     itps  : Seq([name, itp])            every <name>.itp in the directory that holds a [ moleculetype ];
             itp = [moltype, nrexcl, recs]   recs = abstract records of indep_readers.read_itp (see ItpText)
     top   : [includes : Seq(STRING) (".itp" stripped), molecules : Seq([name, n]), defines : Seq(STRING),
              malformed : Seq(STRING)]
     own   : Seq(itp)                    what the ITP writer states for molecule j written on its own under names[j]
     extra : [kind : "none" | "go" | "vs", atomtypes : Seq(STRING), atparams : Seq(Seq(STRING)) (the other columns),
              nbparams : Seq(<<type, type>>), nbvalues : Seq(Seq(STRING)) (the other columns), malformed : Seq(STRING)]
             the [ atomtypes ] / [ nonbond_params ] files of a Go-model or water-bias run (go_ resp. virtual_sites_ prefix)
     opt   : [judged, go, sep, callernamed : BOOLEAN, molname : STRING, chains : Seq(STRING), merge : Seq(Seq(STRING)),
              all : BOOLEAN]
             what the command line was asked for (judged = FALSE: library run, no option clause applies)
     rb    : <<>> or <<[pdb, gro, itps]>>   the written files READ BACK by the repository's own readers
             (vermouth.pdb.read_pdb, vermouth.gmx.gro.read_gro, vermouth.gmx.itp_read.read_itp), projected field by field:
             pdb : Seq(Seq([name, resname, resid : Int])), gro : <<>> or <<Seq(..)>>,
             itps : Seq([name, nrexcl_n, num, rd])  (num / rd exactly as spec/ItpAgree.tla describes them)
     again : <<>> or <<[pdb, gro, itps, top, extra]>>   the files of a SECOND write of the same system
     hist  : Seq([perm, dedup, names])   the same molecules (copies) named afresh by NameMolType in the order
             perm (perm[i] = position in this event's system of the molecule at position i)
     refused : BOOLEAN                   the topology writer raised instead of writing (caller-named systems only)

   The verdict is the statement of C03 evaluated on the real files; it lists EVERY group of clauses that fails,
   separated by a semicolon (the string ok when none does).                                                                      *)
EXTENDS Integers, Sequences, FiniteSets, TLC, Json, IOUtils

FC == INSTANCE FixedColOps          \* C16's column tables: which characters of a value a fixed column can hold
IA == INSTANCE ItpAgree             \* C02's description of .itp content shared by both readers of the format

Batch == JsonDeserialize(IOEnv.TRACE_FILE)
Ambient == {"martini"}                 \* force-field include, not a molecule type
Range(s) == {s[i] : i \in DOMAIN s}

VARIABLES tid, verdict
vars == <<tid, verdict>>

RECURSIVE Expand(_)
Expand(ms) == IF ms = <<>> THEN <<>> ELSE [i \in 1..Head(ms).n |-> Head(ms).name] \o Expand(Tail(ms))
RECURSIVE Concat(_)
Concat(ss) == IF ss = <<>> THEN <<>> ELSE Head(ss) \o Concat(Tail(ss))

AtomsOf(itp) == SelectSeq(itp.recs, LAMBDA r : r.k = "atom")
\* [ atoms ] line: nr | type resnr residue atom cgnr ...
TypeOf(r) == r.p[1]

(* What a coordinate record can say about an ITP atom.  A value that fits its column appears exactly; a value that
   does not (residue number >= 10000 or <= -1000 in PDB, >= 100000 in GRO, names wider than the column) appears as the
   characters the column table of C16 lets survive (low-order digits of a number, leading characters of a left-aligned
   text; either end of a right-aligned text).  This is all "the same residue number / name" can mean in a fixed-column
   file, and it is what the statement is taken to require there.                                                   *)
Field(table, f) == table[FC!FieldIdx(table, f)]
PdbName == Field(FC!PdbAtomW, "name")   PdbResname == Field(FC!PdbAtomW, "resname")   PdbResid == Field(FC!PdbAtomW, "resid")
GroName == Field(FC!GroAtomW, "name")   GroResname == Field(FC!GroAtomW, "resname")   GroResid == Field(FC!GroAtomW, "resid")
Holds(field, shown, value) == shown = value \/ shown \in FC!Admissible(field, value)
PdbSays(a, r) == Holds(PdbName, a.name, r.p[4]) /\ Holds(PdbResname, a.resname, r.p[3]) /\ Holds(PdbResid, a.resid, r.p[2])
GroSays(a, r) == Holds(GroName, a.name, r.p[4]) /\ Holds(GroResname, a.resname, r.p[3]) /\ Holds(GroResid, a.resid, r.p[2])

NoName(itp) == [nrexcl |-> itp.nrexcl, recs |-> itp.recs]
FirstOcc(s, j) == CHOOSE i \in DOMAIN s : s[i] = s[j] /\ \A q \in DOMAIN s : s[q] = s[j] => i <= q
Rank(s, j) == Cardinality({FirstOcc(s, i) : i \in 1..FirstOcc(s, j)}) - 1        \* Output!NameDecl
NumberedByFirstOcc(s, prefix) == \A j \in DOMAIN s : s[j] = prefix \o "_" \o ToString(Rank(s, j))

-----------------------------------------------------------------------------
(* group 0: the files exist and are the right ones (everything else looks files up by molecule type name) *)
Structure(e) ==
  LET names == e.names
      incl  == SelectSeq(e.top.includes, LAMBDA x : x \notin Ambient)
      Files(nm) == {i \in DOMAIN e.itps : e.itps[i].name = nm}
      Itp(nm) == e.itps[CHOOSE i \in DOMAIN e.itps : e.itps[i].name = nm].itp
  IN IF \E i \in DOMAIN e.top.molecules : e.top.molecules[i].n < 1 THEN "top-count-not-positive"
     ELSE IF e.top.malformed # <<>> THEN "top-file-has-lines-that-are-no-include-define-title-or-molecule-count"
     ELSE IF Expand(e.top.molecules) # names THEN "top-does-not-list-the-molecule-types-in-coordinate-order-with-correct-counts"
     ELSE IF \E nm \in Range(names) : Cardinality({i \in DOMAIN incl : incl[i] = nm}) # 1
          THEN "molecule-type-file-not-included-exactly-once"
     ELSE IF \E i \in DOMAIN incl : incl[i] \notin Range(names) THEN "include-of-a-file-that-is-no-molecule-type-of-the-system"
     ELSE IF \E nm \in Range(names) : Cardinality(Files(nm)) # 1 THEN "no-single-itp-file-for-a-molecule-type"
     ELSE IF \E i \in DOMAIN e.itps : e.itps[i].name \notin Range(names) THEN "itp-file-of-a-molecule-type-the-system-does-not-have"
     ELSE IF \E nm \in Range(names) : Itp(nm).moltype # nm THEN "itp-file-declares-another-molecule-type"
     ELSE IF Len(e.pdb) # Len(names) THEN "coordinate-file-has-another-number-of-molecules"
     ELSE ""

(* group 1: the statement proper, on the coordinate file the command line / write_pdb produced *)
Core(e) ==
  LET names == e.names
      Itp(nm) == e.itps[CHOOSE i \in DOMAIN e.itps : e.itps[i].name = nm].itp
  IN IF \E j \in DOMAIN names : Len(e.pdb[j]) # Len(AtomsOf(Itp(names[j])))
          THEN "atom-count-differs-between-coordinates-and-itp"
     ELSE IF \E j \in DOMAIN names : LET at == AtomsOf(Itp(names[j])) IN \E k \in DOMAIN e.pdb[j] : ~PdbSays(e.pdb[j][k], at[k])
          THEN "kth-coordinate-record-is-not-the-kth-itp-atom"
     ELSE IF \E j \in DOMAIN names : e.own[j] # Itp(names[j]) THEN "same-name-for-molecules-with-different-topologies"
     ELSE ""

(* group 2: the GRO file of the same system (no delimiter: the records of molecule j are the next Len(atoms) ones) *)
Gro(e) ==
  LET Itp(nm) == e.itps[CHOOSE i \in DOMAIN e.itps : e.itps[i].name = nm].itp
      flat == Concat([j \in DOMAIN e.names |-> AtomsOf(Itp(e.names[j]))])
  IN IF e.gro = <<>> THEN ""
     ELSE IF Len(e.gro[1]) # Len(flat) THEN "gro:atom-count-differs-between-gro-and-itps"
     ELSE IF \E k \in DOMAIN flat : ~GroSays(e.gro[1][k], flat[k]) THEN "gro:kth-gro-record-is-not-the-kth-itp-atom"
     ELSE ""

(* group 3: parameter files of Go-model / water-bias runs and the #define lines.  A virtual-site atom type is one named
   <molecule type>_<number> (go_vs_includes.py); martinize2 declares them in an [ atomtypes ] file of its own. *)
IsSiteType(t, nm) == Len(t) > Len(nm) + 1 /\ SubSeq(t, 1, Len(nm) + 1) = nm \o "_"
Extra(e) ==
  LET Itp(nm) == e.itps[CHOOSE i \in DOMAIN e.itps : e.itps[i].name = nm].itp
      used     == UNION {{TypeOf(AtomsOf(Itp(nm))[k]) : k \in DOMAIN AtomsOf(Itp(nm))} : nm \in Range(e.names)}
      sites    == {t \in used : \E nm \in Range(e.names) : IsSiteType(t, nm)}
      declared == Range(e.extra.atomtypes)
      NeedsDecl(t) == \E nm \in Range(e.names) : IsSiteType(t, nm)
  IN IF e.extra.malformed # <<>> THEN "extra:parameter-file-has-unreadable-lines"
     ELSE IF (e.extra.kind = "go") # ("GO_VIRT" \in Range(e.top.defines)) THEN "extra:define-GO_VIRT-does-not-go-with-the-go-files"
     ELSE IF \E t \in sites : t \notin declared THEN "extra:virtual-site-type-of-an-itp-atom-not-declared"
     ELSE IF \E t \in declared : t \notin used THEN "extra:declared-atom-type-that-no-written-molecule-type-uses"
     ELSE IF \E i \in DOMAIN e.extra.nbparams : \E t \in Range(e.extra.nbparams[i]) : NeedsDecl(t) /\ t \notin declared
          THEN "extra:nonbond-params-name-an-undeclared-virtual-site-type"
     ELSE IF \E i, j \in DOMAIN e.extra.atomtypes : e.extra.atomtypes[i] = e.extra.atomtypes[j] /\ e.extra.atparams[i] # e.extra.atparams[j]
          THEN "extra:one-atom-type-declared-with-different-parameters"
     ELSE IF \E i, j \in DOMAIN e.extra.nbparams : /\ Range(e.extra.nbparams[i]) = Range(e.extra.nbparams[j])
                                                  /\ e.extra.nbvalues[i] # e.extra.nbvalues[j]
          THEN "extra:one-pair-of-types-given-different-nonbond-params"
     ELSE ""

(* group 4: the output-shaping options of the command line (beyond the statement; named "option:") *)
Groups(o) ==
  IF o.all THEN <<Range(o.chains)>>
  ELSE LET SetOf(c) == IF \E i \in DOMAIN o.merge : c \in Range(o.merge[i])
                       THEN Range(o.merge[CHOOSE i \in DOMAIN o.merge : c \in Range(o.merge[i])]) \cap Range(o.chains)
                       ELSE {c}
           First(S) == o.chains[CHOOSE i \in DOMAIN o.chains : o.chains[i] \in S /\ \A q \in 1..(i - 1) : o.chains[q] \notin S]
           heads == SelectSeq(o.chains, LAMBDA c : c = First(SetOf(c)))
       IN [i \in DOMAIN heads |-> SetOf(heads[i])]
Option(e) ==
  LET o == e.opt
      ChainsOf(j) == {e.pdb[j][k].chain : k \in DOMAIN e.pdb[j]}
  IN IF ~o.judged THEN ""
     ELSE IF o.go /\ e.names # <<o.molname>> THEN "option:go-run-is-not-one-molecule-named-by-name"
     ELSE IF ~o.go /\ ~NumberedByFirstOcc(e.names, o.molname) THEN "option:names-are-not-prefix_k-numbered-by-first-occurrence"
     ELSE IF o.sep /\ Cardinality(Range(e.names)) # Len(e.names) THEN "option:sep-given-but-molecules-share-a-type"
     ELSE IF o.chains # <<>> /\ [j \in DOMAIN e.pdb |-> ChainsOf(j)] # Groups(o)
          THEN "option:molecules-are-not-the-requested-chain-groups-in-input-order"
     ELSE ""

(* group 5: write-then-read by the repository's own readers *)
ReadBack(e) ==
  LET rb == e.rb[1]
      Same(a, b) == a.name = b.name /\ a.resname = b.resname /\ FC!ParseInt(a.resid) = b.resid
      ItpOf(nm) == e.itps[CHOOSE i \in DOMAIN e.itps : e.itps[i].name = nm].itp
      ItpV(x) == LET itp == ItpOf(x.name)
                     st  == IA!ReadAll(itp.recs)
                     dI  == IA!DescOfRecs([moltype |-> itp.moltype, nrexcl |-> itp.nrexcl, nrexcl_n |-> x.nrexcl_n], itp.recs, x.num)
                 IN IF st.bad \/ st.stack # <<>> \/ Len(x.num) # Len(st.atoms) THEN "text-unreadable"
                    ELSE IF \E i \in DOMAIN x.num : ~x.num[i].ok THEN "excluded"
                    ELSE IF IA!UsesUnknownSection(dI) THEN "excluded"
                    ELSE IF \E i \in DOMAIN itp.recs : itp.recs[i].k = "else" THEN "excluded"
                    ELSE IF \E i \in DOMAIN st.inters : Len(st.inters[i].g) > 1 THEN "excluded"
                    ELSE IF x.rd.err # "" THEN "reader:rejects-the-written-text"
                    ELSE IA!Agree(dI, IA!DescOfBlock(x.rd))
  IN IF e.rb = <<>> THEN ""
     ELSE IF Len(rb.pdb) # Len(e.pdb) THEN "readback:read_pdb-finds-another-number-of-molecules"
     ELSE IF \E j \in DOMAIN e.pdb : Len(rb.pdb[j]) # Len(e.pdb[j]) THEN "readback:read_pdb-finds-another-number-of-atoms"
     ELSE IF \E j \in DOMAIN e.pdb : \E k \in DOMAIN e.pdb[j] : ~Same(e.pdb[j][k], rb.pdb[j][k])
          THEN "readback:read_pdb-atom-differs-in-name-residue-or-order"
     ELSE IF Len(rb.gro) # Len(e.gro) THEN "readback:read_gro-did-not-read-the-file"
     ELSE IF e.gro # <<>> /\ Len(rb.gro[1]) # Len(e.gro[1]) THEN "readback:read_gro-finds-another-number-of-atoms"
     ELSE IF e.gro # <<>> /\ \E k \in DOMAIN e.gro[1] : ~Same(e.gro[1][k], rb.gro[1][k])
          THEN "readback:read_gro-atom-differs-in-name-residue-or-order"
     ELSE IF {rb.itps[i].name : i \in DOMAIN rb.itps} # {e.itps[i].name : i \in DOMAIN e.itps}
          THEN "readback:not-every-itp-was-read-back"
     ELSE LET vs == [i \in DOMAIN rb.itps |-> ItpV(rb.itps[i])]
          IN IF \E i \in DOMAIN vs : vs[i] \notin {"ok", "excluded"}
             THEN "readback:read_itp-" \o vs[CHOOSE i \in DOMAIN vs : vs[i] \notin {"ok", "excluded"}]
             ELSE ""

(* group 6: history - a second write of the same system states the same thing *)
Again(e) ==
  IF e.again = <<>> THEN ""
  ELSE IF e.again[1] # [pdb |-> e.pdb, gro |-> e.gro, itps |-> e.itps, top |-> e.top, extra |-> e.extra]
       THEN "history:second-write-of-the-same-system-differs"
  ELSE ""

(* group 7: history - naming the same molecules again, in other orders, with and without deduplication.
   Output!NameDecl: with deduplication the names count the distinct molecules in order of first occurrence, so WHICH
   molecules share a name cannot depend on the order; and a shared name needs identical written topologies. *)
Hist(e) ==
  LET Shared(r) == UNION {{<<r.perm[i], r.perm[j]>> : j \in {q \in DOMAIN r.names : r.names[q] = r.names[i]}} : i \in DOMAIN r.names}
      dd == {i \in DOMAIN e.hist : e.hist[i].dedup}
  IN IF e.hist = <<>> THEN ""
     ELSE IF \E i \in DOMAIN e.hist : ~NumberedByFirstOcc(e.hist[i].names, e.opt.molname)
          THEN "history:names-are-not-prefix_k-numbered-by-first-occurrence"
     ELSE IF \E i \in DOMAIN e.hist \ dd : Cardinality(Range(e.hist[i].names)) # Len(e.hist[i].names)
          THEN "history:names-shared-without-deduplication"
     ELSE IF \E i \in dd : \E p \in Shared(e.hist[i]) : NoName(e.own[p[1]]) # NoName(e.own[p[2]])
          THEN "history:same-name-for-molecules-with-different-topologies"
     ELSE IF \E i, j \in dd : Shared(e.hist[i]) # Shared(e.hist[j]) THEN "history:which-molecules-share-a-type-depends-on-their-order"
     ELSE ""

(* A caller may name the molecule types himself (meta 'moltype' set by hand, NameMolType not run).  The statement speaks
   about the names the LIBRARY gives; one name on different topologies is then a broken precondition of the writer, which
   documents that it writes the first molecule: such a run is an OBSERVATION (counted), a refusal would be accepted too;
   a refusal of consistent names is not.  The same clash among names NameMolType gave is the violation. *)
Clash(e) == \E i, j \in DOMAIN e.names : e.names[i] = e.names[j] /\ NoName(e.own[i]) # NoName(e.own[j])

RECURSIVE JoinStr(_)
JoinStr(ss) == IF Len(ss) = 1 THEN ss[1] ELSE ss[1] \o ";" \o JoinStr(Tail(ss))
Join(parts) == LET bad == SelectSeq(parts, LAMBDA s : s # "") IN IF bad = <<>> THEN "ok" ELSE JoinStr(bad)

Judge(e) ==
  IF e.refused THEN (IF Clash(e) THEN "ok" ELSE "writer-refused-a-system-whose-names-are-consistent")
  ELSE IF Clash(e) THEN (IF e.opt.callernamed THEN "observation:caller-named-clash-not-refused"
                         ELSE "same-name-for-molecules-with-different-topologies")
  ELSE LET s == Structure(e)
       IN IF s # "" THEN s
          ELSE Join(<<Core(e), Extra(e), Option(e), ReadBack(e), Again(e), Hist(e), Gro(e)>>)

Init == tid \in 1..Len(Batch) /\ verdict = "pending"
Eval == /\ verdict = "pending"
        /\ verdict' = Judge(Batch[tid])
        /\ UNCHANGED tid
Spec == Init /\ [][Eval]_vars
=============================================================================
