--------------------------------- MODULE PTM ---------------------------------
(* Canonicalising modifications (vermouth.processors.canonicalize_modifications, with the part of repair_graph that hands
   atoms over to it), judged on recorded runs (C14).  One record e per run of CanonicalizeModifications on one molecule;
   atoms and template nodes are numbered by position (1..n), the driver keeps the real keys.

   e.mol       == [nodes : Seq([resid, res, name, el, ptm : BOOLEAN, mods : Seq(template index), attrs : Seq(<<key, value>>)]),
                   adj : Seq(Seq(atom))]
                  the molecule that ENTERS CanonicalizeModifications (after RepairGraph).  ptm = flagged PTM_atom: an atom the
                  residue template could not account for, or an atom that exists because a modification was REQUESTED
                  (-modify / -nter / -cter: AnnotateMutMod + RepairGraph patch the reference block with the modification);
                  mods = the requested modifications RepairGraph wrote on the atom (empty unless requested);
                  res = the residue (chain, resid, insertion code) the atom belongs to, resid = its bare number
   e.templates == Seq([name, nodes : Seq([name, el, ptm : BOOLEAN, rep : Seq(<<key, value>>)]), edges : Seq(<<k1, k2>>)])
                  the force field's modifications; ptm = FALSE marks an anchor; rep = the `replace` attribute
   e.calls     == Seq([ptms : Seq([atoms, anchors]), outcome : "identified" | "unknown", cover : Seq([t, match : Seq(<<atom, node>>)])])
                  one entry per group the real code formed (interposed identify_ptms) with the placements it returned
   e.final     == Seq([present : BOOLEAN, labels : Seq(template index), attrs : Seq(<<key, value>>)])  per atom of e.mol
   e.warnings  == number of unknown-input warnings logged during the run
   e.dropped   == Seq(atom description) unrecognised atoms RepairGraph removed from residues carrying a request (observation)
   Attribute values are canonical strings ("s:CA", "None", "n:1.0"); only the keys some template replaces are recorded.

   A template FITS where it is an INDUCED subgraph whose anchors (ptm = FALSE) match by NAME an atom that is not flagged and
   whose added atoms (ptm = TRUE) match by ELEMENT a flagged atom that is still unexplained.
   A REQUESTED modification is expected where RepairGraph put it: it is placed by atom NAME on exactly the atoms carrying it. *)
EXTENDS Integers, Sequences, FiniteSets, TLC

SeqSet(s) == {s[i] : i \in DOMAIN s}
RangeOf(f) == {f[x] : x \in DOMAIN f}
Ids(mol) == DOMAIN mol.nodes
Nbrs(mol, a) == SeqSet(mol.adj[a])
MAdj(mol, a, b) == b \in Nbrs(mol, a)
TAdj(t, a, b) == \E i \in DOMAIN t.edges : (t.edges[i][1] = a /\ t.edges[i][2] = b) \/ (t.edges[i][1] = b /\ t.edges[i][2] = a)
AttrOf(s, k) == IF \E i \in DOMAIN s : s[i][1] = k THEN s[CHOOSE i \in DOMAIN s : s[i][1] = k][2] ELSE "absent"

Flagged(mol) == {n \in Ids(mol) : mol.nodes[n].ptm}
IsExtra(mol, n) == mol.nodes[n].ptm \/ mol.nodes[n].mods # <<>>               \* what find_ptm_atoms starts from
Extra(mol) == {n \in Ids(mol) : IsExtra(mol, n)}
Unexplained(mol) == {n \in Ids(mol) : mol.nodes[n].ptm /\ mol.nodes[n].mods = <<>>}

(* groups: connected sets of extra atoms with the other atoms they are bonded to *)
RECURSIVE Grow(_, _)
Grow(mol, S) == LET S2 == S \cup {n \in UNION {Nbrs(mol, s) : s \in S} : IsExtra(mol, n)} IN IF S2 = S THEN S ELSE Grow(mol, S2)
Components(mol) == {Grow(mol, {a}) : a \in Extra(mol)}
AnchorsOf(mol, C) == {n \in UNION {Nbrs(mol, c) : c \in C} : ~IsExtra(mol, n)}
Requested(mol, A) == UNION {SeqSet(mol.nodes[a].mods) : a \in A}                \* template indices asked for on these atoms

(* embeddings of a template: recursive extension of a partial map, induced on the atoms placed so far *)
NodeOK(mol, t, k, n, byname) ==
  LET tn == t.nodes[k]  mn == mol.nodes[n] IN
  IF byname THEN tn.name = mn.name
  ELSE tn.ptm = mn.ptm /\ (IF tn.ptm THEN tn.el = mn.el ELSE tn.name = mn.name)
RECURSIVE Extend(_, _, _, _, _, _)
Extend(mol, t, within, f, todo, byname) ==
  IF todo = <<>> THEN {f}
  ELSE LET k == Head(todo) IN
       UNION {Extend(mol, t, within, (k :> n) @@ f, Tail(todo), byname)
              : n \in {x \in within : x \notin RangeOf(f) /\ NodeOK(mol, t, k, x, byname) /\ \A p \in DOMAIN f : TAdj(t, p, k) = MAdj(mol, f[p], x)}}
EmptyMap == [x \in {} |-> 0]
TEmb(mol, t, within) == Extend(mol, t, within, EmptyMap, [i \in DOMAIN t.nodes |-> i], FALSE)
NameEmb(mol, t, within) == Extend(mol, t, within, EmptyMap, [i \in DOMAIN t.nodes |-> i], TRUE)
PtmSize(t) == Cardinality({k \in DOMAIN t.nodes : t.nodes[k].ptm})

(* one call = the groups whose anchors lie in the same residues.  Its groups are either REQUESTED (their atoms carry the
   requested modifications) or UNEXPLAINED (to be covered exactly by candidate placements)                                   *)
ReqIdx(mol, c) == {j \in DOMAIN c.ptms : Requested(mol, SeqSet(c.ptms[j].atoms)) # {}}
UnxIdx(mol, c) == DOMAIN c.ptms \ ReqIdx(mol, c)
ToCover(mol, c) == UNION {SeqSet(c.ptms[j].atoms) \cup SeqSet(c.ptms[j].anchors) : j \in UnxIdx(mol, c)}
FlaggedToCover(mol, c) == UNION {SeqSet(c.ptms[j].atoms) : j \in UnxIdx(mol, c)}
AllAtoms(c) == UNION {SeqSet(c.ptms[j].atoms) : j \in DOMAIN c.ptms}
AnchorRes(mol, c) == {mol.nodes[a].res : a \in UNION {SeqSet(c.ptms[j].anchors) : j \in DOMAIN c.ptms}}
Within(mol, c) == {n \in Ids(mol) : mol.nodes[n].res \in AnchorRes(mol, c)}                 \* the residues the group touches
Avail(mol, c) == {n \in Within(mol, c) : ~mol.nodes[n].ptm} \cup ToCover(mol, c)
Cands(mol, ts, c) ==
  LET W == Within(mol, c)  A == Avail(mol, c) IN
  UNION {{[t |-> ti, f |-> g] : g \in {h \in TEmb(mol, ts[ti], W) : RangeOf(h) \subseteq A}} : ti \in DOMAIN ts}
IsCover(mol, c, S) ==
  /\ \A a \in FlaggedToCover(mol, c) : Cardinality({s \in S : a \in RangeOf(s.f)}) = 1
  /\ \A a \in ToCover(mol, c) \ FlaggedToCover(mol, c) : \E s \in S : a \in RangeOf(s.f)
(* all exact covers, by branching on the lowest atom still to be covered *)
RECURSIVE Exact(_, _, _, _)
Exact(C, fl, rem, acc) ==
  IF rem = {} THEN {acc}
  ELSE LET a == CHOOSE x \in rem : \A y \in rem : x <= y IN
       UNION {Exact(C, fl, rem \ RangeOf(s.f), acc \cup {s}) : s \in {x \in C : a \in RangeOf(x.f) /\ (RangeOf(x.f) \cap fl) \subseteq rem}}
(* the documented preference: "(3, 2) > (3, 1, 1) > (2, 2, 1)", sizes = numbers of added atoms *)
Cnt(ts, S, z) == Cardinality({s \in S : PtmSize(ts[s.t]) = z})
Better(ts, S1, S2) == \E z \in 1..12 : Cnt(ts, S1, z) > Cnt(ts, S2, z) /\ \A y \in (z + 1)..12 : Cnt(ts, S1, y) = Cnt(ts, S2, y)

RecMap(m) == [k \in {m[i][2] : i \in DOMAIN m} |-> m[CHOOSE i \in DOMAIN m : m[i][2] = k][1]]      \* template node -> atom
RecCover(c) == {[t |-> c.cover[i].t, f |-> RecMap(c.cover[i].match)] : i \in DOMAIN c.cover}
(* REQUESTED modifications.  LabelledWith = the atoms of a group on which RepairGraph wrote modification t; the placement
   expected for t is the embedding BY NAME into the touched residues that contains all of them.  A requested group is inside
   the specification when every requested modification has exactly one such placement and these placements account for all
   atoms of the group (unique atom names per residue)                                                                       *)
LabelledWith(mol, A, t) == {a \in A : t \in SeqSet(mol.nodes[a].mods)}
ReqEmb(mol, ts, c, A, t) == {g \in NameEmb(mol, ts[t], Within(mol, c)) : LabelledWith(mol, A, t) \subseteq RangeOf(g)}
ReqSpecified(mol, ts, c, A) ==
  /\ \A t \in Requested(mol, A) : t \in DOMAIN ts /\ Cardinality(ReqEmb(mol, ts, c, A, t)) = 1
  /\ A \subseteq UNION {RangeOf(CHOOSE g \in ReqEmb(mol, ts, c, A, t) : TRUE) : t \in Requested(mol, A)}
(* the part of the recorded cover that places a requested modification of group j on the atoms labelled with it *)
RecFor(mol, c, j) ==
  LET A == SeqSet(c.ptms[j].atoms) IN {s \in RecCover(c) : s.t \in Requested(mol, A) /\ LabelledWith(mol, A, s.t) \subseteq RangeOf(s.f)}
RecReq(mol, c) == UNION {RecFor(mol, c, j) : j \in ReqIdx(mol, c)}
RecUnx(mol, c) == RecCover(c) \ RecReq(mol, c)
JudgeRequested(mol, ts, c, j) ==
  LET A == SeqSet(c.ptms[j].atoms) IN
  IF ~ReqSpecified(mol, ts, c, A) THEN "unjudged:requested-modification-has-no-unique-placement-by-name"
  ELSE IF c.outcome # "identified" THEN "requested-modification-not-identified"
  ELSE IF \E t \in Requested(mol, A) : {s.f : s \in {x \in RecFor(mol, c, j) : x.t = t}} # ReqEmb(mol, ts, c, A, t)
       THEN "requested-modification-not-placed-on-its-atoms"
  ELSE "ok"

CoversOf(C, mol, c) == LET fl == FlaggedToCover(mol, c) IN {S \in Exact(C, fl, fl, {}) : IsCover(mol, c, S)}
(* verdict on the unexplained groups of one call, and whether the chosen cover respects the documented preference *)
JudgeUnexplained(mol, ts, c) ==
  IF UnxIdx(mol, c) = {}
  THEN [v |-> IF RecUnx(mol, c) # {} THEN "modification-identified-where-nothing-is-unexplained" ELSE "ok", pref |-> TRUE]
  ELSE LET C == Cands(mol, ts, c)
           all == CoversOf(C, mol, c)
           rec == RecUnx(mol, c) IN
  IF all # {}
  THEN IF c.outcome # "identified" THEN [v |-> "explainable-atoms-not-identified", pref |-> TRUE]
       ELSE IF \E s \in rec : s \notin C THEN [v |-> "identified-modification-does-not-fit-there", pref |-> TRUE]
       ELSE IF Cardinality(RecCover(c)) # Len(c.cover) THEN [v |-> "modification-identified-twice-at-one-place", pref |-> TRUE]
       ELSE IF ~IsCover(mol, c, rec) THEN [v |-> "atom-not-covered-exactly-once", pref |-> TRUE]
       ELSE [v |-> "ok", pref |-> ~\E S \in all : Better(ts, S, rec)]
  ELSE [v |-> IF c.outcome = "identified" THEN "unexplainable-atoms-reported-as-identified" ELSE "ok", pref |-> TRUE]

JudgeCall(mol, ts, c) ==
  IF \E j \in ReqIdx(mol, c) : JudgeRequested(mol, ts, c, j) # "ok"
  THEN [v |-> JudgeRequested(mol, ts, c, CHOOSE j \in ReqIdx(mol, c) : JudgeRequested(mol, ts, c, j) # "ok"), pref |-> TRUE]
  ELSE JudgeUnexplained(mol, ts, c)

(* ---- the molecule afterwards ---- *)
Present(e, n) == e.final[n].present
Identified(e) == {i \in DOMAIN e.calls : e.calls[i].outcome = "identified"}
Unknown(e) == {i \in DOMAIN e.calls : e.calls[i].outcome = "unknown"}
(* residues in which every atom must carry the label of a placement of call c, and residues in which it may *)
MustRes(mol, c) ==
  {mol.nodes[a].res : a \in UNION {SeqSet(c.ptms[j].anchors) : j \in UnxIdx(mol, c)}}
  \cup {mol.nodes[a].res : a \in UNION {SeqSet(c.ptms[j].atoms) : j \in ReqIdx(mol, c)}}
MayRes(mol, c) == MustRes(mol, c) \cup AnchorRes(mol, c)
(* values the identified placements prescribe for attribute k of atom n *)
Prescribed(e, n, k) ==
  UNION {UNION {{AttrOf(e.templates[s.t].nodes[q].rep, k) : q \in {x \in DOMAIN s.f : s.f[x] = n /\ AttrOf(e.templates[s.t].nodes[x].rep, k) # "absent"}}
                \cup (IF k = "atomname"
                      THEN {"s:" \o e.templates[s.t].nodes[q].name : q \in {x \in DOMAIN s.f : s.f[x] = n /\ e.templates[s.t].nodes[x].ptm
                                                                                   /\ AttrOf(e.templates[s.t].nodes[x].rep, k) = "absent"}}
                      ELSE {})
                : s \in RecCover(e.calls[i])} : i \in Identified(e)}
Keys(e) == {"atomname"} \cup UNION {UNION {{t.nodes[q].rep[r][1] : r \in DOMAIN t.nodes[q].rep} : q \in DOMAIN t.nodes} : t \in SeqSet(e.templates)}
WrongAttr(e, n, k) ==
  LET P == Prescribed(e, n, k)  have == AttrOf(e.final[n].attrs, k) IN
  IF P = {} THEN have # AttrOf(e.mol.nodes[n].attrs, k) ELSE have \notin P
LabelJustified(e, n, l) ==
  \/ l \in SeqSet(e.mol.nodes[n].mods)
  \/ \E i \in Identified(e) : e.mol.nodes[n].res \in MayRes(e.mol, e.calls[i]) /\ \E s \in RecCover(e.calls[i]) : s.t = l
At(n) == " atom=" \o ToString(n)

JudgeRun(e) ==
  LET mol == e.mol  ts == e.templates
      cv == [i \in DOMAIN e.calls |-> JudgeCall(mol, ts, e.calls[i])] IN
  IF {SeqSet(e.calls[p[1]].ptms[p[2]].atoms) : p \in {q \in (DOMAIN e.calls) \X (1..40) : q[2] \in DOMAIN e.calls[q[1]].ptms}} # Components(mol)
  THEN "groups-of-unexplained-atoms-differ"
  ELSE IF \E i \in DOMAIN e.calls : \E j \in DOMAIN e.calls[i].ptms :
            SeqSet(e.calls[i].ptms[j].anchors) # AnchorsOf(mol, SeqSet(e.calls[i].ptms[j].atoms)) THEN "anchors-differ"
  ELSE IF \E i \in DOMAIN e.calls : cv[i].v # "ok" THEN cv[CHOOSE i \in DOMAIN e.calls : cv[i].v # "ok"].v
  ELSE IF \E i \in Unknown(e) : \E a \in FlaggedToCover(mol, e.calls[i]) : Present(e, a)
       THEN "unexplained-atom-silently-kept"
  ELSE IF e.warnings < Cardinality(Unknown(e)) THEN "atoms-removed-without-warning"
  ELSE IF Unknown(e) = {} /\ e.warnings > 0 THEN "unknown-input-warning-although-nothing-was-removed"
  ELSE IF \E i \in Identified(e) : \E a \in AllAtoms(e.calls[i]) : ~Present(e, a)
       THEN "explained-atom-removed"
  ELSE IF \E n \in Ids(mol) : n \notin Unexplained(mol) /\ ~Present(e, n)
       THEN "recognised-atom-removed" \o At(CHOOSE n \in Ids(mol) : n \notin Unexplained(mol) /\ ~Present(e, n))
  ELSE IF \E n \in Ids(mol) : Present(e, n) /\ \E k \in Keys(e) : WrongAttr(e, n, k)
       THEN LET n == CHOOSE x \in Ids(mol) : Present(e, x) /\ \E k \in Keys(e) : WrongAttr(e, x, k) IN
            (IF Prescribed(e, n, CHOOSE k \in Keys(e) : WrongAttr(e, n, k)) = {} THEN "atom-changed-without-reason"
             ELSE "atom-does-not-carry-the-canonical-name-or-replaced-attribute") \o At(n)
  ELSE IF \E i \in Identified(e) : \E s \in RecCover(e.calls[i]) :
             \E n \in Ids(mol) : Present(e, n) /\ mol.nodes[n].res \in MustRes(mol, e.calls[i]) /\ s.t \notin SeqSet(e.final[n].labels)
       THEN "atom-of-a-touched-residue-not-labelled"
  ELSE IF \E n \in Ids(mol) : Present(e, n) /\ \E l \in SeqSet(mol.nodes[n].mods) : l \notin SeqSet(e.final[n].labels)
       THEN "requested-label-lost"
  ELSE IF \E n \in Ids(mol) : Present(e, n) /\ \E l \in SeqSet(e.final[n].labels) : ~LabelJustified(e, n, l)
       THEN "label-without-identified-modification" \o At(CHOOSE n \in Ids(mol) : Present(e, n) /\ \E l \in SeqSet(e.final[n].labels) : ~LabelJustified(e, n, l))
  ELSE IF \E i \in DOMAIN e.calls : ~cv[i].pref THEN "exact-cover-does-not-prefer-the-larger-modification"
  ELSE "ok"

(* observation, not part of the verdict: unrecognised atoms that RepairGraph removed from a residue carrying a request
   (a request states what the residue shall be); no log record accompanies the removal                                    *)
Note(e) == IF Len(e.dropped) > 0 THEN "atoms-dropped-by-request:" \o ToString(Len(e.dropped)) ELSE ""
=============================================================================
