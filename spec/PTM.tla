--------------------------------- MODULE PTM ---------------------------------
(* Canonicalising modifications (vermouth.processors.canonicalize_modifications), judged on recorded runs (C14).
   mol       == [nodes : Seq([id, resid, name, el, ptm : BOOLEAN]), edges : Seq(<<a, b>>)]      (ptm = flagged as unrecognised)
   templates == Seq([name, nodes : Seq([key, name, el, ptm : BOOLEAN, newname]), edges : Seq(<<k1, k2>>)])   (newname "" = keep)
   calls     == Seq([ptms : Seq([atoms, anchors]), resnodes : Seq(id), outcome : "identified" | "unknown", cover : Seq([t, match])])
                one entry per group of unexplained atoms, as the real code formed it (interposed identify_ptms)
   final     == Seq([id, name, labels : Seq(template name)]) - atoms still present afterwards
   A template fits where it is an INDUCED subgraph whose anchor atoms (ptm = FALSE) match by NAME an atom that is not flagged
   and whose added atoms (ptm = TRUE) match by ELEMENT a flagged atom.                                              *)
EXTENDS Integers, Sequences, FiniteSets, TLC

SeqSet(s) == {s[i] : i \in DOMAIN s}
RangeOf(f) == {f[x] : x \in DOMAIN f}
MNode(mol, n) == mol.nodes[CHOOSE i \in DOMAIN mol.nodes : mol.nodes[i].id = n]
MAdj(mol, a, b) == \E i \in DOMAIN mol.edges : (mol.edges[i][1] = a /\ mol.edges[i][2] = b) \/ (mol.edges[i][1] = b /\ mol.edges[i][2] = a)
TNode(t, k) == t.nodes[CHOOSE i \in DOMAIN t.nodes : t.nodes[i].key = k]
TAdj(t, a, b) == \E i \in DOMAIN t.edges : (t.edges[i][1] = a /\ t.edges[i][2] = b) \/ (t.edges[i][1] = b /\ t.edges[i][2] = a)

Flagged(mol) == {mol.nodes[i].id : i \in {j \in DOMAIN mol.nodes : mol.nodes[j].ptm}}

(* groups: connected sets of flagged atoms with the unflagged atoms they are bonded to *)
RECURSIVE Grow(_, _)
Grow(mol, S) == LET S2 == S \cup {n \in Flagged(mol) : \E s \in S : MAdj(mol, s, n)} IN IF S2 = S THEN S ELSE Grow(mol, S2)
Component(mol, a) == Grow(mol, {a})
Components(mol) == {Component(mol, a) : a \in Flagged(mol)}
AnchorsOf(mol, C) == {n \in {mol.nodes[i].id : i \in DOMAIN mol.nodes} : n \notin Flagged(mol) /\ \E c \in C : MAdj(mol, c, n)}

NodeOK(mol, t, k, n) ==
  LET tn == TNode(t, k)  mn == MNode(mol, n) IN
  tn.ptm = mn.ptm /\ (IF tn.ptm THEN tn.el = mn.el ELSE tn.name = mn.name)

RECURSIVE Extend(_, _, _, _, _)
Extend(mol, t, within, f, todo) ==
  IF todo = <<>> THEN {f}
  ELSE LET k == Head(todo) IN
       UNION {Extend(mol, t, within, (k :> n) @@ f, Tail(todo))
              : n \in {x \in within : x \notin RangeOf(f) /\ NodeOK(mol, t, k, x) /\ \A p \in DOMAIN f : TAdj(t, p, k) = MAdj(mol, f[p], x)}}
EmptyMap == [x \in {} |-> 0]
TEmb(mol, t, within) == Extend(mol, t, within, EmptyMap, [i \in DOMAIN t.nodes |-> t.nodes[i].key])

(* candidates and covers of one call *)
ToCover(c) == UNION {SeqSet(c.ptms[i].atoms) \cup SeqSet(c.ptms[i].anchors) : i \in DOMAIN c.ptms}
FlaggedToCover(c) == UNION {SeqSet(c.ptms[i].atoms) : i \in DOMAIN c.ptms}
Avail(mol, c) == {n \in SeqSet(c.resnodes) : n \notin Flagged(mol)} \cup ToCover(c)
Cands(mol, ts, c) == UNION {{[t |-> ti, f |-> g] : g \in {h \in TEmb(mol, ts[ti], SeqSet(c.resnodes)) : RangeOf(h) \subseteq Avail(mol, c)}} : ti \in DOMAIN ts}
IsCover(mol, c, S) ==
  /\ \A a \in FlaggedToCover(c) : Cardinality({s \in S : a \in RangeOf(s.f)}) = 1
  /\ \A a \in ToCover(c) \ FlaggedToCover(c) : \E s \in S : a \in RangeOf(s.f)
Coverable(mol, ts, c) == \E S \in SUBSET Cands(mol, ts, c) : IsCover(mol, c, S)

RecMap(m) == [k \in {m[i][2] : i \in DOMAIN m} |-> m[CHOOSE i \in DOMAIN m : m[i][2] = k][1]]      \* template key -> molecule atom
RecCover(c) == {[t |-> c.cover[i].t, f |-> RecMap(c.cover[i].match)] : i \in DOMAIN c.cover}

JudgeCall(mol, ts, c) ==
  IF Coverable(mol, ts, c)
  THEN IF c.outcome # "identified" THEN "explainable-atoms-not-identified"
       ELSE IF \E s \in RecCover(c) : s \notin Cands(mol, ts, c) THEN "identified-modification-does-not-fit-there"
       ELSE IF Cardinality(RecCover(c)) # Len(c.cover) THEN "modification-identified-twice-at-one-place"
       ELSE IF ~IsCover(mol, c, RecCover(c)) THEN "atom-not-covered-exactly-once"
       ELSE "ok"
  ELSE IF c.outcome = "identified" THEN "unexplainable-atoms-reported-as-identified" ELSE "ok"

FinalIds(e) == {e.final[i].id : i \in DOMAIN e.final}
FinalOf(e, n) == e.final[CHOOSE i \in DOMAIN e.final : e.final[i].id = n]
ResidOf(mol, n) == MNode(mol, n).resid
TouchedResids(mol, c) == {ResidOf(mol, a) : a \in UNION {SeqSet(c.ptms[i].anchors) : i \in DOMAIN c.ptms}}

\* some identified modification covers atom n with a template node that prescribes a new name
RenamedByCover(e, n) ==
  \E i \in DOMAIN e.calls :
     /\ e.calls[i].outcome = "identified"
     /\ \E s \in RecCover(e.calls[i]) : \E k \in DOMAIN s.f : s.f[k] = n /\ TNode(e.templates[s.t], k).newname # ""

JudgeRun(e) ==
  LET mol == e.mol  ts == e.templates IN
  IF {SeqSet(e.calls[i].ptms[j].atoms) : <<i, j>> \in {p \in (DOMAIN e.calls) \X (1..20) : p[2] \in DOMAIN e.calls[p[1]].ptms}} # Components(mol)
  THEN "groups-of-unexplained-atoms-differ"
  ELSE IF \E i \in DOMAIN e.calls : \E j \in DOMAIN e.calls[i].ptms :
            SeqSet(e.calls[i].ptms[j].anchors) # AnchorsOf(mol, SeqSet(e.calls[i].ptms[j].atoms)) THEN "anchors-differ"
  ELSE IF \E i \in DOMAIN e.calls : JudgeCall(mol, ts, e.calls[i]) # "ok"
       THEN JudgeCall(mol, ts, e.calls[CHOOSE i \in DOMAIN e.calls : JudgeCall(mol, ts, e.calls[i]) # "ok"])
  ELSE IF \E i \in DOMAIN e.calls : e.calls[i].outcome = "unknown" /\ \E a \in FlaggedToCover(e.calls[i]) : a \in FinalIds(e)
       THEN "unexplained-atom-silently-kept"
  ELSE IF (\E i \in DOMAIN e.calls : e.calls[i].outcome = "unknown") /\ e.warnings = 0 THEN "atoms-removed-without-warning"
  ELSE IF \E i \in DOMAIN e.calls : e.calls[i].outcome = "identified" /\ \E a \in FlaggedToCover(e.calls[i]) : a \notin FinalIds(e)
       THEN "explained-atom-removed"
  ELSE IF \E n \in FinalIds(e) : n \notin Flagged(mol) /\ ~RenamedByCover(e, n) /\ FinalOf(e, n).name # MNode(mol, n).name
       THEN "recognised-atom-renamed-without-reason"
  ELSE IF \E i \in DOMAIN e.calls : e.calls[i].outcome = "identified" /\ \E s \in RecCover(e.calls[i]) : \E k \in DOMAIN s.f :
             LET tn == TNode(ts[s.t], k)
                 want == IF tn.newname # "" THEN tn.newname ELSE IF tn.ptm THEN tn.name ELSE MNode(mol, s.f[k]).name
             IN FinalOf(e, s.f[k]).name # want
       THEN "atom-does-not-carry-the-canonical-name"
  ELSE IF \E i \in DOMAIN e.calls : e.calls[i].outcome = "identified" /\ \E s \in RecCover(e.calls[i]) :
             \E n \in FinalIds(e) : ResidOf(mol, n) \in TouchedResids(mol, e.calls[i]) /\ ts[s.t].name \notin SeqSet(FinalOf(e, n).labels)
       THEN "atom-of-a-touched-residue-not-labelled"
  ELSE IF \E n \in FinalIds(e) : \E l \in SeqSet(FinalOf(e, n).labels) :
             ~\E i \in DOMAIN e.calls : e.calls[i].outcome = "identified" /\ ResidOf(mol, n) \in TouchedResids(mol, e.calls[i])
                                         /\ \E s \in RecCover(e.calls[i]) : ts[s.t].name = l
       THEN "label-without-identified-modification"
  ELSE "ok"
=============================================================================
