------------------------------ MODULE DsspRoute ------------------------------
(* C17, DSSP route, part 2: vermouth.dssp.AnnotateDSSP (+ AnnotateMartiniSecondaryStructures) on a system.

   mols : Seq([protein : BOOLEAN, haspos : BOOLEAN, nres : Nat])     molecules in system order
   plan : Seq([status : Int, lines : Seq(Seq(char))])                what the DSSP executable answers to its 1st, 2nd, ... run

   DSSP is run once for every molecule that is a protein and has positions, in system order; the other molecules are
   not looked at and stay untouched (annotate_dssp: "Non-protein molecules are returned unmodified, so are ... molecules
   for which no positions are set").  The answer of a run is read with DsspFormat!ReadDecl; its k-th class goes to
   every atom of the k-th residue of that molecule.  A failing run (exit status), an unreadable answer or an answer
   with another number of residues than the molecule is an ERROR: that molecule is not annotated (no shifted
   assignment).  Then every annotated molecule gets the Martini translation HelixRewrite!ConvertRuns of its own
   classes (helical runs never continue into the next molecule).
   Not specified, never generated: an answer with exactly ONE residue for a longer molecule (the length-one broadcast
   of annotate_residues_from_sequence is documented for AnnotateResidues only).                              *)
EXTENDS DsspFormat

CONSTANTS MaxMols, MaxRes, Shapes

H == INSTANCE HelixRewrite WITH Alphabet <- {}, MaxLen <- 0, str <- <<>>, out <- <<>>

Dashes(n) == [r \in 1..n |-> "-"]            \* "-" = attribute absent
IsCaller(m) == m.protein /\ m.haspos
Callers(mols) == SelectSeq([i \in DOMAIN mols |-> i], LAMBDA i : IsCaller(mols[i]))
CallOf(mols, i) == CHOOSE j \in DOMAIN Callers(mols) : Callers(mols)[j] = i

Answer(call, n) ==
  IF call.status # 0 THEN ERR
  ELSE LET p == ReadDecl(call.lines) IN IF p.err THEN ERR ELSE IF Len(p.val) # n THEN ERR ELSE p
UnspecifiedCall(call, n) ==
  call.status = 0 /\ (Unspecified(call.lines) \/ (LET p == ReadDecl(call.lines) IN ~p.err /\ Len(p.val) = 1 /\ n > 1))
UnspecifiedRoute(mols, plan) ==
  Len(plan) < Len(Callers(mols)) \/ \E j \in DOMAIN Callers(mols) : UnspecifiedCall(plan[j], mols[Callers(mols)[j]].nres)

Route(mols, plan) ==
  LET C      == Callers(mols)
      ans(j) == Answer(plan[j], mols[C[j]].nres)
      bad    == {j \in DOMAIN C : ans(j).err}
      aa     == [i \in DOMAIN mols |->
                   IF IsCaller(mols[i]) /\ ~ans(CallOf(mols, i)).err THEN ans(CallOf(mols, i)).val ELSE Dashes(mols[i].nres)]
  IN [errAt |-> IF bad = {} THEN 0 ELSE C[Min(bad)],         \* the first molecule whose DSSP answer is unusable
      aa    |-> aa,                                          \* classes each molecule gets IF it is annotated
      cg    |-> [i \in DOMAIN mols |-> IF aa[i] = Dashes(mols[i].nres) THEN aa[i] ELSE H!ConvertRuns(aa[i])]]

RECURSIVE Flat(_)
Flat(ss) == IF ss = <<>> THEN <<>> ELSE Head(ss) \o Flat(Tail(ss))

(* ---- TAB model: a system grows molecule by molecule, then every run of DSSP gets an answer shape ---- *)
Cls == <<"rH", "rE", "r_", "rG", "rT", "rB", "rS", "rI", "rH17", "rEdec", "r_17">>
RowKind(j, r) == Cls[((r + 3 * j) % Len(Cls)) + 1]
Rows(j, from, n) == [r \in 1..n |-> RowKind(j, from + r - 1)]
ShapeKinds(s, j, n) ==
  CASE s = "exact"    -> Rows(j, 1, n)
    [] s = "breaks"   -> <<"brk", RowKind(j, 1), "brk1">> \o Rows(j, 2, n - 1) \o <<"empty">>    \* breaks carry no residue
    [] s = "short"    -> Rows(j, 1, n - 1)
    [] s = "shortbrk" -> Rows(j, 1, n - 1) \o <<"brk">>            \* as many LINES as residues, one is a break
    [] s = "long"     -> Rows(j, 1, n + 1)
    [] s = "badclass" -> Rows(j, 1, n - 1) \o <<"rP">>
    [] s = "nohead"   -> Rows(j, 1, n)
    [] s = "fail"     -> Rows(j, 1, n)
FileKinds(s, j, n) == (IF s = "nohead" THEN <<"hdr", "tot", "near3">> ELSE <<"hdr", "tot", "hist", "table">>) \o ShapeKinds(s, j, n)
CallOfShape(s, j, n) == [status |-> IF s = "fail" THEN 1 ELSE 0, lines |-> Text(FileKinds(s, j, n))]

VARIABLES mols, shapes, out
vars == <<mols, shapes, out>>
NONE == <<"none">>
PlanOf(ms, sh) == [j \in DOMAIN sh |-> CallOfShape(sh[j], j, ms[Callers(ms)[j]].nres)]

Init == mols = <<>> /\ shapes = NONE /\ out = [pending |-> TRUE]
AddMol(p, h, k) == /\ shapes = NONE /\ Len(mols) < MaxMols
                   /\ mols' = Append(mols, [protein |-> p, haspos |-> h, nres |-> k])
                   /\ UNCHANGED <<shapes, out>>
Choose(sh) == /\ shapes = NONE /\ mols # <<>>
              /\ shapes' = sh
              /\ out' = IF UnspecifiedRoute(mols, PlanOf(mols, sh)) THEN [pending |-> FALSE, unspecified |-> TRUE]
                        ELSE [pending |-> FALSE, unspecified |-> FALSE,
                              kinds |-> [j \in DOMAIN sh |-> FileKinds(sh[j], j, mols[Callers(mols)[j]].nres)],
                              status |-> [j \in DOMAIN sh |-> PlanOf(mols, sh)[j].status],
                              exp |-> Route(mols, PlanOf(mols, sh))]
              /\ UNCHANGED mols
Next == (\E p, h \in BOOLEAN, k \in 1..MaxRes : (p \/ h) /\ AddMol(p, h, k))
        \/ (\E sh \in [1..Len(Callers(mols)) -> Shapes] : Choose(sh))
Spec == Init /\ [][Next]_vars

Judged == shapes # NONE /\ ~out.unspecified
OthersUntouched == Judged => \A i \in DOMAIN mols : ~IsCaller(mols[i]) => out.exp.aa[i] = Dashes(mols[i].nres) /\ out.exp.cg[i] = Dashes(mols[i].nres)
ErrorIffSomeAnswerUnusable ==
  Judged => ((out.exp.errAt # 0) <=> \E j \in DOMAIN shapes : shapes[j] \in {"short", "shortbrk", "long", "badclass", "nohead", "fail"})
FailingMoleculeUntouched == (Judged /\ out.exp.errAt # 0) => out.exp.aa[out.exp.errAt] = Dashes(mols[out.exp.errAt].nres)
EveryClassLands ==       \* a usable answer of n classes is on the n residues of its own molecule, in order
  Judged => \A j \in DOMAIN shapes : shapes[j] \in {"exact", "breaks"} =>
              LET i == Callers(mols)[j] IN /\ Len(out.exp.aa[i]) = mols[i].nres
                                           /\ \A r \in 1..mols[i].nres : out.exp.aa[i][r] = Coil(Line(RowKind(j, r))[ClassCol])
TranslationKeepsLength == Judged => \A i \in DOMAIN mols : Len(out.exp.cg[i]) = mols[i].nres
=============================================================================
