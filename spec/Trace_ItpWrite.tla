--------------------------- MODULE Trace_ItpWrite ---------------------------
(* Batch validation of recorded runs of the real vermouth.gmx.itp.write_molecule_itp (C02).
   Batch[i] = [mol  |-> the molecule in memory, projected by the harness (see ItpWrite: nodes / inter),
               recs |-> the abstract records harness/indep_readers.read_itp found in the text that was written]
   One event per trace ("RoundTrip(mol, records)" of DESIGN.md appendix B); the verdict is ItpWrite!Judge:
   "ok" iff  ReadMol(recs) = Canon(mol), otherwise the first clause of the statement that fails.            *)
EXTENDS Integers, Sequences, FiniteSets, TLC, Json, IOUtils

Batch == JsonDeserialize(IOEnv.TRACE_FILE)

W == INSTANCE ItpWrite WITH KeySeqs <- {}, AidVals <- {}, AtomTab <- <<>>, CMPats <- {}, Pool <- {}, MaxInter <- 0,
                            mol <- <<>>, out <- <<>>

VARIABLES tid, verdict
vars == <<tid, verdict>>

Init == tid \in 1..Len(Batch) /\ verdict = "pending"
Eval == /\ verdict = "pending"
        /\ verdict' = W!Judge(Batch[tid].mol, Batch[tid].recs)
        /\ UNCHANGED tid
Spec == Init /\ [][Eval]_vars
=============================================================================
