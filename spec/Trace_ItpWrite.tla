--------------------------- MODULE Trace_ItpWrite ---------------------------
(* Batch validation of recorded runs of the real vermouth.gmx.itp.write_molecule_itp (C02).
   Batch[i] = [mol   |-> the molecule in memory BEFORE writing, projected by the harness (ItpWrite: nodes / inter / moltype /
                         nrexcl / defs),
               file  |-> [recs |-> the abstract records harness/indep_readers.read_itp found in the text that was written,
                          pro  |-> the records of the lines before [ moleculetype ],
                          head |-> [moltype, nrexcl, nrexcl_n] the [ moleculetype ] line],
               num   |-> numeric reading of the [ atoms ] columns by the independent reader (ItpAgree),
               rd    |-> the Block vermouth.gmx.itp_read.read_itp stored for the same text (ItpAgree),
               again |-> [mol |-> the molecule projected AFTER writing, recs |-> records of a second write]]
   One event per trace ("RoundTrip(mol, records)" of DESIGN.md appendix B); the verdict has three parts:
     write  ItpWrite!JudgeFile: "ok" iff ReadMol(recs) = Canon(mol) (+ molecule type line, guarded defines), otherwise the
            first clause of the statement that fails
     agree  ItpAgree!AgreeVerdict: the repository's reader and the independent reader state the same thing, or the
            named exclusion
     pure   ItpWrite!Repeatable                                                                                     *)
EXTENDS Integers, Sequences, FiniteSets, TLC, Json, IOUtils

Batch == JsonDeserialize(IOEnv.TRACE_FILE)

W == INSTANCE ItpWrite WITH KeySeqs <- {}, AidVals <- {}, AtomTab <- <<>>, CMPats <- {}, Pool <- {}, MaxInter <- 0,
                            TokInt <- <<>>, TokDec <- <<>>, mol <- <<>>, out <- <<>>

VARIABLES tid, verdict
vars == <<tid, verdict>>

Init == tid \in 1..Len(Batch) /\ verdict = [write |-> "pending", agree |-> "pending", pure |-> "pending"]
Eval == /\ verdict.write = "pending"
        /\ verdict' = [write |-> W!JudgeFile(Batch[tid].mol, Batch[tid].file),
                       agree |-> W!AgreeVerdict(Batch[tid].file.head, Batch[tid].file.recs, Batch[tid].num, Batch[tid].rd),
                       pure  |-> W!Repeatable(Batch[tid].mol, Batch[tid].file.recs, Batch[tid].again)]
        /\ UNCHANGED tid
Spec == Init /\ [][Eval]_vars
=============================================================================
