------------------------------ MODULE ElasticNet ------------------------------
(* C15 - elastic-network bonds are exactly the pairs meeting every stated criterion
   (vermouth.processors.apply_rubber_band.ApplyRubberBand.run_molecule).

   Input m:
     atoms  : Seq([chain, resid, resname : residue identity ("-" = attribute absent),
                   hasold : BOOLEAN, old : Int   resid of the input file, if the particle carries one,
                   sel : BOOLEAN                 chosen by the selector,
                   nan : BOOLEAN                 coordinates undefined (then pos is meaningless),
                   pos : <<x, y, z>>])           integer picometres
              particles are identified by their index in this sequence (= node order of the molecule)
     edges  : Seq(<<i, j>>)                      chemical bonds between particles
     dom    : [kind : {"molecule","chain","regions"}, regions : Seq(<<first, last>>)]
     rmd    : Nat    minimum separation along the residue graph
     up     : Nat    upper cut-off, pm
     base, minf : Nat   base force constant, minimum force constant, in 10^-6 kJ/mol/nm^2, minf >= 0
     decay  : BOOLEAN;  rawk : N x N matrix (only if decay) of base * exp(-a (d - lower)^p) in the same
              unit, evaluated outside TLC (no reals), saturated at 2*10^9.
   Output: the set of bonded pairs <<a, b>>, a < b; bond length and constant are functions of the pair. *)
EXTENDS PairGraph, TLC

(* ------------------------------- the five criteria ------------------------------- *)
NA(m)    == Len(m.atoms)
Pairs(m) == {p \in (1..NA(m)) \X (1..NA(m)) : p[1] < p[2]}

InRegion(r, v) == Min2(r[1], r[2]) <= v /\ v <= Max2(r[1], r[2])
RegResid(x)    == IF x.hasold THEN x.old ELSE x.resid          \* regions refer to the input numbering

Selected(m, a, b)   == m.atoms[a].sel /\ m.atoms[b].sel
SameDomain(m, a, b) ==
  CASE m.dom.kind = "molecule" -> TRUE
    [] m.dom.kind = "chain"    -> m.atoms[a].chain = m.atoms[b].chain
    [] m.dom.kind = "regions"  -> \E i \in DOMAIN m.dom.regions :
                                     /\ InRegion(m.dom.regions[i], RegResid(m.atoms[a]))
                                     /\ InRegion(m.dom.regions[i], RegResid(m.atoms[b]))
\* cx: residue representative per particle, residue-graph edges and, per residue, the residues within m.rmd edges of it
\* (ball[r] = Ball(E, r, m.rmd)), computed once per input
Ctx(m)              == LET rep == RepTable(m.atoms)
                           E   == ResEdgesOf(rep, m.edges)
                       IN [rep |-> rep, E |-> E, ball |-> [r \in Range(rep) |-> Ball(E, r, m.rmd)]]
ResE(m)             == Ctx(m).E
\* Far(cx.E, cx.rep[a], cx.rep[b], m.rmd), looked up
Separated(m, cx, a, b) == cx.rep[b] \notin cx.ball[cx.rep[a]]
Dist2(m, a, b)      == D2(m.atoms[a].pos, m.atoms[b].pos)
Close(m, a, b)      == Dist2(m, a, b) <= m.up * m.up
RawK(m, a, b)       == IF m.decay THEN m.rawk[a][b] ELSE m.base
K(m, a, b)          == Min2(RawK(m, a, b), m.base)               \* capped at the base constant
Stiff(m, a, b)      == K(m, a, b) > m.minf

\* What the processor documents for a value that is not given to it: the variable of the molecule's force field, else the default.
DefaultRmd      == 2
DefaultBondType == 6
ResolveSpec(s, default) == IF s.given THEN s.val ELSE IF s.ffhas THEN s.ffval ELSE default

Crit == <<"sel", "dom", "sep", "cut", "force">>
Holds(m, cx, c, a, b) ==
  CASE c = 1 -> Selected(m, a, b)
    [] c = 2 -> SameDomain(m, a, b)
    [] c = 3 -> Separated(m, cx, a, b)
    [] c = 4 -> Close(m, a, b)
    [] c = 5 -> Stiff(m, a, b)
Failing(m, cx, a, b) == {c \in DOMAIN Crit : ~Holds(m, cx, c, a, b)}

HasNan(m) == \E a \in 1..NA(m) : m.atoms[a].sel /\ m.atoms[a].nan

(* declarative form, shaped like the statement *)
ExpectedWith(m, cx) == IF HasNan(m) THEN {} ELSE {p \in Pairs(m) : Failing(m, cx, p[1], p[2]) = {}}
ExpectedDecl(m)     == ExpectedWith(m, Ctx(m))

(* operational form, shaped like apply_rubber_band: matrices indexed by position in the selection,
   full-size connectivity / domain matrices sliced twice by the selection, upper triangle emitted *)
Selection(m) == SelectSeq([i \in 1..NA(m) |-> i], LAMBDA i : m.atoms[i].sel)
BondsOp(m) ==
  LET S    == Selection(m)
      n    == Len(S)
      rep  == RepTable(m.atoms)
      E    == ResEdgesOf(rep, m.edges)
      const == [i \in 1..n |-> [j \in 1..n |->
                 IF i = j THEN 0
                 ELSE LET k0 == RawK(m, S[i], S[j])
                          k1 == IF k0 < m.minf THEN 0 ELSE k0
                          k2 == IF k1 > m.base THEN m.base ELSE k1
                      IN IF Dist2(m, S[i], S[j]) > m.up * m.up THEN 0 ELSE k2]]
      connFull == [a \in 1..NA(m) |-> [b \in 1..NA(m) |-> a # b /\ rep[b] \in Ball(E, rep[a], m.rmd)]]
      domFull  == [a \in 1..NA(m) |-> [b \in 1..NA(m) |->
                     a # b /\ a \in Range(S) /\ b \in Range(S) /\ SameDomain(m, a, b)]]
      conn  == [i \in 1..n |-> [j \in 1..n |-> connFull[S[i]][S[j]]]]
      dom   == [i \in 1..n |-> [j \in 1..n |-> domFull[S[i]][S[j]]]]
      final == [i \in 1..n |-> [j \in 1..n |-> IF ~conn[i][j] /\ dom[i][j] THEN const[i][j] ELSE 0]]
  IN {<<S[p[1]], S[p[2]]>> : p \in {q \in (1..n) \X (1..n) : q[1] <= q[2] /\ final[q[1]][q[2]] > m.minf}}
ExpectedOp(m) == IF HasNan(m) THEN {} ELSE BondsOp(m)

(* classification of a pair for the vacuity report: bonded, excluded by exactly one criterion, or by several *)
ClassOf(m, cx, a, b) ==
  LET F == Failing(m, cx, a, b)
  IN IF F = {} THEN "bond"
     ELSE IF Cardinality(F) = 1 THEN Crit[CHOOSE c \in F : TRUE]
     ELSE "multi"

(* ------- TAB model: NB beads on a line; every combination of the listed choices is one input ------- *)
\* TabRegions: set of region lists tried when the domain kind is "regions" (disjoint, reversed, sharing a hinge residue, nested)
CONSTANTS NB, Spacing, Ups, Rmds, Minfs, Base, Partitions, ChainSplits, DomKinds, TabRegions

VARIABLES m, out
vars == <<m, out>>
NotYet == {<<0, 0>>}

MkInput(sel, part, ch, dk, regs, rmd, up, minf, xl) ==
  [atoms |-> [i \in 1..NB |-> [chain |-> ch[i], resid |-> part[i], resname |-> "ALA", hasold |-> FALSE, old |-> 0,
                               sel |-> sel[i], nan |-> FALSE, pos |-> <<(i - 1) * Spacing, 0, 0>>]],
   edges |-> SelectSeq([i \in 1..(NB - 1) |-> <<i, i + 1>>], LAMBDA e : ch[e[1]] = ch[e[2]])
             \o (IF xl THEN <<<<1, NB>>>> ELSE <<>>),
   dom   |-> [kind |-> dk, regions |-> regs],
   rmd |-> rmd, up |-> up, base |-> Base, minf |-> minf, decay |-> FALSE, rawk |-> <<>>]

RegsFor(dk) == IF dk = "regions" THEN TabRegions ELSE {<<>>}
\* one initial state per input (enumerated, never built as one set)
Init == \E sel \in [1..NB -> BOOLEAN], part \in Partitions, ch \in ChainSplits, dk \in DomKinds,
           rmd \in Rmds, up \in Ups, minf \in Minfs, xl \in BOOLEAN :
          \E regs \in RegsFor(dk) :
             /\ m = MkInput(sel, part, ch, dk, regs, rmd, up, minf, xl)
             /\ out = NotYet
Eval == /\ out = NotYet
        /\ out' = ExpectedDecl(m)
        /\ UNCHANGED m
Next == Eval
Spec == Init /\ [][Next]_vars

Done == out # NotYet
AllSelected(x) == [x EXCEPT !.atoms = [i \in DOMAIN x.atoms |-> [x.atoms[i] EXCEPT !.sel = TRUE]]]
Reversed(x) ==
  LET n == NA(x) IN
  [x EXCEPT !.atoms = [i \in 1..n |-> x.atoms[n + 1 - i]],
            !.edges = [k \in DOMAIN x.edges |-> <<n + 1 - x.edges[k][1], n + 1 - x.edges[k][2]>>]]

OpIsDecl        == Done => ExpectedOp(m) = out
BallIsWalk      == LET rep == RepTable(m.atoms)
                       R   == Range(rep)
                   IN \A a \in R, b \in R : (b \in Ball(ResE(m), a, m.rmd)) = WalkWithin(R, ResE(m), a, b, m.rmd)
WellFormed      == Done => \A p \in out : p[1] < p[2] /\ Selected(m, p[1], p[2])
SubSelection    == Done => out = {p \in ExpectedDecl(AllSelected(m)) : Selected(m, p[1], p[2])}
MonoSeparation  == Done => ExpectedDecl([m EXCEPT !.rmd = @ + 1]) \subseteq out
MonoCutoff      == Done => out \subseteq ExpectedDecl([m EXCEPT !.up = @ + Spacing])
OrderInvariant  == Done => ExpectedDecl(Reversed(m)) = {<<NA(m) + 1 - p[2], NA(m) + 1 - p[1]>> : p \in out}
=============================================================================
