--------------------------- MODULE WarnCountApa ---------------------------
(* Unbounded-integer check (Apalache, SMT) of the accounting of -maxwarn allowances for three warning types:
   the loop of the implementation (any iteration order of the types) equals the sentence of the property,
   for ALL natural counts, ALL integer limits (negative limits act as 0) and ALL blanket allowances.
   Same definitions as WarnCountOps.tla with the recursion over the three types written out. *)
EXTENDS Integers, Sequences, Apalache

VARIABLES
  \* @type: Int -> Int;
  cnt,
  \* @type: Int -> Str;
  mode,
  \* @type: Int -> Int;
  lim,
  \* @type: Int;
  blanket,
  \* @type: Int;
  above,
  \* @type: Seq(Int);
  order

T == 1..3
Max2(a, b) == IF a >= b THEN a ELSE b
Min2(a, b) == IF a <= b THEN a ELSE b
Lim(t) == Max2(0, lim[t])
B == Max2(0, blanket)

Excess(t) == IF mode[t] = "limit" THEN Max2(0, cnt[t] - Lim(t)) ELSE 0
Rest(t)   == IF mode[t] = "none" THEN cnt[t] ELSE 0
Decl == above + Excess(1) + Excess(2) + Excess(3) + Max2(0, Rest(1) + Rest(2) + Rest(3) - B)

\* @type: (<<Int, Int>>, Int) => <<Int, Int>>;
StepOp(acc, t) ==
  LET total == acc[1]
      bl == acc[2]
  IN IF mode[t] = "limit" THEN <<total - Max2(0, Min2(cnt[t], Lim(t))), bl>>
     ELSE IF mode[t] = "named" THEN <<total - cnt[t], bl>>
     ELSE <<total - Min2(cnt[t], bl), Max2(0, bl - cnt[t])>>
Op == ApaFoldSeqLeft(StepOp, <<above + cnt[1] + cnt[2] + cnt[3], B>>, order)[1]

AllCovered == /\ above = 0
              /\ \A t \in T : mode[t] = "limit" => cnt[t] <= Lim(t)
              /\ Rest(1) + Rest(2) + Rest(3) <= B

Init == /\ cnt \in [T -> Nat]
        /\ mode \in [T -> {"limit", "named", "none"}]
        /\ lim \in [T -> Int]
        /\ blanket \in Int
        /\ above \in Nat
        /\ order \in {<<1, 2, 3>>, <<1, 3, 2>>, <<2, 1, 3>>, <<2, 3, 1>>, <<3, 1, 2>>, <<3, 2, 1>>}
Next == UNCHANGED <<cnt, mode, lim, blanket, above, order>>

OpIsDecl == Op = Decl
NeverNegative == Decl >= 0
ZeroIffCovered == (Decl = 0) <=> AllCovered
ErrorsNeverWaived == Decl >= above
Inv == OpIsDecl /\ NeverNegative /\ ZeroIffCovered /\ ErrorsNeverWaived
=============================================================================
