--------------------------- MODULE Trace_WarnCount ---------------------------
(* Batch validation of recorded evaluations of the real ignore_warnings_and_count.
   Batch[i] = [counts |-> record type->n, above |-> n, specs |-> seq of [t, n], order |-> seq of types,
               result |-> n]                                                         *)
EXTENDS WarnCountOps, TLC, Json, IOUtils

Batch == JsonDeserialize(IOEnv.TRACE_FILE)

VARIABLES tid, verdict
vars == <<tid, verdict>>

Init == tid \in 1..Len(Batch) /\ verdict = "pending"

Judge(e) ==
  LET d == LeftoverDecl(e.counts, e.above, e.specs)
      o == LeftoverOp(e.counts, e.above, e.specs, e.order)
  IN IF e.result # d THEN "result-differs-from-declarative"
     ELSE IF o # d THEN "operational-differs-from-declarative"
     ELSE IF d < e.above THEN "error-waived"
     ELSE "ok"

Eval == verdict = "pending" /\ verdict' = Judge(Batch[tid]) /\ UNCHANGED tid
Next == Eval
Spec == Init /\ [][Next]_vars
=============================================================================
