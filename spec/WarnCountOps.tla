---------------------------- MODULE WarnCountOps ----------------------------
(* Accounting of -maxwarn allowances (vermouth.log_helpers.ignore_warnings_and_count),
   once in the shape of the implementation (LeftoverOp: a loop over the types that
   occurred, in dictionary order, consuming a running blanket allowance) and once in
   the shape of the property statement (LeftoverDecl).
   counts : function  type -> number of WARNING records of that type
   above  : number of records with a level above WARNING (never deductible)
   specs  : sequence of entries [t |-> type | BLANKET, n |-> Int | NONE]           *)
EXTENDS Integers, Sequences, FiniteSets

NONE    == -1000      \* entry gives no count: waive the type by name
BLANKET == "*"        \* entry gives no type: blanket allowance

Max2(a, b) == IF a >= b THEN a ELSE b
Min2(a, b) == IF a <= b THEN a ELSE b

RECURSIVE SumOver(_, _)
SumOver(f, S) == IF S = {} THEN 0
                 ELSE LET x == CHOOSE y \in S : TRUE IN f[x] + SumOver(f, S \ {x})

RECURSIVE MaxOf(_)
MaxOf(S) == IF S = {} THEN 0
            ELSE LET x == CHOOSE y \in S : TRUE IN Max2(x, MaxOf(S \ {x}))

Entries(specs)     == {specs[i] : i \in DOMAIN specs}
HasLimit(t, specs) == \E e \in Entries(specs) : e.t = t /\ e.n # NONE
Named(t, specs)    == \E e \in Entries(specs) : e.t = t /\ e.n = NONE
\* only the largest numeric limit of a type counts; negative limits act as 0
Limit(t, specs)    == MaxOf({0} \cup {e.n : e \in {x \in Entries(specs) : x.t = t /\ x.n # NONE}})

\* the statement leaves "waived by name AND given a number" unspecified
WellSpecified(specs) == \A e \in Entries(specs) : ~(HasLimit(e.t, specs) /\ Named(e.t, specs))

Total(counts) == SumOver(counts, DOMAIN counts)

-----------------------------------------------------------------------------
(* declarative: the sentence of the property *)
LeftoverDecl(counts, above, specs) ==
  LET T        == DOMAIN counts
      excess   == [t \in T |-> IF HasLimit(t, specs) THEN Max2(0, counts[t] - Limit(t, specs)) ELSE 0]
      rest     == [t \in T |-> IF ~HasLimit(t, specs) /\ ~Named(t, specs) THEN counts[t] ELSE 0]
  IN above + SumOver(excess, T) + Max2(0, SumOver(rest, T) - Limit(BLANKET, specs))

(* operational: the loop of the implementation over `order`, the iteration order of the
   dictionary of types seen at WARNING level *)
RECURSIVE OpLoop(_, _, _, _, _)
OpLoop(counts, specs, order, total, blanket) ==
  IF order = <<>> THEN total
  ELSE LET t == Head(order)
           c == counts[t]
       IN IF HasLimit(t, specs)
          THEN OpLoop(counts, specs, Tail(order), total - Max2(0, Min2(c, Limit(t, specs))), blanket)
          ELSE IF Named(t, specs)
          THEN OpLoop(counts, specs, Tail(order), total - c, blanket)
          ELSE OpLoop(counts, specs, Tail(order), total - Min2(c, blanket), Max2(0, blanket - c))

LeftoverOp(counts, above, specs, order) ==
  OpLoop(counts, specs, order, above + Total(counts), Limit(BLANKET, specs))

AllCovered(counts, above, specs) ==
  /\ above = 0
  /\ \A t \in DOMAIN counts : HasLimit(t, specs) => counts[t] <= Limit(t, specs)
  /\ SumOver([t \in DOMAIN counts |-> IF ~HasLimit(t, specs) /\ ~Named(t, specs) THEN counts[t] ELSE 0],
             DOMAIN counts) <= Limit(BLANKET, specs)
=============================================================================
