----------------------------- MODULE SubIsoCert -----------------------------
(* Certificate-checking judges for C06 on patterns too large / too symmetric for the declarative enumeration of SubIso
   (real force-field blocks: up to 25 atoms, |Aut| up to several hundred).

   Besides the matcher's answer Y the harness passes
      E   a list of mappings claimed to be ALL induced isomorphisms pattern -> graph   (computed by networkx VF2)
      A   a list of mappings claimed to be ALL automorphisms of the pattern            (computed by networkx VF2)
      C   (largest common subgraph) a list of partial mappings claimed to be ALL common induced subgraphs of size m
   TLC VERIFIES  - every element of Y, E, C is an induced (partial) isomorphism respecting node and edge colours,
                 - every element of A is an automorphism of the pattern, A contains the identity and (chk) is closed
                   under composition,
                 - Y is a sub-list of E / C (otherwise the certificate is incomplete: a machinery failure),
                 - the classes Y[i] o A lie inside E (closure of the list under the pattern's symmetries),
                 - the counting argument: Aut acts freely on embeddings, so the classes of pairwise inequivalent
                   representatives are disjoint sets of |A| elements each; they exhaust E iff their union has |E| elements,
                 - the maximum size m = min(|V(G)|, |V(H)|) is reached by a verified common subgraph (so m IS the maximum:
                   nothing trusted there).
   TRUSTED       completeness of E, A and C (an isomorphism / symmetry the independent method does not list and the
                 matcher does not find either stays unseen; an incomplete A makes classes too small: false alarm, not a miss).
   Small cases are judged by BOTH this module and the enumeration of SubIso, and the two verdicts must agree.  *)
EXTENDS SubIso

ColTab(G) == [n \in NodeSet(G) |-> Colour(G, n)]
NbrTab(G) == [n \in NodeSet(G) |->
                 {G.edges[i][2] : i \in {j \in DOMAIN G.edges : G.edges[j][1] = n}} \cup
                 {G.edges[i][1] : i \in {j \in DOMAIN G.edges : G.edges[j][2] = n}}]

\* f : a function from a subset of V(H) into V(G); cg, ch colour tables; ng, nh neighbour tables
PartialIso(G, H, cg, ch, ng, nh, f) ==
  /\ DOMAIN f \subseteq NodeSet(H)
  /\ RangeOf(f) \subseteq NodeSet(G)
  /\ \A x, y \in DOMAIN f : x # y => f[x] # f[y]
  /\ \A x \in DOMAIN f : ch[x] = cg[f[x]]
  /\ \A x, y \in DOMAIN f : x # y =>
        /\ (y \in nh[x]) = (f[y] \in ng[f[x]])
        /\ (y \in nh[x]) => EColour(H, x, y) = EColour(G, f[x], f[y])

Maps(L) == [i \in DOMAIN L |-> AsMap(L[i])]
SeqRange(s) == {s[i] : i \in DOMAIN s}
Min2(a, b) == IF a <= b THEN a ELSE b

JudgeIsoCert(G, H, sym, Y, E, A, chk) ==
  LET cg == ColTab(G)   ch == ColTab(H)   ng == NbrTab(G)   nh == NbrTab(H)
      VH == NodeSet(H)
      Iso(f) == DOMAIN f = VH /\ PartialIso(G, H, cg, ch, ng, nh, f)
      AutOk(a) == DOMAIN a = VH /\ PartialIso(H, H, ch, ch, nh, nh, a)
      M  == Maps(Y)   EM == Maps(E)   AM == Maps(A)
      ES == SeqRange(EM)   AS == SeqRange(AM)
      Cl(i) == {Compose(M[i], a) : a \in AS}
  IN IF \E i \in DOMAIN Y : ~WellFormed(Y[i]) THEN "mapping-not-injective"
     ELSE IF \E i \in DOMAIN Y : ~Iso(M[i]) THEN "not-an-induced-isomorphism"
     ELSE IF \E i, j \in DOMAIN Y : i # j /\ M[i] = M[j] THEN "isomorphism-yielded-twice"
     ELSE IF \E i \in DOMAIN E : ~WellFormed(E[i]) \/ ~Iso(EM[i]) THEN "certificate: a listed mapping is not an induced isomorphism"
     ELSE IF \E i \in DOMAIN A : ~WellFormed(A[i]) \/ ~AutOk(AM[i]) THEN "certificate: a listed symmetry is not an automorphism of the pattern"
     ELSE IF [x \in VH |-> x] \notin AS THEN "certificate: the identity is not among the listed symmetries"
     ELSE IF chk /\ \E a, b \in AS : Compose(a, b) \notin AS THEN "certificate: the listed symmetries are not closed under composition"
     ELSE IF \E i \in DOMAIN Y : M[i] \notin ES THEN "certificate: incomplete, the matcher yielded a genuine isomorphism that is not listed"
     ELSE IF ~sym THEN (IF Len(Y) = Cardinality(ES) THEN "ok" ELSE "isomorphism-missing")
     ELSE IF \E i, j \in DOMAIN Y : i # j /\ M[j] \in Cl(i) THEN "two-representatives-of-one-class"
     ELSE IF \E i \in DOMAIN Y : ~(Cl(i) \subseteq ES) THEN "certificate: the list is not closed under the symmetries of the pattern"
     ELSE IF Cardinality(UNION {Cl(i) : i \in DOMAIN Y}) # Cardinality(ES) THEN "class-without-representative"
     ELSE "ok"

\* largest common subgraph when the maximum possible size min(|V(G)|, |V(H)|) is reached; C lists all common induced
\* subgraphs of that size
JudgeLcsCert(G, H, sym, Y, C, A, chk) ==
  LET cg == ColTab(G)   ch == ColTab(H)   ng == NbrTab(G)   nh == NbrTab(H)
      VH == NodeSet(H)
      m  == Min2(Cardinality(VH), Cardinality(NodeSet(G)))
      Com(f) == Cardinality(DOMAIN f) = m /\ PartialIso(G, H, cg, ch, ng, nh, f)
      AutOk(a) == DOMAIN a = VH /\ PartialIso(H, H, ch, ch, nh, nh, a)
      M  == Maps(Y)   CM == Maps(C)   AM == Maps(A)
      CS == SeqRange(CM)   AS == SeqRange(AM)
      Cl(i) == {Compose(M[i], a) : a \in AS}
  IN IF C = <<>> THEN "certificate: no common subgraph of the size min(|G|, |H|) is given, the maximum is not established"
     ELSE IF \E i \in DOMAIN C : ~WellFormed(C[i]) \/ ~Com(CM[i]) THEN "certificate: a listed mapping is not a common induced subgraph of the maximum size"
     ELSE IF \E i \in DOMAIN A : ~WellFormed(A[i]) \/ ~AutOk(AM[i]) THEN "certificate: a listed symmetry is not an automorphism of the pattern"
     ELSE IF [x \in VH |-> x] \notin AS THEN "certificate: the identity is not among the listed symmetries"
     ELSE IF chk /\ \E a, b \in AS : Compose(a, b) \notin AS THEN "certificate: the listed symmetries are not closed under composition"
     ELSE IF \E i \in DOMAIN Y : ~WellFormed(Y[i]) THEN "mapping-not-injective"
     ELSE IF \E i \in DOMAIN Y : Cardinality(DOMAIN M[i]) # m THEN "not-of-maximum-size"
     ELSE IF \E i \in DOMAIN Y : ~Com(M[i]) THEN "not-a-common-induced-subgraph"
     ELSE IF \E i \in DOMAIN Y : M[i] \notin CS THEN "certificate: incomplete, the matcher yielded a genuine maximum common subgraph that is not listed"
     ELSE IF ~(CS \subseteq UNION {Cl(i) : i \in DOMAIN Y}) THEN "maximum-common-subgraph-not-covered"
     ELSE "ok"

\* the first result only (what repair_graph.make_reference consumes): one genuine maximum common subgraph
JudgeFirstCert(G, H, Y, C) ==
  LET cg == ColTab(G)   ch == ColTab(H)   ng == NbrTab(G)   nh == NbrTab(H)
      m  == Min2(Cardinality(NodeSet(H)), Cardinality(NodeSet(G)))
      Com(f) == Cardinality(DOMAIN f) = m /\ PartialIso(G, H, cg, ch, ng, nh, f)
      CM == Maps(C)
  IN IF C = <<>> \/ \E i \in DOMAIN C : ~WellFormed(C[i]) \/ ~Com(CM[i]) THEN "certificate: the maximum size min(|G|, |H|) is not established"
     ELSE IF Len(Y) # 1 THEN "no-first-result"
     ELSE IF ~WellFormed(Y[1]) THEN "mapping-not-injective"
     ELSE IF Cardinality(DOMAIN AsMap(Y[1])) # m THEN "not-of-maximum-size"
     ELSE IF ~Com(AsMap(Y[1])) THEN "not-a-common-induced-subgraph"
     ELSE "ok"
=============================================================================
