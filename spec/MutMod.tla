------------------------------- MODULE MutMod -------------------------------
(* Mutation / modification requests (vermouth.processors.annotate_mut_mod).
   Part 1  residue specifications "[<chain>-][<resname>][[#]<resid>]" over character sequences:
           ParseOp (the implementation's splitting) and Format (the inverse); law Parse(Format(t)) = t.
   Part 2  which residues a request marks, which requests are reported as unmatched, when the run is an error.  Requests are
           given as the TEXT of their specification; TLC parses it with ParseOp (Part 1), so that no second parser exists.
   Part 3  the command line of bin/martinize2: which request list the options amount to; the written topology.
   system   == Seq(molecule);  molecule == [res : Seq([chain, resname, resid, icode, protein : BOOLEAN]), edges : Seq(<<i, j>>)]
               chain and resname are sequences of one-character strings (as the specification is)
   request  == [chain, resname, resid, digits, bad, target, kind : "modification" | "mutation"]  (ReqS; NOCHAIN / <<>> / -1 = part not given) *)
EXTENDS Integers, Sequences, FiniteSets, TLC

Digits == {"0", "1", "2", "3", "4", "5", "6", "7", "8", "9"}
IsDigit(c) == c \in Digits
DigitVal(c) == CHOOSE n \in 0..9 : ToString(n) = c
RECURSIVE ToInt(_)
ToInt(s) == IF s = <<>> THEN 0 ELSE 10 * ToInt(SubSeq(s, 1, Len(s) - 1)) + DigitVal(s[Len(s)])
NOCHAIN == <<"?nochain">>          \* distinct from every chain made of specification characters

(* ---- Part 1 ---- *)
FirstIdx(s, c) == LET S == {i \in DOMAIN s : s[i] = c} IN IF S = {} THEN 0 ELSE CHOOSE i \in S : \A j \in S : i <= j
LastIdx(s, c)  == LET S == {i \in DOMAIN s : s[i] = c} IN IF S = {} THEN 0 ELSE CHOOSE i \in S : \A j \in S : j <= i
\* number of trailing digit characters
TrailingDigits(s) == LET S == {k \in 0..Len(s) : \A i \in (Len(s) - k + 1)..Len(s) : IsDigit(s[i])} IN CHOOSE k \in S : \A j \in S : j <= k

\* -> [chain : seq | NOCHAIN, resname : seq, resid : seq of digit chars (<<>> = none), bad : BOOLEAN]  (bad: int() would fail)
ParseOp(s) ==
  LET d == FirstIdx(s, "-")
      chain == IF d = 0 THEN NOCHAIN ELSE SubSeq(s, 1, d - 1)
      res == IF d = 0 THEN s ELSE SubSeq(s, d + 1, Len(s))
      h == LastIdx(res, "#")
  IN IF h # 0
     THEN [chain |-> chain, resname |-> SubSeq(res, 1, h - 1), resid |-> SubSeq(res, h + 1, Len(res)),
           bad |-> \E i \in (h + 1)..Len(res) : ~IsDigit(res[i])]
     ELSE LET k == TrailingDigits(res) IN
          [chain |-> chain, resname |-> SubSeq(res, 1, Len(res) - k), resid |-> SubSeq(res, Len(res) - k + 1, Len(res)), bad |-> FALSE]

\* the documented way to write a specification for (chain, resname, resid)
Format(chain, resname, resid) ==
  (IF chain = NOCHAIN THEN <<>> ELSE chain \o <<"-">>) \o resname
  \o (IF resname # <<>> /\ IsDigit(resname[Len(resname)]) THEN <<"#">> ELSE <<>>) \o resid     \* "#" is required after a name ending in a digit

(* ---- Part 2 ---- *)
Degree(m, i) == Cardinality({j \in DOMAIN m.res : \E e \in DOMAIN m.edges : (m.edges[e][1] = i /\ m.edges[e][2] = j) \/ (m.edges[e][1] = j /\ m.edges[e][2] = i)})
Neighbour(m, i) == CHOOSE j \in DOMAIN m.res : \E e \in DOMAIN m.edges : (m.edges[e][1] = i /\ m.edges[e][2] = j) \/ (m.edges[e][1] = j /\ m.edges[e][2] = i)

IsTerminus(m, i, which) ==
  /\ Degree(m, i) = 1 /\ m.res[i].protein
  /\ IF which = "nter" THEN m.res[i].resid < m.res[Neighbour(m, i)].resid ELSE m.res[i].resid > m.res[Neighbour(m, i)].resid

Nter == <<"n", "t", "e", "r">>
Cter == <<"c", "t", "e", "r">>
NoneT == <<"n", "o", "n", "e">>
\* pair = <<specification, target>>, both character sequences
ReqS(pair, kind) == LET p == ParseOp(pair[1]) IN
  [chain |-> p.chain, resname |-> p.resname, resid |-> IF p.resid = <<>> THEN -1 ELSE ToInt(p.resid), digits |-> p.resid, bad |-> p.bad,
   target |-> pair[2], kind |-> kind]

\* every GIVEN part must agree (a part is given iff the parser produced it: an empty chain before "-" is a given, empty chain);
\* nter / cter stand for the terminal rule and then replace name and number; the insertion code is never part of a request
MatchesS(rq, m, i) ==
  LET r == m.res[i] IN
  IF rq.resname \in {Nter, Cter} /\ Degree(m, i) = 1
  THEN IsTerminus(m, i, IF rq.resname = Nter THEN "nter" ELSE "cter") /\ (rq.chain = NOCHAIN \/ rq.chain = r.chain)
  ELSE /\ (rq.chain = NOCHAIN \/ rq.chain = r.chain)
       /\ (rq.resname = <<>> \/ rq.resname = r.resname)
       /\ (rq.resid = -1 \/ rq.resid = r.resid)
MatchesAnywhereS(rq, system) == \E k \in DOMAIN system : \E i \in DOMAIN system[k].res : MatchesS(rq, system[k], i)
UnmatchedS(system, reqs) == {q \in DOMAIN reqs : ~MatchesAnywhereS(reqs[q], system)}
\* marks of residue i of molecule k for one kind, in request order
MarksS(system, reqs, k, i, kind) ==
  LET idx == SelectSeq([q \in DOMAIN reqs |-> q], LAMBDA q : reqs[q].kind = kind /\ MatchesS(reqs[q], system[k], i))
  IN [j \in DOMAIN idx |-> reqs[idx[j]].target]
\* how an unmatched request is named in its report: the specification as documented, the kind, the target
\* (a given but empty chain is not written in the report; how a report words the request is not part of the statement)
ReportOf(rq) == <<Format(IF rq.chain = <<>> THEN NOCHAIN ELSE rq.chain, rq.resname, rq.digits), rq.kind, rq.target>>
CountIn(seq, x) == Cardinality({i \in DOMAIN seq : seq[i] = x})
\* K(q): the target of request q is a block / modification of the force field
UnknownTargetError(system, reqs, K(_)) == \E q \in DOMAIN reqs : reqs[q].target # NoneT /\ ~K(q) /\ MatchesAnywhereS(reqs[q], system)

(* the judgement shared by library-level and command-line runs.  reported : Seq(<<specification as logged, kind, target>>);
   marksMod / marksMut : per molecule, per residue, Seq(target) (<< <<"!">> >> when the atoms of a residue disagree); err : the run raised NameError *)
JudgeMarks(system, reqs, K(_), err, reported, marksMod, marksMut) ==
  LET um == UnmatchedS(system, reqs)
      umSeq == SelectSeq([q \in DOMAIN reqs |-> q], LAMBDA q : q \in um)
      exp == [j \in DOMAIN umSeq |-> ReportOf(reqs[umSeq[j]])]
  IN IF \E q \in DOMAIN reqs : reqs[q].bad THEN "unjudged:specification-outside-the-grammar"
     ELSE IF UnknownTargetError(system, reqs, K) THEN (IF err THEN "ok" ELSE "unknown-target-not-an-error")
     ELSE IF err THEN "run-failed-without-unknown-target"
     ELSE IF \E j \in DOMAIN exp : CountIn(reported, exp[j]) < CountIn(exp, exp[j]) THEN "unmatched-request-not-reported"
     ELSE IF \E i \in DOMAIN reported : CountIn(exp, reported[i]) = 0 THEN "matched-request-reported-as-unmatched"
     ELSE IF \E i \in DOMAIN reported : CountIn(reported, reported[i]) > CountIn(exp, reported[i]) THEN "request-reported-twice"
     ELSE IF \E k \in DOMAIN system : \E i \in DOMAIN system[k].res :
                marksMod[k][i] # MarksS(system, reqs, k, i, "modification") \/ marksMut[k][i] # MarksS(system, reqs, k, i, "mutation")
          THEN "residue-marks-differ"
     ELSE "ok"
\* what a run exercised (vacuity rule of the driver), a string of letters:
\*   m some residue marked, u some request unmatched, e unknown-target error, i one request marks two residues that differ only by
\*   insertion code, s one request marks residues of the same number in two chains, t a terminus marked, x a chain-qualified request
\*   marks a residue and leaves the same-numbered, same-named residue of another chain alone, d one residue marked twice for one kind
NoteMarks(system, reqs, K(_)) ==
  LET all == UNION {{<<k, i>> : i \in DOMAIN system[k].res} : k \in DOMAIN system}
      hit(q) == {x \in all : MatchesS(reqs[q], system[x[1]], x[2])}
      R(x) == system[x[1]].res[x[2]]
  IN IF \E q \in DOMAIN reqs : reqs[q].bad THEN "-"
     ELSE (IF \E q \in DOMAIN reqs : hit(q) # {} THEN "m" ELSE "")
       \o (IF UnmatchedS(system, reqs) # {} THEN "u" ELSE "")
       \o (IF UnknownTargetError(system, reqs, K) THEN "e" ELSE "")
       \o (IF \E q \in DOMAIN reqs : \E x, y \in hit(q) : x # y /\ R(x).chain = R(y).chain /\ R(x).resid = R(y).resid /\ R(x).icode # R(y).icode THEN "i" ELSE "")
       \o (IF \E q \in DOMAIN reqs : \E x, y \in hit(q) : x # y /\ R(x).chain # R(y).chain /\ R(x).resid = R(y).resid THEN "s" ELSE "")
       \o (IF \E q \in DOMAIN reqs : reqs[q].resname \in {Nter, Cter} /\ hit(q) # {} THEN "t" ELSE "")
       \o (IF \E q \in DOMAIN reqs : reqs[q].chain # NOCHAIN /\ \E x \in hit(q) : \E y \in all \ hit(q) :
                 R(y).resid = R(x).resid /\ R(y).resname = R(x).resname /\ R(y).chain # R(x).chain THEN "x" ELSE "")
       \o (IF \E x \in all : \E kind \in {"modification", "mutation"} : Len(MarksS(system, reqs, x[1], x[2], kind)) >= 2 THEN "d" ELSE "")

(* library-level run of AnnotateMutMod: e.reqs : Seq([spec, target, kind, known]) in the order the processor handles them *)
RunReqs(e) == [q \in DOMAIN e.reqs |-> ReqS(<<e.reqs[q].spec, e.reqs[q].target>>, e.reqs[q].kind)]
JudgeRunS(e) == LET K(q) == e.reqs[q].known IN JudgeMarks(e.system, RunReqs(e), K, e.err, e.reported, e.mods, e.muts)
NoteRunS(e) == LET K(q) == e.reqs[q].known IN NoteMarks(e.system, RunReqs(e), K)

(* ---- Part 3: the command line (bin/martinize2 -mutate / -modify / -nter / -cter / -nt) ----
   A request is <<specification, target>> as written on the command line ("-mutate A-PHE45:ALA" is <<"A-PHE45", "ALA">>;
   "-nter X" is <<"nter", X>>; "-cter X" is <<"cter", X>>).  Modifications: the user's requests in command-line order, then "-nt"
   appends cter:COOH-ter and nter:NH2-ter; without "-nt" the charged termini cter:C-ter / nter:N-ter are appended unless a user
   specification already mentions "cter" / "nter".  Mutations follow the modifications.                                  *)
ContainsSeq(s, sub) == \E i \in 0..(Len(s) - Len(sub)) : SubSeq(s, i + 1, i + Len(sub)) = sub
CliMods(user, nt) ==
  IF nt THEN user \o << <<Cter, <<"C","O","O","H","-","t","e","r">> >>, <<Nter, <<"N","H","2","-","t","e","r">> >> >>
  ELSE user \o (IF \E i \in DOMAIN user : ContainsSeq(user[i][1], Cter) THEN <<>> ELSE << <<Cter, <<"C","-","t","e","r">> >> >>)
            \o (IF \E i \in DOMAIN user : ContainsSeq(user[i][1], Nter) THEN <<>> ELSE << <<Nter, <<"N","-","t","e","r">> >> >>)
CliReqs(e) == LET m == CliMods(e.mods, e.nt) IN
  [q \in DOMAIN m |-> ReqS(m[q], "modification")] \o [q \in DOMAIN e.muts |-> ReqS(e.muts[q], "mutation")]
KnownTarget(e, rq) == LET lib == IF rq.kind = "mutation" THEN e.knownBlocks ELSE e.knownMods IN \E j \in DOMAIN lib : lib[j] = rq.target
\* two different mutations on one residue cannot both be carried out: the run must fail (in RepairGraph)
ConflictError(e, reqs) == \E k \in DOMAIN e.system : \E i \in DOMAIN e.system[k].res :
                             LET mu == MarksS(e.system, reqs, k, i, "mutation") IN \E a, b \in DOMAIN mu : mu[a] # mu[b]

(* e : [mods, muts : Seq(<<spec, target>>), nt, knownBlocks, knownMods : Seq(target), system (recorded right after AnnotateMutMod),
        marksMod, marksMut, reported as in JudgeMarks, outcome : "annotate-error" | "repair-error" | "done" | "other-error"]  *)
JudgeCli(e) ==
  LET reqs == CliReqs(e)
      K(q) == KnownTarget(e, reqs[q])
      v == JudgeMarks(e.system, reqs, K, e.outcome = "annotate-error", e.reported, e.marksMod, e.marksMut)
  IN IF v # "ok" \/ e.outcome = "annotate-error" THEN v
     ELSE IF ConflictError(e, reqs) THEN (IF e.outcome = "repair-error" THEN "ok" ELSE "conflicting-mutations-not-an-error")
     ELSE IF e.outcome = "repair-error" THEN "repair-failed-without-conflicting-mutations"
     ELSE IF e.outcome # "done" THEN "unjudged:run-failed-after-repair"
     ELSE "ok"
NoteCli(e) == LET reqs == CliReqs(e)
                  K(q) == KnownTarget(e, reqs[q])
              IN NoteMarks(e.system, reqs, K) \o (IF \A q \in DOMAIN reqs : ~reqs[q].bad THEN (IF ConflictError(e, reqs) THEN "c" ELSE "") ELSE "")

(* the written coarse-grained topology: molecule k of the kept molecules <-> the k-th written molecule type; residue by position.
   e.mols : Seq(Seq([resname, muts : Seq(target)]))  (strings), e.itps : Seq(Seq([resname, beads : Seq(name)])),
   e.cg : Seq([name, beads]) blocks of the target force field for the names that occur                                    *)
JudgeItp(e) ==
  LET has(nm) == \E j \in DOMAIN e.cg : e.cg[j].name = nm
      beads(nm) == LET b == e.cg[CHOOSE j \in DOMAIN e.cg : e.cg[j].name = nm].beads IN {b[j] : j \in DOMAIN b}
      want(r) == IF r.muts # <<>> THEN r.muts[1] ELSE r.resname
  IN IF Len(e.itps) # Len(e.mols) THEN "number-of-written-molecule-types-differs"
     ELSE IF \E k \in DOMAIN e.mols : Len(e.itps[k]) # Len(e.mols[k]) THEN "number-of-residues-in-the-topology-differs"
     ELSE IF \E k \in DOMAIN e.mols : \E i \in DOMAIN e.mols[k] : e.mols[k][i].muts # <<>> /\ e.itps[k][i].resname # want(e.mols[k][i])
          THEN "mutated-residue-has-the-wrong-name-in-the-topology"
     ELSE IF \E k \in DOMAIN e.mols : \E i \in DOMAIN e.mols[k] : e.mols[k][i].muts # <<>> /\ has(want(e.mols[k][i]))
                 /\ {e.itps[k][i].beads[j] : j \in DOMAIN e.itps[k][i].beads} # beads(want(e.mols[k][i]))
          THEN "mutated-residue-has-the-wrong-beads-in-the-topology"
     ELSE IF \E k \in DOMAIN e.mols : \E i \in DOMAIN e.mols[k] : e.mols[k][i].muts = <<>> /\ has(e.mols[k][i].resname)
                 /\ (e.itps[k][i].resname # e.mols[k][i].resname \/ {e.itps[k][i].beads[j] : j \in DOMAIN e.itps[k][i].beads} # beads(e.mols[k][i].resname))
          THEN "unrequested-residue-changed-in-the-topology"
     ELSE "ok"
=============================================================================
