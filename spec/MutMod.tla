------------------------------- MODULE MutMod -------------------------------
(* Mutation / modification requests (vermouth.processors.annotate_mut_mod).
   Part 1  residue specifications "[<chain>-][<resname>][[#]<resid>]" over character sequences:
           ParseOp (the implementation's splitting) and Format (the inverse); law Parse(Format(t)) = t.
   Part 2  which residues a request marks, which requests are reported as unmatched, when the run is an error.
   system   == Seq(molecule);  molecule == [res : Seq([chain, resname, resid, icode, protein : BOOLEAN]), edges : Seq(<<i, j>>)]
   request  == [chain, resname, resid, target, known : BOOLEAN, kind : "modification" | "mutation"]   ("" / -1 = part not given) *)
EXTENDS Integers, Sequences, FiniteSets, TLC

Digits == {"0", "1", "2", "3", "4", "5", "6", "7", "8", "9"}
IsDigit(c) == c \in Digits
DigitVal(c) == CHOOSE n \in 0..9 : ToString(n) = c
RECURSIVE ToInt(_)
ToInt(s) == IF s = <<>> THEN 0 ELSE 10 * ToInt(SubSeq(s, 1, Len(s) - 1)) + DigitVal(s[Len(s)])
NOCHAIN == <<"?nochain">>          \* distinct from every chain made of specification characters

(* ---- Part 1 ---- *)
FirstIdx(s, c) == LET S == {i \in DOMAIN s : s[i] = c} IN IF S = {} THEN 0 ELSE CHOOSE i \in S : \A j \in S : i <= j
LastIdx(s, c)  == LET S == {i \in DOMAIN s : s[i] = c} IN IF S = {} THEN 0 ELSE CHOOSE i \in S : \A j \in S : j <= i
\* number of trailing digit characters
TrailingDigits(s) == LET S == {k \in 0..Len(s) : \A i \in (Len(s) - k + 1)..Len(s) : IsDigit(s[i])} IN CHOOSE k \in S : \A j \in S : j <= k

\* -> [chain : seq | NOCHAIN, resname : seq, resid : seq of digit chars (<<>> = none), bad : BOOLEAN]  (bad: int() would fail)
ParseOp(s) ==
  LET d == FirstIdx(s, "-")
      chain == IF d = 0 THEN NOCHAIN ELSE SubSeq(s, 1, d - 1)
      res == IF d = 0 THEN s ELSE SubSeq(s, d + 1, Len(s))
      h == LastIdx(res, "#")
  IN IF h # 0
     THEN [chain |-> chain, resname |-> SubSeq(res, 1, h - 1), resid |-> SubSeq(res, h + 1, Len(res)),
           bad |-> \E i \in (h + 1)..Len(res) : ~IsDigit(res[i])]
     ELSE LET k == TrailingDigits(res) IN
          [chain |-> chain, resname |-> SubSeq(res, 1, Len(res) - k), resid |-> SubSeq(res, Len(res) - k + 1, Len(res)), bad |-> FALSE]

\* the documented way to write a specification for (chain, resname, resid)
Format(chain, resname, resid) ==
  (IF chain = NOCHAIN THEN <<>> ELSE chain \o <<"-">>) \o resname
  \o (IF resname # <<>> /\ IsDigit(resname[Len(resname)]) THEN <<"#">> ELSE <<>>) \o resid     \* "#" is required after a name ending in a digit

(* ---- Part 2 ---- *)
Degree(m, i) == Cardinality({j \in DOMAIN m.res : \E e \in DOMAIN m.edges : (m.edges[e][1] = i /\ m.edges[e][2] = j) \/ (m.edges[e][1] = j /\ m.edges[e][2] = i)})
Neighbour(m, i) == CHOOSE j \in DOMAIN m.res : \E e \in DOMAIN m.edges : (m.edges[e][1] = i /\ m.edges[e][2] = j) \/ (m.edges[e][1] = j /\ m.edges[e][2] = i)

IsTerminus(m, i, which) ==
  /\ Degree(m, i) = 1 /\ m.res[i].protein
  /\ IF which = "nter" THEN m.res[i].resid < m.res[Neighbour(m, i)].resid ELSE m.res[i].resid > m.res[Neighbour(m, i)].resid

\* every GIVEN part must agree; nter/cter stand for the terminal rule and then replace name and number
Matches(rq, m, i) ==
  LET r == m.res[i] IN
  IF rq.resname \in {"nter", "cter"} /\ Degree(m, i) = 1
  THEN IsTerminus(m, i, rq.resname) /\ (rq.chain = "" \/ rq.chain = r.chain)
  ELSE /\ (rq.chain = "" \/ rq.chain = r.chain)
       /\ (rq.resname = "" \/ rq.resname = r.resname)
       /\ (rq.resid = -1 \/ rq.resid = r.resid)

MatchesAnywhere(rq, system) == \E k \in DOMAIN system : \E i \in DOMAIN system[k].res : Matches(rq, system[k], i)
IsError(system, reqs) == \E q \in DOMAIN reqs : ~reqs[q].known /\ reqs[q].target # "none" /\ MatchesAnywhere(reqs[q], system)
Unmatched(system, reqs) == {q \in DOMAIN reqs : ~MatchesAnywhere(reqs[q], system)}
\* marks of residue i of molecule k for one kind, in request order
Marks(system, reqs, k, i, kind) ==
  LET idx == SelectSeq([q \in DOMAIN reqs |-> q], LAMBDA q : reqs[q].kind = kind /\ Matches(reqs[q], system[k], i))
  IN [j \in DOMAIN idx |-> reqs[idx[j]].target]
=============================================================================
