------------------------------ MODULE ItpAgree ------------------------------
(* C02, second consumer of the format: the repository's own reader vermouth.gmx.itp_read.read_itp.

   For one text written by write_molecule_itp there are two readings:
     * the independent reader (harness/indep_readers.py): records `recs` (see ItpText), the [ moleculetype ] line `head`,
       and `num`, the numeric value of the numeric [ atoms ] columns (exact decimal arithmetic in the harness, charge
       and mass as integers in units of 10^-6);
     * read_itp into a fresh ForceField: the Block it stores, projected by the harness field by field without
       interpretation:   rd = [err, name, nrexcl, atoms : Seq([key, nr, atype, resid, resname, name, cg, q, m]),
                               inters : Seq([sec, a : Seq(node key), p : Seq(token), cond, tag])]
       (nr = the 'index' attribute, q / m = [has, v] with v = round(value * 10^6); inters section by section in the
       order of the Block's interaction dictionary).

   Both are brought to ONE abstract description of .itp content (the one spec/ItpFile.tla uses for C13: name, nrexcl,
   atoms, per interaction: section, atom numbers, parameter tokens, #ifdef / #ifndef condition):
     D = [name, nrexcl, atoms : Seq([nr, atype, resid, resname, name, cg, q, m]),
          inters : Seq([sec, a : Seq(nr), p, cond, tag])]
   and Agree(DescOfRecs(..), DescOfBlock(rd)) says that they state the same thing: same molecule type line, same atoms
   in the same order with every attribute the format carries, and per section the same interactions in the same
   order (same atoms, parameters, condition).  What a comment carries (meta 'group' / 'comment') is not part of D:
   the format gives it to no reader.

   What read_itp says it does not support is excluded by NAMED operators (Exclusion):
     UsesUnknownSection   `_interactions` enumerates the sections it accepts "to guard against typos and also
                          interactions for which the format is unknown": cmap, polarization, ... are refused
     NestedOrElseGuard    parse_pragma refuses a guard inside a guard; #else is never written
     NonNumericAtomColumn resid / charge_group / charge / mass are converted with int() / float()
   (#include is refused too; the writer never emits one.)                                                           *)
EXTENDS ItpText

ReaderSections == {"bonds", "angles", "dihedrals", "constraints", "pairs", "pairs_nb", "exclusions", "position_restraints",
                   "virtual_sites1", "virtual_sites2", "virtual_sites3", "virtual_sites4", "virtual_sitesn", "settles",
                   "distance_restraints", "dihedral_restraints", "orientation_restraints", "angle_restraints",
                   "angle_restraints_z"}
NoNum == [has |-> FALSE, v |-> 0]

GuardOf(g) == IF g = <<>> THEN [cond |-> "none", tag |-> ""] ELSE [cond |-> g[Len(g)].kind, tag |-> g[Len(g)].name]

\* the independent reading as a description
DescOfRecs(head, recs, num) ==
  LET st == ReadAll(recs)
  IN [name   |-> head.moltype,
      nrexcl |-> head.nrexcl_n,
      atoms  |-> [i \in DOMAIN st.atoms |->
                    [nr |-> st.nrs[i], atype |-> st.atoms[i][1], resid |-> num[i].resid, resname |-> st.atoms[i][3],
                     name |-> st.atoms[i][4], cg |-> num[i].cg, q |-> num[i].q, m |-> num[i].m]],
      inters |-> [i \in DOMAIN st.inters |->
                    [sec |-> st.inters[i].sec, a |-> st.inters[i].a, p |-> st.inters[i].p,
                     cond |-> GuardOf(st.inters[i].g).cond, tag |-> GuardOf(st.inters[i].g).tag]]]

\* the Block as a description: an interaction names node KEYS; the atom it means is the node with that key
DescOfBlock(rd) ==
  LET keys == {rd.atoms[i].key : i \in DOMAIN rd.atoms}
      nrOf == [k \in keys |-> rd.atoms[CHOOSE i \in DOMAIN rd.atoms : rd.atoms[i].key = k].nr]
  IN [name   |-> rd.name,
      nrexcl |-> rd.nrexcl,
      atoms  |-> [i \in DOMAIN rd.atoms |->
                    [nr |-> rd.atoms[i].nr, atype |-> rd.atoms[i].atype, resid |-> rd.atoms[i].resid,
                     resname |-> rd.atoms[i].resname, name |-> rd.atoms[i].name, cg |-> rd.atoms[i].cg,
                     q |-> rd.atoms[i].q, m |-> rd.atoms[i].m]],
      inters |-> [i \in DOMAIN rd.inters |->
                    [sec |-> rd.inters[i].sec,
                     a |-> [j \in DOMAIN rd.inters[i].a |-> IF rd.inters[i].a[j] \in keys THEN nrOf[rd.inters[i].a[j]] ELSE 0],
                     p |-> rd.inters[i].p, cond |-> rd.inters[i].cond, tag |-> rd.inters[i].tag]]]

SecsOf(d) == {d.inters[i].sec : i \in DOMAIN d.inters}
OfSec(d, s) == SelectSeq(d.inters, LAMBDA x : x.sec = s)

Agree(dI, dR) ==
  LET NoC(x) == [sec |-> x.sec, a |-> x.a, p |-> x.p]
      NoA(x) == [sec |-> x.sec, n |-> Len(x.a), p |-> x.p, cond |-> x.cond, tag |-> x.tag]
      Map(s, F(_)) == [i \in DOMAIN s |-> F(s[i])]
      secs == SecsOf(dI) \cup SecsOf(dR)
  IN IF dI.name # dR.name \/ dI.nrexcl # dR.nrexcl THEN "reader:moleculetype-line-differs"
     ELSE IF Len(dI.atoms) # Len(dR.atoms) THEN "reader:atom-count-differs"
     ELSE IF \E i \in DOMAIN dI.atoms : dI.atoms[i].nr # dR.atoms[i].nr THEN "reader:atom-order-or-numbering-differs"
     ELSE IF dI.atoms # dR.atoms THEN "reader:atom-fields-differ"
     ELSE IF Len(dI.inters) # Len(dR.inters) THEN "reader:interaction-count-differs"
     ELSE IF \A s \in secs : OfSec(dI, s) = OfSec(dR, s) THEN "ok"
     ELSE IF \E s \in secs : Len(OfSec(dI, s)) # Len(OfSec(dR, s)) THEN "reader:interaction-in-another-section"
     ELSE IF \A s \in secs : Map(OfSec(dI, s), NoC) = Map(OfSec(dR, s), NoC) THEN "reader:condition-differs"
     ELSE IF \A s \in secs : Map(OfSec(dI, s), NoA) = Map(OfSec(dR, s), NoA) THEN "reader:interaction-on-different-atoms"
     ELSE IF \A s \in secs : BagOf(OfSec(dI, s)) = BagOf(OfSec(dR, s)) THEN "reader:interaction-order-differs"
     ELSE "reader:atoms-and-parameters-split-differently"

-----------------------------------------------------------------------------
(* exactly what read_itp declares unsupported *)
UsesUnknownSection(dI)     == \E i \in DOMAIN dI.inters : dI.inters[i].sec \notin ReaderSections
NestedOrElseGuard(recs)    == \/ \E i \in DOMAIN recs : recs[i].k = "else"
                              \/ \E i \in DOMAIN ReadAll(recs).inters : Len(ReadAll(recs).inters[i].g) > 1
NonNumericAtomColumn(num)  == \E i \in DOMAIN num : ~num[i].ok
Exclusion(dI, recs, num) ==
  IF NonNumericAtomColumn(num) THEN "excluded:non-numeric-atom-column"
  ELSE IF UsesUnknownSection(dI) THEN "excluded:section-unknown-to-read_itp"
  ELSE IF NestedOrElseGuard(recs) THEN "excluded:nested-guard-or-else"
  ELSE ""

(* total verdict on (independent reading, Block of the real reader) for one written text *)
AgreeVerdict(head, recs, num, rd) ==
  IF ReadMol(recs).bad \/ Len(num) # Len(ReadAll(recs).atoms) THEN "not-judged:text-unreadable"
  ELSE LET dI == DescOfRecs(head, recs, num)
           ex == Exclusion(dI, recs, num)
       IN IF ex # "" THEN ex
          ELSE IF rd.err # "" THEN "reader:rejects-the-written-text"
          ELSE Agree(dI, DescOfBlock(rd))

-----------------------------------------------------------------------------
(* OPERATIONAL model of what read_itp stores for a text that states D (shaped like ITPDirector: node key = index - 1,
   the 'index' attribute keeps the number, interactions appended to the list of their section, sections in order of
   first use).  Used by the TAB model of ItpWrite: the projected real Block must EQUAL BlockOf(description of Write(m)). *)
SecSeq(inters) == FoldLeft(LAMBDA acc, x : IF x.sec \in Range(acc) THEN acc ELSE Append(acc, x.sec), <<>>, inters)
RECURSIVE ConcatAll(_)
ConcatAll(ss) == IF ss = <<>> THEN <<>> ELSE Head(ss) \o ConcatAll(Tail(ss))
BlockOf(d) ==
  LET secs == SecSeq(d.inters)
  IN [err    |-> "",
      name   |-> d.name,
      nrexcl |-> d.nrexcl,
      atoms  |-> [i \in DOMAIN d.atoms |->
                    [key |-> d.atoms[i].nr - 1, nr |-> d.atoms[i].nr, atype |-> d.atoms[i].atype, resid |-> d.atoms[i].resid,
                     resname |-> d.atoms[i].resname, name |-> d.atoms[i].name, cg |-> d.atoms[i].cg,
                     q |-> d.atoms[i].q, m |-> d.atoms[i].m]],
      inters |-> ConcatAll([k \in DOMAIN secs |->
                    LET own == OfSec(d, secs[k])
                    IN [j \in DOMAIN own |-> [sec |-> own[j].sec, a |-> [x \in DOMAIN own[j].a |-> own[j].a[x] - 1],
                                              p |-> own[j].p, cond |-> own[j].cond, tag |-> own[j].tag]]])]
=============================================================================
