------------------------------- MODULE Posres -------------------------------
(* Position restraints (vermouth/processors/apply_posres.py, option -p / -pf of bin/martinize2) - behaviour OUTSIDE the 19
   listed properties, modelled because Martinize.tla only says WHEN the stage runs.

   The processor walks over the particles of one molecule in node order; a selected particle gets ONE interaction
   'position_restraints' on itself with the parameters <<functype, POSRES_FC, POSRES_FC, POSRES_FC>> under the guard
   #ifdef POSRES; after the walk the molecule's meta carries the macro POSRES_FC = force constant (also when nothing
   was selected).  With -p none the stage does not run.

   State machine (one step per particle, as the loop) + the declarative description, compared by invariants; the judge
   JudgeItp is applied by TLC to the molecule-type files real command lines wrote (harness/extra_posres.py).            *)
EXTENDS Naturals, Sequences, FiniteSets, TLC

CONSTANTS MaxAtoms,          \* particles per molecule in the bounded model
          Names              \* particle names of the bounded model; "BB" is the backbone name

Modes == {"none", "all", "backbone"}

VARIABLES atoms,             \* Seq(Names): the particle names in node order
          mode,
          pc,                \* next particle to visit; Len(atoms) + 1 = the walk is over; Len(atoms) + 2 = meta written
          restraints,        \* Seq(particle index): the interactions added so far, in order
          define             \* BOOLEAN: the macro is in the molecule's meta
vars == <<atoms, mode, pc, restraints, define>>

Selected(m, name) == IF m = "all" THEN TRUE ELSE IF m = "backbone" THEN name = "BB" ELSE FALSE

\* declarative: the indices of the selected particles, ascending
RECURSIVE Sel(_, _, _)
Sel(m, as, i) == IF i > Len(as) THEN <<>>
                 ELSE (IF Selected(m, as[i]) THEN <<i>> ELSE <<>>) \o Sel(m, as, i + 1)
Expected(m, as) == Sel(m, as, 1)

Init == /\ atoms \in UNION {[1..n -> Names] : n \in 0..MaxAtoms}
        /\ mode \in Modes
        /\ pc = 1 /\ restraints = <<>> /\ define = FALSE

Visit == /\ mode # "none"
         /\ pc <= Len(atoms)
         /\ restraints' = IF Selected(mode, atoms[pc]) THEN Append(restraints, pc) ELSE restraints
         /\ pc' = pc + 1
         /\ UNCHANGED <<atoms, mode, define>>

WriteMeta == /\ mode # "none"
             /\ pc = Len(atoms) + 1
             /\ define' = TRUE
             /\ pc' = pc + 1
             /\ UNCHANGED <<atoms, mode, restraints>>

Next == Visit \/ WriteMeta
Spec == Init /\ [][Next]_vars

Finished == mode = "none" \/ pc = Len(atoms) + 2

TypeOK == /\ pc \in 1..(MaxAtoms + 2)
          /\ define \in BOOLEAN
          /\ \A k \in DOMAIN restraints : restraints[k] \in DOMAIN atoms

\* the walk builds the declarative list, prefix by prefix
PrefixOK == \A k \in DOMAIN restraints : k <= Len(Expected(mode, atoms)) /\ restraints[k] = Expected(mode, atoms)[k]
EndOK == Finished => /\ restraints = Expected(mode, atoms)
                     /\ define = (mode # "none")
\* one restraint per particle, in node order
OnePerAtom == \A j, k \in DOMAIN restraints : j < k => restraints[j] < restraints[k]
\* nothing is restrained that was not selected
OnlySelected == \A k \in DOMAIN restraints : Selected(mode, atoms[restraints[k]])
NoneIsSilent == mode = "none" => restraints = <<>> /\ ~define
\* the macro is written only after the walk (a reader of the molecule between the two sees restraints without the macro)
DefineLast == define => pc = Len(atoms) + 2

(* ------------------------------------------------------------------------------------------------------------------
   Judge for written molecule-type files.
   e : [mode, names : Seq(STRING) (the [ atoms ] names in file order), eligible : Seq(BOOLEAN) (FALSE for particles added after
        the stage ran - virtual sites of the Go model / water bias), section : Seq(record) (the records of the section
        [ position_restraints ], shape of indep_readers.read_itp), sections : number of such sections,
        prologue : Seq(record) (before the first directive), fcok : BOOLEAN (the macro's value is the -pf number)]        *)
RECURSIVE SelE(_, _, _, _)
SelE(m, ns, el, i) == IF i > Len(ns) THEN <<>>
                      ELSE (IF el[i] /\ Selected(m, ns[i]) THEN <<i>> ELSE <<>>) \o SelE(m, ns, el, i + 1)

Params == <<"1", "POSRES_FC", "POSRES_FC", "POSRES_FC">>
Guarded(want) == <<[k |-> "ifdef", s |-> "POSRES"]>> \o [k \in 1..Len(want) |-> [k |-> "inter", a |-> <<want[k]>>, p |-> Params]]
                 \o <<[k |-> "endif", s |-> ""]>>
Slim(r) == IF r.k = "inter" THEN [k |-> "inter", a |-> r.a, p |-> r.p] ELSE [k |-> r.k, s |-> r.s]
MacroRecords(pro) == SelectSeq(pro, LAMBDA r : r.s = "POSRES_FC")
HasMacro(pro) == \E i \in DOMAIN pro : pro[i].k = "define" /\ pro[i].s = "POSRES_FC"
MacroGuarded(pro) == \E i \in DOMAIN pro : /\ i + 2 <= Len(pro)
                                          /\ pro[i].k = "ifndef" /\ pro[i].s = "POSRES_FC"
                                          /\ pro[i + 1].k = "define" /\ pro[i + 1].s = "POSRES_FC"
                                          /\ pro[i + 2].k = "endif"

JudgeItp(e) ==
  LET want == SelE(e.mode, e.names, e.eligible, 1) IN
  IF e.mode = "none"
  THEN (IF e.sections # 0 THEN "restraints-without-the-option"
        ELSE IF HasMacro(e.prologue) THEN "macro-without-the-option" ELSE "ok")
  ELSE IF ~HasMacro(e.prologue) THEN "macro-missing"
  ELSE IF ~MacroGuarded(e.prologue) THEN "macro-not-guarded-by-ifndef"
  ELSE IF Len(SelectSeq(e.prologue, LAMBDA r : r.k = "define" /\ r.s = "POSRES_FC")) # 1 THEN "macro-defined-twice"
  ELSE IF ~e.fcok THEN "macro-is-not-the-force-constant-asked-for"
  ELSE IF want = <<>> THEN (IF e.sections = 0 THEN "ok" ELSE "restraints-although-nothing-selected")
  ELSE IF e.sections # 1 THEN "not-exactly-one-section"
  ELSE LET got == [k \in DOMAIN e.section |-> Slim(e.section[k])] IN
       IF got = Guarded(want) THEN "ok"
       ELSE IF \E k \in DOMAIN got : got[k].k = "inter" /\ (Len(got[k].a) # 1 \/ got[k].p # Params) THEN "restraint-malformed"
       ELSE IF got[1].k # "ifdef" \/ got[Len(got)].k # "endif" THEN "restraints-not-guarded-by-ifdef-POSRES"
       ELSE LET idx == [k \in 1..(Len(got) - 2) |-> IF got[k + 1].k = "inter" THEN got[k + 1].a[1] ELSE 0] IN
            IF \E k \in DOMAIN idx : idx[k] = 0 THEN "restraints-not-guarded-by-ifdef-POSRES"
            ELSE IF \E j, k \in DOMAIN idx : j # k /\ idx[j] = idx[k] THEN "particle-restrained-twice"
            ELSE IF \E k \in DOMAIN idx : \A j \in DOMAIN want : want[j] # idx[k] THEN "unselected-particle-restrained"
            ELSE IF \E j \in DOMAIN want : \A k \in DOMAIN idx : want[j] # idx[k] THEN "selected-particle-not-restrained"
            ELSE "restraints-out-of-order"
=============================================================================
