---------------------------- MODULE HelixRewrite ----------------------------
(* C17, second half: DSSP classes -> Martini classes (vermouth.dssp.convert_dssp_to_martini).
   Strings are sequences of one-character strings.
   ConvertRewrite : the implementation's shape - class table, flank with dots, apply the ordered list of
                    patterns, each to a fixpoint of left-to-right non-overlapping replacement, unflank, merge.
   ConvertRuns    : the documented meaning - every non-helical class by the fixed table, every MAXIMAL helical run
                    of length n rewritten by RunRule(n).                                                 *)
EXTENDS Integers, Sequences, FiniteSets, TLC

CONSTANTS Alphabet,   \* DSSP symbols to enumerate
          MaxLen

Table(c) == CASE c \in {"1", "2", "3", "H", "G", "I"} -> "H"
              [] c \in {"B", "E"} -> "E"
              [] c = "T" -> "T"
              [] c = "S" -> "S"
              [] c = "C" -> "C"

Rep(c, n) == [i \in 1..n |-> c]

RunRule(n) == IF n <= 4 THEN Rep("3", n)
              ELSE IF n = 5 THEN <<"1","3","3","3","2">>
              ELSE IF n = 6 THEN <<"1","1","3","3","2","2">>
              ELSE IF n = 7 THEN <<"1","1","1","3","2","2","2">>
              ELSE Rep("1", 4) \o Rep("H", n - 8) \o Rep("2", 4)

(* ---- declarative ---- *)
IsH(s, i) == i \in DOMAIN s /\ Table(s[i]) = "H"
RunStart(s, i) == CHOOSE a \in 1..i : (\A j \in a..i : IsH(s, j)) /\ ~IsH(s, a - 1)
RunEnd(s, i)   == CHOOSE b \in i..Len(s) : (\A j \in i..b : IsH(s, j)) /\ ~IsH(s, b + 1)
ConvertRuns(s) ==
  [i \in DOMAIN s |->
     IF IsH(s, i) THEN RunRule(RunEnd(s, i) - RunStart(s, i) + 1)[i - RunStart(s, i) + 1]
     ELSE Table(s[i])]

(* ---- operational ---- *)
Patterns == <<
  << <<".","H",".">>,                         <<".","3",".">> >>,
  << <<".","H","H",".">>,                     <<".","3","3",".">> >>,
  << <<".","H","H","H",".">>,                 <<".","3","3","3",".">> >>,
  << <<".","H","H","H","H",".">>,             <<".","3","3","3","3",".">> >>,
  << <<".","H","H","H","H","H",".">>,         <<".","1","3","3","3","2",".">> >>,
  << <<".","H","H","H","H","H","H",".">>,     <<".","1","1","3","3","2","2",".">> >>,
  << <<".","H","H","H","H","H","H","H",".">>, <<".","1","1","1","3","2","2","2",".">> >>,
  << <<".","H","H","H","H">>,                 <<".","1","1","1","1">> >>,
  << <<"H","H","H","H",".">>,                 <<"2","2","2","2",".">> >>
>>

Occurs(s, p) == \E i \in 1..(Len(s) - Len(p) + 1) : SubSeq(s, i, i + Len(p) - 1) = p

\* str.replace: left to right, non overlapping
RECURSIVE ReplaceFrom(_, _, _, _)
ReplaceFrom(s, i, p, r) ==
  IF i > Len(s) THEN <<>>
  ELSE IF i + Len(p) - 1 <= Len(s) /\ SubSeq(s, i, i + Len(p) - 1) = p
       THEN r \o ReplaceFrom(s, i + Len(p), p, r)
       ELSE <<s[i]>> \o ReplaceFrom(s, i + 1, p, r)

RECURSIVE Fixpoint(_, _, _)
Fixpoint(s, p, r) == IF Occurs(s, p) THEN Fixpoint(ReplaceFrom(s, 1, p, r), p, r) ELSE s

RECURSIVE ApplyAll(_, _)
ApplyAll(s, k) == IF k > Len(Patterns) THEN s ELSE ApplyAll(Fixpoint(s, Patterns[k][1], Patterns[k][2]), k + 1)

ConvertRewrite(s) ==
  LET cg   == [i \in DOMAIN s |-> Table(s[i])]
      wild == <<".">> \o [i \in DOMAIN s |-> IF cg[i] = "H" THEN "H" ELSE "."] \o <<".">>
      done == ApplyAll(wild, 1)
      core == SubSeq(done, 2, Len(done) - 1)
  IN [i \in DOMAIN s |-> IF core[i] # "." THEN core[i] ELSE cg[i]]

(* ---- TAB model: grow the string symbol by symbol; every reachable state is one input ---- *)
VARIABLES str, out
vars == <<str, out>>

Init == str = <<>> /\ out = <<>>
Extend(c) == /\ Len(str) < MaxLen
             /\ str' = Append(str, c)
             /\ out' = ConvertRuns(str')
Next == \E c \in Alphabet : Extend(c)
Spec == Init /\ [][Next]_vars

RewriteIsRuns   == ConvertRewrite(str) = out
LengthPreserved == Len(out) = Len(str)
NonHelixByTable == \A i \in DOMAIN str : ~IsH(str, i) => out[i] = Table(str[i])
HelixNeverPlainForShort ==          \* a residue of a helical run shorter than 8 is never left as plain "H"
  \A i \in DOMAIN str : (IsH(str, i) /\ RunEnd(str, i) - RunStart(str, i) + 1 < 8) => out[i] \in {"1", "2", "3"}
=============================================================================
