---------------------------- MODULE Trace_SubIso ----------------------------
(* Batch of recorded ISMAGS runs: [G, H, mode : "iso" | "lcs", sym : BOOLEAN, Y] judged by SubIso. *)
EXTENDS SubIso, Json, IOUtils
Batch == JsonDeserialize(IOEnv.TRACE_FILE)
VARIABLES tid, verdict
vars == <<tid, verdict>>
Init == tid \in 1..Len(Batch) /\ verdict = "pending"
Eval == /\ verdict = "pending"
        /\ verdict' = LET e == Batch[tid] IN IF e.mode = "iso" THEN JudgeIso(e.G, e.H, e.sym, e.Y) ELSE JudgeLcs(e.G, e.H, e.sym, e.Y)
        /\ UNCHANGED tid
Spec == Init /\ [][Eval]_vars
=============================================================================
