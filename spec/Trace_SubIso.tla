---------------------------- MODULE Trace_SubIso ----------------------------
(* Batch of recorded ISMAGS runs [G, H, mode, sym, Y, E, A, chk] judged by SubIso (declarative enumeration: modes "iso",
   "lcs") or by SubIsoCert (certificate checking: "iso-cert", "lcs-cert", "first-cert"); the modes "iso-both" / "lcs-both"
   evaluate both judges and require them to agree (small real patterns: ties the certificate judge to the enumeration). *)
EXTENDS SubIsoCert, Json, IOUtils
Batch == JsonDeserialize(IOEnv.TRACE_FILE)
VARIABLES tid, verdict
vars == <<tid, verdict>>
Init == tid \in 1..Len(Batch) /\ verdict = "pending"

Both(a, b) == IF a = b THEN a ELSE "judges-disagree: enumeration says " \o a \o ", certificate check says " \o b

Judge(e) ==
  CASE e.mode = "iso"        -> JudgeIso(e.G, e.H, e.sym, e.Y)
    [] e.mode = "lcs"        -> JudgeLcs(e.G, e.H, e.sym, e.Y)
    [] e.mode = "iso-cert"   -> JudgeIsoCert(e.G, e.H, e.sym, e.Y, e.E, e.A, e.chk)
    [] e.mode = "lcs-cert"   -> JudgeLcsCert(e.G, e.H, e.sym, e.Y, e.E, e.A, e.chk)
    [] e.mode = "first-cert" -> JudgeFirstCert(e.G, e.H, e.Y, e.E)
    [] e.mode = "iso-both"   -> Both(JudgeIso(e.G, e.H, e.sym, e.Y), JudgeIsoCert(e.G, e.H, e.sym, e.Y, e.E, e.A, e.chk))
    [] e.mode = "lcs-both"   -> Both(JudgeLcs(e.G, e.H, e.sym, e.Y), JudgeLcsCert(e.G, e.H, e.sym, e.Y, e.E, e.A, e.chk))

Eval == /\ verdict = "pending"
        /\ verdict' = Judge(Batch[tid])
        /\ UNCHANGED tid
Spec == Init /\ [][Eval]_vars
=============================================================================
