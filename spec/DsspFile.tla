------------------------------ MODULE DsspFile ------------------------------
(* TAB model over DsspFormat: a DSSP output file grows line by line out of a pool of concrete lines (what DSSP really
   prints, near misses of the table mark, malformed residue lines, chain breaks).  Every reachable state that has a
   verdict is one (file, expected) row replayed into the real read_dssp2.                                      *)
EXTENDS DsspFormat

CONSTANTS Pool,        \* line kinds the model appends
          Prefixes,    \* set of kind sequences the model starts from
          MaxLines     \* lines appended at most

VARIABLES kinds, out
vars == <<kinds, out>>
UNSPEC == [err |-> TRUE, unspecified |-> TRUE]
Expected(ks) == IF Unspecified(Text(ks)) THEN UNSPEC ELSE ReadDecl(Text(ks))

Init == kinds \in Prefixes /\ out = Expected(kinds)
Extend(k) == /\ \E p \in Prefixes : Len(kinds) >= Len(p) /\ SubSeq(kinds, 1, Len(p)) = p /\ Len(kinds) < Len(p) + MaxLines
             /\ kinds' = Append(kinds, k)
             /\ out' = Expected(kinds')
Next == \E k \in Pool : Extend(k)
Spec == Init /\ [][Next]_vars

OpIsDecl == Unspecified(Text(kinds)) \/ ReadOp(Text(kinds)) = out
OneClassPerResidueLine ==      \* breaks and empty lines add nothing; every other table line adds exactly one class
  (~Unspecified(Text(kinds)) /\ ~out.err) =>
     LET t == Min(TableLines(Text(kinds)))
     IN Len(out.val) = Cardinality({i \in (t + 1)..Len(kinds) : ~NoResidue(Line(kinds[i]))})
AlphabetIsSupported == (~out.err) => \A i \in DOMAIN out.val : out.val[i] \in {"H", "B", "E", "G", "I", "T", "S", "C"}
=============================================================================
