------------------------------- MODULE FixedCol -------------------------------
(* C16 - TAB model over the boundary cases of the fixed-column formats.  Every initial state is one CASE, the single
   Eval step computes what the statement demands for it (`out`); the dumped (case, out) pairs are replayed into the
   real writers/readers of vermouth.

   atom case : the attribute values of ONE atom (name, residue name, residue number, chain, insertion code,
               coordinates) in one format.  The serial number of an atom is a property of its POSITION in the system and
               is covered by the sys cases; the invariants below still quantify over the serial boundary values.
   sys case  : a system SHAPE (atoms per molecule), a hub atom near a serial-number boundary, and `deg` bonds from it
               to other atoms of the same molecule -> serial numbers, CONECT records, TER serials, division into
               molecules.                                                                                        *)
EXTENDS FixedColOps

CONSTANTS Names, ResNames, ResIds, Chains, ICodes,
          Coords,       \* sequence of coordinate values (integer thousandths), all inside the representable range
          Serials,      \* serial-number boundary values used inside the invariants
          Shapes,       \* sequence of shapes; a shape is a sequence of molecule sizes
          Degrees,      \* set of bond degrees of the hub
          Window,       \* how far from a boundary serial a hub may sit
          Widths,       \* GRO coordinate column widths (write_gro precision + 1)
          CoordsP,      \* width -> sequence of values (integer thousandths; also used as ten-thousandths for velocities) that fit it
          NamesP, ResNamesP, ResIdsP

VARIABLES case, out
vars == <<case, out>>

Coord(i) == Coords[((i - 1) % Len(Coords)) + 1]

PdbCases == [kind : {"atom"}, fmt : {"pdb"}, name : Names, resname : ResNames, resid : ResIds, chain : Chains,
             icode : ICodes, xi : DOMAIN Coords]
GroCases == [kind : {"atom"}, fmt : {"gro"}, name : Names, resname : ResNames, resid : ResIds, chain : {""},
             icode : {""}, xi : DOMAIN Coords]

Boundaries == {1, 10000, 100000}
NearBoundary(s) == \E b \in Boundaries : s >= b - Window /\ s <= b + Window
Hubs(k) == LET cum == Cum(Shapes[k]) IN
           {g \in 1..cum[Len(cum)] : NearBoundary(Serial(g, MolOfC(cum, g)))}
           \cup {cum[m] + 1 : m \in 1..Len(Shapes[k])} \cup {cum[m + 1] : m \in 1..Len(Shapes[k])}
SysCases == UNION {[kind : {"sys"}, shape : {k}, hub : Hubs(k), deg : IF Fits5(Shapes[k]) THEN Degrees ELSE {0},
                    mode : {"next", "first"}] : k \in DOMAIN Shapes}

(* partners of the hub: the atoms following it in its molecule (then the ones before it), or the first atoms of its
   molecule; at most `deg`, fewer when the molecule is small *)
RECURSIVE Take(_, _)
Take(seq, n) == IF n = 0 \/ seq = <<>> THEN <<>> ELSE <<Head(seq)>> \o Take(Tail(seq), n - 1)
Partners(cum, hub, deg, mode) ==
  LET m  == MolOfC(cum, hub)
      lo == cum[m] + 1
      hi == cum[m + 1]
      after  == [i \in 1..Min(deg, hi - hub) |-> hub + i]
      before == [i \in 1..Min(deg, hub - lo) |-> hub - i]
      first  == SelectSeq([i \in 1..Min(deg + 1, hi - lo + 1) |-> lo + i - 1], LAMBDA g : g # hub)
  IN IF mode = "next" THEN Take(after \o before, deg) ELSE Take(first, deg)

AtomRec(c, serial) ==
  [rec |-> "ATOM", serial |-> serial, name |-> c.name, altloc |-> "", resname |-> c.resname, chain |-> c.chain,
   resid |-> c.resid, icode |-> c.icode, x |-> Coord(c.xi), y |-> Coord(c.xi + 1), z |-> Coord(c.xi + 2), elem |-> ""]
WT(fmt) == IF fmt = "pdb" THEN PdbAtomW ELSE GroAtomW
RT(fmt) == IF fmt = "pdb" THEN PdbAtomR ELSE GroAtomR
Get(table, vals, name) == vals[FieldIdx(table, name)]
Overflowing(table, rec) == {table[i].name : i \in {j \in DOMAIN table : ~FitsW(TextOf(table[j].kind, rec[table[j].name]), table[j].w)}}

ExpectAtom(c) ==
  LET rec  == AtomRec(c, 1)
      line == Render(WT(c.fmt), rec)
      b    == Read(RT(c.fmt), line)
      g(n) == Get(RT(c.fmt), b, n)
      wname == WT(c.fmt)[FieldIdx(WT(c.fmt), "name")]
  IN [pending |-> FALSE, line |-> line, input |-> rec,
      back |-> [name |-> g("name"), resname |-> g("resname"), resid |-> g("resid"),
                chain |-> IF c.fmt = "pdb" THEN g("chain") ELSE "", icode |-> IF c.fmt = "pdb" THEN g("icode") ELSE "",
                x |-> g("x"), y |-> g("y"), z |-> g("z")],
      names |-> Admissible(wname, c.name),            \* admissible read-back names (two only for an over-long GRO name)
      over |-> Overflowing(WT(c.fmt), rec)]

ExpectSys(c) ==
  LET sizes == Shapes[c.shape]
      cum   == Cum(sizes)
      m     == MolOfC(cum, c.hub)
      ps    == Partners(cum, c.hub, c.deg, c.mode)
      hs    == Serial(c.hub, m)
      pser  == [i \in DOMAIN ps |-> Serial(ps[i], m)]
      lines == ConectLines(hs, SortedSeq({pser[i] : i \in DOMAIN pser}))
  IN [pending |-> FALSE, sizes |-> sizes, mol |-> m, hubserial |-> hs, partners |-> ps, pserials |-> pser,
      hubfield |-> Fmt(IntText(hs), 5, ">"), lines |-> lines, pairs |-> PairsOfLines(lines),
      ters |-> [k \in DOMAIN sizes |-> TerSerialC(cum, k)], fits |-> Fits5(sizes)]

(* ---- GRO files with coordinate columns of width w, with or without velocities ("grow" cases) ---- *)
CoordP(w, i) == CoordsP[w][((i - 1) % Len(CoordsP[w])) + 1]
GrowCases == UNION {[kind : {"grow"}, w : {w}, vel : BOOLEAN, name : NamesP, resname : ResNamesP, resid : ResIdsP,
                     xi : DOMAIN CoordsP[w]] : w \in Widths}
GrowRec(c, serial) ==
  [resid |-> c.resid, resname |-> c.resname, name |-> c.name, serial |-> serial,
   x |-> CoordP(c.w, c.xi), y |-> CoordP(c.w, c.xi + 1), z |-> CoordP(c.w, c.xi + 2),
   vx |-> CoordP(c.w, c.xi + 3), vy |-> CoordP(c.w, c.xi + 4), vz |-> CoordP(c.w, c.xi + 5)]
Narrower(w) == LET below == {v \in Widths : v < w} IN
               IF below = {} THEN w - 1 ELSE CHOOSE v \in below : \A u \in below : u <= v
NumFields(T) == {i \in DOMAIN T : T[i].kind \in {"d3", "d4"}}
(* every number of the record fills its column up to at most one blank: then no other width reads the same numbers *)
WidthSensitive(T, rec, w) == \A i \in NumFields(T) : Len(TextOf(T[i].kind, rec[T[i].name])) >= w - 1

ExpectGrow(c) ==
  LET T    == GroAtomWPV(c.w, c.vel)
      rec  == GrowRec(c, 1)
      line == Render(T, rec)
      b    == Read(T, line)
      g(n) == Get(T, b, n)
  IN [pending |-> FALSE, line |-> line, input |-> rec,
      back |-> [name |-> g("name"), resname |-> g("resname"), resid |-> g("resid"), x |-> g("x"), y |-> g("y"), z |-> g("z"),
                vx |-> IF c.vel THEN g("vx") ELSE 0, vy |-> IF c.vel THEN g("vy") ELSE 0, vz |-> IF c.vel THEN g("vz") ELSE 0],
      names |-> Admissible(T[FieldIdx(T, "name")], c.name),
      over |-> Overflowing(T, rec),
      narrow |-> {T[i].name : i \in {j \in NumFields(T) : ~FitsW(TextOf(T[j].kind, rec[T[j].name]), Narrower(c.w))}},
      sensitive |-> WidthSensitive(T, rec, c.w)]

Init == case \in PdbCases \cup GroCases \cup SysCases \cup GrowCases /\ out = [pending |-> TRUE]
Eval == /\ out.pending
        /\ out' = IF case.kind = "atom" THEN ExpectAtom(case) ELSE IF case.kind = "grow" THEN ExpectGrow(case) ELSE ExpectSys(case)
        /\ UNCHANGED case
Spec == Init /\ [][Eval]_vars

Done(k) == ~out.pending /\ case.kind = k

(* ---- atom cases ---- *)
FieldSlice(f, line) == Cut(line, f.start, f.start + f.w - 1)

(* overflow of one field never changes another field's columns: every slice depends on its own value only, for every
   serial number boundary value, and the record always has the same length *)
OtherFieldsUnaffected ==
  Done("atom") =>
    \A s \in Serials :
      LET W == WT(case.fmt)
          rec == AtomRec(case, s)
          line == Render(W, rec)
      IN /\ \A i \in DOMAIN W : FieldSlice(W[i], line) = Fmt(TextOf(W[i].kind, rec[W[i].name]), W[i].w, W[i].align)
         /\ Len(line) = W[Len(W)].start + W[Len(W)].w - 1
         /\ case.fmt = "pdb" => \A col \in PdbAtomBlank : Ch(line, col) = " "

(* a value that fits its field is returned exactly *)
RoundTripWithinWidth ==
  Done("atom") =>
    \A s \in Serials :
      LET W == WT(case.fmt)
          R == RT(case.fmt)
          rec == AtomRec(case, s)
          b == Read(R, Render(W, rec))
      IN \A i \in DOMAIN R :
           LET fw == W[FieldIdx(W, R[i].name)] IN
           FitsW(TextOf(fw.kind, rec[fw.name]), fw.w) => b[i] = rec[fw.name]

(* operational (render the record, slice the line, type the slice) = declarative (per field, from its own value) *)
OpIsDecl ==
  Done("atom") =>
    \A s \in Serials :
      LET W == WT(case.fmt)
          R == RT(case.fmt)
          rec == AtomRec(case, s)
          b == Read(R, Render(W, rec))
      IN \A i \in DOMAIN R : b[i] = DeclBack(W[FieldIdx(W, R[i].name)], R[i], rec[R[i].name])

(* a truncated number keeps its low-order digits, a truncated text (left aligned) its leading characters *)
TruncationKeepsTheDocumentedEnd ==
  Done("atom") =>
    /\ (case.resid >= 0 /\ "resid" \in out.over) => out.back.resid = case.resid % (IF case.fmt = "pdb" THEN 10000 ELSE 100000)
    /\ ("resname" \in out.over) => out.back.resname = SubSeq(case.resname, 1, IF case.fmt = "pdb" THEN 3 ELSE 5)
    /\ (case.fmt = "pdb" /\ "name" \in out.over) => out.back.name = SubSeq(case.name, 1, 4)
    /\ out.back.name \in out.names

(* ---- grow cases ---- *)
(* the table of width 8 is the GRO table used everywhere else *)
Width8IsTheOldTable ==
  Done("atom") /\ case.fmt = "gro" =>
    \A s \in Serials : LET rec == AtomRec(case, s) IN
                         /\ Render(GroAtomWP(8), rec) = Render(GroAtomW, rec)
                         /\ Read(GroAtomWP(8), Render(GroAtomW, rec)) = Read(GroAtomR, Render(GroAtomW, rec))

GroWidthLaws ==
  Done("grow") =>
    \A s \in Serials :
      LET w    == case.w
          T    == GroAtomWPV(w, case.vel)
          rec  == GrowRec(case, s)
          line == Render(T, rec)
          b    == Read(T, line)
      IN /\ Len(line) = GroLineLen(w, case.vel)
         \* the text itself tells its layout
         /\ DotWidth(line) = w /\ HasVel(line) = case.vel
         \* every field in its own columns, whatever overflows elsewhere
         /\ \A i \in DOMAIN T : FieldSlice(T[i], line) = Fmt(TextOf(T[i].kind, rec[T[i].name]), T[i].w, T[i].align)
         \* numbers that fit the width are returned exactly (all values of CoordsP[w] fit w)
         /\ \A i \in NumFields(T) : FitsW(TextOf(T[i].kind, rec[T[i].name]), w) /\ b[i] = rec[T[i].name]
         \* the width matters: sliced with the table of any other width a full record does not give the same numbers
         /\ WidthSensitive(T, rec, w) =>
               \A v \in Widths \ {w} : LET bv == Read(GroAtomWPV(v, case.vel), line) IN \E i \in NumFields(T) : bv[i] # rec[T[i].name]

(* boundary values: what fits w and not the next narrower width is in the table, at both ends *)
BoundariesCovered ==
  \A w \in Widths : LET S == {CoordsP[w][i] : i \in DOMAIN CoordsP[w]} IN
                      /\ \A v \in S : MinFit(w) <= v /\ v <= MaxFit(w)
                      /\ \E v \in S : v > MaxFit(Narrower(w))
                      /\ \E v \in S : v < MinFit(Narrower(w))

(* ---- sys cases ---- *)
ConectExactUpTo99999 ==
  Done("sys") =>
    LET want == {<<Min(out.hubserial, out.pserials[i]), Max(out.hubserial, out.pserials[i])>> : i \in DOMAIN out.pserials}
        top  == Max(out.hubserial, IF out.pserials = <<>> THEN 0 ELSE CHOOSE s \in {out.pserials[i] : i \in DOMAIN out.pserials} :
                                      \A t \in {out.pserials[i] : i \in DOMAIN out.pserials} : t <= s)
    IN /\ top <= 99999 => out.pairs = want
       /\ \A i \in DOMAIN out.lines : Len(out.lines[i]) <= 31 /\ Len(ConectIds(out.lines[i])) <= 5     \* hub + 4 partners

TerSplitsMolecules ==
  Done("sys") =>
    LET sizes == out.sizes
        cum == Cum(sizes)
    IN /\ SplitByTer(Layout(sizes, Len(out.lines))) = sizes
       /\ \A m \in DOMAIN sizes : /\ TerSerialC(cum, m) = Serial(cum[m + 1], m) + 1
                                  /\ m < Len(sizes) => Serial(cum[m + 1] + 1, m + 1) = TerSerialC(cum, m) + 1
       /\ Serial(1, 1) = 1
       /\ out.hubserial = case.hub + Cardinality({m \in DOMAIN sizes : cum[m + 1] < case.hub})

PartnersInSameMolecule ==
  Done("sys") => LET cum == Cum(out.sizes) IN
                 \A i \in DOMAIN out.partners : MolOfC(cum, out.partners[i]) = out.mol /\ out.partners[i] # case.hub
=============================================================================
