------------------------------- MODULE SubIso -------------------------------
(* Declarative subgraph matching (C06).  A graph is
      [nodes : Seq(<<id, colour>>), edges : Seq(<<a, b, colour>>)]         (undirected, no loops)
   Emb(G, H)      all induced embeddings of H into G: injective maps V(H) -> V(G) preserving node colour, adjacency,
                  NON-adjacency and edge colour
   Aut(H)         Emb(H, H)
   Equivalent     two embeddings differing by a symmetry of the PATTERN: e = f o a for some a in Aut(H)
   Common(G, H)   common induced subgraphs: embeddings of induced subgraphs H[S]; MaxCommon = the largest |S|
   The predicates at the end are evaluated by TLC on outputs recorded from vermouth.ismags.ISMAGS.          *)
EXTENDS Integers, Sequences, FiniteSets, TLC

NodeSet(G) == {G.nodes[i][1] : i \in DOMAIN G.nodes}
Colour(G, n) == LET i == CHOOSE j \in DOMAIN G.nodes : G.nodes[j][1] = n IN G.nodes[i][2]
EdgeIdx(G, a, b) == {i \in DOMAIN G.edges : (G.edges[i][1] = a /\ G.edges[i][2] = b) \/ (G.edges[i][1] = b /\ G.edges[i][2] = a)}
Adj(G, a, b) == EdgeIdx(G, a, b) # {}
EColour(G, a, b) == G.edges[CHOOSE i \in EdgeIdx(G, a, b) : TRUE][3]
RangeOf(f) == {f[x] : x \in DOMAIN f}

\* is g an admissible image of h, given the partial embedding f (a function on some pattern nodes)?
Fits(G, H, f, h, g) ==
  /\ g \notin RangeOf(f)
  /\ Colour(G, g) = Colour(H, h)
  /\ \A p \in DOMAIN f :
        /\ Adj(H, p, h) = Adj(G, f[p], g)
        /\ Adj(H, p, h) => EColour(H, p, h) = EColour(G, f[p], g)

\* all extensions of the partial embedding f over the pattern nodes listed in `todo`
RECURSIVE Extend(_, _, _, _)
Extend(G, H, f, todo) ==
  IF todo = <<>> THEN {f}
  ELSE LET h == Head(todo) IN
       UNION {Extend(G, H, (h :> g) @@ f, Tail(todo)) : g \in {x \in NodeSet(G) : Fits(G, H, f, h, x)}}

RECURSIVE SetToSeq(_)
SetToSeq(S) == IF S = {} THEN <<>> ELSE LET x == CHOOSE y \in S : TRUE IN <<x>> \o SetToSeq(S \ {x})

EmptyMap == [x \in {} |-> 0]
EmbOn(G, H, S) == Extend(G, H, EmptyMap, SetToSeq(S))          \* embeddings of the induced subgraph H[S]
Emb(G, H) == EmbOn(G, H, NodeSet(H))
Aut(H) == Emb(H, H)

Compose(f, a) == [h \in {x \in DOMAIN a : a[x] \in DOMAIN f} |-> f[a[h]]]
\* e and f (maps from subsets of V(H)) are the same modulo a symmetry a of the pattern: e = f o a on a^-1(dom f)
Equivalent(H, A, e, f) == \E a \in A : DOMAIN e = {x \in NodeSet(H) : a[x] \in DOMAIN f} /\ \A x \in DOMAIN e : e[x] = f[a[x]]

MaxCommon(G, H) ==
  LET sizes == {Cardinality(S) : S \in {T \in SUBSET NodeSet(H) : EmbOn(G, H, T) # {}}}
  IN CHOOSE m \in sizes : \A k \in sizes : k <= m
CommonOfSize(G, H, m) == UNION {EmbOn(G, H, S) : S \in {T \in SUBSET NodeSet(H) : Cardinality(T) = m}}

-----------------------------------------------------------------------------
(* recorded output: a sequence of mappings, each a sequence of <<graph node, pattern node>> pairs *)
AsMap(y) == [h \in {y[i][2] : i \in DOMAIN y} |-> y[CHOOSE i \in DOMAIN y : y[i][2] = h][1]]
WellFormed(y) == \A i, j \in DOMAIN y : i # j => (y[i][1] # y[j][1] /\ y[i][2] # y[j][2])

JudgeIso(G, H, sym, Y) ==
  LET E == Emb(G, H)
      A == Aut(H)
      M == [i \in DOMAIN Y |-> AsMap(Y[i])]
  IN IF \E i \in DOMAIN Y : ~WellFormed(Y[i]) THEN "mapping-not-injective"
     ELSE IF \E i \in DOMAIN Y : M[i] \notin E THEN "not-an-induced-isomorphism"
     ELSE IF \E i, j \in DOMAIN Y : i # j /\ M[i] = M[j] THEN "isomorphism-yielded-twice"
     ELSE IF ~sym THEN (IF Len(Y) = Cardinality(E) THEN "ok" ELSE "isomorphism-missing")
     ELSE IF \E i, j \in DOMAIN Y : i # j /\ Equivalent(H, A, M[i], M[j]) THEN "two-representatives-of-one-class"
     ELSE IF \E e \in E : ~\E i \in DOMAIN Y : Equivalent(H, A, e, M[i]) THEN "class-without-representative"
     ELSE "ok"

JudgeLcs(G, H, sym, Y) ==
  LET m == MaxCommon(G, H)
      C == CommonOfSize(G, H, m)
      A == Aut(H)
      M == [i \in DOMAIN Y |-> AsMap(Y[i])]
  IN IF m = 0 THEN "ok"                      \* nothing in common: the statement says nothing about the empty answer
     ELSE IF \E i \in DOMAIN Y : ~WellFormed(Y[i]) THEN "mapping-not-injective"
     ELSE IF \E i \in DOMAIN Y : Cardinality(DOMAIN M[i]) # m THEN "not-of-maximum-size"
     ELSE IF \E i \in DOMAIN Y : M[i] \notin C THEN "not-a-common-induced-subgraph"
     ELSE IF \E c \in C : ~\E i \in DOMAIN Y : Equivalent(H, A, c, M[i]) THEN "maximum-common-subgraph-not-covered"
     ELSE "ok"
=============================================================================
