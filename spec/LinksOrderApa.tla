--------------------------- MODULE LinksOrderApa ---------------------------
(* The residue-order relation of links (Links.tla, part 1) for ALL integers (Apalache, SMT): the relation as the
   implementation branches equals the documented matrix, the matrix is symmetric, and two atoms with the same arrow or
   star order sit in the same residue - for every residue number, every numeric offset and every arrow / star count.
   The two operators are the ones of Links.tla, typed; spec/LinksOrderBridge.tla has TLC check that they are the same. *)
EXTENDS Integers

VARIABLES
  \* @type: { k: Str, v: Int };
  o1,
  \* @type: { k: Str, v: Int };
  o2,
  \* @type: Int;
  r1,
  \* @type: Int;
  r2

Sgn(x) == IF x > 0 THEN 1 ELSE IF x < 0 THEN -1 ELSE 0
\* @type: { k: Str, v: Int } => Int;
Signed(o) == IF o.k = "gt" THEN o.v ELSE -o.v

\* @type: ({ k: Str, v: Int }, Int, { k: Str, v: Int }, Int) => Bool;
MatchOrderOp(p1, s1, p2, s2) ==
  IF p1.k = "num"
  THEN IF p2.k = "num" THEN (p2.v - p1.v) = (s2 - s1)
       ELSE IF p1.v = 0
            THEN IF p2.k \in {"gt", "lt"} THEN Sgn(s2 - s1) = Sgn(Signed(p2))
                 ELSE s1 # s2
            ELSE TRUE
  ELSE IF p1.k \in {"gt", "lt"}
       THEN IF p2.k = "num" /\ p2.v = 0 THEN Sgn(s1 - s2) = Sgn(Signed(p1))
            ELSE IF p2.k \in {"gt", "lt"} THEN Sgn(s2 - s1) = Sgn(Signed(p2) - Signed(p1))
            ELSE TRUE
       ELSE IF p2.k = "num" /\ p2.v = 0 THEN s1 # s2
            ELSE IF p2.k = "star" THEN (p1.v = p2.v) = (s1 = s2)
            ELSE TRUE

\* @type: { k: Str, v: Int } => Bool;
IsRef(o) == o.k = "num" /\ o.v = 0
\* @type: { k: Str, v: Int } => Bool;
IsArrow(o) == o.k \in {"gt", "lt"}
\* @type: ({ k: Str, v: Int }, Int, { k: Str, v: Int }, Int) => Bool;
MatchOrderDoc(p1, s1, p2, s2) ==
  IF p1.k = "num" /\ p2.k = "num" THEN (s2 - s1) = (p2.v - p1.v)
  ELSE IF IsRef(p1) /\ IsArrow(p2) THEN Sgn(s2 - s1) = Sgn(Signed(p2))
  ELSE IF IsArrow(p1) /\ IsRef(p2) THEN Sgn(s1 - s2) = Sgn(Signed(p1))
  ELSE IF IsArrow(p1) /\ IsArrow(p2) THEN Sgn(s2 - s1) = Sgn(Signed(p2) - Signed(p1))
  ELSE IF IsRef(p1) /\ p2.k = "star" THEN s1 # s2
  ELSE IF p1.k = "star" /\ IsRef(p2) THEN s1 # s2
  ELSE IF p1.k = "star" /\ p2.k = "star" THEN (p1.v = p2.v) = (s1 = s2)
  ELSE TRUE

\* numeric offsets are any integer, arrow and star counts are at least 1
\* @type: { k: Str, v: Int } => Bool;
WellFormed(o) == o.k \in {"num", "gt", "lt", "star"} /\ (o.k # "num" => o.v >= 1)

Init == /\ o1 \in [k : {"num", "gt", "lt", "star"}, v : Int] /\ WellFormed(o1)
        /\ o2 \in [k : {"num", "gt", "lt", "star"}, v : Int] /\ WellFormed(o2)
        /\ r1 \in Int /\ r2 \in Int
Next == UNCHANGED <<o1, o2, r1, r2>>

OpIsDoc == MatchOrderOp(o1, r1, o2, r2) = MatchOrderDoc(o1, r1, o2, r2)
Symmetric == MatchOrderDoc(o2, r2, o1, r1) = MatchOrderDoc(o1, r1, o2, r2)
SameOrderSameResidue == (o1 = o2 /\ o1.k # "num") => (MatchOrderDoc(o1, r1, o2, r2) = (r1 = r2))
Inv == OpIsDoc /\ Symmetric /\ SameOrderSameResidue
=============================================================================
