------------------------------- MODULE MapFile -------------------------------
(* Backward-style .map files (vermouth.map_input.read_backmapping_file): one [ molecule ] with [ atoms ] lines
      <index> <atom> <bead> <bead> ...        a bead prefixed with "!" is mapped with weight zero
   Weights (documented): an atom spreads over its non-null beads in proportion to how many times each is written
   (multiplicity / total number of non-null entries on that line); "!" entries give weight 0; the same bead with and
   without "!" on one line is an error; an atom defined twice is an error.
   Lines    == Seq([atom, beads : Seq([b, null : BOOLEAN])])
   Result   == [err |-> TRUE] | [err |-> FALSE, w : set of <<atom, bead, count, total>>]  (weight = count / total; 0/1 for "!") *)
EXTENDS Integers, Sequences, FiniteSets, TLC

CONSTANTS Atoms, Beads, MaxBeads, MaxLines

ERR == [err |-> TRUE]
BeadEntry == [b : Beads, null : BOOLEAN]
BeadSeqs == UNION {[1..k -> BeadEntry] : k \in 0..MaxBeads}

Count(bs, b) == Cardinality({i \in DOMAIN bs : bs[i].b = b /\ ~bs[i].null})
Total(bs) == Cardinality({i \in DOMAIN bs : ~bs[i].null})
Conflict(bs) == \E i, j \in DOMAIN bs : bs[i].b = bs[j].b /\ bs[i].null /\ ~bs[j].null

(* declarative *)
WeightsDecl(lines) ==
  IF \E i, j \in DOMAIN lines : i # j /\ lines[i].atom = lines[j].atom THEN ERR
  ELSE IF \E i \in DOMAIN lines : Conflict(lines[i].beads) THEN ERR
  ELSE [err |-> FALSE,
        w |-> UNION {{<<lines[i].atom, lines[i].beads[k].b,
                        IF lines[i].beads[k].null THEN 0 ELSE Count(lines[i].beads, lines[i].beads[k].b),
                        IF lines[i].beads[k].null THEN 1 ELSE Total(lines[i].beads)>> : k \in DOMAIN lines[i].beads}
                     : i \in DOMAIN lines}]

(* operational: the implementation's passes - reverse table, counters normalised per atom, then the null entries *)
NonNull(bs) == SelectSeq(bs, LAMBDA e : ~e.null)
PreWeights(lines) == {<<lines[i].atom, NonNull(lines[i].beads)[k].b, Count(lines[i].beads, NonNull(lines[i].beads)[k].b), Total(lines[i].beads)>>
                       : <<i, k>> \in {p \in (DOMAIN lines) \X (1..MaxBeads) : p[2] \in DOMAIN NonNull(lines[p[1]].beads)}}
NullPairs(lines) == {<<lines[i].atom, lines[i].beads[k].b>> : <<i, k>> \in {p \in (DOMAIN lines) \X (1..MaxBeads) :
                                                                  p[2] \in DOMAIN lines[p[1]].beads /\ lines[p[1]].beads[p[2]].null}}
WeightsOp(lines) ==
  IF \E i, j \in DOMAIN lines : i < j /\ lines[i].atom = lines[j].atom THEN ERR
  ELSE LET pre == PreWeights(lines)
           nul == NullPairs(lines)
       IN IF \E p \in nul : \E q \in pre : q[1] = p[1] /\ q[2] = p[2] THEN ERR
          ELSE [err |-> FALSE, w |-> pre \cup {<<p[1], p[2], 0, 1>> : p \in nul}]

VARIABLES lines, out
vars == <<lines, out>>
Init == lines = <<>> /\ out = WeightsDecl(<<>>)
AddLine(a, bs) == /\ Len(lines) < MaxLines
                  /\ lines' = Append(lines, [atom |-> a, beads |-> bs])
                  /\ out' = WeightsDecl(lines')
Next == \E a \in Atoms, bs \in BeadSeqs : AddLine(a, bs)
Spec == Init /\ [][Next]_vars

OpIsDecl == WeightsOp(lines) = out
\* the weights an atom gives away add up to one (when it has a non-null bead at all)
WeightsOfAnAtomSumToOne ==
  ~out.err => \A i \in DOMAIN lines : Total(lines[i].beads) > 0 =>
     LET mine == {q \in out.w : q[1] = lines[i].atom /\ q[3] > 0}
         RECURSIVE S(_)
         S(T) == IF T = {} THEN 0 ELSE LET x == CHOOSE y \in T : TRUE IN x[3] + S(T \ {x})
     IN S(mine) = Total(lines[i].beads)
NullIsZero == ~out.err => \A q \in out.w : (q[3] = 0) = (\E i \in DOMAIN lines : lines[i].atom = q[1] /\ \E k \in DOMAIN lines[i].beads :
                                                              lines[i].beads[k].b = q[2] /\ lines[i].beads[k].null)
=============================================================================
