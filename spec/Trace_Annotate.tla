--------------------------- MODULE Trace_Annotate ---------------------------
(* Batch validation of recorded runs of the real AnnotateResidues.run_system ("seq" events) and
   convert_dssp_to_martini ("helix" events).
   seq event   : [kind, system : Seq([sel, nres]), n, err : BOOLEAN, ann : Seq(Seq(Int))]   (0 = attribute absent)
   helix event : [kind, in : Seq(char), out : Seq(char)]                                             *)
EXTENDS Integers, Sequences, FiniteSets, TLC, Json, IOUtils

Batch == JsonDeserialize(IOEnv.TRACE_FILE)

A == INSTANCE AnnotateSeq WITH MaxMols <- 0, MaxRes <- 0, MaxSeqExtra <- 0, system <- <<>>, n <- 0, out <- <<>>
H == INSTANCE HelixRewrite WITH Alphabet <- {}, MaxLen <- 0, str <- <<>>, out <- <<>>

VARIABLES tid, verdict
vars == <<tid, verdict>>

JudgeSeq(e) ==
  LET d == A!AnnotateDecl(e.system, e.n)
      o == A!AnnotateOp(e.system, e.n)
  IN IF d # o THEN "operational-differs-from-declarative"
     ELSE IF d.err # e.err THEN (IF d.err THEN "mismatch-not-rejected" ELSE "valid-sequence-rejected")
     ELSE IF d.err THEN (IF \A i \in DOMAIN e.ann : \A r \in DOMAIN e.ann[i] : e.ann[i][r] = 0 THEN "ok" ELSE "error-but-annotated")
     ELSE IF d.val = e.ann THEN "ok"
     ELSE IF \E i \in DOMAIN e.system : ~e.system[i].sel /\ e.ann[i] # d.val[i] THEN "unselected-molecule-touched"
     ELSE "element-on-wrong-residue"

JudgeHelix(e) ==
  LET d == H!ConvertRuns(e.in)
  IN IF H!ConvertRewrite(e.in) # d THEN "rewrite-differs-from-runs"
     ELSE IF Len(e.out) # Len(e.in) THEN "length-not-preserved"
     ELSE IF e.out = d THEN "ok"
     ELSE IF \E i \in DOMAIN e.in : ~H!IsH(e.in, i) /\ e.out[i] # d[i] THEN "non-helix-class-not-by-table"
     ELSE "helix-run-rule-violated"

Init == tid \in 1..Len(Batch) /\ verdict = "pending"
Eval == /\ verdict = "pending"
        /\ verdict' = IF Batch[tid].kind = "seq" THEN JudgeSeq(Batch[tid]) ELSE JudgeHelix(Batch[tid])
        /\ UNCHANGED tid
Spec == Init /\ [][Eval]_vars
=============================================================================
