--------------------------- MODULE Trace_Annotate ---------------------------
(* Batch validation of recorded runs of the real AnnotateResidues.run_system ("seq" events) and
   convert_dssp_to_martini ("helix" events).
   seq event   : [kind, system : Seq([sel, nres]), n, err : BOOLEAN, ann : Seq(Seq(Int))]   (0 = attribute absent)
   helix event : [kind, in : Seq(char), out : Seq(char)]
   file event  : [kind, lines : Seq(Seq(char)), err : BOOLEAN, out : Seq(char)]        one run of the real read_dssp2
   dssp event  : one run of the real AnnotateDSSP + AnnotateMartiniSecondaryStructures (library or `martinize2 -dssp <exe>`)
                 with a scripted DSSP executable:
                 [kind, mols : Seq([protein, haspos, nres, natoms]), plan : Seq([status, lines]),  what the executable answers
                  err, ncalls, seen : Seq([natoms, nres]) (the PDB files the executable was given),
                  aa, cg : Seq(Seq(char))  per molecule per residue aasecstruct / cgsecstruct ("-" absent, "?" not uniform),
                  hasbeads, beads : cgsecstruct of the coarse-grained beads per molecule per residue,
                  hdr : the secondary-structure line of the ITP header, <<"-">> when martinize2 wrote none,
                  saved : Seq(Seq(Seq(char))) the DSSP outputs martinize2 saved (-dssp writes chain_X.ssd), <<>> if none]
   cli event   : one run of `martinize2 -ss <seq>` / `-collagen`:
                 [kind, mode : "ss" | "collagen", system : Seq([sel, nres]), seq : Seq(char), err, aa, cg, beads, hdr]    *)
EXTENDS Integers, Sequences, FiniteSets, TLC, Json, IOUtils

Batch == JsonDeserialize(IOEnv.TRACE_FILE)

A == INSTANCE AnnotateSeq WITH MaxMols <- 0, MaxRes <- 0, MaxSeqExtra <- 0, system <- <<>>, n <- 0, out <- <<>>
H == INSTANCE HelixRewrite WITH Alphabet <- {}, MaxLen <- 0, str <- <<>>, out <- <<>>

R == INSTANCE DsspRoute WITH MaxMols <- 0, MaxRes <- 0, Shapes <- {}, mols <- <<>>, shapes <- <<>>, out <- <<>>

VARIABLES tid, verdict
vars == <<tid, verdict>>

JudgeSeq(e) ==
  LET d == A!AnnotateDecl(e.system, e.n)
      o == A!AnnotateOp(e.system, e.n)
  IN IF d # o THEN "operational-differs-from-declarative"
     ELSE IF d.err # e.err THEN (IF d.err THEN "mismatch-not-rejected" ELSE "valid-sequence-rejected")
     ELSE IF d.err THEN (IF \A i \in DOMAIN e.ann : \A r \in DOMAIN e.ann[i] : e.ann[i][r] = 0 THEN "ok" ELSE "error-but-annotated")
     ELSE IF d.val = e.ann THEN "ok"
     ELSE IF \E i \in DOMAIN e.system : ~e.system[i].sel /\ e.ann[i] # d.val[i] THEN "unselected-molecule-touched"
     ELSE "element-on-wrong-residue"

JudgeHelix(e) ==
  LET d == H!ConvertRuns(e.in)
  IN IF H!ConvertRewrite(e.in) # d THEN "rewrite-differs-from-runs"
     ELSE IF Len(e.out) # Len(e.in) THEN "length-not-preserved"
     ELSE IF e.out = d THEN "ok"
     ELSE IF \E i \in DOMAIN e.in : ~H!IsH(e.in, i) /\ e.out[i] # d[i] THEN "non-helix-class-not-by-table"
     ELSE "helix-run-rule-violated"

JudgeFile(e) ==
  IF R!Unspecified(e.lines) THEN "unspecified-input-generated"
  ELSE LET d == R!ReadDecl(e.lines)
       IN IF R!ReadOp(e.lines) # d THEN "operational-differs-from-declarative"
          ELSE IF d.err # e.err THEN (IF d.err THEN "malformed-output-accepted" ELSE "wellformed-output-rejected")
          ELSE IF d.err THEN "ok"
          ELSE IF Len(d.val) # Len(e.out) THEN "residue-count-differs"
          ELSE IF d.val # e.out THEN "class-differs" ELSE "ok"

Untouched(s) == \A r \in DOMAIN s : s[r] = "-"
HeaderOk(hdr, aa, sel) ==      \* judged only when martinize2 wrote the line: classes of the selected molecules in system order
  hdr = <<"-">> \/ hdr = R!Flat([i \in DOMAIN aa |-> IF sel[i] THEN aa[i] ELSE <<>>])

JudgeDssp(e) ==
  IF R!UnspecifiedRoute(e.mols, e.plan) THEN "unspecified-input-generated"
  ELSE LET x == R!Route(e.mols, e.plan)
           C == R!Callers(e.mols)
       IN IF (x.errAt # 0) # e.err THEN (IF e.err THEN "usable-dssp-output-rejected" ELSE "unusable-dssp-output-not-rejected")
          ELSE IF \E i \in DOMAIN e.mols : ~R!IsCaller(e.mols[i]) /\ ~(Untouched(e.aa[i]) /\ Untouched(e.cg[i])) THEN "unselected-molecule-touched"
          ELSE IF x.errAt # 0
               THEN (IF ~Untouched(e.aa[x.errAt]) THEN "error-but-annotated"
                     ELSE IF \E i \in DOMAIN e.mols : ~Untouched(e.aa[i]) /\ e.aa[i] # x.aa[i] THEN "class-on-wrong-residue"
                     ELSE "ok")
          ELSE IF e.ncalls # Len(C) THEN "dssp-not-run-once-per-protein"
          ELSE IF \E j \in DOMAIN C : e.seen[j] # [natoms |-> e.mols[C[j]].natoms, nres |-> e.mols[C[j]].nres] THEN "dssp-input-is-not-the-molecule"
          ELSE IF e.aa # x.aa THEN "class-on-wrong-residue"
          ELSE IF e.cg # x.cg THEN "martini-translation-differs"
          ELSE IF e.hasbeads /\ e.beads # x.cg THEN "beads-carry-other-classes"
          ELSE IF ~HeaderOk(e.hdr, x.aa, [i \in DOMAIN e.mols |-> e.mols[i].protein]) THEN "header-differs"
          ELSE IF e.saved # <<>> /\ e.saved # [j \in DOMAIN C |-> e.plan[j].lines] THEN "saved-dssp-output-differs"
          ELSE "ok"

JudgeCli(e) ==
  LET d   == A!AnnotateDecl(e.system, Len(e.seq))
      n   == [i \in DOMAIN e.system |-> e.system[i].nres]
      aa  == [i \in DOMAIN e.system |-> [r \in 1..n[i] |-> IF d.val[i][r] = 0 THEN "-" ELSE e.seq[d.val[i][r]]]]
      cg  == [i \in DOMAIN e.system |-> IF e.system[i].sel THEN H!ConvertRuns(aa[i]) ELSE aa[i]]
      sel == [i \in DOMAIN e.system |-> e.system[i].sel]
  IN IF A!AnnotateOp(e.system, Len(e.seq)) # d THEN "operational-differs-from-declarative"
     ELSE IF d.err # e.err THEN (IF d.err THEN "mismatch-not-rejected" ELSE "valid-sequence-rejected")
     ELSE IF d.err THEN "ok"
     ELSE IF e.mode = "ss"
          THEN (IF e.aa # aa THEN (IF \E i \in DOMAIN e.system : ~sel[i] /\ e.aa[i] # aa[i] THEN "unselected-molecule-touched" ELSE "element-on-wrong-residue")
                ELSE IF e.cg # cg THEN "martini-translation-differs"
                ELSE IF e.beads # cg THEN "beads-carry-other-classes"
                ELSE IF ~HeaderOk(e.hdr, aa, sel) THEN "header-differs" ELSE "ok")
     ELSE (IF \E i \in DOMAIN e.system : ~Untouched(e.aa[i]) THEN "collagen-sets-dssp-classes"        \* -collagen: class F straight onto cgsecstruct
           ELSE IF e.cg # aa THEN (IF \E i \in DOMAIN e.system : ~sel[i] /\ e.cg[i] # aa[i] THEN "unselected-molecule-touched" ELSE "element-on-wrong-residue")
           ELSE IF e.beads # aa THEN "beads-carry-other-classes" ELSE "ok")

Judge(e) == CASE e.kind = "seq" -> JudgeSeq(e)
              [] e.kind = "helix" -> JudgeHelix(e)
              [] e.kind = "file" -> JudgeFile(e)
              [] e.kind = "dssp" -> JudgeDssp(e)
              [] e.kind = "cli" -> JudgeCli(e)

Init == tid \in 1..Len(Batch) /\ verdict = "pending"
Eval == /\ verdict = "pending"
        /\ verdict' = Judge(Batch[tid])
        /\ UNCHANGED tid
Spec == Init /\ [][Eval]_vars
=============================================================================
