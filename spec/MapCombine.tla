------------------------------ MODULE MapCombine ------------------------------
(* Several -map-dir (and the shipped mapping directory before them) on the martinize2 command line: the mappings in effect
   are the three-level union (origin force field, destination force field, molecule); for a key present in several
   directories the LAST directory given wins; a key of an earlier directory that no later directory redefines stays.
     Keys  : the (destination, molecule) keys the user directories may define (origin fixed)
     d     : what each of the NDirs directories defines
     out   : for every key, which directory's mapping is in effect (0 = the shipped one) *)
EXTENDS Integers, Sequences, FiniteSets, TLC

CONSTANTS Keys, NDirs

Winner(dd, k) == LET S == {i \in 1..NDirs : k \in dd[i]} IN IF S = {} THEN 0 ELSE CHOOSE i \in S : \A j \in S : j <= i

(* operational: directories combined one after the other into the table *)
RECURSIVE Fold(_, _, _)
Fold(dd, i, acc) == IF i > NDirs THEN acc ELSE Fold(dd, i + 1, [k \in Keys |-> IF k \in dd[i] THEN i ELSE acc[k]])
TableOp(dd) == Fold(dd, 1, [k \in Keys |-> 0])

VARIABLES d, out
vars == <<d, out>>
Init == d \in [1..NDirs -> SUBSET Keys] /\ out = [k \in Keys |-> Winner(d, k)]
Next == UNCHANGED vars
Spec == Init /\ [][Next]_vars
OpIsDecl == TableOp(d) = out
NothingLost == \A k \in Keys : (\E i \in 1..NDirs : k \in d[i]) => out[k] # 0
=============================================================================
