------------------------------- MODULE ItpFile -------------------------------
(* The content of GROMACS `.itp` files as read by vermouth.gmx.itp_read.read_itp into a force field, beyond the pragma
   state that ItpPragma models on its own: molecule types (dictionary by name), atoms, every interaction section with
   its atom columns, atom references, #ifdef / #ifndef guards as interaction metadata, #define, macros.

   Abstract syntax (the harness renders it to text; nothing in it is computed by the reader):
     Tok  == [isint : BOOLEAN, v : Int, s : STRING]         a column: a string of digits (v) or any other text (s)
     Atom == [idx, atype, resid, resname, name, cg, charge, mass]   charge / mass : text or "-" (column absent)
     Line == [k, h, name, n, a, toks, tag]
        k = "hdr"     section header [ h ]
        k = "mol"     <name> <n>                               (the line under [ moleculetype ])
        k = "atom"    a.idx a.atype a.resid a.resname a.name a.cg [a.charge [a.mass]]
        k = "inter"   toks
        k = "macro"   <name> <tag>                             (a line under [ macros ])
        k \in {"ifdef", "ifndef"}  #ifdef tag;  "else", "endif", "define" (#define tag), "include"

   What a file declares:
   * [ moleculetype ] starts a new block; its line gives name and nrexcl; blocks are stored by name (first
     occurrence fixes the position, a later block of the same name replaces the earlier one).
   * [ atoms ]: atoms are numbered consecutively from 1 (GROMACS requires it); node key = index - 1; attributes
     index, atype, resid, resname, atomname, charge_group and, when written, charge and mass (mass only after charge).
     An index below 1 or used twice is an error.  Atom names need not be unique.
   * interaction sections: AtomCols gives the columns that are atoms (fixed columns, or slices for exclusions,
     virtual_sites4, virtual_sitesn, dihedral_restraints, angle_restraints); the other columns are the parameters, kept
     as text in order.  An atom column must be the index of an atom of THIS molecule type declared above, otherwise
     the file is rejected (reference to an undefined atom; also names, prefixed names, 0).  Too few columns for a fixed
     column is an error.  [ impropers ] has no column table: its lines are errors (improper dihedrals are lines of
     [ dihedrals ] and stay there).
   * every interaction read inside #ifdef X / #ifndef X (after #else: the opposite) carries {ifdef: X} / {ifndef: X};
     #define lines are ignored; nesting, dangling #else / #endif, #include and an unclosed guard are errors.
   * macros ($name) defined under [ macros ] are substituted in content lines.
   * content under any other section (also [ atoms ] or [ bonds ] outside a molecule type) is an error.
   outcome "unspecified": outside the documented grammar, not compared (atoms not numbered consecutively, a molecule
   type without name line or with two, a line of the wrong shape that happens to parse, an unknown section without
   content, more than 8 atom columns). *)
EXTENDS Integers, Sequences, FiniteSets, TLC, Json, IOUtils

CONSTANTS MacroRef, Menu, MaxExtra, Skeletons, EditMenu, NEdits, TraceFile,
          StaleNames      \* FALSE: the rule above.  TRUE: the reader as it was found (before fix 84b9eb5 in /repo) - atom
                          \* references are checked against the atom list remembered from the last [ atoms ] section that
                          \* was closed, even one of an earlier molecule type (spec mutant used by the self-test)

-----------------------------------------------------------------------------
NOATOM == [idx |-> 0, atype |-> "", resid |-> 0, resname |-> "", name |-> "", cg |-> 0, charge |-> "-", mass |-> "-"]
I(v) == [isint |-> TRUE, v |-> v, s |-> ""]
S(s) == [isint |-> FALSE, v |-> 0, s |-> s]
Hdr(h) == [k |-> "hdr", h |-> h, name |-> "", n |-> 0, a |-> NOATOM, toks |-> <<>>, tag |-> ""]

InterSections == {"bonds", "angles", "dihedrals", "constraints", "pairs", "pairs_nb", "exclusions", "position_restraints",
                  "virtual_sites1", "virtual_sites2", "virtual_sites3", "virtual_sites4", "virtual_sitesn", "settles",
                  "distance_restraints", "dihedral_restraints", "orientation_restraints", "angle_restraints",
                  "angle_restraints_z"}
Known == {<<"macros">>, <<"moleculetype">>} \cup {<<"moleculetype", s>> : s \in InterSections \cup {"atoms", "impropers"}}
TopLevel == {"macros", "moleculetype"}

\* the columns (1-based) of a line with n columns that are atoms; SHORT when a fixed column is missing
FixedCols == [bonds |-> 2, angles |-> 3, dihedrals |-> 4, constraints |-> 2, pairs |-> 2, pairs_nb |-> 2,
              position_restraints |-> 1, virtual_sites1 |-> 2, virtual_sites2 |-> 3, virtual_sites3 |-> 4, settles |-> 1,
              distance_restraints |-> 2, orientation_restraints |-> 2, angle_restraints_z |-> 2]
Min(a, b) == IF a < b THEN a ELSE b
SHORT == [short |-> TRUE, cols |-> <<>>]
Cols(c) == [short |-> FALSE, cols |-> c]
AtomCols(sec, n) ==
  IF sec \in DOMAIN FixedCols THEN (IF n < FixedCols[sec] THEN SHORT ELSE Cols([i \in 1..FixedCols[sec] |-> i]))
  ELSE IF sec = "exclusions" THEN Cols([i \in 1..n |-> i])
  ELSE IF sec = "virtual_sites4" THEN Cols([i \in 1..Min(5, n) |-> i])
  ELSE IF sec \in {"dihedral_restraints", "angle_restraints"} THEN Cols([i \in 1..Min(4, n) |-> i])
  ELSE IF sec = "virtual_sitesn" THEN Cols([i \in 1..(IF n >= 3 THEN n - 1 ELSE 1) |-> IF i = 1 THEN 1 ELSE i + 1])
  ELSE SHORT                                                    \* impropers: no table
Range(s) == {s[i] : i \in DOMAIN s}
InsertAt(f, i, l) == SubSeq(f, 1, i) \o <<l>> \o SubSeq(f, i + 1, Len(f))
DeleteAt(f, i) == SubSeq(f, 1, i - 1) \o SubSeq(f, i + 1, Len(f))

\* one interaction line against a molecule type with `natoms` referable atoms:
\*   [err |-> TRUE] | [err |-> FALSE, atoms : Seq(atom index), params : Seq(Tok)]
SplitLine(sec, toks, natoms) ==
  LET ac == AtomCols(sec, Len(toks))
      cols == ac.cols
  IN
  IF ac.short THEN [err |-> TRUE]
  ELSE IF \E i \in DOMAIN cols : ~toks[cols[i]].isint \/ toks[cols[i]].v < 1 \/ toks[cols[i]].v > natoms THEN [err |-> TRUE]
  ELSE [err |-> FALSE, atoms |-> [i \in DOMAIN cols |-> toks[cols[i]].v],
        params |-> SelectSeq([i \in DOMAIN toks |-> [p |-> i, t |-> toks[i]]], LAMBDA x : x.p \notin Range(cols))]
Params(r) == [i \in DOMAIN r.params |-> r.params[i].t]

-----------------------------------------------------------------------------
NOGUARD == [cond |-> "none", tag |-> ""]
NOBLOCK == [name |-> "", nrexcl |-> -1, named |-> 0, atoms |-> <<>>, inter |-> <<>>, live |-> FALSE]
NewBlock == [NOBLOCK EXCEPT !.live = TRUE]

S0 == [sec |-> <<>>, blocks |-> <<>>, cur |-> NOBLOCK, remembered |-> 0, guard |-> NOGUARD, macros |-> {},
       outcome |-> "reading", n |-> 0]
Err(s) == [s EXCEPT !.outcome = "error"]
Unspec(s) == [s EXCEPT !.outcome = "unspecified"]

RemoveAt(q, i) == [j \in 1..(Len(q) - 1) |-> IF j < i THEN q[j] ELSE q[j + 1]]
RECURSIVE Red(_, _)
Red(sec, ended) == IF sec \in Known \/ Len(sec) <= 1 THEN [sec |-> sec, ended |-> ended]
                   ELSE Red(RemoveAt(sec, Len(sec) - 1), Append(ended, sec[Len(sec) - 1]))

DictPut(seq, b) == IF \E i \in DOMAIN seq : seq[i].name = b.name
                   THEN [i \in DOMAIN seq |-> IF seq[i].name = b.name THEN b ELSE seq[i]]
                   ELSE Append(seq, b)
Dead(sec) == sec # <<>> /\ sec \notin Known

\* what is stored whenever a section ends: the block being read (under its name)
Store(s) == IF ~s.cur.live THEN s
            ELSE IF s.cur.named # 1 THEN Unspec(s)
            ELSE [s EXCEPT !.blocks = DictPut(@, s.cur)]

Header(s, h) ==
  LET r == IF h \in TopLevel THEN [sec |-> <<h>>, ended |-> <<>>] ELSE Red(Append(s.sec, h), <<>>)
      s1 == IF s.sec # <<>> THEN Store(s) ELSE s
      s2 == [s1 EXCEPT !.sec = r.sec,
                       !.remembered = IF s.sec # <<>> /\ "atoms" \in Range(r.ended) THEN Len(s.cur.atoms) ELSE @]
  IN IF Dead(s.sec) THEN Unspec(s)
     ELSE IF s1.outcome # "reading" THEN s1
     ELSE IF h = "moleculetype" THEN [s2 EXCEPT !.cur = NewBlock] ELSE s2

Finish(s) ==
  IF s.outcome # "reading" THEN s
  ELSE IF s.guard # NOGUARD THEN Err(s)
  ELSE IF Dead(s.sec) THEN Unspec(s)
  ELSE LET s1 == IF s.sec # <<>> THEN Store(s) ELSE s
       IN IF s1.outcome # "reading" THEN s1 ELSE [s1 EXCEPT !.outcome = "loaded", !.sec = <<>>, !.macros = {}]

Flip(c) == IF c = "ifdef" THEN "ifndef" ELSE "ifdef"
Pragma(s, l) ==
  CASE l.k = "define" -> s
    [] l.k = "include" -> Err(s)
    [] l.k = "endif" -> IF s.guard = NOGUARD THEN Err(s) ELSE [s EXCEPT !.guard = NOGUARD]
    [] l.k = "else" -> IF s.guard = NOGUARD THEN Err(s) ELSE [s EXCEPT !.guard.cond = Flip(@)]
    [] l.k \in {"ifdef", "ifndef"} -> IF s.guard # NOGUARD THEN Err(s) ELSE [s EXCEPT !.guard = [cond |-> l.k, tag |-> l.tag]]

-----------------------------------------------------------------------------
(* content lines as columns *)
TokensOf(l) ==
  CASE l.k = "inter" -> l.toks
    [] l.k = "mol" -> <<S(l.name), I(l.n)>>
    [] l.k = "macro" -> <<S(l.name), S(l.tag)>>
    [] l.k = "atom" -> <<I(l.a.idx), S(l.a.atype), I(l.a.resid), S(l.a.resname), S(l.a.name), I(l.a.cg)>>
                       \o (IF l.a.charge # "-" THEN <<S(l.a.charge)>> ELSE <<>>) \o (IF l.a.mass # "-" THEN <<S(l.a.mass)>> ELSE <<>>)

MacroNames(m) == {p[1] : p \in m}
MacroVal(m, x) == (CHOOSE p \in m : p[1] = x)[2]
IsRef(x) == x \in DOMAIN MacroRef
Undefined(m, toks) == \E i \in DOMAIN toks : ~toks[i].isint /\ IsRef(toks[i].s) /\ MacroRef[toks[i].s] \notin MacroNames(m)
SubToks(m, toks) == [i \in DOMAIN toks |-> IF ~toks[i].isint /\ IsRef(toks[i].s) THEN S(MacroVal(m, MacroRef[toks[i].s])) ELSE toks[i]]

MolLine(s, l) ==
  IF Len(TokensOf(l)) # 2 THEN Err(s)
  ELSE IF l.k # "mol" THEN Unspec(s)
  ELSE IF s.cur.named # 0 THEN Unspec(s)
  ELSE [s EXCEPT !.cur.name = l.name, !.cur.nrexcl = l.n, !.cur.named = 1]

AtomLine(s, l) ==
  IF Len(TokensOf(l)) < 6 THEN Err(s)
  ELSE IF l.k # "atom" THEN Unspec(s)
  ELSE IF l.a.mass # "-" /\ l.a.charge = "-" THEN Unspec(s)
  ELSE IF l.a.idx < 1 THEN Err(s)
  ELSE IF \E i \in DOMAIN s.cur.atoms : s.cur.atoms[i].idx = l.a.idx THEN Err(s)
  ELSE IF l.a.idx # Len(s.cur.atoms) + 1 THEN Unspec(s)
  ELSE [s EXCEPT !.cur.atoms = Append(@, l.a)]

InterLine(s, sec, toks) ==
  LET natoms == IF StaleNames THEN s.remembered ELSE Len(s.cur.atoms)
      r == SplitLine(sec, toks, natoms)
      new == [sec |-> sec, atoms |-> r.atoms, params |-> Params(r), guard |-> s.guard]
      same == {i \in DOMAIN s.cur.inter : s.cur.inter[i].sec = sec}
      \* interactions are kept per section (sections in order of first use): a section that is reopened continues its list
      at == IF same = {} THEN Len(s.cur.inter) ELSE CHOOSE i \in same : \A j \in same : j <= i
  IN IF r.err THEN Err(s)
     ELSE [s EXCEPT !.cur.inter = InsertAt(@, at, new)]

MacroLine(s, l) ==
  IF Len(TokensOf(l)) # 2 THEN Err(s)
  ELSE IF l.k # "macro" THEN Unspec(s)
  ELSE [s EXCEPT !.macros = {p \in @ : p[1] # l.name} \cup {<<l.name, l.tag>>}]

Content(s, l) ==
  LET toks0 == TokensOf(l) IN
  IF Undefined(s.macros, toks0) THEN Err(s)
  ELSE IF s.sec \notin Known THEN Err(s)
  ELSE IF s.sec = <<"macros">> THEN MacroLine(s, l)
  ELSE IF s.sec = <<"moleculetype">> THEN MolLine(s, l)
  ELSE IF s.sec[2] = "atoms" THEN AtomLine(s, l)
  ELSE InterLine(s, s.sec[2], SubToks(s.macros, toks0))

IsPragma(l) == l.k \in {"ifdef", "ifndef", "else", "endif", "define", "include"}
Step(s0, l) == IF s0.outcome # "reading" THEN s0
               ELSE LET s == [s0 EXCEPT !.n = @ + 1] IN
                    IF l.k = "hdr" THEN Header(s, l.h) ELSE IF IsPragma(l) THEN Pragma(s, l) ELSE Content(s, l)

RECURSIVE FoldFrom(_, _, _)
FoldFrom(s, f, k) == IF k > Len(f) THEN s ELSE FoldFrom(Step(s, f[k]), f, k + 1)
Fold(f) == FoldFrom(S0, f, 1)

-----------------------------------------------------------------------------
(* small edits of skeleton files (as in MappingFile) *)
NOEDIT == <<"none", 0, Hdr("")>>
EditSpecs(f) == {NOEDIT} \cup {<<"ins", i, l>> : i \in 0..Len(f), l \in EditMenu}
                \cup {<<"del", i, Hdr("")>> : i \in 1..Len(f)} \cup {<<"cut", i, Hdr("")>> : i \in 0..Len(f)}
ApplyEdit(f, e) == CASE e[1] = "none" -> f
                     [] e[1] = "ins" -> InsertAt(f, e[2], e[3])
                     [] e[1] = "del" -> DeleteAt(f, e[2])
                     [] e[1] = "cut" -> SubSeq(f, 1, e[2])

-----------------------------------------------------------------------------
(* TLC as judge of shipped files.  The harness' independent line reader gives, per file,
     [blocks : Seq([name, nrexcl, natoms, anames, lines : Seq([sec, toks, cond, tag])]), rejected : BOOLEAN]   (what is written)
     loaded : Seq([name, nrexcl, natoms, inter : Seq([sec, atoms : Seq(Int), params : Seq(STRING), cond, tag])])  (real reader)
   (lines and inter both per section, sections in order of first use) and TLC applies the column table and the
   reference rule line by line. *)
Batch == IF TraceFile = "" THEN <<>> ELSE JsonDeserialize(TraceFile)
TokText(t) == t.s
JudgeBlock(d, g) ==
  IF d.name # g.name \/ d.nrexcl # g.nrexcl \/ d.natoms # g.natoms THEN "block-header-differs"
  ELSE IF d.anames # g.anames THEN "atom-names-differ"
  ELSE IF Len(d.lines) # Len(g.inter) THEN "interaction-count-differs"
  ELSE IF \E i \in DOMAIN d.lines : SplitLine(d.lines[i].sec, d.lines[i].toks, d.natoms).err THEN "declared-line-is-malformed"
  ELSE IF \E i \in DOMAIN d.lines :
            LET r == SplitLine(d.lines[i].sec, d.lines[i].toks, d.natoms) IN
            \/ g.inter[i].sec # d.lines[i].sec \/ g.inter[i].atoms # r.atoms
            \/ g.inter[i].nparams # Len(r.params)
            \/ \E j \in DOMAIN r.params : ~r.params[j].t.isint /\ r.params[j].t.s # g.inter[i].params[j]
            \/ \E j \in DOMAIN r.params : r.params[j].t.isint /\ r.params[j].t.v # g.inter[i].iparams[j]
            \/ g.inter[i].cond # d.lines[i].cond \/ g.inter[i].tag # d.lines[i].tag
       THEN "interaction-differs"
  ELSE "ok"
JudgeFile(e) ==
  IF e.rejected THEN (IF e.outcome = "error" THEN "ok" ELSE "malformed-file-loaded")
  ELSE IF e.outcome # "loaded" THEN "well-formed-file-rejected"
  ELSE IF Len(e.blocks) # Len(e.loaded) THEN "block-count-differs"
  ELSE LET bad == {i \in DOMAIN e.blocks : JudgeBlock(e.blocks[i], e.loaded[i]) # "ok"} IN
       IF bad = {} THEN "ok" ELSE JudgeBlock(e.blocks[CHOOSE i \in bad : TRUE], e.loaded[CHOOSE i \in bad : TRUE])

-----------------------------------------------------------------------------
VARIABLES file, st, extra, phase, tid, verdict
vars == <<file, st, extra, phase, tid, verdict>>

Init == \/ /\ \E f \in Skeletons : \E e1 \in (IF NEdits >= 1 THEN EditSpecs(f) ELSE {NOEDIT}) :
                \E e2 \in (IF NEdits >= 2 THEN EditSpecs(ApplyEdit(f, e1)) ELSE {NOEDIT}) : file = ApplyEdit(ApplyEdit(f, e1), e2)
           /\ st = S0 /\ extra = 0 /\ phase = "start" /\ tid = 0 /\ verdict = ""
        \/ /\ tid \in DOMAIN Batch /\ verdict = "pending" /\ phase = "judge" /\ file = <<>> /\ st = S0 /\ extra = 0
Begin == /\ phase = "start"
         /\ st' = Fold(file) /\ phase' = "lines" /\ UNCHANGED <<file, extra, tid, verdict>>
Read(l) == /\ phase = "lines" /\ st.outcome = "reading" /\ extra < MaxExtra
           /\ file' = Append(file, l) /\ st' = Step(st, l) /\ extra' = extra + 1 /\ UNCHANGED <<phase, tid, verdict>>
EOF == /\ phase = "lines" /\ st.outcome = "reading"
       /\ st' = Finish(st) /\ UNCHANGED <<file, extra, phase, tid, verdict>>
Judge == /\ phase = "judge" /\ verdict = "pending"
         /\ verdict' = JudgeFile(Batch[tid]) /\ UNCHANGED <<file, st, extra, phase, tid>>
Next == Begin \/ (\E l \in Menu : Read(l)) \/ EOF \/ Judge
Spec == Init /\ [][Next]_vars

-----------------------------------------------------------------------------
(* what the file declares, read off the file as a whole *)
MolPos(f) == SelectSeq([i \in DOMAIN f |-> i], LAMBDA i : f[i].k = "hdr" /\ f[i].h = "moleculetype")
DistinctNames(f) == {f[i].name : i \in {j \in DOMAIN f : f[j].k = "mol"}}
\* every molecule type name written is loaded exactly once; blocks appear in the order in which their names first occur
BlocksExactlyOnce ==
  st.outcome = "loaded" =>
     /\ \A i, j \in DOMAIN st.blocks : i # j => st.blocks[i].name # st.blocks[j].name
     /\ {st.blocks[i].name : i \in DOMAIN st.blocks} = DistinctNames(file)
     /\ \A i, j \in DOMAIN st.blocks : i < j =>
          (CHOOSE p \in DOMAIN file : file[p].k = "mol" /\ file[p].name = st.blocks[i].name /\ \A q \in 1..(p - 1) : ~(file[q].k = "mol" /\ file[q].name = st.blocks[i].name))
          < (CHOOSE p \in DOMAIN file : file[p].k = "mol" /\ file[p].name = st.blocks[j].name /\ \A q \in 1..(p - 1) : ~(file[q].k = "mol" /\ file[q].name = st.blocks[j].name))
\* no interaction of a loaded block refers to an atom the block does not have
NoDanglingReference ==
  st.outcome = "loaded" => \A b \in DOMAIN st.blocks : \A i \in DOMAIN st.blocks[b].inter :
     \A k \in DOMAIN st.blocks[b].inter[i].atoms : st.blocks[b].inter[i].atoms[k] \in 1..Len(st.blocks[b].atoms)
\* atoms are the [ atoms ] lines, numbered 1..n
AtomsConsecutive == st.outcome = "loaded" => \A b \in DOMAIN st.blocks : \A i \in DOMAIN st.blocks[b].atoms : st.blocks[b].atoms[i].idx = i
\* the number of interactions loaded is the number of content lines written in interaction sections
InterLineCount(f) == Cardinality({i \in DOMAIN f : f[i].k \in {"inter", "mol", "atom", "macro"} /\
                        LET hs == {j \in 1..i : f[j].k = "hdr"} IN hs # {} /\ f[CHOOSE j \in hs : \A x \in hs : x <= j].h \in InterSections})
RECURSIVE SumInter(_, _)
SumInter(bs, k) == IF k > Len(bs) THEN 0 ELSE Len(bs[k].inter) + SumInter(bs, k + 1)
\* (a replaced block takes its interactions with it, hence <=; equality when all names differ)
InteractionsCounted ==
  st.outcome = "loaded" => /\ SumInter(st.blocks, 1) <= InterLineCount(file)
                           /\ Len(MolPos(file)) = Len(st.blocks) => SumInter(st.blocks, 1) = InterLineCount(file)
=============================================================================
