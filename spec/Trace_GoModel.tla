---------------------------- MODULE Trace_GoModel ----------------------------
(* Batch validation of recorded runs of the real GoPipeline.run_system (C18).
   Batch[i] = [fam : generator family,
               g   : input as in GoModel (the merged molecule recorded when site creation starts),
               post: [exc : BOOLEAN,
                      atoms  : all particles afterwards, node order, same fields as g.atoms,
                      vs     : Seq([site, from : Seq(index), one : BOOLEAN])  "virtual_sitesn" entries (indices into
                               post.atoms; one = the construction parameters are exactly ['1']),
                      excl   : Seq([a, b]) exclusions of group "Go model exclusion" (indices),
                      others : BOOLEAN  every other interaction is what it was before,
                      decl   : Seq([node : index, sigma, eps : 10^-3])  atom-type declarations added to the system,
                      nb     : Seq([ta, tb : type names, s2 : round((sigma 2^(1/6))^2) in pm^2, eps : 10^-3])]]
   Verdict: [v |-> "ok" or first reason for rejection, cls |-> contact-map residue pairs per class, absent entries]. *)
EXTENDS Integers, Sequences, FiniteSets, TLC, Json, IOUtils

Batch == JsonDeserialize(IOEnv.TRACE_FILE)

GM == INSTANCE GoModel WITH NR <- 0, Spacing <- 0, Seps <- {}, Windows <- {}, XLinks <- {}, inp <- <<>>, out <- {}
GF == INSTANCE GoFiles          \* the real command line: written files, contact-map files, water bias (kinds other than "mem")

VARIABLES tid, verdict
vars == <<tid, verdict>>

(* ------------------------------------------- sites ------------------------------------------- *)
JudgeSites(g, p) ==
  LET n     == Len(g.atoms)
      N     == Len(p.atoms)
      BB    == GM!Backbone(g)
      Sites == (n + 1)..N
      Cons(j) == {k \in DOMAIN p.vs : p.vs[k].site = j}                      \* constructions of site j
      From(j) == p.vs[CHOOSE k \in Cons(j) : TRUE].from[1]                   \* the particle it is built from
  IN IF N < n \/ SubSeq(p.atoms, 1, n) # g.atoms THEN "existing-particles-changed-or-site-not-placed-after-them"
     ELSE IF N - n # Cardinality(BB) THEN "number-of-new-particles-is-not-number-of-backbone-particles"
     ELSE IF \E j \in Sites : \E i \in 1..n : p.atoms[j].key <= p.atoms[i].key THEN "site-key-not-above-existing-keys"
     ELSE IF \E j, l \in Sites : j # l /\ p.atoms[j].key = p.atoms[l].key THEN "site-keys-repeat"
     ELSE IF \E k \in DOMAIN p.vs : p.vs[k].site \notin Sites THEN "construction-for-a-particle-that-is-not-a-new-site"
     ELSE IF \E j \in Sites : Cardinality(Cons(j)) # 1 THEN "site-without-exactly-one-construction"
     ELSE IF \E k \in DOMAIN p.vs : Len(p.vs[k].from) # 1 \/ ~p.vs[k].one THEN "site-not-constructed-from-one-particle-with-weight-1"
     ELSE IF \E j \in Sites : From(j) \notin BB THEN "site-not-constructed-from-a-backbone-particle"
     ELSE IF \E j, l \in Sites : j # l /\ From(j) = From(l) THEN "backbone-particle-with-two-sites"
     ELSE IF \E j \in Sites : LET b == g.atoms[From(j)] s == p.atoms[j] IN
                                 s.resid # b.resid \/ s.old # b.old \/ s.resname # b.resname \/ s.chain # b.chain
          THEN "site-does-not-carry-the-residue-identity"
     ELSE IF \E j \in Sites : p.atoms[j].pos # g.atoms[From(j)].pos THEN "site-not-co-located-with-its-backbone-particle"
     ELSE IF \E j \in Sites : p.atoms[j].mass # 0 \/ p.atoms[j].charge # 0 THEN "site-mass-or-charge-not-zero"
     ELSE IF \E j \in Sites : p.atoms[j].name # g.vs THEN "site-particle-name-not-as-requested"
     ELSE IF \E j \in Sites : p.atoms[j].atype # GM!SiteType(g, From(j)) THEN "site-type-not-named-after-molecule-and-residue"
     ELSE IF \E j \in Sites : \E l \in 1..N : l # j /\ p.atoms[l].atype = p.atoms[j].atype THEN "site-type-not-unique"
     ELSE IF \E j \in Sites : Cardinality({k \in DOMAIN p.decl : p.decl[k].node = j}) # 1
             \/ \E k \in DOMAIN p.decl : p.decl[k].node \notin Sites \/ p.decl[k].sigma # 0 \/ p.decl[k].eps # 0
          THEN "site-type-not-declared-exactly-once-with-zero-parameters"
     ELSE "ok"

(* ------------------------------------------ contacts ----------------------------------------- *)
\* residue (representative) whose site carries type t, or 0
ResOfType(g, cx, t) ==
  LET S == {r \in cx.R : GM!SiteType(g, cx.bbof[r]) = t}
  IN IF S = {} THEN 0 ELSE CHOOSE r \in S : TRUE
NormP(x, y) == <<GM!Min2(x, y), GM!Max2(x, y)>>

JudgeContacts(g, p) ==
  LET cx   == GM!Ctx(g)
      exp  == GM!ExpectedDecl(g)
      RA(k) == ResOfType(g, cx, p.nb[k].ta)
      RB(k) == ResOfType(g, cx, p.nb[k].tb)
      got  == {NormP(RA(k), RB(k)) : k \in DOMAIN p.nb}
      xgot == {NormP(p.excl[k].a, p.excl[k].b) : k \in DOMAIN p.excl}
      xexp == {NormP(cx.bbof[q[1]], cx.bbof[q[2]]) : q \in exp}
  IN IF \E k \in DOMAIN p.nb : RA(k) = 0 \/ RB(k) = 0 THEN "pair-potential-between-types-that-are-not-site-types"
     ELSE IF \E k \in DOMAIN p.nb : RA(k) = RB(k) THEN "pair-potential-of-a-residue-with-itself"
     ELSE IF \E k, l \in DOMAIN p.nb : k # l /\ NormP(RA(k), RB(k)) = NormP(RA(l), RB(l)) THEN "pair-potential-repeated"
     ELSE IF got \ exp # {} THEN
            LET q == CHOOSE x \in got \ exp : TRUE
                F == GM!Failing(g, cx, q[1], q[2])
                c == CHOOSE x \in F : \A y \in F : x <= y
            IN "pair-potential-on-contact-failing-" \o GM!Crit[c]
     ELSE IF exp \ got # {} THEN "qualifying-contact-without-pair-potential"
     ELSE IF \E k \in DOMAIN p.nb : GM!Abs(p.nb[k].s2 - GM!BBDist2(g, cx, RA(k), RB(k))) > 1 THEN "sigma-is-not-distance-over-2^(1/6)"
     ELSE IF \E k \in DOMAIN p.nb : p.nb[k].eps # g.eps THEN "depth-is-not-the-requested-one"
     ELSE IF \E k, l \in DOMAIN p.excl : k # l /\ NormP(p.excl[k].a, p.excl[k].b) = NormP(p.excl[l].a, p.excl[l].b)
          THEN "exclusion-repeated"
     ELSE IF xgot # xexp THEN "exclusions-are-not-the-backbone-pairs-of-the-contacts"
     ELSE IF ~p.others THEN "other-interactions-changed"
     ELSE "ok"

Judge(e) ==
  IF e.post.exc THEN "exception"
  ELSE LET s == JudgeSites(e.g, e.post) IN IF s # "ok" THEN s ELSE JudgeContacts(e.g, e.post)

Classes(e) ==
  LET g  == e.g
      cx == GM!Ctx(g)
      P  == GM!Mentioned(g, cx)
      cl == [q \in P |-> GM!ClassOf(g, cx, q[1], q[2])]
      N(c) == Cardinality({q \in P : cl[q] = c})
  IN [pair |-> N("pair"), sym |-> N("sym"), sep |-> N("sep"), lo |-> N("lo"), up |-> N("up"), multi |-> N("multi"),
      absent |-> GM!AbsentEntries(g, cx), sites |-> Cardinality(GM!Backbone(g))]

NoClasses == [pair |-> 0, sym |-> 0, sep |-> 0, lo |-> 0, up |-> 0, multi |-> 0, absent |-> 0, sites |-> 0]

(* ------------------------------------------ events of the real command line ------------------------------------------
   kind "mem"     a run of GoPipeline.run_system on a generated molecule (exact integer geometry)            -> Judge
        "climem"  the same observation inside a run of bin/martinize2 (real structure, geometry to e.tol)    -> sites as above,
                  contacts with the tolerance band of GoFiles
        "clifile" the files that run wrote                                                                    -> GF!JudgeFiles
        "rt"      a generated contact map against itself after a round trip through the file format           -> GF!JudgeRoundTrip
        "same"    two runs that must have written the same Go model                                           -> GF!JudgeSame
        "wb"      a run without and one with water-bias / disordered-region options                           -> GF!JudgeWater  *)
JudgeCliMem(e) ==
  IF e.post.exc THEN "exception"
  ELSE LET s == JudgeSites(e.g, e.post)
       IN IF s # "ok" THEN s
          ELSE LET b == GF!JudgeBand(e.g, GM!Ctx(e.g), e.post.nb, e.post.excl, e.tol)
               IN IF b # "ok" THEN b ELSE IF ~e.post.others THEN "other-interactions-changed" ELSE "ok"

JudgeAny(e) ==
  CASE e.kind = "mem"     -> Judge(e)
    [] e.kind = "climem"  -> JudgeCliMem(e)
    [] e.kind = "clifile" -> GF!JudgeFiles(e)
    [] e.kind = "rt"      -> GF!JudgeRoundTrip(e)
    [] e.kind = "same"    -> GF!JudgeSame(e)
    [] e.kind = "wb"      -> GF!JudgeWater(e)

\* facts for the vacuity report; only computed for accepted events (a rejected recording may be malformed)
FactsAny(e, v) ==
  CASE e.kind = "mem"     -> Classes(e)
    [] e.kind = "climem"  -> IF v = "ok" THEN GF!BandClasses(e.g, GM!Ctx(e.g), e.tol) ELSE NoClasses
    [] e.kind = "clifile" -> IF v = "ok" THEN GF!FileClasses(e) ELSE NoClasses
    [] e.kind = "rt"      -> IF v = "ok" THEN GF!RoundTripFacts(e) ELSE NoClasses
    [] e.kind = "same"    -> NoClasses
    [] e.kind = "wb"      -> IF v = "ok" THEN GF!WaterFacts(e) ELSE NoClasses

Init == tid \in 1..Len(Batch) /\ verdict = [v |-> "pending", cls |-> NoClasses]
Eval == /\ verdict.v = "pending"
        /\ LET v == JudgeAny(Batch[tid]) IN verdict' = [v |-> v, cls |-> FactsAny(Batch[tid], v)]
        /\ UNCHANGED tid
Spec == Init /\ [][Eval]_vars
=============================================================================
