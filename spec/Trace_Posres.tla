---------------------------- MODULE Trace_Posres ----------------------------
(* TLC judges the molecule-type files written by real `martinize2 -p <mode> [-pf k]` command lines (harness/extra_posres.py)
   with Posres!JudgeItp.  One event per written molecule type; shape described at JudgeItp. *)
EXTENDS Naturals, Sequences, Json, IOUtils
CONSTANTS MaxAtoms, Names
VARIABLES atoms, mode, pc, restraints, define
P == INSTANCE Posres
Batch == JsonDeserialize(IOEnv.TRACE_FILE)
VARIABLES tid, verdict
tvars == <<tid, verdict, atoms, mode, pc, restraints, define>>
TInit == /\ tid \in 1..Len(Batch) /\ verdict = "pending"
         /\ atoms = <<>> /\ mode = "none" /\ pc = 1 /\ restraints = <<>> /\ define = FALSE
TEval == /\ verdict = "pending"
         /\ verdict' = P!JudgeItp(Batch[tid])
         /\ UNCHANGED <<tid, atoms, mode, pc, restraints, define>>
TSpec == TInit /\ [][TEval]_tvars
=============================================================================
