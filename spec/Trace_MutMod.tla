---------------------------- MODULE Trace_MutMod ----------------------------
(* TLC judges recorded calls of the real parse_residue_spec and AnnotateMutMod.run_system.
   parse : [kind |-> "parse", s : Seq(char), chain, resname, resid, err : BOOLEAN]     (chain = <<"?nochain">> when absent)
   law   : [kind |-> "law", chain, resname, resid]  - TLC checks ParseOp(Format(t)) = t for a well-formed triple
   run   : [kind |-> "run", system, reqs : Seq([spec, target, kind, known]), err : BOOLEAN, reported : Seq(<<spec, kind, target>>),
            mods / muts : Seq(Seq(Seq(target)))  per molecule, per residue  (all atoms of a residue agree, else << <<"!">> >>) ]  (MutMod!JudgeRunS)
   cli   : a real bin/martinize2 run, the system recorded right after AnnotateMutMod (MutMod!JudgeCli)
   itp   : the molecule types that run wrote (MutMod!JudgeItp)  *)
EXTENDS MutMod, Json, IOUtils
Batch == JsonDeserialize(IOEnv.TRACE_FILE)
VARIABLES tid, verdict, note
vars == <<tid, verdict, note>>

JudgeParse(e) ==
  LET p == ParseOp(e.s) IN
  IF p.bad THEN "ok"        \* "#" followed by something that is not /[0-9]+/ is outside the documented grammar: not judged
  ELSE IF e.err THEN "valid-specification-rejected"
  ELSE IF p.chain # e.chain THEN "chain-differs"
  ELSE IF p.resname # e.resname THEN "resname-differs"
  ELSE IF (p.resid = <<>>) # (e.resid = -1) THEN "resid-presence-differs"
  ELSE IF p.resid # <<>> /\ ToInt(p.resid) # e.resid THEN "resid-differs"
  ELSE "ok"

JudgeLaw(e) ==
  LET p == ParseOp(Format(e.chain, e.resname, e.resid)) IN
  IF p.bad \/ p.chain # e.chain \/ p.resname # e.resname \/ p.resid # e.resid THEN "parse-of-format-is-not-identity" ELSE "ok"

Init == tid \in 1..Len(Batch) /\ verdict = "pending" /\ note = "-"
Eval == /\ verdict = "pending"
        /\ LET e == Batch[tid] IN
           /\ verdict' = IF e.kind = "parse" THEN JudgeParse(e) ELSE IF e.kind = "law" THEN JudgeLaw(e)
                         ELSE IF e.kind = "cli" THEN JudgeCli(e) ELSE IF e.kind = "itp" THEN JudgeItp(e) ELSE JudgeRunS(e)
           /\ note' = IF e.kind = "cli" THEN NoteCli(e) ELSE IF e.kind = "run" THEN NoteRunS(e) ELSE "-"
        /\ UNCHANGED tid
Spec == Init /\ [][Eval]_vars
=============================================================================
