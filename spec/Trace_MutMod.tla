---------------------------- MODULE Trace_MutMod ----------------------------
(* TLC judges recorded calls of the real parse_residue_spec and AnnotateMutMod.run_system.
   parse : [kind |-> "parse", s : Seq(char), chain, resname, resid, err : BOOLEAN]     (chain = <<"?nochain">> when absent)
   law   : [kind |-> "law", chain, resname, resid]  - TLC checks ParseOp(Format(t)) = t for a well-formed triple
   run   : [kind |-> "run", system, reqs, err : BOOLEAN, reported : Seq(request index),
            mods / muts : Seq(Seq(Seq(target)))  per molecule, per residue  (all atoms of a residue agree, else <<"!">>) ]  *)
EXTENDS MutMod, Json, IOUtils
Batch == JsonDeserialize(IOEnv.TRACE_FILE)
VARIABLES tid, verdict
vars == <<tid, verdict>>

JudgeParse(e) ==
  LET p == ParseOp(e.s) IN
  IF p.bad THEN "ok"        \* "#" followed by something that is not /[0-9]+/ is outside the documented grammar: not judged
  ELSE IF e.err THEN "valid-specification-rejected"
  ELSE IF p.chain # e.chain THEN "chain-differs"
  ELSE IF p.resname # e.resname THEN "resname-differs"
  ELSE IF (p.resid = <<>>) # (e.resid = -1) THEN "resid-presence-differs"
  ELSE IF p.resid # <<>> /\ ToInt(p.resid) # e.resid THEN "resid-differs"
  ELSE "ok"

JudgeLaw(e) ==
  LET p == ParseOp(Format(e.chain, e.resname, e.resid)) IN
  IF p.bad \/ p.chain # e.chain \/ p.resname # e.resname \/ p.resid # e.resid THEN "parse-of-format-is-not-identity" ELSE "ok"

JudgeRun(e) ==
  IF IsError(e.system, e.reqs) THEN (IF e.err THEN "ok" ELSE "unknown-target-not-an-error")
  ELSE IF e.err THEN "run-failed-without-unknown-target"
  ELSE IF {e.reported[i] : i \in DOMAIN e.reported} # Unmatched(e.system, e.reqs) THEN
          (IF \E q \in Unmatched(e.system, e.reqs) : q \notin {e.reported[i] : i \in DOMAIN e.reported}
           THEN "unmatched-request-not-reported" ELSE "matched-request-reported-as-unmatched")
  ELSE IF Len(e.reported) # Cardinality(Unmatched(e.system, e.reqs)) THEN "request-reported-twice"
  ELSE IF \E k \in DOMAIN e.system : \E i \in DOMAIN e.system[k].res :
             e.mods[k][i] # Marks(e.system, e.reqs, k, i, "modification") \/ e.muts[k][i] # Marks(e.system, e.reqs, k, i, "mutation")
       THEN "residue-marks-differ"
  ELSE "ok"

Init == tid \in 1..Len(Batch) /\ verdict = "pending"
Eval == /\ verdict = "pending"
        /\ verdict' = LET e == Batch[tid] IN
                      IF e.kind = "parse" THEN JudgeParse(e) ELSE IF e.kind = "law" THEN JudgeLaw(e) ELSE JudgeRun(e)
        /\ UNCHANGED tid
Spec == Init /\ [][Eval]_vars
=============================================================================
