------------------------------ MODULE Trace_FF ------------------------------
(* TLC judges recorded loads of force-field files by the real reader (C13):
   file   : [kind |-> "file", chunks : Seq([k, name, id]), outcome : "loaded" | "error",
             blocks : Seq(name), blockids : Seq(id), links : Seq(id), mods : Seq(name), modids : Seq(id)]
            - the declared-content operators of FFFile applied to the chunk list must give exactly the loaded library
   meta   : [kind |-> "meta", lines : Seq([ismeta : BOOLEAN, pairs : Seq(<<key, value>>)]), got : Seq(Seq(<<key, value>>))]
            - an interaction line carries its own metadata plus every key of the #meta lines ABOVE it in the same
              section that it does not set itself (per-line metadata wins); #meta lines accumulate            *)
EXTENDS Integers, Sequences, FiniteSets, TLC, Json, IOUtils

Batch == JsonDeserialize(IOEnv.TRACE_FILE)

F == INSTANCE FFFile WITH Menu <- {}, MaxChunks <- 0, CloseOnStore <- TRUE, file <- <<>>, curBlock <- 0, curLink <- 0,
       curMod <- 0, linkSeen <- FALSE, lib <- 0, macros <- {}, outcome <- ""

VARIABLES tid, verdict
vars == <<tid, verdict>>

Ids(s) == [i \in DOMAIN s |-> s[i].id]
NamesOf(s) == [i \in DOMAIN s |-> s[i].name]

JudgeFile(e) ==
  IF F!Malformed(e.chunks) THEN (IF e.outcome = "error" THEN "ok" ELSE "malformed-file-loaded")
  ELSE IF e.outcome # "loaded" THEN "well-formed-file-rejected"
  ELSE IF Ids(F!DeclaredLinks(e.chunks)) # e.links THEN "links-not-exactly-once-in-order"
  ELSE IF NamesOf(F!DeclaredBlocks(e.chunks)) # e.blocks \/ Ids(F!DeclaredBlocks(e.chunks)) # e.blockids THEN "blocks-differ-from-declared"
  ELSE IF NamesOf(F!DeclaredMods(e.chunks)) # e.mods \/ Ids(F!DeclaredMods(e.chunks)) # e.modids THEN "modifications-differ-from-declared"
  ELSE "ok"

KeysOf(pairs) == {pairs[i][1] : i \in DOMAIN pairs}
AsSet(pairs) == {pairs[i] : i \in DOMAIN pairs}
\* update semantics of successive #meta lines: later value of a key replaces the earlier one
RECURSIVE SectionMeta(_, _)
SectionMeta(lines, upto) ==
  IF upto = 0 THEN {}
  ELSE LET before == SectionMeta(lines, upto - 1) IN
       IF lines[upto].ismeta
       THEN {p \in before : p[1] \notin KeysOf(lines[upto].pairs)} \cup AsSet(lines[upto].pairs)
       ELSE before
Expected(lines, i) == AsSet(lines[i].pairs) \cup {p \in SectionMeta(lines, i - 1) : p[1] \notin KeysOf(lines[i].pairs)}
InterPos(lines) == SelectSeq([i \in DOMAIN lines |-> i], LAMBDA i : ~lines[i].ismeta)

JudgeMeta(e) ==
  IF Len(e.got) # Len(InterPos(e.lines)) THEN "interaction-count-differs"
  ELSE IF \A k \in DOMAIN e.got : AsSet(e.got[k]) = Expected(e.lines, InterPos(e.lines)[k]) THEN "ok"
  ELSE "interaction-metadata-differs"

Init == tid \in 1..Len(Batch) /\ verdict = "pending"
Eval == /\ verdict = "pending"
        /\ verdict' = IF Batch[tid].kind = "file" THEN JudgeFile(Batch[tid]) ELSE JudgeMeta(Batch[tid])
        /\ UNCHANGED tid
Spec == Init /\ [][Eval]_vars
=============================================================================
