------------------------------ MODULE PipelineEq ------------------------------
(* C11 as a relation between two runs of martinize2 on two presentations of one structure.

   (I) FILE LEVEL.  A run is abstracted from its OUTPUT FILES by independent readers:
     top    : Seq([type, resid, resname, name, cg, charge])          the [ atoms ] section, in order
     inters : Seq([file, sec, atoms : Seq(Int), params : Seq([k : "s" | "n", s, n])])   every interaction line
              (numeric parameters as integers scaled by 10^4, so that float noise in the last printed digit is bounded)
     coords : Seq(<<x, y, z>>)  integer thousandths of an Angstrom, in file order
   motion  : the rigid motion applied to presentation 2: axis permutation perm, signs sg, integer shift sh
   The topologies must be equal (interactions as bags) and the coordinates must differ by exactly that motion.

   (II) STAGE LEVEL.  A run is the sequence of its pipeline stages; after stage i the system is abstracted presentation-free
   (tables are content-addressed: run.idx[i] = <<ia, ie, ii, io>> points into run.atoms / edges / inters / occ):
     atoms  : Seq(<<key, attrs, count>>)          key = <<chain, resid, icode, name>>; hydrogens are named after their heavy atom
     edges  : Seq(<<key, key, count>>)
     inters : Seq(<<type, Seq(key), Seq(<<k, s, n>>), meta, count>>)
     occ    : Seq(<<key, molecule, has position, <<x, y, z>>>>)    one per atom, canonically ordered
   StageEq(i): the four components are equal, coordinates follow the motion.  The judge returns the FIRST stage at which the
   two presentations differ and how (atoms / bonds / interactions / molecule partition / coordinates); the pair is a
   violation iff the last stage or the written files differ.

   (III) ADMISSIBLE DIFFERENCES.  thr lists the items that lie numerically ON a geometric threshold (distance-guessed bond,
   cysteine distance, elastic cut-off; decided by the driver with a 1e-6 relative band).  A pair is accepted only if every
   difference is explained by one of them: an edge between the two residues of a bond / cys item; an interaction that involves
   both residues of such an item; the elastic bond between exactly the two beads of an elastic item.  Atoms, the molecule
   partition and coordinates admit no difference. *)
EXTENDS Integers, Sequences, FiniteSets, TLC

Abs(x) == IF x < 0 THEN -x ELSE x
SeqSet(s) == {s[i] : i \in DOMAIN s}
ParamClose(p, q) == p.k = q.k /\ (IF p.k = "s" THEN p.s = q.s ELSE Abs(p.n - q.n) <= 2)
InterClose(a, b) ==
  /\ a.sec = b.sec /\ a.atoms = b.atoms /\ Len(a.params) = Len(b.params)
  /\ \A i \in DOMAIN a.params : ParamClose(a.params[i], b.params[i])

\* bag matching for small differences: every interaction of one run has a close partner in the other, counts equal per key.
\* Lines with an identical partner are matched by set membership; only the others are searched for a close partner.
Key(x) == <<x.sec, x.atoms>>
CountKey(s, k) == Cardinality({i \in DOMAIN s : Key(s[i]) = k})
NoTwin(a, b) == LET B == SeqSet(b) IN {i \in DOMAIN a : a[i] \notin B}
Unmatched(a, b) == {i \in NoTwin(a, b) : ~\E j \in DOMAIN b : InterClose(a[i], b[j])}
MaxNoise == 300     \* more lines than this without an identical partner are not float noise
SameInteractions(a, b) ==
  /\ Len(a) = Len(b)
  /\ Cardinality(NoTwin(a, b)) <= MaxNoise /\ Cardinality(NoTwin(b, a)) <= MaxNoise
  /\ \A i \in NoTwin(a, b) : CountKey(a, Key(a[i])) = CountKey(b, Key(a[i]))
  /\ Unmatched(a, b) = {} /\ Unmatched(b, a) = {}

Move(m, c) == <<m.sg[1] * c[m.perm[1]] + m.sh[1], m.sg[2] * c[m.perm[2]] + m.sh[2], m.sg[3] * c[m.perm[3]] + m.sh[3]>>
Follows(m, c1, c2) == \A d \in 1..3 : Abs(Move(m, c1)[d] - c2[d]) <= 2
CoordsFollow(m, c1, c2) ==
  /\ Len(c1) = Len(c2)
  /\ \A i \in DOMAIN c1 : Follows(m, c1[i], c2[i])

JudgePair(e) ==
  IF e.one.ok # e.two.ok THEN "one-presentation-accepted-the-other-refused"
  ELSE IF ~e.one.ok THEN "ok"
  ELSE IF Len(e.one.top) # Len(e.two.top) THEN "number-of-particles-differs"
  ELSE IF \E i \in DOMAIN e.one.top : e.one.top[i] # e.two.top[i] THEN "particles-differ"
  ELSE IF ~SameInteractions(e.one.inters, e.two.inters) THEN "interactions-differ"
  ELSE IF ~CoordsFollow(e.motion, e.one.coords, e.two.coords) THEN "coordinates-do-not-follow-the-rigid-motion"
  ELSE "ok"

\* file level with admissible differences: fadm = Seq([file, A, B, two])
FAdm(fadm, x) == \E t \in SeqSet(fadm) :
  /\ x.file = t.file /\ (t.two => Len(x.atoms) = 2)
  /\ \E i \in DOMAIN x.atoms : x.atoms[i] \in SeqSet(t.A)
  /\ \E i \in DOMAIN x.atoms : x.atoms[i] \in SeqSet(t.B)
JudgeFiles(e) ==
  IF e.fadm = <<>> THEN JudgePair(e)
  ELSE IF e.one.ok # e.two.ok THEN "one-presentation-accepted-the-other-refused"
  ELSE IF ~e.one.ok THEN "ok"
  ELSE IF e.one.top # e.two.top THEN "particles-differ"
  ELSE IF ~CoordsFollow(e.motion, e.one.coords, e.two.coords) THEN "coordinates-do-not-follow-the-rigid-motion"
  ELSE LET a == e.one.inters  b == e.two.inters
           u1 == Unmatched(a, b)  u2 == Unmatched(b, a)
       IN IF Cardinality(NoTwin(a, b)) > MaxNoise \/ Cardinality(NoTwin(b, a)) > MaxNoise THEN "interactions-differ"
          ELSE IF \E i \in u1 : ~FAdm(e.fadm, a[i]) THEN "interactions-differ"
          ELSE IF \E j \in u2 : ~FAdm(e.fadm, b[j]) THEN "interactions-differ"
          ELSE IF Len(a) - Cardinality(u1) # Len(b) - Cardinality(u2) THEN "interactions-differ"
          ELSE IF u1 = {} /\ u2 = {} THEN "ok" ELSE "ok-admissible"

-----------------------------------------------------------------------------
\* (II) + (III) stage level
ResOf(k) == <<k[1], k[2], k[3]>>
AdmEdge(thr, x) == \E t \in SeqSet(thr) : t.kind # "elastic" /\ {ResOf(x[1]), ResOf(x[2])} = {t.ra, t.rb}
AdmInter(thr, x) == \E t \in SeqSet(thr) :
  IF t.kind = "elastic" THEN x[1] = "bonds" /\ Len(x[2]) = 2 /\ {x[2][1], x[2][2]} = {t.ka, t.kb}
  ELSE LET R == {ResOf(x[2][i]) : i \in DOMAIN x[2]} IN t.ra \in R /\ t.rb \in R

PClose(p, q) == p[1] = q[1] /\ (IF p[1] = "s" THEN p[2] = q[2] ELSE Abs(p[3] - q[3]) <= 2)
IClose(x, y) ==
  /\ x[1] = y[1] /\ x[2] = y[2] /\ x[4] = y[4] /\ x[5] = y[5] /\ Len(x[3]) = Len(y[3])
  /\ \A i \in DOMAIN x[3] : PClose(x[3][i], y[3][i])

OK(n) == [how |-> "ok", adm |-> n, where |-> <<>>]
Bad(how, w) == [how |-> how, adm |-> 0, where |-> w]
Pick(S) == IF S = {} THEN <<>> ELSE <<CHOOSE x \in S : TRUE>>

DiffAtoms(a1, a2) ==
  IF a1 = a2 THEN OK(0)
  ELSE LET s1 == SeqSet(a1)  s2 == SeqSet(a2) IN Bad("atoms", Pick(s1 \ s2) \o Pick(s2 \ s1))

DiffEdges(thr, e1, e2) ==
  IF e1 = e2 THEN OK(0)
  ELSE LET s1 == SeqSet(e1)  s2 == SeqSet(e2)
           d == (s1 \ s2) \cup (s2 \ s1)
           bad == {x \in d : ~AdmEdge(thr, x)}
       IN IF bad # {} THEN Bad("bonds", Pick(bad \cap s1) \o Pick(bad \cap s2)) ELSE OK(Cardinality(d))

DiffInters(thr, i1, i2) ==
  IF i1 = i2 THEN OK(0)
  ELSE LET s1 == SeqSet(i1)  s2 == SeqSet(i2)
           l1 == s1 \ s2  l2 == s2 \ s1
       IN IF Cardinality(l1) > MaxNoise \/ Cardinality(l2) > MaxNoise THEN Bad("interactions", Pick(l1) \o Pick(l2))
          ELSE LET u1 == {x \in l1 : ~\E y \in l2 : IClose(x, y)}
                   u2 == {y \in l2 : ~\E x \in l1 : IClose(x, y)}
                   bad == {x \in u1 \cup u2 : ~AdmInter(thr, x)}
               IN IF bad # {} THEN Bad("interactions", Pick(bad \cap u1) \o Pick(bad \cap u2))
                  ELSE OK(Cardinality(u1) + Cardinality(u2))

DiffOcc(m, o1, o2) ==
  IF Len(o1) # Len(o2) THEN Bad("atoms", <<Len(o1), Len(o2)>>)
  ELSE IF \E i \in DOMAIN o1 : o1[i][1] # o2[i][1]
       THEN LET i == CHOOSE i \in DOMAIN o1 : o1[i][1] # o2[i][1] IN Bad("atoms", <<o1[i], o2[i]>>)
  ELSE IF \E i \in DOMAIN o1 : o1[i][2] # o2[i][2]
       THEN LET i == CHOOSE i \in DOMAIN o1 : o1[i][2] # o2[i][2] IN Bad("molecule partition", <<o1[i], o2[i]>>)
  ELSE IF \E i \in DOMAIN o1 : o1[i][3] # o2[i][3] \/ (o1[i][3] /\ ~Follows(m, o1[i][4], o2[i][4]))
       THEN LET i == CHOOSE i \in DOMAIN o1 : o1[i][3] # o2[i][3] \/ (o1[i][3] /\ ~Follows(m, o1[i][4], o2[i][4]))
            IN Bad("coordinates not following the motion", <<o1[i], o2[i]>>)
  ELSE OK(0)

\* one stage; a component whose table entries are those of the previous stage in both runs keeps the verdict it had there
\* (prev = the four component verdicts of the previous stage; admitted differences are counted where they first appear)
Same(r1, r2, i, c) == i > 1 /\ r1.idx[i][c] = r1.idx[i - 1][c] /\ r2.idx[i][c] = r2.idx[i - 1][c]
Keep(v) == [how |-> v.how, adm |-> 0, where |-> v.where]
StageParts(r1, r2, m, thr, i, prev) ==
  << IF Same(r1, r2, i, 1) THEN Keep(prev[1]) ELSE DiffAtoms(r1.atoms[r1.idx[i][1]], r2.atoms[r2.idx[i][1]]),
     IF Same(r1, r2, i, 2) THEN Keep(prev[2]) ELSE DiffEdges(thr, r1.edges[r1.idx[i][2]], r2.edges[r2.idx[i][2]]),
     IF Same(r1, r2, i, 3) THEN Keep(prev[3]) ELSE DiffInters(thr, r1.inters[r1.idx[i][3]], r2.inters[r2.idx[i][3]]),
     IF Same(r1, r2, i, 4) THEN Keep(prev[4]) ELSE DiffOcc(m, r1.occ[r1.idx[i][4]], r2.occ[r2.idx[i][4]]) >>
\* order of the report: atoms, bonds, interactions, molecule partition / coordinates
StageDiff(parts) ==
  IF parts[1].how # "ok" THEN parts[1]
  ELSE IF parts[2].how # "ok" THEN parts[2]
  ELSE IF parts[3].how # "ok" THEN parts[3]
  ELSE IF parts[4].how # "ok" THEN parts[4]
  ELSE OK(parts[1].adm + parts[2].adm + parts[3].adm + parts[4].adm)

\* all stages: <<verdict of stage 1, ..., verdict of stage n>>
RECURSIVE Scan(_, _, _, _, _, _)
Scan(r1, r2, m, thr, i, prev) ==
  IF i > Len(r1.names) THEN <<>>
  ELSE LET parts == StageParts(r1, r2, m, thr, i, prev) IN <<StageDiff(parts)>> \o Scan(r1, r2, m, thr, i + 1, parts)

RECURSIVE SumAdm(_)
SumAdm(vs) == IF vs = <<>> THEN 0 ELSE Head(vs).adm + SumAdm(Tail(vs))

(* The verdict.  The property speaks about what the run delivers: st = "differs" iff the LAST stage (the system handed to the
   writers) differs; `stage` / `name` / `how` / `where` localise the FIRST stage at which the two presentations differ at all,
   `pstage` is the first stage from which on they differ without interruption, `nbad` counts the differing stages.  A pair whose
   stages differ only in between (nbad > 0, st = "ok") delivered the same result: reported as transient, not a violation. *)
Verdict(st, files) == [st |-> st, stage |-> 0, name |-> "", how |-> "", where |-> <<>>, pstage |-> 0, nbad |-> 0, adm |-> 0, files |-> files]
JudgeStages(r1, r2, m, thr, fadm) ==
  LET files == JudgeFiles([one |-> r1.files, two |-> r2.files, motion |-> m, fadm |-> fadm])
  IN IF r1.names # r2.names THEN
          (IF r1.ok # r2.ok THEN Verdict("one-presentation-accepted-the-other-refused", files) ELSE Verdict("stage-lists-differ", files))
     ELSE LET n == Len(r1.names)
              vs == Scan(r1, r2, m, thr, 1, <<OK(0), OK(0), OK(0), OK(0)>>)
              bad == {i \in 1..n : vs[i].how # "ok"}
              first == IF bad = {} THEN 0 ELSE CHOOSE i \in bad : \A j \in bad : i <= j
              pst == IF n \notin bad THEN 0 ELSE CHOOSE i \in bad : (\A j \in i..n : j \in bad) /\ (i = 1 \/ (i - 1) \notin bad)
          IN [st |-> IF r1.ok # r2.ok THEN "one-presentation-accepted-the-other-refused"
                     ELSE IF n \in bad THEN "differs" ELSE "ok",
              stage |-> first, name |-> IF first = 0 THEN "" ELSE r1.names[first],
              how |-> IF first = 0 THEN "" ELSE vs[first].how, where |-> IF first = 0 THEN <<>> ELSE vs[first].where,
              pstage |-> pst, nbad |-> Cardinality(bad), adm |-> SumAdm(vs), files |-> files]
=============================================================================
