------------------------------ MODULE PipelineEq ------------------------------
(* C11 as a relation between two runs of martinize2 on two presentations of one structure.
   A run is abstracted from its OUTPUT FILES by independent readers:
     top    : Seq([type, resid, resname, name, cg, charge])          the [ atoms ] section, in order
     inters : Seq([sec, atoms : Seq(Int), params : Seq([k : "s" | "n", s, n])])   every interaction line
              (numeric parameters as integers scaled by 10^4, so that float noise in the last printed digit is bounded)
     coords : Seq(<<x, y, z>>)  integer thousandths of an Angstrom, in file order
   motion  : the rigid motion applied to presentation 2: axis permutation perm, signs sg, integer shift sh
   The topologies must be equal (interactions as bags) and the coordinates must differ by exactly that motion. *)
EXTENDS Integers, Sequences, FiniteSets, TLC

Abs(x) == IF x < 0 THEN -x ELSE x
ParamClose(p, q) == p.k = q.k /\ (IF p.k = "s" THEN p.s = q.s ELSE Abs(p.n - q.n) <= 2)
InterClose(a, b) ==
  /\ a.sec = b.sec /\ a.atoms = b.atoms /\ Len(a.params) = Len(b.params)
  /\ \A i \in DOMAIN a.params : ParamClose(a.params[i], b.params[i])

\* bag matching for small differences: every interaction of one run has a close partner in the other, counts equal per key
Key(x) == <<x.sec, x.atoms>>
CountKey(s, k) == Cardinality({i \in DOMAIN s : Key(s[i]) = k})
SameInteractions(a, b) ==
  /\ Len(a) = Len(b)
  /\ \A i \in DOMAIN a : CountKey(a, Key(a[i])) = CountKey(b, Key(a[i]))
  /\ \A i \in DOMAIN a : \E j \in DOMAIN b : InterClose(a[i], b[j])
  /\ \A j \in DOMAIN b : \E i \in DOMAIN a : InterClose(a[i], b[j])

Move(m, c) == <<m.sg[1] * c[m.perm[1]] + m.sh[1], m.sg[2] * c[m.perm[2]] + m.sh[2], m.sg[3] * c[m.perm[3]] + m.sh[3]>>
CoordsFollow(m, c1, c2) ==
  /\ Len(c1) = Len(c2)
  /\ \A i \in DOMAIN c1 : \A d \in 1..3 : Abs(Move(m, c1[i])[d] - c2[i][d]) <= 2

JudgePair(e) ==
  IF e.one.ok # e.two.ok THEN "one-presentation-accepted-the-other-refused"
  ELSE IF ~e.one.ok THEN "ok"
  ELSE IF Len(e.one.top) # Len(e.two.top) THEN "number-of-particles-differs"
  ELSE IF \E i \in DOMAIN e.one.top : e.one.top[i] # e.two.top[i] THEN "particles-differ"
  ELSE IF ~SameInteractions(e.one.inters, e.two.inters) THEN "interactions-differ"
  ELSE IF ~CoordsFollow(e.motion, e.one.coords, e.two.coords) THEN "coordinates-do-not-follow-the-rigid-motion"
  ELSE "ok"
=============================================================================
