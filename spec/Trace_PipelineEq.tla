--------------------------- MODULE Trace_PipelineEq ---------------------------
EXTENDS PipelineEq, Json, IOUtils
Batch == JsonDeserialize(IOEnv.TRACE_FILE)
VARIABLES tid, verdict
vars == <<tid, verdict>>
Init == tid \in 1..Len(Batch) /\ verdict = "pending"
Eval == verdict = "pending" /\ verdict' = JudgePair(Batch[tid]) /\ UNCHANGED tid
Spec == Init /\ [][Eval]_vars
=============================================================================
