--------------------------- MODULE Trace_PipelineEq ---------------------------
(* TLC judges recorded pairs of real runs.  The batch file holds
     cli   : Seq([one, two, motion])                      pairs of bin/martinize2 SUBPROCESS runs, abstracted from their files
     runs  : Seq(run)                                     in-process runs of the real entry(), recorded stage by stage
     pairs : Seq([one, two, motion, thr, fadm])           indices into runs; thr / fadm = the items lying on a threshold
   Trace ids 1..Len(cli) are the file-level pairs, the following ones the stage-wise pairs. *)
EXTENDS PipelineEq, Json, IOUtils
Batch == JsonDeserialize(IOEnv.TRACE_FILE)
NCli == Len(Batch.cli)
VARIABLES tid, verdict
vars == <<tid, verdict>>
Pending == Verdict("pending", "")
Init == tid \in 1..(NCli + Len(Batch.pairs)) /\ verdict = Pending
Judge(t) ==
  IF t <= NCli THEN Verdict(JudgePair(Batch.cli[t]), "")
  ELSE LET p == Batch.pairs[t - NCli] IN JudgeStages(Batch.runs[p.one], Batch.runs[p.two], p.motion, p.thr, p.fadm)
Eval == verdict.st = "pending" /\ verdict' = Judge(tid) /\ UNCHANGED tid
Spec == Init /\ [][Eval]_vars
=============================================================================
