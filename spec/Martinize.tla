------------------------------ MODULE Martinize ------------------------------
(* The martinize2 command as a pipeline: which stages run, in which order, for which options - and the contract
   between the stages (what each one needs from the stages before it, what it establishes, what it destroys).

   bin/martinize2: entry() -> read_system, pdb_to_universal, secondary structure, molecule meta, cysteine handling,
   Go contact map, martinize() (DoMapping .. LocateChargeDummies), position restraints, Go model or chain merging, elastic
   network, naming of molecule types, water bias, input residue numbers, atom sorting, (deferred) output, warning gate.

   One behaviour of this specification = one run of the command line for one option vector `o`:
       Init picks o; every step executes stage Pipeline(o)[pc] and updates the set of established facts.
   TLC checks, for EVERY option vector, that each stage finds the facts it requires (ContractOK) and the order
   properties the listed properties rely on:
       NamingAfterGeometry  (C03)  no stage that derives topology from coordinates runs after the molecule types are named
       GateBeforeFinalWrite (C07)  the deferred files are moved into place only after the warning count, and only if it passed;
                                   every stage that can warn runs before the count
       AtomisticBeforeMapping / CoarseAfterMapping (C01, C10, C14, C15)
       ResidsRestoredLast   (C05, C15, C18) no stage that compares residue numbers runs after the input numbers are restored
   Binding (harness/pipeline.py): TLC dumps Pipeline(o) for a set of option vectors; each vector is turned into a command
   line, the REAL entry() is run with recorders on Processor.run_system and the output functions, and the recorded stage
   sequence must equal Pipeline(o). The option vectors in Unvalidated are accepted by the command line although a contract
   fails; for them the real run is expected to end in the exception named there (a named deviation, not a property). *)
EXTENDS Integers, Sequences, FiniteSets, TLC

CONSTANT Vectors        \* the option vectors to explore (the full product for model checking, a sample for the replay)

SSModes      == {"none", "dssp", "ss", "collagen"}
CysModes     == {"auto", "none", "thr"}
GoModes      == {"off", "file", "gen"}
PosresModes  == {"none", "all", "backbone"}
MergeModes   == {"none", "set1", "set2", "all"}
ElasticModes == {"off", "molecule", "all", "chain", "regions"}
ResidModes   == {"mol", "input"}
GateModes    == {"clean", "allowed", "block"}    \* no warning / one warning and -maxwarn 1 / one warning
DbgFiles     == {"graph", "repair", "canon"}

AllVectors ==
  [ss : SSModes, cys : CysModes, go : GoModes, idr : BOOLEAN, posres : PosresModes, merge : MergeModes,
   elastic : ElasticModes, wbias : BOOLEAN, resid : ResidModes, dbg : SUBSET DbgFiles, top : BOOLEAN, gate : GateModes]

(* ---- what the argument parser refuses ---- *)
UsageError(o) == o.elastic # "off" /\ o.go # "off"

(* ---- the stage sequence ---- *)
If(c, s) == IF c THEN s ELSE <<>>
Dbg(o, f) == If(f \in o.dbg, <<"WritePDB(now)">>)

Universal(o) ==
  <<"ReadInput", "MakeBonds", "MergeNucleicStrands">> \o Dbg(o, "graph") \o <<"AnnotateMutMod", "RepairGraph">> \o Dbg(o, "repair")
  \o <<"CanonicalizeModifications">> \o Dbg(o, "canon") \o <<"AttachMass">>

SecStruct(o) ==
  CASE o.ss = "dssp"     -> <<"AnnotateDSSP", "AnnotateMartiniSecondaryStructures">>
    [] o.ss = "ss"       -> <<"AnnotateResidues(aasecstruct)", "AnnotateMartiniSecondaryStructures">>
    [] o.ss = "collagen" -> <<"AnnotateResidues(cgsecstruct)">>
    [] OTHER             -> <<>>

Meta == <<"SetMoleculeMeta(extdih)", "SetMoleculeMeta(scfix)", "SetMoleculeMeta(idr)">>

Cys(o) == CASE o.cys = "none" -> <<"RemoveCysteinBridgeEdges">> [] o.cys = "thr" -> <<"AddCysteinBridgesThreshold">> [] OTHER -> <<>>

GoMap(o) == If(o.go # "off", <<"MergeAllMolecules", IF o.go = "file" THEN "ReadGoMap" ELSE "GenerateContactMap">>)

Resolution(o) == <<"DoMapping", "DoAverageBead">> \o If(o.idr, <<"AnnotateIDRs">>) \o <<"DoLinks", "LocateChargeDummies">>

Posres(o) == If(o.posres # "none", <<"ApplyPosres">>)

Merges(o) == CASE o.merge = "set1" -> <<"MergeChains(set)">> [] o.merge = "set2" -> <<"MergeChains(set)", "MergeChains(set)">>
               [] o.merge = "all" -> <<"MergeChains(all)">> [] OTHER -> <<>>

\* with a Go model the chains are already one molecule and -merge is not looked at
GoOrMerge(o) == IF o.go # "off" THEN <<"GoPipeline">> \o If(~o.wbias, <<"ComputeWaterBias(off)">>) ELSE Merges(o)

Elastic(o) == If(o.elastic # "off", If(o.elastic = "all", <<"MergeAllMolecules">>) \o <<"ApplyRubberBand">>)

\* the atoms are put in the order they will be written in before the molecule types are named (merged chains are written
\* sorted by chain; two molecules listing the same chains in a different order do not share a topology)
Naming(o) == If(o.go = "off", <<"SortMoleculeAtoms", "NameMolType">>)

WaterBias(o) == If(o.wbias, If(o.go = "off", <<"VirtualSiteCreator">>) \o <<"ComputeWaterBias(auto)">>)

Resids(o) == If(o.resid = "input", <<"RestoreResids">>)

Sorting(o) == If(o.go = "off", <<"SortMoleculeAtoms">>)

Output(o) == If(o.top, <<"WriteTopology">>) \o <<"WritePDB(deferred)", "CountWarnings">>
             \o IF o.gate = "block" THEN <<"Exit2">> ELSE <<"FinalWrite", "Quoter">>

Pipeline(o) ==
  IF UsageError(o) THEN <<"UsageError">>
  ELSE Universal(o) \o SecStruct(o) \o Meta \o Cys(o) \o GoMap(o) \o Resolution(o) \o Posres(o) \o GoOrMerge(o) \o Elastic(o)
       \o Naming(o) \o WaterBias(o) \o Resids(o) \o Sorting(o) \o Output(o)

(* ---- the contract of each stage: requires / establishes / destroys ---- *)
Stages == {"ReadInput", "MakeBonds", "MergeNucleicStrands", "WritePDB(now)", "AnnotateMutMod", "RepairGraph", "CanonicalizeModifications",
           "AttachMass", "AnnotateDSSP", "AnnotateResidues(aasecstruct)", "AnnotateResidues(cgsecstruct)", "AnnotateMartiniSecondaryStructures",
           "SetMoleculeMeta(extdih)", "SetMoleculeMeta(scfix)", "SetMoleculeMeta(idr)", "RemoveCysteinBridgeEdges", "AddCysteinBridgesThreshold",
           "MergeAllMolecules", "ReadGoMap", "GenerateContactMap", "DoMapping", "DoAverageBead", "AnnotateIDRs", "DoLinks", "LocateChargeDummies",
           "ApplyPosres", "GoPipeline", "ComputeWaterBias(off)", "ComputeWaterBias(auto)", "MergeChains(set)", "MergeChains(all)", "ApplyRubberBand",
           "NameMolType", "VirtualSiteCreator", "RestoreResids", "SortMoleculeAtoms", "WriteTopology", "WritePDB(deferred)", "CountWarnings",
           "FinalWrite", "Quoter", "Exit2", "UsageError"}

Requires(s, o) ==
  CASE s = "ReadInput"                          -> {}
    [] s = "MakeBonds"                          -> {"atoms", "atomistic"}
    [] s = "MergeNucleicStrands"                -> {"bonds"}
    [] s = "WritePDB(now)"                      -> {"bonds", "atomistic"}
    [] s = "AnnotateMutMod"                     -> {"atoms", "atomistic"}
    [] s = "RepairGraph"                        -> {"bonds", "requests", "atomistic"}       \* reference blocks follow the requested mutations / modifications
    [] s = "CanonicalizeModifications"          -> {"canonical-names", "atomistic"}         \* works on the atoms RepairGraph marked as not in the block
    [] s = "AttachMass"                         -> {"canonical-names"}
    [] s = "AnnotateDSSP"                       -> {"canonical-names", "atomistic"}
    [] s = "AnnotateResidues(aasecstruct)"      -> {"canonical-names"}
    [] s = "AnnotateResidues(cgsecstruct)"      -> {"canonical-names"}
    [] s = "AnnotateMartiniSecondaryStructures" -> {"aasecstruct"}
    [] s \in {"SetMoleculeMeta(extdih)", "SetMoleculeMeta(scfix)", "SetMoleculeMeta(idr)"} -> {"atoms"}
    [] s \in {"RemoveCysteinBridgeEdges", "AddCysteinBridgesThreshold"} -> {"canonical-names", "bonds", "atomistic"}   \* SG-SG edges of the atomistic graph
    [] s = "MergeAllMolecules"                  -> {"atoms"}
    [] s \in {"ReadGoMap", "GenerateContactMap"} -> {"canonical-names", "atomistic", "one-molecule"}   \* contacts are atomistic, residue indices of the merged molecule
    [] s = "DoMapping"                          -> {"canonical-names", "modifications", "atomistic", "mass"}
    [] s = "DoAverageBead"                      -> {"coarse"}
    [] s = "AnnotateIDRs"                       -> {"coarse"}
    [] s = "DoLinks"                            -> {"coarse", "bead-positions", "meta-extdih", "meta-scfix", "meta-idr"}   \* geometry-derived parameters; links select on molecule meta
    [] s = "LocateChargeDummies"                -> {"coarse", "bead-positions", "links"}
    [] s = "ApplyPosres"                        -> {"coarse"}
    [] s = "GoPipeline"                         -> {"coarse", "bead-positions", "go-map", "one-molecule", "links"}
    [] s = "ComputeWaterBias(off)"              -> {"virtual-sites"} \cup (IF o.idr THEN {"cgsecstruct"} ELSE {})   \* residues of -id-regions are looked up with their secondary structure
    [] s = "ComputeWaterBias(auto)"             -> {"virtual-sites", "cgsecstruct"}
    [] s \in {"MergeChains(set)", "MergeChains(all)"} -> {"coarse", "links"}
    [] s = "ApplyRubberBand"                    -> {"coarse", "bead-positions", "links"}
    [] s = "NameMolType"                        -> {"coarse", "links", "written-order"}
    [] s = "VirtualSiteCreator"                 -> {"coarse", "named"}
    [] s = "RestoreResids"                      -> {"coarse"}
    [] s = "SortMoleculeAtoms"                  -> {"coarse"}
    [] s = "WriteTopology"                      -> {"coarse", "named"}
    [] s = "WritePDB(deferred)"                 -> {"coarse", "bead-positions"}
    [] s = "CountWarnings"                      -> {"output-prepared"}
    [] s = "FinalWrite"                         -> {"gate-passed"}
    [] s = "Quoter"                             -> {"gate-passed"}
    [] s = "Exit2"                              -> {"gate-refused"}
    [] OTHER                                    -> {}

Adds(s, o) ==
  CASE s = "ReadInput"                          -> {"atoms", "atomistic", "input-order"}
    [] s = "MakeBonds"                          -> {"bonds"}
    [] s = "AnnotateMutMod"                     -> {"requests"}
    [] s = "RepairGraph"                        -> {"canonical-names"}
    [] s = "CanonicalizeModifications"          -> {"modifications"}
    [] s = "AttachMass"                         -> {"mass"}
    [] s \in {"AnnotateDSSP", "AnnotateResidues(aasecstruct)"} -> {"aasecstruct"}
    [] s \in {"AnnotateMartiniSecondaryStructures", "AnnotateResidues(cgsecstruct)"} -> {"cgsecstruct"}
    [] s = "SetMoleculeMeta(extdih)"            -> {"meta-extdih"}
    [] s = "SetMoleculeMeta(scfix)"             -> {"meta-scfix"}
    [] s = "SetMoleculeMeta(idr)"               -> {"meta-idr"}
    [] s = "MergeAllMolecules"                  -> {"one-molecule"}
    [] s \in {"ReadGoMap", "GenerateContactMap"} -> {"go-map"}
    [] s = "DoMapping"                          -> {"coarse"}
    [] s = "DoAverageBead"                      -> {"bead-positions"}
    [] s = "DoLinks"                            -> {"links"}
    [] s = "GoPipeline"                         -> {"named", "virtual-sites"}
    [] s = "NameMolType"                        -> {"named"}
    [] s = "VirtualSiteCreator"                 -> {"virtual-sites"}
    [] s = "RestoreResids"                      -> {"input-resids"}
    [] s = "SortMoleculeAtoms"                  -> {"written-order"}
    [] s = "WritePDB(deferred)"                 -> {"output-prepared"}
    [] s = "CountWarnings"                      -> IF o.gate = "block" THEN {"gate-refused"} ELSE {"gate-passed"}
    [] OTHER                                    -> {}

Removes(s) == CASE s = "DoMapping" -> {"atomistic"}
                [] s \in {"VirtualSiteCreator", "RestoreResids", "MergeChains(set)", "MergeChains(all)", "MergeAllMolecules", "GoPipeline"} -> {"written-order"}
                [] OTHER -> {}

(* classes of stages used by the order properties *)
GeometryTopology == {"DoLinks", "ApplyRubberBand", "GoPipeline"}                \* derive interactions / parameters from coordinates
ResidUsers       == {"DoLinks", "ApplyRubberBand", "GoPipeline", "AnnotateIDRs", "ComputeWaterBias(off)", "ComputeWaterBias(auto)",
                     "MergeChains(set)", "MergeChains(all)", "MergeAllMolecules", "NameMolType"}   \* compare or renumber residue numbers
CanWarn          == Stages \ {"CountWarnings", "FinalWrite", "Quoter", "Exit2", "UsageError"}
AtomisticStages  == {"MakeBonds", "MergeNucleicStrands", "AnnotateMutMod", "RepairGraph", "CanonicalizeModifications", "AnnotateDSSP",
                     "RemoveCysteinBridgeEdges", "AddCysteinBridgesThreshold", "ReadGoMap", "GenerateContactMap", "WritePDB(now)"}
CoarseStages     == {"DoAverageBead", "AnnotateIDRs", "DoLinks", "LocateChargeDummies", "ApplyPosres", "GoPipeline", "MergeChains(set)",
                     "MergeChains(all)", "ApplyRubberBand", "NameMolType", "VirtualSiteCreator", "SortMoleculeAtoms", "WriteTopology",
                     "WritePDB(deferred)"}

(* option vectors the command line accepts although a contract is not met (the real run raises; named deviations) *)
Unvalidated(o) ==
  /\ o.ss = "none"
  /\ \/ o.wbias                       \* ComputeWaterBias(auto) looks up cgsecstruct: KeyError('cgsecstruct')
     \/ o.go # "off" /\ o.idr         \* ComputeWaterBias(off) with -id-regions does the same

(* ---- the run as a state machine ---- *)
VARIABLES o, pc, facts, done, unv      \* unv: Unvalidated(o), carried for the replay harness
vars == <<o, pc, facts, done, unv>>

Init == o \in Vectors /\ pc = 1 /\ facts = {} /\ done = <<>> /\ unv = Unvalidated(o)
Step == /\ pc <= Len(Pipeline(o))
        /\ LET s == Pipeline(o)[pc] IN
             /\ facts' = (facts \ Removes(s)) \cup Adds(s, o)
             /\ done' = Append(done, s)
        /\ pc' = pc + 1 /\ o' = o /\ unv' = unv
Next == Step
Spec == Init /\ [][Next]_vars

Finished == pc = Len(Pipeline(o)) + 1

TypeOK == o \in AllVectors /\ \A i \in DOMAIN done : done[i] \in Stages

ContractOK == (pc <= Len(Pipeline(o)) /\ ~Unvalidated(o)) => Requires(Pipeline(o)[pc], o) \subseteq facts
\* the named deviations really are contract failures (otherwise the list is stale)
UnvalidatedIsReal == (Finished /\ Unvalidated(o) /\ ~UsageError(o)) =>
                        \E i \in DOMAIN done : \E f \in Requires(done[i], o) : \A j \in 1..(i - 1) : f \notin Adds(done[j], o)

Before(a, b) == \A i, j \in DOMAIN done : (done[i] \in a /\ done[j] \in b) => i < j

NamingAfterGeometry    == Before(GeometryTopology \ {"GoPipeline"}, {"NameMolType"})
                          /\ \A i, j \in DOMAIN done : (done[i] = "GoPipeline" /\ done[j] \in GeometryTopology) => j <= i
GateBeforeFinalWrite   == /\ Before({"CountWarnings"}, {"FinalWrite", "Quoter", "Exit2"})
                          /\ Before(CanWarn, {"CountWarnings"})
                          /\ (\E i \in DOMAIN done : done[i] = "FinalWrite") => o.gate # "block"
                          /\ (Finished /\ ~UsageError(o)) => (o.gate = "block") = (\E i \in DOMAIN done : done[i] = "Exit2")
AtomisticBeforeMapping == Before(AtomisticStages, {"DoMapping"})
CoarseAfterMapping     == Before({"DoMapping"}, CoarseStages)
ResidsRestoredLast     == Before(ResidUsers, {"RestoreResids"})
\* when the files are prepared the atoms are in written order, unless a Go model forbids reordering
WrittenOrderAtOutput   == \A i \in DOMAIN done : (done[i] = "WritePDB(deferred)" /\ o.go = "off") =>
                             \E j \in 1..(i - 1) : /\ done[j] = "SortMoleculeAtoms"
                                                    /\ \A k \in (j + 1)..(i - 1) : done[k] \notin {"VirtualSiteCreator", "RestoreResids", "MergeChains(set)", "MergeChains(all)", "MergeAllMolecules"}
\* the atoms of every molecule stay in the order of the input until the mapping: merging at the atomistic level (Go model)
\* renumbers the atoms in the order the molecules list them, and DoMapping orders the residues by their lowest atom
InputOrderKept         == \A i \in DOMAIN done : done[i] \in {"MergeAllMolecules", "DoMapping"} => "input-order" \in facts
                          \/ (\E j \in 1..(i-1) : done[j] = "DoMapping")
OneNaming              == Cardinality({i \in DOMAIN done : done[i] \in {"NameMolType", "GoPipeline"}}) <= 1
NamedWhenWritten       == (Finished /\ ~UsageError(o)) => "named" \in facts
=============================================================================
