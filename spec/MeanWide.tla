------------------------------ MODULE MeanWide ------------------------------
(* C09 on real data: the exact weighted mean of Mapping!Mean over WIDE integers.

   Real coordinates (multiples of 0.001 A read from a PDB file, up to +-2000 A), real mapping weights (rationals scaled to
   integers over one denominator per particle) and real centre weights (masses in units of 0.001 u) give products far
   beyond TLC's 32-bit integers.  A wide integer is a function over 1..WK+1: limbs 1..WK are digits 0..999 in base 1000,
   little-endian; limb WK+1 (the "top") holds the signed rest (floor normalisation: the value is negative iff the top is
   negative).  Only what the mean needs is defined: normalise, add, multiply by a 32-bit factor of at most 2 * 10^6 in
   magnitude.  BeadTrace checks on every hand-built particle of the synthetic family that WMean agrees with Mapping!Mean.

   cons : Seq([hasw : BOOLEAN, w, hascw : BOOLEAN, cw, has : BOOLEAN, p : <<x, y, z>>])
          w   mapping weight of the atom in this particle (scaled integer); an atom WITHOUT a weight counts with weight 1
          cw  the attribute the force field names as centre weight (mass, scaled integer) - used only when one is configured
          has the atom has coordinates (an atom that was rebuilt without coordinates has none)
          p   coordinates in units of 0.001 A                                                                            *)
EXTENDS Integers, Sequences, FiniteSets, TLC

WB == 1000
WK == 8
WIdx == 1..(WK + 1)
WMaxFactor == 2000000

\* written out limb by limb: TLC evaluates a tuple eagerly (a function expression would be re-evaluated at every access,
\* exponentially in the nesting depth of the sums)
WNorm(a) ==
  LET v1 == a[1]         c1 == v1 \div WB
      v2 == a[2] + c1    c2 == v2 \div WB
      v3 == a[3] + c2    c3 == v3 \div WB
      v4 == a[4] + c3    c4 == v4 \div WB
      v5 == a[5] + c4    c5 == v5 \div WB
      v6 == a[6] + c5    c6 == v6 \div WB
      v7 == a[7] + c6    c7 == v7 \div WB
      v8 == a[8] + c7    c8 == v8 \div WB
  IN <<v1 % WB, v2 % WB, v3 % WB, v4 % WB, v5 % WB, v6 % WB, v7 % WB, v8 % WB, a[9] + c8>>
WZero == <<0, 0, 0, 0, 0, 0, 0, 0, 0>>
WFromInt(n) == WNorm([i \in WIdx |-> IF i = 1 THEN n ELSE 0])
WAdd(a, b) == WNorm([i \in WIdx |-> a[i] + b[i]])
WScale(a, k) ==                      \* a normalised, |k| <= WMaxFactor: every limb product fits 32 bits
  IF k > WMaxFactor \/ k < -WMaxFactor \/ a[WK + 1] > 1 \/ a[WK + 1] < -1
  THEN Assert(FALSE, <<"MeanWide: factor or operand too wide", k>>)
  ELSE WNorm([i \in WIdx |-> a[i] * k])
WSub(a, b) == WAdd(a, WScale(b, -1))
WIsNeg(a) == a[WK + 1] < 0
WIsZero(a) == \A i \in WIdx : a[i] = 0
WLeq(a, b) == ~WIsNeg(WSub(b, a))
WAbsLeq(a, b) == WLeq(a, b) /\ WLeq(WScale(a, -1), b)       \* |a| <= b

(* ---- the rule ---- *)
WEffW(c) == IF c.hasw THEN c.w ELSE 1                \* an atom without an explicit weight counts with weight 1
WEffC(cwon, c) == IF cwon THEN c.cw ELSE 1           \* the centre weight applies only when the force field configures one
WCoef(cwon, c) == WEffW(c) * WEffC(cwon, c)          \* 32-bit: the harness does not generate products beyond 2^31

RECURSIVE WMeanFrom(_, _, _)
WMeanFrom(cwon, cons, i) ==
  IF i > Len(cons) THEN [den |-> WZero, n |-> <<WZero, WZero, WZero>>]
  ELSE LET r == WMeanFrom(cwon, cons, i + 1)
           c == cons[i]
           k == WFromInt(WCoef(cwon, c))
       IN IF c.has
          THEN [den |-> WAdd(r.den, k), n |-> <<WAdd(r.n[1], WScale(k, c.p[1])), WAdd(r.n[2], WScale(k, c.p[2])), WAdd(r.n[3], WScale(k, c.p[3]))>>]
          ELSE r                          \* constituents without coordinates never contribute
WMean(cwon, cons) == WMeanFrom(cwon, cons, 1)

(* reported coordinate pf (units of 10^-6 A) against the exact mean num / den (num in 0.001 A): |pf * den - 1000 * num| <= tol * den.
   pf = ph * 1000 + pl with 0 <= pl < 1000, so that no factor exceeds WMaxFactor. *)
WClose(pf, num, den, tol) ==
  LET ph == pf \div 1000
      pl == pf % 1000
      D == WSub(num, WScale(den, ph))                     \* num - ph * den
      E == WSub(WScale(D, 1000), WScale(den, pl))         \* 1000 * num - pf * den
  IN WAbsLeq(E, WScale(den, tol))

WNonNeg(cwon, cons) == \A i \in DOMAIN cons : WEffW(cons[i]) >= 0 /\ WEffC(cwon, cons[i]) >= 0
WPositioned(cons) == {i \in DOMAIN cons : cons[i].has}
WMin(S) == CHOOSE x \in S : \A y \in S : x <= y
WMax(S) == CHOOSE x \in S : \A y \in S : x >= y
\* the reported position lies in the bounding box of the positioned constituents (1e-6 A of slack for the float)
WInBox(cons, pf) ==
  LET P == WPositioned(cons) IN
  \A d \in 1..3 : LET S == {cons[i].p[d] : i \in P} IN WMin(S) * 1000 - 1 <= pf[d] /\ pf[d] <= WMax(S) * 1000 + 1

(* ---- rigid motion: q[d] = sg[d] * p[perm[d]] + sh[d]  (one of the 24 lattice rotations, translation in 0.001 A) ---- *)
WMove(m, p) == <<m.sg[1] * p[m.perm[1]] + m.sh[1], m.sg[2] * p[m.perm[2]] + m.sh[2], m.sg[3] * p[m.perm[3]] + m.sh[3]>>
WMoved(m, a, b) ==         \* b is the constituent list a, rigidly moved
  /\ Len(a) = Len(b)
  /\ \A i \in DOMAIN a : /\ a[i].hasw = b[i].hasw /\ a[i].w = b[i].w /\ a[i].hascw = b[i].hascw /\ a[i].cw = b[i].cw
                         /\ a[i].has = b[i].has
                         /\ a[i].has => \A d \in 1..3 : b[i].p[d] = WMove(m, a[i].p)[d]
\* the exact mean follows the motion exactly: num_b[d] = sg[d] * num_a[perm[d]] + sh[d] * den, den_b = den_a
WEquivariant(m, ma, mb) ==
  /\ WIsZero(WSub(ma.den, mb.den))
  /\ \A d \in 1..3 : WIsZero(WSub(mb.n[d], WAdd(WScale(ma.n[m.perm[d]], m.sg[d]), WScale(ma.den, m.sh[d]))))
=============================================================================
