------------------------------- MODULE Repair -------------------------------
(* Repairing a residue against its reference block (vermouth.processors.repair_graph), judged on recorded runs (C04, and
   the "after repair" clause of C19).
   Ref, R : graphs in the SubIso encoding; node colour = element code.  Ref node ids are block atom indices.
   event  : [Ref, R, assigned : Seq(<<R atom, Ref atom>>)  (original atoms that ended up with the name of that block atom),
             flagged : Seq(R atom) (PTM_atom), removed : Seq(R atom), added : Seq(<<new atom, Ref atom>>),
             edges : Seq(<<a, b>>) final bonds inside the residue, exact : BOOLEAN (compute the largest common subgraph exactly),
             planted : Int (size of a common induced subgraph known by construction), mutated : BOOLEAN]                    *)
EXTENDS SubIso

Originals(e) == NodeSet(e.R)
AssignedMap(e) == [a \in {e.assigned[i][1] : i \in DOMAIN e.assigned} |-> e.assigned[CHOOSE i \in DOMAIN e.assigned : e.assigned[i][1] = a][2]]
AddedMap(e) == [a \in {e.added[i][1] : i \in DOMAIN e.added} |-> e.added[CHOOSE i \in DOMAIN e.added : e.added[i][1] = a][2]]
FinalAdj(e, a, b) == \E i \in DOMAIN e.edges : (e.edges[i][1] = a /\ e.edges[i][2] = b) \/ (e.edges[i][1] = b /\ e.edges[i][2] = a)
SeqToSet(s) == {s[i] : i \in DOMAIN s}

JudgeRepair(e) ==
  LET m == AssignedMap(e)
      ad == AddedMap(e)
      rec == DOMAIN m
      full == [a \in rec \cup DOMAIN ad |-> IF a \in rec THEN m[a] ELSE ad[a]]
  IN IF Len(e.assigned) # Cardinality(rec) \/ \E a, b \in rec : a # b /\ m[a] = m[b] THEN "canonical-names-not-unique"
     ELSE IF \E a \in rec : Colour(e.R, a) # Colour(e.Ref, m[a]) THEN "name-assignment-not-element-preserving"
     ELSE IF \E a, b \in rec : a # b /\ Adj(e.R, a, b) # Adj(e.Ref, m[a], m[b]) THEN "name-assignment-not-bond-preserving"
     ELSE IF e.exact /\ Cardinality(rec) # MaxCommon(e.Ref, e.R) THEN "recognised-atoms-not-a-largest-possible-match"
     ELSE IF Cardinality(rec) < e.planted THEN "fewer-atoms-recognised-than-a-known-common-subgraph"
     ELSE IF RangeOf(full) # NodeSet(e.Ref) \/ Cardinality(DOMAIN full) # Cardinality(NodeSet(e.Ref)) THEN
             (IF \E x \in NodeSet(e.Ref) : x \notin RangeOf(full) THEN "block-atom-missing-after-repair" ELSE "block-atom-present-twice")
     ELSE IF \E a, b \in DOMAIN full : a # b /\ FinalAdj(e, a, b) # Adj(e.Ref, full[a], full[b]) THEN "atoms-not-bonded-as-in-the-block"
     ELSE IF ~e.mutated /\ SeqToSet(e.flagged) # (Originals(e) \ rec) THEN
             (IF \E a \in rec : a \in SeqToSet(e.flagged) THEN "recognised-atom-marked-unrecognised" ELSE "extra-atom-not-marked")
     ELSE IF e.mutated /\ SeqToSet(e.removed) # (Originals(e) \ rec) THEN "surplus-atoms-of-the-old-residue-not-removed"
     ELSE "ok"

-----------------------------------------------------------------------------
(* The reference of a residue that carries requests, and the judgement of a repair by NAMES (real structures, C04; the
   "after repair" clause of C19 on real command-line runs).
   block  == [name, names : Seq(STRING), els : Seq(Int), edges : Seq(<<i, j>>)]              indices into names
   modif  == [name, names, els, ptm : Seq(BOOLEAN), edges]      ptm[i] = TRUE: atom the modification adds; FALSE: anchor
   The reference is the block named by the (single) requested mutation, else by the residue name, patched in request
   order with every requested modification other than "none": anchors are identified with the block atoms of the same
   name, the added atoms are appended, and every bond of the modification that touches an added atom is added.       *)
HasName(names, nm) == \E i \in DOMAIN names : names[i] = nm
IdxOf(names, nm) == CHOOSE i \in DOMAIN names : names[i] = nm
UniqueNames(names) == \A i, j \in DOMAIN names : i # j => names[i] # names[j]
LibHas(lib, nm) == \E i \in DOMAIN lib : lib[i].name = nm
LibGet(lib, nm) == lib[CHOOSE i \in DOMAIN lib : lib[i].name = nm]
AllEqual(s) == \A i, j \in DOMAIN s : s[i] = s[j]

BlockHasEdge(b, i, j) == \E k \in DOMAIN b.edges : (b.edges[k][1] = i /\ b.edges[k][2] = j) \/ (b.edges[k][1] = j /\ b.edges[k][2] = i)
\* a modification fits a block when its anchors are atoms of the block (by name) bonded in the block as in the modification
ModFits(b, m) ==
  /\ \A i \in DOMAIN m.names : ~m.ptm[i] => HasName(b.names, m.names[i])
  /\ \A k \in DOMAIN m.edges : (~m.ptm[m.edges[k][1]] /\ ~m.ptm[m.edges[k][2]])
        => BlockHasEdge(b, IdxOf(b.names, m.names[m.edges[k][1]]), IdxOf(b.names, m.names[m.edges[k][2]]))
Patch(b, m) ==
  LET addIdx == SelectSeq([i \in DOMAIN m.names |-> i], LAMBDA i : m.ptm[i])          \* added atoms, in the modification's order
      pos(i) == IF m.ptm[i] THEN Len(b.names) + (CHOOSE k \in DOMAIN addIdx : addIdx[k] = i) ELSE IdxOf(b.names, m.names[i])
      touching == SelectSeq(m.edges, LAMBDA ed : m.ptm[ed[1]] \/ m.ptm[ed[2]])
  IN [name |-> b.name, names |-> b.names \o [k \in DOMAIN addIdx |-> m.names[addIdx[k]]],
      els |-> b.els \o [k \in DOMAIN addIdx |-> m.els[addIdx[k]]],
      ptm |-> b.ptm \o [k \in DOMAIN addIdx |-> TRUE],            \* atoms a modification added stay marked as such (PTM_atom)
      edges |-> b.edges \o [k \in DOMAIN touching |-> <<pos(touching[k][1]), pos(touching[k][2])>>]]
RECURSIVE PatchAll(_, _)
PatchAll(b, ms) == IF ms = <<>> THEN b ELSE PatchAll(Patch(b, Head(ms)), Tail(ms))
RECURSIVE AllFit(_, _)
AllFit(b, ms) == ms = <<>> \/ (ModFits(b, Head(ms)) /\ AllFit(Patch(b, Head(ms)), Tail(ms)))

\* e.resname, e.muts / e.mods : the marks the residue carries (request order); e.blocks / e.modlib : force-field records
Requested(e) == e.muts # <<>> \/ e.mods # <<>>
TargetName(e) == IF e.muts # <<>> THEN e.muts[1] ELSE e.resname
WantedMods(e) == LET ms == SelectSeq(e.mods, LAMBDA nm : nm # "none") IN [k \in DOMAIN ms |-> LibGet(e.modlib, ms[k])]
PlainBlock(b) == [name |-> b.name, names |-> b.names, els |-> b.els, edges |-> b.edges, ptm |-> [i \in DOMAIN b.names |-> FALSE]]
RefOf(e) == PatchAll(PlainBlock(LibGet(e.blocks, TargetName(e))), WantedMods(e))
AsGraph(b) == [nodes |-> [i \in DOMAIN b.names |-> <<i, b.els[i]>>], edges |-> [k \in DOMAIN b.edges |-> <<b.edges[k][1], b.edges[k][2], 0>>]]

\* a certificate: pairs <<atom of R, name of a reference atom>> claimed to be a common induced subgraph; used as a lower bound
\* of the largest match only after TLC has verified the claim
CertOK(ref, G, R, cert) ==
  /\ \A i \in DOMAIN cert : cert[i][1] \in NodeSet(R) /\ HasName(ref.names, cert[i][2])
  /\ \A i, j \in DOMAIN cert : i # j => (cert[i][1] # cert[j][1] /\ cert[i][2] # cert[j][2])
  /\ \A i \in DOMAIN cert : Colour(R, cert[i][1]) = Colour(G, IdxOf(ref.names, cert[i][2]))
  /\ \A i, j \in DOMAIN cert : i # j => Adj(R, cert[i][1], cert[j][1]) = Adj(G, IdxOf(ref.names, cert[i][2]), IdxOf(ref.names, cert[j][2]))

(* e.out : Seq([id, name, ptm : BOOLEAN, resname]) the atoms of the residue after the repair (surviving input atoms and new ones);
   e.edges : bonds inside the residue afterwards; e.cert as above; e.exact : compute the largest common subgraph exactly *)
JudgeRepairX(e) ==
  IF e.muts # <<>> /\ ~AllEqual(e.muts) THEN "unjudged:conflicting-mutations"
  ELSE IF ~LibHas(e.blocks, TargetName(e)) THEN "unjudged:no-block"
  ELSE IF \E i \in DOMAIN e.mods : e.mods[i] # "none" /\ ~LibHas(e.modlib, e.mods[i]) THEN "unjudged:no-modification"
  ELSE IF ~AllFit(PlainBlock(LibGet(e.blocks, TargetName(e))), WantedMods(e)) THEN "unjudged:modification-does-not-fit-the-block"
  ELSE
  LET ref == RefOf(e)
      G == AsGraph(ref)
      orig == NodeSet(e.R)
      named(o) == HasName(ref.names, o.name)
      keptOrig == SelectSeq(e.out, LAMBDA o : o.id \in orig)
      \* a residue carrying a request keeps only atoms of its reference (a modification's own atoms stay marked); any other
      \* residue keeps every atom and marks those it does not recognise
      recog == IF Requested(e) THEN SelectSeq(keptOrig, LAMBDA o : named(o)) ELSE SelectSeq(keptOrig, LAMBDA o : ~o.ptm /\ named(o))
      fresh == SelectSeq(e.out, LAMBDA o : o.id \notin orig)
      outIds == {e.out[i].id : i \in DOMAIN e.out}
      e2 == [Ref |-> G, R |-> e.R,
             assigned |-> [k \in DOMAIN recog |-> <<recog[k].id, IdxOf(ref.names, recog[k].name)>>],
             flagged |-> IF Requested(e) THEN <<>> ELSE LET f == SelectSeq(keptOrig, LAMBDA o : o.ptm) IN [k \in DOMAIN f |-> f[k].id],
             removed |-> SetToSeq(orig \ outIds),
             added |-> [k \in DOMAIN fresh |-> <<fresh[k].id, IdxOf(ref.names, fresh[k].name)>>],
             edges |-> e.edges, exact |-> e.exact,
             planted |-> LET c == SelectSeq(e.cert, LAMBDA p : HasName(ref.names, p[2])) IN IF CertOK(ref, G, e.R, c) THEN Len(c) ELSE 0,
             mutated |-> Requested(e)]
  IN IF ~UniqueNames(ref.names) THEN "unjudged:reference-names-not-unique"
     ELSE IF \E i, j \in DOMAIN e.out : i # j /\ e.out[i].id = e.out[j].id THEN "atom-listed-twice"
     ELSE IF Requested(e) /\ \E k \in DOMAIN keptOrig : ~named(keptOrig[k]) THEN "surplus-atoms-of-the-old-residue-not-removed"
     ELSE IF ~Requested(e) /\ \E k \in DOMAIN keptOrig : ~keptOrig[k].ptm /\ ~named(keptOrig[k]) THEN "atom-neither-marked-unrecognised-nor-given-a-block-name"
     ELSE IF \E k \in DOMAIN fresh : ~named(fresh[k]) THEN "added-atom-is-not-a-block-atom"
     ELSE IF \E k \in DOMAIN fresh : fresh[k].ptm # ref.ptm[IdxOf(ref.names, fresh[k].name)] THEN "added-atom-wrongly-marked"
     ELSE IF Requested(e) /\ \E k \in DOMAIN keptOrig : keptOrig[k].ptm # ref.ptm[IdxOf(ref.names, keptOrig[k].name)] THEN "atom-of-the-requested-residue-wrongly-marked"
     ELSE LET v == JudgeRepair(e2) IN
          IF v # "ok" THEN v
          ELSE IF \E a, b \in orig \cap outIds : a # b /\ FinalAdj(e, a, b) # Adj(e.R, a, b) /\ (\E k \in DOMAIN keptOrig : keptOrig[k].id \in {a, b} /\ keptOrig[k].ptm)
               THEN "bond-of-an-unrecognised-atom-changed"
          ELSE IF Requested(e) /\ \E i \in DOMAIN e.out : e.out[i].resname # ref.name THEN "residue-not-renamed-to-the-requested-block"
          ELSE "ok"
\* what the verdict rests on: was the certificate accepted, how many atoms recognised / re-added / marked / removed
NoteRepairX(e) ==
  IF (e.muts # <<>> /\ ~AllEqual(e.muts)) \/ ~LibHas(e.blocks, TargetName(e)) \/ (\E i \in DOMAIN e.mods : e.mods[i] # "none" /\ ~LibHas(e.modlib, e.mods[i]))
  THEN "-"
  ELSE IF ~AllFit(PlainBlock(LibGet(e.blocks, TargetName(e))), WantedMods(e)) THEN "-"
  ELSE LET ref == RefOf(e)
           c == SelectSeq(e.cert, LAMBDA p : HasName(ref.names, p[2]))
       IN IF c = <<>> THEN "nocert-empty" ELSE IF CertOK(ref, AsGraph(ref), e.R, c) THEN "cert" ELSE "nocert"

(* the molecule around the residues: bonds between input atoms that survive are untouched, a new atom is bonded only inside its residue
   e.atoms : Seq([id, res, orig : BOOLEAN, present : BOOLEAN]); e.inEdges / e.outEdges : Seq(<<a, b>>) with a < b *)
JudgeMolecule(e) ==
  LET info(a) == e.atoms[CHOOSE i \in DOMAIN e.atoms : e.atoms[i].id = a]
      ids == {e.atoms[i].id : i \in DOMAIN e.atoms}
      inS == SeqToSet(e.inEdges)
      outS == SeqToSet(e.outEdges)
  IN IF \E ed \in outS : ed[1] \notin ids \/ ed[2] \notin ids THEN "bond-to-an-atom-outside-the-molecule"
     ELSE IF \E ed \in inS : info(ed[1]).present /\ info(ed[2]).present /\ ed \notin outS THEN "bond-between-input-atoms-lost"
     ELSE IF \E ed \in outS : info(ed[1]).orig /\ info(ed[2]).orig /\ ed \notin inS THEN "bond-between-input-atoms-created"
     ELSE IF \E ed \in outS : (~info(ed[1]).orig \/ ~info(ed[2]).orig) /\ info(ed[1]).res # info(ed[2]).res THEN "new-atom-bonded-outside-its-residue"
     ELSE "ok"

(* residue names unknown to the force field: with delete_unknown the molecule holding such a residue is dropped with one
   warning, every other molecule is kept
   e.mols : Seq(Seq(resname)), e.known : Seq(resname) (the names among them that are blocks), e.kept : Seq(molecule index), e.warnings *)
JudgeUnknown(e) ==
  LET ok(k) == \A i \in DOMAIN e.mols[k] : e.mols[k][i] \in SeqToSet(e.known)
      want == {k \in DOMAIN e.mols : ok(k)}
  IN IF SeqToSet(e.kept) # want THEN (IF \E k \in want : k \notin SeqToSet(e.kept) THEN "molecule-of-known-residues-dropped" ELSE "molecule-with-unknown-residue-kept")
     ELSE IF Len(e.kept) # Cardinality(want) THEN "molecule-kept-twice"
     ELSE IF e.warnings # Len(e.mols) - Cardinality(want) THEN "unknown-residue-warnings-differ-from-dropped-molecules"
     ELSE "ok"

(* presentation independence: two presentations of one residue; pi maps atoms of presentation 1 to atoms of presentation 2 *)
JudgeTwin(e) ==
  LET m1 == AssignedMap(e.one)  m2 == AssignedMap(e.two)
      pi == [a \in {e.pi[i][1] : i \in DOMAIN e.pi} |-> e.pi[CHOOSE i \in DOMAIN e.pi : e.pi[i][1] = a][2]]
      A == IF e.exact THEN Aut(e.one.Ref) ELSE {}
  IN IF Cardinality(DOMAIN m1) # Cardinality(DOMAIN m2) THEN "number-of-recognised-atoms-depends-on-presentation"
     ELSE IF Len(e.one.added) # Len(e.two.added) \/ {e.one.added[i][2] : i \in DOMAIN e.one.added} # {e.two.added[i][2] : i \in DOMAIN e.two.added}
          THEN "re-added-atoms-depend-on-presentation"
     ELSE IF e.complete /\ {pi[a] : a \in DOMAIN m1} # DOMAIN m2 THEN "recognised-atoms-depend-on-presentation"
     ELSE IF e.exact /\ e.complete /\ ~\E a \in A : \A x \in DOMAIN m1 : a[m1[x]] = m2[pi[x]] THEN "names-differ-by-more-than-a-symmetry-of-the-block"
     ELSE "ok"
=============================================================================
