------------------------------- MODULE Repair -------------------------------
(* Repairing a residue against its reference block (vermouth.processors.repair_graph), judged on recorded runs (C04, and
   the "after repair" clause of C19).
   Ref, R : graphs in the SubIso encoding; node colour = element code.  Ref node ids are block atom indices.
   event  : [Ref, R, assigned : Seq(<<R atom, Ref atom>>)  (original atoms that ended up with the name of that block atom),
             flagged : Seq(R atom) (PTM_atom), removed : Seq(R atom), added : Seq(<<new atom, Ref atom>>),
             edges : Seq(<<a, b>>) final bonds inside the residue, exact : BOOLEAN (compute the largest common subgraph exactly),
             planted : Int (size of a common induced subgraph known by construction), mutated : BOOLEAN]                    *)
EXTENDS SubIso

Originals(e) == NodeSet(e.R)
AssignedMap(e) == [a \in {e.assigned[i][1] : i \in DOMAIN e.assigned} |-> e.assigned[CHOOSE i \in DOMAIN e.assigned : e.assigned[i][1] = a][2]]
AddedMap(e) == [a \in {e.added[i][1] : i \in DOMAIN e.added} |-> e.added[CHOOSE i \in DOMAIN e.added : e.added[i][1] = a][2]]
FinalAdj(e, a, b) == \E i \in DOMAIN e.edges : (e.edges[i][1] = a /\ e.edges[i][2] = b) \/ (e.edges[i][1] = b /\ e.edges[i][2] = a)
SeqToSet(s) == {s[i] : i \in DOMAIN s}

JudgeRepair(e) ==
  LET m == AssignedMap(e)
      ad == AddedMap(e)
      rec == DOMAIN m
      full == [a \in rec \cup DOMAIN ad |-> IF a \in rec THEN m[a] ELSE ad[a]]
  IN IF Len(e.assigned) # Cardinality(rec) \/ \E a, b \in rec : a # b /\ m[a] = m[b] THEN "canonical-names-not-unique"
     ELSE IF \E a \in rec : Colour(e.R, a) # Colour(e.Ref, m[a]) THEN "name-assignment-not-element-preserving"
     ELSE IF \E a, b \in rec : a # b /\ Adj(e.R, a, b) # Adj(e.Ref, m[a], m[b]) THEN "name-assignment-not-bond-preserving"
     ELSE IF e.exact /\ Cardinality(rec) # MaxCommon(e.Ref, e.R) THEN "recognised-atoms-not-a-largest-possible-match"
     ELSE IF Cardinality(rec) < e.planted THEN "fewer-atoms-recognised-than-a-known-common-subgraph"
     ELSE IF RangeOf(full) # NodeSet(e.Ref) \/ Cardinality(DOMAIN full) # Cardinality(NodeSet(e.Ref)) THEN
             (IF \E x \in NodeSet(e.Ref) : x \notin RangeOf(full) THEN "block-atom-missing-after-repair" ELSE "block-atom-present-twice")
     ELSE IF \E a, b \in DOMAIN full : a # b /\ FinalAdj(e, a, b) # Adj(e.Ref, full[a], full[b]) THEN "atoms-not-bonded-as-in-the-block"
     ELSE IF ~e.mutated /\ SeqToSet(e.flagged) # (Originals(e) \ rec) THEN
             (IF \E a \in rec : a \in SeqToSet(e.flagged) THEN "recognised-atom-marked-unrecognised" ELSE "extra-atom-not-marked")
     ELSE IF e.mutated /\ SeqToSet(e.removed) # (Originals(e) \ rec) THEN "surplus-atoms-of-the-old-residue-not-removed"
     ELSE "ok"

(* presentation independence: two presentations of one residue; pi maps atoms of presentation 1 to atoms of presentation 2 *)
JudgeTwin(e) ==
  LET m1 == AssignedMap(e.one)  m2 == AssignedMap(e.two)
      pi == [a \in {e.pi[i][1] : i \in DOMAIN e.pi} |-> e.pi[CHOOSE i \in DOMAIN e.pi : e.pi[i][1] = a][2]]
      A == IF e.exact THEN Aut(e.one.Ref) ELSE {}
  IN IF Cardinality(DOMAIN m1) # Cardinality(DOMAIN m2) THEN "number-of-recognised-atoms-depends-on-presentation"
     ELSE IF Len(e.one.added) # Len(e.two.added) \/ {e.one.added[i][2] : i \in DOMAIN e.one.added} # {e.two.added[i][2] : i \in DOMAIN e.two.added}
          THEN "re-added-atoms-depend-on-presentation"
     ELSE IF e.complete /\ {pi[a] : a \in DOMAIN m1} # DOMAIN m2 THEN "recognised-atoms-depend-on-presentation"
     ELSE IF e.exact /\ e.complete /\ ~\E a \in A : \A x \in DOMAIN m1 : a[m1[x]] = m2[pi[x]] THEN "names-differ-by-more-than-a-symmetry-of-the-block"
     ELSE "ok"
=============================================================================
