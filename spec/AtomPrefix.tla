----------------------------- MODULE AtomPrefix -----------------------------
(* Node keys, order prefixes and the `order` / `atomname` attributes of link atoms
   (vermouth.ffinput._treat_atom_prefix).
   A key is a prefix (sequence of characters from + - > < star) followed by a base name.
   The order attribute is a tagged value: [t |-> "none"] | [t |-> "int", v] | [t |-> "str", v : Seq(char)]
                                          | [t |-> "bool"] | [t |-> "float"]
   Result: [err |-> TRUE] or [err |-> FALSE, key : Seq(char), order : tagged value, atomname : Seq(char)]
   TreatOp   : the implementation's order of tests
   TreatDecl : the documented meaning - both notations denote ONE order; if both are given they must denote the
               same; the key always carries the prefix notation of that order                                *)
EXTENDS Integers, Sequences, FiniteSets, TLC

CONSTANTS Prefixes, Bases, Orders, AtomNames      \* enumeration domains (sequences of characters / tagged values)

PChars == {"+", "-", ">", "<", "*"}
ERR == [err |-> TRUE]
Rep(c, n) == [i \in 1..n |-> c]
Abs(n) == IF n < 0 THEN -n ELSE n
SetOf(s) == {s[i] : i \in DOMAIN s}
NoOrder == [t |-> "none"]

(* ---- operational ---- *)
\* _split_node_key on prefix \o base: errors for an empty key, a key made of prefix characters only, a mixed prefix
SplitErr(prefix, base) == (prefix \o base = <<>>) \/ base = <<>> \/ Cardinality(SetOf(prefix)) > 1

\* _get_order_and_prefix_from_attributes -> [err] | [err, prefix, given]
FromAttr(o) ==
  IF o.t = "none" THEN [err |-> FALSE, prefix |-> <<>>, given |-> FALSE]
  ELSE IF o.t = "int" THEN [err |-> FALSE, prefix |-> Rep(IF o.v > 0 THEN "+" ELSE "-", Abs(o.v)), given |-> TRUE]
  ELSE IF o.t = "str" /\ Cardinality(SetOf(o.v)) = 1 /\ o.v[1] \in {">", "<", "*"}
       THEN [err |-> FALSE, prefix |-> o.v, given |-> TRUE]
  ELSE ERR

\* _get_order_and_prefix_from_prefix
OrderOfPrefix(prefix) ==
  IF prefix = <<>> THEN [t |-> "int", v |-> 0]
  ELSE IF prefix[1] = "+" THEN [t |-> "int", v |-> Len(prefix)]
  ELSE IF prefix[1] = "-" THEN [t |-> "int", v |-> -Len(prefix)]
  ELSE [t |-> "str", v |-> prefix]

TreatOp(prefix, base, o, name) ==
  IF SplitErr(prefix, base) THEN ERR
  ELSE LET a == FromAttr(o) IN
       IF a.err THEN ERR
       ELSE IF a.given /\ prefix # <<>> /\ o # OrderOfPrefix(prefix) THEN ERR
       ELSE [err |-> FALSE,
             key |-> IF prefix = <<>> THEN a.prefix \o base ELSE prefix \o base,
             order |-> IF a.given THEN o ELSE OrderOfPrefix(prefix),
             atomname |-> IF name = <<>> THEN base ELSE name]

(* ---- declarative ---- *)
ValidOrder(o) == o.t = "int" \/ (o.t = "str" /\ o.v # <<>> /\ Cardinality(SetOf(o.v)) = 1 /\ o.v[1] \in {">", "<", "*"})
Notation(o) == IF o.t = "int" THEN Rep(IF o.v > 0 THEN "+" ELSE "-", Abs(o.v)) ELSE o.v      \* prefix notation of an order
Denotes(prefix) == OrderOfPrefix(prefix)                                                       \* order a prefix denotes

TreatDecl(prefix, base, o, name) ==
  IF base = <<>> \/ Cardinality(SetOf(prefix)) > 1 THEN ERR
  ELSE IF o.t # "none" /\ ~ValidOrder(o) THEN ERR
  ELSE IF o.t # "none" /\ prefix # <<>> /\ Denotes(prefix) # o THEN ERR          \* contradiction
  ELSE LET ord == IF o.t # "none" THEN o ELSE Denotes(prefix)
       IN [err |-> FALSE, key |-> Notation(ord) \o base, order |-> ord, atomname |-> IF name = <<>> THEN base ELSE name]

(* ---- TAB model ---- *)
VARIABLES prefix, base, ord, name, out
vars == <<prefix, base, ord, name, out>>
PENDING == [err |-> FALSE, key |-> <<"?">>, order |-> NoOrder, atomname |-> <<>>]
Init == prefix \in Prefixes /\ base \in Bases /\ ord \in Orders /\ name \in AtomNames /\ out = PENDING
Eval == out = PENDING /\ out' = TreatDecl(prefix, base, ord, name) /\ UNCHANGED <<prefix, base, ord, name>>
Spec == Init /\ [][Eval]_vars

OpIsDecl == TreatOp(prefix, base, ord, name) = TreatDecl(prefix, base, ord, name)
\* the two notations of one order normalise identically
PrefixOrderAgree ==
  \A p \in Prefixes : (base # <<>> /\ Cardinality(SetOf(p)) <= 1 /\ p # <<>>) =>
      LET viaPrefix == TreatDecl(p, base, NoOrder, name)
          viaAttr   == TreatDecl(<<>>, base, Denotes(p), name)
          both      == TreatDecl(p, base, Denotes(p), name)
      IN viaPrefix = viaAttr /\ both = viaPrefix /\ ~viaPrefix.err
ContradictionRejected ==
  (prefix # <<>> /\ Cardinality(SetOf(prefix)) = 1 /\ base # <<>> /\ ValidOrder(ord) /\ ord # Denotes(prefix))
      => TreatDecl(prefix, base, ord, name).err
=============================================================================
