------------------------------ MODULE MapFileFF ------------------------------
(* Backward-style .map files, the [from] / [to] lists (vermouth.map_input.read_backmapping_file): a mapping is produced
   for EVERY pair (f, t) of a listed origin and a listed destination force field that are both usable - known to the reader
   and holding a block of the molecule's name; the others are skipped (documented), wherever they stand in the lists.
   Absent lists default to "universal" and "martini22".
     Names    : force-field names that may be written in the lists
     Usable   : the subset that is known and has the block
   One state = one file (fromlist, tolist); out = the set of pairs the file must yield. *)
EXTENDS Integers, Sequences, FiniteSets, TLC

CONSTANTS Names, Usable, MaxList

Lists == UNION {[1..k -> Names] : k \in 0..MaxList}
SeqSet(s) == {s[i] : i \in DOMAIN s}
Effective(list, default) == IF list = <<>> THEN {default} ELSE SeqSet(list)

PairsDecl(fl, tl) == {<<f, t>> \in Effective(fl, "universal") \X Effective(tl, "martini22") : f \in Usable /\ t \in Usable}

(* operational: the double loop over the product, skipping an unusable name and going on with the next pair *)
RECURSIVE LoopT(_, _, _)
LoopT(f, tl, acc) == IF tl = <<>> THEN acc
                     ELSE LoopT(f, Tail(tl), IF f \in Usable /\ Head(tl) \in Usable THEN acc \cup {<<f, Head(tl)>>} ELSE acc)
RECURSIVE LoopF(_, _, _)
LoopF(fl, tl, acc) == IF fl = <<>> THEN acc ELSE LoopF(Tail(fl), tl, LoopT(Head(fl), tl, acc))
AsSeq(list, default) == IF list = <<>> THEN <<default>> ELSE list
PairsOp(fl, tl) == LoopF(AsSeq(fl, "universal"), AsSeq(tl, "martini22"), {})

VARIABLES fl, tl, out
vars == <<fl, tl, out>>
Init == fl \in Lists /\ tl \in Lists /\ out = PairsDecl(fl, tl)
Next == UNCHANGED vars
Spec == Init /\ [][Next]_vars

OpIsDecl == PairsOp(fl, tl) = out
\* the position of an unusable name in a list never matters
OrderIrrelevant == \A i, j \in DOMAIN tl : PairsDecl(fl, [tl EXCEPT ![i] = tl[j], ![j] = tl[i]]) = out
=============================================================================
