------------------------------ MODULE ItpText ------------------------------
(* C02 - the text of a GROMACS molecule-type file (.itp) as a sequence of abstract records, and what a reader of
   the FORMAT understands from them.  Pure operators only; extended by ItpWrite (writer, property, TAB model) and
   ItpAgree (a second reader of the same text).

   Records (what harness/indep_readers.read_itp returns for a file, and what ItpWrite!Write produces):
     [k |-> "section", s |-> name] [k |-> "atom", a |-> <<nr>>, p |-> tokens after nr]
     [k |-> "inter", s |-> inline comment, a |-> indices, p |-> parameters]
     [k |-> "ifdef"|"ifndef", s |-> macro] [k |-> "endif"] [k |-> "comment", s |-> text]
     [k |-> "define", s |-> name, p |-> value tokens]                                       (all with fields k,s,a,p)
   The reader splits an interaction line into indices / parameters by the arity of its directive in the GROMACS
   manual; for virtual_sitesn (site, function type, constructing atoms) it returns a = <<site>> \o atoms, p = <<ft>>.

   The lines BEFORE [ moleculetype ] (the prologue) are read separately: vermouth writes there, for every entry of
   molecule.meta['define'],   #ifndef NAME / #define NAME value / #endif.                                         *)
EXTENDS Integers, Sequences, FiniteSets, SequencesExt, TLC

\* Range(f) comes from the community module Functions (via SequencesExt)
Rec(k, s, a, p) == [k |-> k, s |-> s, a |-> a, p |-> p]
NoGuard == <<>>

-----------------------------------------------------------------------------
(* READER semantics (GROMACS): directives nest, a section header does not close them; [ atoms ] line =
   nr type resnr residue atom cgnr [charge [mass]] *)

RS0 == [sec |-> "", stack |-> <<>>, nrs |-> <<>>, atoms |-> <<>>, inters |-> <<>>, bad |-> FALSE]

ReadStep(st, r) ==
  CASE r.k = "section" -> [st EXCEPT !.sec = r.s]
    [] r.k \in {"ifdef", "ifndef"} -> [st EXCEPT !.stack = Append(@, [kind |-> r.k, name |-> r.s])]
    [] r.k = "endif" -> IF st.stack = <<>> THEN [st EXCEPT !.bad = TRUE]
                        ELSE [st EXCEPT !.stack = SubSeq(@, 1, Len(@) - 1)]
    [] r.k = "atom" -> IF st.sec # "atoms" \/ st.stack # <<>> \/ Len(r.p) < 5 \/ Len(r.p) > 7
                       THEN [st EXCEPT !.bad = TRUE]
                       ELSE [st EXCEPT !.nrs = Append(@, r.a[1]),
                                       !.atoms = Append(@, SubSeq(r.p, 1, 5)
                                                           \o <<IF Len(r.p) >= 6 THEN r.p[6] ELSE "">>
                                                           \o <<IF Len(r.p) >= 7 THEN r.p[7] ELSE "">>)]
    [] r.k = "inter" -> [st EXCEPT !.inters = Append(@, [sec |-> st.sec, a |-> r.a, p |-> r.p, g |-> st.stack])]
    [] r.k \in {"comment", "define"} -> st
    [] OTHER -> [st EXCEPT !.bad = TRUE]          \* #else, malformed lines: never written

ReadAll(recs) == FoldLeft(ReadStep, RS0, recs)

BagOf(s) == [x \in Range(s) |-> Cardinality({i \in DOMAIN s : s[i] = x})]

ReadMol(recs) ==
  LET st == ReadAll(recs)
  IN [atoms    |-> st.atoms,
      numbered |-> st.nrs = [i \in DOMAIN st.nrs |-> i],               \* 1..N without gaps, in order
      inters   |-> BagOf(st.inters),
      bad      |-> st.bad \/ st.stack # <<>>]

-----------------------------------------------------------------------------
(* the prologue: every #define with the guard it sits in *)
PS0 == [stack |-> <<>>, defs |-> <<>>, bad |-> FALSE]
ProStep(st, r) ==
  CASE r.k \in {"ifdef", "ifndef"} -> [st EXCEPT !.stack = Append(@, [kind |-> r.k, name |-> r.s])]
    [] r.k = "endif" -> IF st.stack = <<>> THEN [st EXCEPT !.bad = TRUE]
                        ELSE [st EXCEPT !.stack = SubSeq(@, 1, Len(@) - 1)]
    [] r.k = "define" -> [st EXCEPT !.defs = Append(@, [name |-> r.s, val |-> r.p, g |-> st.stack])]
    [] r.k = "comment" -> st
    [] OTHER -> [st EXCEPT !.bad = TRUE]
ReadDefs(pro) == LET st == FoldLeft(ProStep, PS0, pro)
                 IN [defs |-> BagOf(st.defs), bad |-> st.bad \/ st.stack # <<>>]
=============================================================================
