-------------------------- MODULE DeferredWriterOps --------------------------
(* Pure operators of the deferred writer (no variables), shared by
     DeferredWriter.tla       - the state machine that TLC explores (every history, every crash point), and
     DeferredWriterJudge.tla  - TLC as judge of recorded runs of the real code (command line and library histories),
   so that the semantics of opening, finalising, backing up and the safety predicates exist in ONE place.

   A directory is a function  f : P \X (0..K) -> content , <<p, 0>> being the destination p and <<p, n>> its backup
   "#p.n#"; content is a sequence (of tokens / of line identifiers) or ABSENT.
   A pending table is a sequence of entries [final, mode, data] in order of first open.                          *)
EXTENDS Integers, Sequences, FiniteSets

CONSTANT ABSENT

IsPrefix(s, t) == Len(s) <= Len(t) /\ SubSeq(t, 1, Len(s)) = s
Exists(f, p, n) == f[<<p, n>>] # ABSENT
HasFree(f, p, K)  == \E n \in 1..K : ~Exists(f, p, n)
\* the Gromacs scheme: the FIRST number n >= 1 such that "#p.n#" does not exist (gaps in the numbering are filled)
FirstFree(f, p, K) == CHOOSE n \in 1..K : ~Exists(f, p, n) /\ \A j \in 1..(n - 1) : Exists(f, p, j)
EntryFor(pd, p) == {i \in DOMAIN pd : pd[i].final = p}

-----------------------------------------------------------------------------
(* deferred open of p in mode m, `data` written through the handle, handle closed.
   A path that is already pending keeps its entry (and the mode of its FIRST open); the temporary file is re-opened in
   mode m: "w" truncates what the run had written for p so far, "a" adds to it.                                  *)
OpenFx(pd, p, m, data) ==
  IF EntryFor(pd, p) # {}
  THEN LET i == CHOOSE x \in EntryFor(pd, p) : TRUE IN
       [pd EXCEPT ![i].data = IF m = "w" THEN data ELSE @ \o data]
  ELSE Append(pd, [final |-> p, mode |-> m, data |-> data])

-----------------------------------------------------------------------------
(* finalisation, one file-system primitive at a time *)
BackupFx(f, p, K)    == [f EXCEPT ![<<p, FirstFree(f, p, K)>>] = f[<<p, 0>>], ![<<p, 0>>] = ABSENT]
MoveFx(f, p, data)   == [f EXCEPT ![<<p, 0>>] = data]
AppendFx(f, p, data) == [f EXCEPT ![<<p, 0>>] = (IF @ = ABSENT THEN <<>> ELSE @) \o data]

\* the primitives one entry needs, given the directory when its turn comes
EntryPrims(f, e) == IF e.mode = "w" THEN (IF Exists(f, e.final, 0) THEN <<"Backup", "MoveTmp">> ELSE <<"MoveTmp">>)
                    ELSE <<"AppendDest", "RmTmp">>
PrimFx(f, e, kind, K) ==
  CASE kind = "Backup"     -> BackupFx(f, e.final, K)
    [] kind = "MoveTmp"    -> MoveFx(f, e.final, e.data)
    [] kind = "AppendDest" -> AppendFx(f, e.final, e.data)
    [] kind = "RmTmp"      -> f

\* Steps(f, pd, K)[i] = [kind, p, fs]: the i-th primitive of finalising pd from directory f, the destination it serves
\* and the directory after it
RECURSIVE Steps(_, _, _)
Steps(f, pd, K) ==
  IF pd = <<>> THEN <<>>
  ELSE LET e  == Head(pd)
           ks == EntryPrims(f, e)
           f1 == PrimFx(f, e, ks[1], K)
           f2 == IF Len(ks) = 2 THEN PrimFx(f1, e, ks[2], K) ELSE f1
           mine == IF Len(ks) = 2 THEN <<[kind |-> ks[1], p |-> e.final, fs |-> f1], [kind |-> ks[2], p |-> e.final, fs |-> f2]>>
                   ELSE <<[kind |-> ks[1], p |-> e.final, fs |-> f1]>>
       IN mine \o Steps(f2, Tail(pd), K)

NPrims(f, pd, K) == Len(Steps(f, pd, K))
Kinds(f, pd, K)  == [i \in 1..NPrims(f, pd, K) |-> Steps(f, pd, K)[i].kind]
\* the directory after the first k primitives (k = 0: untouched; k = NPrims: finalised)
StateAfter(f, pd, K, k) == IF k = 0 THEN f ELSE Steps(f, pd, K)[k].fs
FinalOf(f, pd, K) == StateAfter(f, pd, K, NPrims(f, pd, K))

-----------------------------------------------------------------------------
(* the sentences of the property, as predicates over (directory before, directory now, plan) *)
AppendTargetIn(pd, p) == \E i \in DOMAIN pd : pd[i].final = p /\ pd[i].mode = "a"

\* every file that existed when finalisation began is intact under its own name or a backup name that was free
\* (append destinations: the old content is a prefix) - must hold at EVERY point of an interrupted finalisation
SafeOf(pre, f, pd, P, K) ==
  \A p \in P : \A n \in 0..K :
     Exists(pre, p, n) =>
        \/ f[<<p, n>>] = pre[<<p, n>>]
        \/ n = 0 /\ \E m \in 1..K : ~Exists(pre, p, m) /\ f[<<p, m>>] = pre[<<p, 0>>]
        \/ n = 0 /\ AppendTargetIn(pd, p) /\ IsPrefix(pre[<<p, 0>>], f[<<p, 0>>])

\* the three clauses of a completed finalisation, per destination
HoldsWhatWasWritten(pre, f, pd, p) ==
  \A i \in EntryFor(pd, p) :
     f[<<p, 0>>] = IF pd[i].mode = "w" THEN pd[i].data
                   ELSE (IF Exists(pre, p, 0) THEN pre[<<p, 0>>] ELSE <<>>) \o pd[i].data
KeptUnderFirstFree(pre, f, pd, p, K) ==
  \A i \in EntryFor(pd, p) :
     (pd[i].mode = "w" /\ Exists(pre, p, 0)) => f[<<p, FirstFree(pre, p, K)>>] = pre[<<p, 0>>]
NothingElseChanged(pre, f, pd, p, K) ==
  \A n \in 1..K :
     (\E i \in EntryFor(pd, p) : pd[i].mode = "w" /\ Exists(pre, p, 0) /\ n = FirstFree(pre, p, K)) \/ f[<<p, n>>] = pre[<<p, n>>]

FinalisedOf(pre, f, pd, P, K) ==
  \A p \in P :
     IF EntryFor(pd, p) = {} THEN \A n \in 0..K : f[<<p, n>>] = pre[<<p, n>>]
     ELSE HoldsWhatWasWritten(pre, f, pd, p) /\ KeptUnderFirstFree(pre, f, pd, p, K) /\ NothingElseChanged(pre, f, pd, p, K)
=============================================================================
