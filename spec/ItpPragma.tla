------------------------------ MODULE ItpPragma ------------------------------
(* The #ifdef / #ifndef / #else / #endif state of the ITP reader (vermouth.gmx.itp_read.ITPDirector): every
   interaction line read inside a guard carries that guard; nesting, a dangling #else / #endif, an unknown pragma and
   an unclosed guard at the end of the file are errors.
   events : "ifdefA" "ifndefA" "ifdefB" "else" "endif" "define" "include" "line"                        *)
EXTENDS Integers, Sequences, FiniteSets, TLC

CONSTANTS Events, MaxLen

NOGUARD == [cond |-> "none", tag |-> ""]

VARIABLES seen, guard, lines, outcome
vars == <<seen, guard, lines, outcome>>

Init == seen = <<>> /\ guard = NOGUARD /\ lines = <<>> /\ outcome = "reading"

Flip(c) == IF c = "ifdef" THEN "ifndef" ELSE "ifdef"

Event(e) ==
  /\ outcome = "reading" /\ Len(seen) < MaxLen
  /\ seen' = Append(seen, e)
  /\ CASE e = "line" -> lines' = Append(lines, guard) /\ UNCHANGED <<guard, outcome>>
       [] e = "define" -> UNCHANGED <<guard, lines, outcome>>
       [] e = "include" -> outcome' = "error" /\ UNCHANGED <<guard, lines>>
       [] e = "endif" -> IF guard = NOGUARD THEN outcome' = "error" /\ UNCHANGED <<guard, lines>>
                         ELSE guard' = NOGUARD /\ UNCHANGED <<lines, outcome>>
       [] e = "else" -> IF guard = NOGUARD THEN outcome' = "error" /\ UNCHANGED <<guard, lines>>
                        ELSE guard' = [guard EXCEPT !.cond = Flip(@)] /\ UNCHANGED <<lines, outcome>>
       [] e \in {"ifdefA", "ifndefA", "ifdefB"} ->
            IF guard # NOGUARD THEN outcome' = "error" /\ UNCHANGED <<guard, lines>>
            ELSE /\ guard' = [cond |-> IF e = "ifndefA" THEN "ifndef" ELSE "ifdef", tag |-> IF e = "ifdefB" THEN "B" ELSE "A"]
                 /\ UNCHANGED <<lines, outcome>>

EOF == /\ outcome = "reading"
       /\ outcome' = IF guard = NOGUARD THEN "loaded" ELSE "error"
       /\ UNCHANGED <<seen, guard, lines>>

Next == (\E e \in Events : Event(e)) \/ EOF
Spec == Init /\ [][Next]_vars

(* declarative reading of a complete file: the guard of the k-th interaction line *)
IsOpen(e) == e \in {"ifdefA", "ifndefA", "ifdefB"}
LastOpenBefore(s, i) == LET S == {j \in 1..(i - 1) : IsOpen(s[j])} IN IF S = {} THEN 0 ELSE CHOOSE j \in S : \A k \in S : k <= j
ClosedBetween(s, a, i) == \E j \in (a + 1)..(i - 1) : s[j] = "endif"
ElsesBetween(s, a, i) == Cardinality({j \in (a + 1)..(i - 1) : s[j] = "else"})
GuardAt(s, i) ==
  LET a == LastOpenBefore(s, i) IN
  IF a = 0 \/ ClosedBetween(s, a, i) THEN NOGUARD
  ELSE LET c0 == IF s[a] = "ifndefA" THEN "ifndef" ELSE "ifdef"
       IN [cond |-> IF ElsesBetween(s, a, i) % 2 = 0 THEN c0 ELSE Flip(c0), tag |-> IF s[a] = "ifdefB" THEN "B" ELSE "A"]
LinePositions(s) == SelectSeq([i \in DOMAIN s |-> i], LAMBDA i : s[i] = "line")
GuardsDecl == outcome = "loaded" => lines = [k \in DOMAIN LinePositions(seen) |-> GuardAt(seen, LinePositions(seen)[k])]
=============================================================================
