---------------------------- MODULE SectionStack ----------------------------
(* The section-header rule of the section parsers (vermouth.parser_utils.SectionLineParser.parse_header and its
   overrides in ffinput.FFDirector / gmx.itp_read.ITPDirector).
   Known : the set of section tuples the parser has a method for (exported from the real METH_DICT by the harness:
           the grammar table is data, the rule below is the logic)
   Fold  : header text as written -> the name it is read as (headers are case-insensitive: the text between the brackets
           is case-folded before anything else; the table is data exported by the harness for the spellings in Names)
   Reset : TRUE for the directors that restart the stack at a known top-level name (FFDirector, ITPDirector)
   HeaderOp   : the implementation's loop (append, then drop the second-to-last element until known or length 1)
   HeaderDecl : the meaning - the new stack is the longest prefix of the old stack under which the header is a known
                section, followed by the header; a header known under no prefix stands alone (its lines are errors) *)
EXTENDS Integers, Sequences, FiniteSets, TLC

CONSTANTS Known, Names, Reset, MaxDepth, Fold

RemoveAt(s, i) == [j \in 1..(Len(s) - 1) |-> IF j < i THEN s[j] ELSE s[j + 1]]

RECURSIVE Drop(_)
Drop(s) == IF s \in Known \/ Len(s) <= 1 THEN s ELSE Drop(RemoveAt(s, Len(s) - 1))

HeaderOp(section, h) ==
  IF Reset /\ <<h>> \in Known THEN <<h>> ELSE Drop(Append(section, h))

Prefixes(s) == {SubSeq(s, 1, k) : k \in 0..Len(s)}
HeaderDecl(section, h) ==
  IF Reset /\ <<h>> \in Known THEN <<h>>
  ELSE LET good == {p \in Prefixes(section) : Append(p, h) \in Known}
       IN IF good = {} THEN <<h>>
          ELSE Append(CHOOSE p \in good : \A q \in good : Len(q) <= Len(p), h)

VARIABLES section, steps, prev, hdr      \* prev/hdr record the last step so that every dumped state is one (input, output) row
vars == <<section, steps, prev, hdr>>
Init == section = <<>> /\ steps = 0 /\ prev = <<>> /\ hdr = ""
Header(h) == /\ steps < MaxDepth /\ section' = HeaderOp(section, Fold[h]) /\ steps' = steps + 1
             /\ prev' = section /\ hdr' = h
Next == \E h \in Names : Header(h)
Spec == Init /\ [][Next]_vars

OpIsDecl == \A h \in Names : HeaderOp(section, Fold[h]) = HeaderDecl(section, Fold[h])
\* every section the parser has a method for can be reached: its names are spellings that headers are read as
KnownReachable == steps >= 0 /\ \A t \in Known : \A i \in DOMAIN t : t[i] \in {Fold[h] : h \in Names}
FoldedOnly == \A i \in DOMAIN section : section[i] \in {Fold[h] : h \in Names}
StackIsShort == Len(section) <= 1 \/ section \in Known
=============================================================================
