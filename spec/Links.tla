-------------------------------- MODULE Links --------------------------------
(* Applying links to a molecule (vermouth.processors.do_links).
   Molecule  M == [nodes : Seq([id, resid, attrs : Seq(<<key, value>>), mods : Seq(Seq(name))]), edges : Seq(<<a, b>>),
                   meta : Seq(<<key, value>>), pos : Seq(<<id, x, y, z>>) (integer lattice units),
                   inters : Seq([type, atoms, params, ver, meta : Seq(<<key, value>>)])]
             mods = the names of the Modification objects an atom carries; a name is a tuple of strings, e.g. <<"C-ter">>
   Link      L == [nodes : Seq([key, order, preds, mods]), edges : Seq(<<k1, k2>>), nonedges : Seq([from, order, preds, mods]),
                   patterns : Seq(Seq([key, preds, mods])), molmeta : preds,
                   inters : Seq([type, atoms, params, ver, meta]),
                   removes : Seq([type, atoms, params, atom_attrs : Seq(preds), meta : preds]),
                   replaces : Seq([key, attr, value]), deletes : Seq(key), features : Seq(name)]
             features are declarations only (ForceField.has_feature); they condition nothing.
   preds     == Seq([key, kind : "eq" | "in" | "notdef" | "null", vals : Seq(value)])          (a null attribute value is "#None")
   mods (of a template) == [k : "absent" | "empty" | "list" | "str" | "choice", vals : Seq(name)]
   order     == [k : "num" | "gt" | "lt" | "star" | "none", v : Int]       ("gt"/"lt"/"star": v = number of characters,
                                                                             "none": the atom carries no order)
   link interaction parameters: <<"p", text>> | <<"dist", a, b>> | <<"angle", a, b, c>> | <<"dih", a, b, c, d>> | <<"dihp", a, b, c, d>>
   Part 1: the residue-order relation, once as the implementation branches (MatchOrderOp), once as the documented
           matrix (MatchOrderDoc).
   Part 2: Fits(L, M) - the conjunction of the statement - and the sequential application of placements.
   Part 3: geometry-derived parameters as exact integer invariants of the matched atoms' lattice positions.      *)
EXTENDS Integers, Sequences, FiniteSets, TLC

Sgn(x) == IF x > 0 THEN 1 ELSE IF x < 0 THEN -1 ELSE 0
Signed(o) == IF o.k = "gt" THEN o.v ELSE -o.v

(* ---- Part 1 ---- *)
MatchOrderOp(o1, r1, o2, r2) ==
  IF o1.k = "num"
  THEN IF o2.k = "num" THEN (o2.v - o1.v) = (r2 - r1)
       ELSE IF o1.v = 0
            THEN IF o2.k \in {"gt", "lt"} THEN Sgn(r2 - r1) = Sgn(Signed(o2))
                 ELSE r1 # r2                                   \* star
            ELSE TRUE
  ELSE IF o1.k \in {"gt", "lt"}
       THEN IF o2.k = "num" /\ o2.v = 0 THEN Sgn(r1 - r2) = Sgn(Signed(o1))
            ELSE IF o2.k \in {"gt", "lt"} THEN Sgn(r2 - r1) = Sgn(Signed(o2) - Signed(o1))
            ELSE TRUE
       ELSE IF o2.k = "num" /\ o2.v = 0 THEN r1 # r2            \* o1 is a star
            ELSE IF o2.k = "star" THEN (o1.v = o2.v) = (r1 = r2)
            ELSE TRUE

\* the documented matrix: 0 = reference residue, > >> < << ordered, n = integer offset, stars = unordered other residues
IsRef(o) == o.k = "num" /\ o.v = 0
IsArrow(o) == o.k \in {"gt", "lt"}
MatchOrderDoc(o1, r1, o2, r2) ==
  CASE o1.k = "num" /\ o2.k = "num" -> (r2 - r1) = (o2.v - o1.v)                       \* cells "?" and "=" (0,0)
    [] IsRef(o1) /\ IsArrow(o2)      -> Sgn(r2 - r1) = Sgn(Signed(o2))                  \* row 0: < < > >
    [] IsArrow(o1) /\ IsRef(o2)      -> Sgn(r1 - r2) = Sgn(Signed(o1))                  \* column 0
    [] IsArrow(o1) /\ IsArrow(o2)    -> Sgn(r2 - r1) = Sgn(Signed(o2) - Signed(o1))     \* the 4x4 block, "=" on its diagonal
    [] IsRef(o1) /\ o2.k = "star"    -> r1 # r2                                         \* "/"
    [] o1.k = "star" /\ IsRef(o2)    -> r1 # r2
    [] o1.k = "star" /\ o2.k = "star" -> (o1.v = o2.v) = (r1 = r2)                      \* "=" on the diagonal, "/" off it
    [] OTHER                          -> TRUE                                           \* the "!" cells

(* ---- Part 2 ---- *)
NodeIds(M) == {M.nodes[i].id : i \in DOMAIN M.nodes}
NodeOf(M, n) == M.nodes[CHOOSE i \in DOMAIN M.nodes : M.nodes[i].id = n]
Has(attrs, key) == \E i \in DOMAIN attrs : attrs[i][1] = key
Val(attrs, key) == attrs[CHOOSE i \in DOMAIN attrs : attrs[i][1] = key][2]
MAdj(M, a, b) == \E i \in DOMAIN M.edges : (M.edges[i][1] = a /\ M.edges[i][2] = b) \/ (M.edges[i][1] = b /\ M.edges[i][2] = a)
LKeys(L) == {L.nodes[i].key : i \in DOMAIN L.nodes}
LNode(L, k) == L.nodes[CHOOSE i \in DOMAIN L.nodes : L.nodes[i].key = k]
LAdj(L, a, b) == \E i \in DOMAIN L.edges : (L.edges[i][1] = a /\ L.edges[i][2] = b) \/ (L.edges[i][1] = b /\ L.edges[i][2] = a)
RangeOf(f) == {f[x] : x \in DOMAIN f}
SeqSet(s) == {s[i] : i \in DOMAIN s}
SymPairs(es) == {<<es[i][1], es[i][2]>> : i \in DOMAIN es} \cup {<<es[i][2], es[i][1]>> : i \in DOMAIN es}

NullVal == "#None"
PredHolds(attrs, p) ==
  CASE p.kind = "eq"     -> Has(attrs, p.key) /\ Val(attrs, p.key) = p.vals[1]
    [] p.kind = "in"     -> Has(attrs, p.key) /\ Val(attrs, p.key) \in SeqSet(p.vals)
    [] p.kind = "notdef" -> ~Has(attrs, p.key) \/ Val(attrs, p.key) # p.vals[1]
    [] p.kind = "null"   -> ~Has(attrs, p.key) \/ Val(attrs, p.key) = NullVal          \* the template asks for null: absent or null
AttrsMatch(attrs, preds) == \A i \in DOMAIN preds : PredHolds(attrs, preds[i])

(* the `modifications` condition of a template atom (link atom, non-edge partner, pattern atom) against the modifications an
   atom of the molecule carries.  The names of the atom's modifications are flattened into one list:
     absent  - the template says nothing: always satisfied
     empty   - null / empty list: satisfied exactly by atoms without modifications
     list    - the atom's modification names are exactly the listed ones (as a bag)
     str / choice - the atom has modifications and every one of them is the given name / one of the given names *)
RECURSIVE FlatMods(_)
FlatMods(ms) == IF ms = <<>> THEN <<>> ELSE Head(ms) \o FlatMods(Tail(ms))
BagOf(s) == [x \in SeqSet(s) |-> Cardinality({i \in DOMAIN s : s[i] = x})]
ModsMatch(nodeMods, c) ==
  LET mods == FlatMods(nodeMods) IN
  CASE c.k = "absent" -> TRUE
    [] c.k = "empty"  -> mods = <<>>
    [] c.k = "list"   -> mods # <<>> /\ BagOf(mods) = BagOf(c.vals)
    [] c.k = "str"    -> mods # <<>> /\ \A i \in DOMAIN mods : mods[i] = c.vals[1]
    [] c.k = "choice" -> mods # <<>> /\ \A i \in DOMAIN mods : mods[i] \in SeqSet(c.vals)
TemplateMatch(node, t) == ModsMatch(node.mods, t.mods) /\ AttrsMatch(node.attrs, t.preds)

(* all induced embeddings of the link graph whose atoms satisfy their templates: candidates per link atom are selected by
   their attributes first, then extended atom by atom; required bonds AND absent bonds among the matched atoms *)
RECURSIVE Extend(_, _, _, _, _, _)
Extend(L, adj, ladj, cand, f, i) ==
  IF i > Len(L.nodes) THEN {f}
  ELSE LET k == L.nodes[i].key IN
       UNION {Extend(L, adj, ladj, cand, (k :> n) @@ f, i + 1) :
                n \in {x \in cand[i] : /\ x \notin RangeOf(f)
                                       /\ \A p \in DOMAIN f : (<<p, k>> \in ladj) = (<<f[p], x>> \in adj)}}

EmptyMap == [x \in {} |-> 0]
RawPlacements(L, M) ==
  LET nm == [n \in NodeIds(M) |-> NodeOf(M, n)]
      cand == [i \in DOMAIN L.nodes |-> {n \in NodeIds(M) : TemplateMatch(nm[n], L.nodes[i])}]
  IN IF \E i \in DOMAIN L.nodes : cand[i] = {} THEN {} ELSE Extend(L, SymPairs(M.edges), SymPairs(L.edges), cand, EmptyMap, 1)

NonEdgesOK(L, M, f) ==
  \A i \in DOMAIN L.nonedges :
     LET ne == L.nonedges[i] IN
     ne.from \in LKeys(L) =>
        ~\E nb \in NodeIds(M) :
            /\ MAdj(M, f[ne.from], nb)
            /\ NodeOf(M, nb).resid = NodeOf(M, f[ne.from]).resid + ne.order
            /\ TemplateMatch(NodeOf(M, nb), ne)
PatternsOK(L, M, f) ==
  L.patterns = <<>> \/ \E i \in DOMAIN L.patterns :
      \A j \in DOMAIN L.patterns[i] : TemplateMatch(NodeOf(M, f[L.patterns[i][j].key]), L.patterns[i][j])
OrdersOK(L, M, f) ==
  \A a, b \in {k \in LKeys(L) : LNode(L, k).order.k # "none"} :
     LET oa == LNode(L, a).order  ob == LNode(L, b).order
         ra == NodeOf(M, f[a]).resid  rb == NodeOf(M, f[b]).resid
     IN IF oa = ob THEN ra = rb ELSE MatchOrderDoc(oa, ra, ob, rb) /\ MatchOrderDoc(ob, rb, oa, ra)

Fits(L, M) ==
  IF ~AttrsMatch(M.meta, L.molmeta) THEN {}
  ELSE {f \in RawPlacements(L, M) : NonEdgesOK(L, M, f) /\ PatternsOK(L, M, f) /\ OrdersOK(L, M, f)}

(* ---- Part 3: geometry-derived parameters on the integer lattice ----
   A parameter computed from positions becomes <<"geo", kind, ...>> holding exact integer invariants (as text):
     dist  : squared distance
     angle : class, u.v, |u|^2, |v|^2          u = a - b, v = c - b;  cos = u.v / sqrt(|u|^2 |v|^2);  class 0 / 90 / 180 / other
     dih   : class, s, |bc|^2, c               s = (ab x bc).cd, c = (ab x bc).(bc x cd);  angle = atan2(s sqrt(|bc|^2), c);
                                               class 0 / 90 / -90 / 180 / other
     dihp  : the dihedral shifted by half a turn: both s and c change sign
   "degenerate" (coincident atoms / collinear triple: the angle is not defined), "out-of-range" (a difference beyond GeoLimit
   lattice units: the products would leave TLC's integers) and "no-position" (an atom without coordinates, e.g. a charge dummy
   before it is placed) carry no value. *)
GeoLimit == 100
DistLimit == 20000
PosOf(M, n) == LET p == M.pos[CHOOSE i \in DOMAIN M.pos : M.pos[i][1] = n] IN <<p[2], p[3], p[4]>>
Sub(p, q) == <<p[1] - q[1], p[2] - q[2], p[3] - q[3]>>
Dot(u, v) == u[1] * v[1] + u[2] * v[2] + u[3] * v[3]
Cross(u, v) == <<u[2] * v[3] - u[3] * v[2], u[3] * v[1] - u[1] * v[3], u[1] * v[2] - u[2] * v[1]>>
Abs(x) == IF x < 0 THEN -x ELSE x
Within(u, lim) == Abs(u[1]) <= lim /\ Abs(u[2]) <= lim /\ Abs(u[3]) <= lim
Zero3 == <<0, 0, 0>>
Dist2(M, a, b) == LET u == Sub(PosOf(M, a), PosOf(M, b)) IN Dot(u, u)

HasPos(M, n) == \E i \in DOMAIN M.pos : M.pos[i][1] = n

DistTok(M, a, b) ==
  IF ~(HasPos(M, a) /\ HasPos(M, b)) THEN <<"geo", "dist", "no-position">> ELSE
  LET u == Sub(PosOf(M, a), PosOf(M, b)) IN
  IF ~Within(u, DistLimit) THEN <<"geo", "dist", "out-of-range">> ELSE <<"geo", "dist", ToString(Dot(u, u))>>

AngleTok(M, a, b, c) ==
  IF ~(HasPos(M, a) /\ HasPos(M, b) /\ HasPos(M, c)) THEN <<"geo", "angle", "no-position">> ELSE
  LET u == Sub(PosOf(M, a), PosOf(M, b))
      v == Sub(PosOf(M, c), PosOf(M, b))
  IN IF ~(Within(u, GeoLimit) /\ Within(v, GeoLimit)) THEN <<"geo", "angle", "out-of-range">>
     ELSE IF u = Zero3 \/ v = Zero3 THEN <<"geo", "angle", "degenerate">>
     ELSE LET d == Dot(u, v)
              cls == IF d = 0 THEN "90" ELSE IF Cross(u, v) = Zero3 THEN (IF d > 0 THEN "0" ELSE "180") ELSE "other"
          IN <<"geo", "angle", cls, ToString(d), ToString(Dot(u, u)), ToString(Dot(v, v))>>

DihTok(M, a, b, c, d, shifted) ==
  IF ~(HasPos(M, a) /\ HasPos(M, b) /\ HasPos(M, c) /\ HasPos(M, d)) THEN <<"geo", IF shifted THEN "dihp" ELSE "dih", "no-position">> ELSE
  LET ab == Sub(PosOf(M, b), PosOf(M, a))
      bc == Sub(PosOf(M, c), PosOf(M, b))
      cd == Sub(PosOf(M, d), PosOf(M, c))
      kind == IF shifted THEN "dihp" ELSE "dih"
  IN IF ~(Within(ab, GeoLimit) /\ Within(bc, GeoLimit) /\ Within(cd, GeoLimit)) THEN <<"geo", kind, "out-of-range">>
     ELSE LET n1 == Cross(ab, bc)
              n2 == Cross(bc, cd)
          IN IF n1 = Zero3 \/ n2 = Zero3 THEN <<"geo", kind, "degenerate">>
             ELSE LET sgn == IF shifted THEN -1 ELSE 1
                      s == sgn * Dot(n1, cd)
                      co == sgn * Dot(n1, n2)
                      cls == IF s = 0 THEN (IF co > 0 THEN "0" ELSE "180")
                             ELSE IF co = 0 THEN (IF s > 0 THEN "90" ELSE "-90") ELSE "other"
                  IN <<"geo", kind, cls, ToString(s), ToString(Dot(bc, bc)), ToString(co)>>

ParamOf(M, f, p) ==
  CASE p[1] = "dist"  -> DistTok(M, f[p[2]], f[p[3]])
    [] p[1] = "angle" -> AngleTok(M, f[p[2]], f[p[3]], f[p[4]])
    [] p[1] = "dih"   -> DihTok(M, f[p[2]], f[p[3]], f[p[4]], f[p[5]], FALSE)
    [] p[1] = "dihp"  -> DihTok(M, f[p[2]], f[p[3]], f[p[4]], f[p[5]], TRUE)
    [] OTHER          -> p

\* the interaction a link interaction becomes on placement f
Placed(M, f, it) ==
  [type |-> it.type, atoms |-> [i \in DOMAIN it.atoms |-> f[it.atoms[i]]], ver |-> it.ver, meta |-> it.meta,
   params |-> [i \in DOMAIN it.params |-> ParamOf(M, f, it.params[i])]]

SetAttr(attrs, key, v) == IF Has(attrs, key) THEN [i \in DOMAIN attrs |-> IF attrs[i][1] = key THEN <<key, v>> ELSE attrs[i]]
                          ELSE Append(attrs, <<key, v>>)

\* replace attributes
RECURSIVE DoReplaces(_, _, _, _)
DoReplaces(M, L, f, i) ==
  IF i > Len(L.replaces) THEN M
  ELSE LET r == L.replaces[i] IN
       DoReplaces([M EXCEPT !.nodes = [j \in DOMAIN M.nodes |-> IF M.nodes[j].id = f[r.key]
                                          THEN [M.nodes[j] EXCEPT !.attrs = SetAttr(@, r.attr, r.value)] ELSE M.nodes[j]]], L, f, i + 1)

RemoveFirst(s, Test(_)) ==
  LET hits == {i \in DOMAIN s : Test(s[i])} IN
  IF hits = {} THEN s
  ELSE LET j == CHOOSE x \in hits : \A y \in hits : x <= y IN [i \in 1..(Len(s) - 1) |-> IF i < j THEN s[i] ELSE s[i + 1]]

(* an interaction is removed by a template when it is of that type on exactly those atoms, has the template's parameters if the
   template gives any, its atoms satisfy the per-atom conditions and its meta data satisfies the template's meta conditions *)
RemovalMatches(M, x, r, atoms) ==
  /\ x.type = r.type /\ x.atoms = atoms
  /\ (r.params = <<>> \/ x.params = r.params)
  /\ \A k \in DOMAIN r.atom_attrs \cap DOMAIN x.atoms : AttrsMatch(NodeOf(M, x.atoms[k]).attrs, r.atom_attrs[k])
  /\ AttrsMatch(x.meta, r.meta)

RECURSIVE DoRemoves(_, _, _, _)
DoRemoves(M, L, f, i) ==
  IF i > Len(L.removes) THEN M
  ELSE LET r == L.removes[i]
           atoms == [k \in DOMAIN r.atoms |-> f[r.atoms[k]]]
       IN DoRemoves([M EXCEPT !.inters = RemoveFirst(@, LAMBDA x : RemovalMatches(M, x, r, atoms))], L, f, i + 1)

AddOrReplace(inters, it) ==
  LET hits == {i \in DOMAIN inters : inters[i].type = it.type /\ inters[i].atoms = it.atoms /\ inters[i].ver = it.ver} IN
  IF hits = {} THEN Append(inters, it)
  ELSE LET j == CHOOSE x \in hits : \A y \in hits : x <= y IN [inters EXCEPT ![j] = it]

RECURSIVE DoAdds(_, _, _, _)
DoAdds(M, L, f, i) ==
  IF i > Len(L.inters) THEN M
  ELSE DoAdds([M EXCEPT !.inters = AddOrReplace(@, Placed(M, f, L.inters[i]))], L, f, i + 1)

ApplyPlacement(M, L, f) == DoAdds(DoRemoves(DoReplaces(M, L, f, 1), L, f, 1), L, f, 1)
=============================================================================
