-------------------------------- MODULE Links --------------------------------
(* Applying links to a molecule (vermouth.processors.do_links).
   Molecule  M == [nodes : Seq([id, resid, attrs : Seq(<<key, value>>)]), edges : Seq(<<a, b>>), meta : Seq(<<key, value>>),
                   pos : Seq(<<id, x, y, z>>) (integer lattice, pm), inters : Seq([type, atoms, params, ver])]
   Link      L == [nodes : Seq([key, order, preds]), edges : Seq(<<k1, k2>>), nonedges : Seq([from, order, preds]),
                   patterns : Seq(Seq([key, preds])), molmeta : preds, inters : Seq([type, atoms, params, ver]),
                   removes : Seq([type, atoms, params]), replaces : Seq([key, attr, value]), deletes : Seq(key)]
   preds     == Seq([key, kind : "eq" | "in" | "notdef", vals : Seq(value)])
   order     == [k : "num" | "gt" | "lt" | "star", v : Int]       ("gt"/"lt"/"star": v = number of characters)
   Part 1: the residue-order relation, once as the implementation branches (MatchOrderOp), once as the documented
           matrix (MatchOrderDoc).
   Part 2: Fits(L, M, f) - the conjunction of the statement - and the sequential application of placements.     *)
EXTENDS Integers, Sequences, FiniteSets, TLC

Sgn(x) == IF x > 0 THEN 1 ELSE IF x < 0 THEN -1 ELSE 0
Signed(o) == IF o.k = "gt" THEN o.v ELSE -o.v

(* ---- Part 1 ---- *)
MatchOrderOp(o1, r1, o2, r2) ==
  IF o1.k = "num"
  THEN IF o2.k = "num" THEN (o2.v - o1.v) = (r2 - r1)
       ELSE IF o1.v = 0
            THEN IF o2.k \in {"gt", "lt"} THEN Sgn(r2 - r1) = Sgn(Signed(o2))
                 ELSE r1 # r2                                   \* star
            ELSE TRUE
  ELSE IF o1.k \in {"gt", "lt"}
       THEN IF o2.k = "num" /\ o2.v = 0 THEN Sgn(r1 - r2) = Sgn(Signed(o1))
            ELSE IF o2.k \in {"gt", "lt"} THEN Sgn(r2 - r1) = Sgn(Signed(o2) - Signed(o1))
            ELSE TRUE
       ELSE IF o2.k = "num" /\ o2.v = 0 THEN r1 # r2            \* o1 is a star
            ELSE IF o2.k = "star" THEN (o1.v = o2.v) = (r1 = r2)
            ELSE TRUE

\* the documented matrix: 0 = reference residue, > >> < << ordered, n = integer offset, stars = unordered other residues
IsRef(o) == o.k = "num" /\ o.v = 0
IsArrow(o) == o.k \in {"gt", "lt"}
MatchOrderDoc(o1, r1, o2, r2) ==
  CASE o1.k = "num" /\ o2.k = "num" -> (r2 - r1) = (o2.v - o1.v)                       \* cells "?" and "=" (0,0)
    [] IsRef(o1) /\ IsArrow(o2)      -> Sgn(r2 - r1) = Sgn(Signed(o2))                  \* row 0: < < > >
    [] IsArrow(o1) /\ IsRef(o2)      -> Sgn(r1 - r2) = Sgn(Signed(o1))                  \* column 0
    [] IsArrow(o1) /\ IsArrow(o2)    -> Sgn(r2 - r1) = Sgn(Signed(o2) - Signed(o1))     \* the 4x4 block, "=" on its diagonal
    [] IsRef(o1) /\ o2.k = "star"    -> r1 # r2                                         \* "/"
    [] o1.k = "star" /\ IsRef(o2)    -> r1 # r2
    [] o1.k = "star" /\ o2.k = "star" -> (o1.v = o2.v) = (r1 = r2)                      \* "=" on the diagonal, "/" off it
    [] OTHER                          -> TRUE                                           \* the "!" cells

(* ---- Part 2 ---- *)
NodeIds(M) == {M.nodes[i].id : i \in DOMAIN M.nodes}
NodeOf(M, n) == M.nodes[CHOOSE i \in DOMAIN M.nodes : M.nodes[i].id = n]
Has(attrs, key) == \E i \in DOMAIN attrs : attrs[i][1] = key
Val(attrs, key) == attrs[CHOOSE i \in DOMAIN attrs : attrs[i][1] = key][2]
MAdj(M, a, b) == \E i \in DOMAIN M.edges : (M.edges[i][1] = a /\ M.edges[i][2] = b) \/ (M.edges[i][1] = b /\ M.edges[i][2] = a)
LKeys(L) == {L.nodes[i].key : i \in DOMAIN L.nodes}
LNode(L, k) == L.nodes[CHOOSE i \in DOMAIN L.nodes : L.nodes[i].key = k]
LAdj(L, a, b) == \E i \in DOMAIN L.edges : (L.edges[i][1] = a /\ L.edges[i][2] = b) \/ (L.edges[i][1] = b /\ L.edges[i][2] = a)
RangeOf(f) == {f[x] : x \in DOMAIN f}
SeqSet(s) == {s[i] : i \in DOMAIN s}

PredHolds(attrs, p) ==
  CASE p.kind = "eq"     -> Has(attrs, p.key) /\ Val(attrs, p.key) = p.vals[1]
    [] p.kind = "in"     -> Has(attrs, p.key) /\ Val(attrs, p.key) \in SeqSet(p.vals)
    [] p.kind = "notdef" -> ~Has(attrs, p.key) \/ Val(attrs, p.key) # p.vals[1]
AttrsMatch(attrs, preds) == \A i \in DOMAIN preds : PredHolds(attrs, preds[i])

NodeFits(L, M, f, k, n) ==
  /\ n \notin RangeOf(f)
  /\ AttrsMatch(NodeOf(M, n).attrs, LNode(L, k).preds)
  /\ \A p \in DOMAIN f : LAdj(L, p, k) = MAdj(M, f[p], n)            \* required bonds AND absent bonds (induced)

RECURSIVE Extend(_, _, _, _)
Extend(L, M, f, todo) ==
  IF todo = <<>> THEN {f}
  ELSE UNION {Extend(L, M, (Head(todo) :> n) @@ f, Tail(todo)) : n \in {x \in NodeIds(M) : NodeFits(L, M, f, Head(todo), x)}}

EmptyMap == [x \in {} |-> 0]
RawPlacements(L, M) == Extend(L, M, EmptyMap, [i \in DOMAIN L.nodes |-> L.nodes[i].key])

NonEdgesOK(L, M, f) ==
  \A i \in DOMAIN L.nonedges :
     LET ne == L.nonedges[i] IN
     ne.from \in LKeys(L) =>
        ~\E nb \in NodeIds(M) :
            /\ MAdj(M, f[ne.from], nb)
            /\ NodeOf(M, nb).resid = NodeOf(M, f[ne.from]).resid + ne.order
            /\ AttrsMatch(NodeOf(M, nb).attrs, ne.preds)
PatternsOK(L, M, f) ==
  L.patterns = <<>> \/ \E i \in DOMAIN L.patterns :
      \A j \in DOMAIN L.patterns[i] : AttrsMatch(NodeOf(M, f[L.patterns[i][j].key]).attrs, L.patterns[i][j].preds)
OrdersOK(L, M, f) ==
  \A a, b \in LKeys(L) :
     LET oa == LNode(L, a).order  ob == LNode(L, b).order
         ra == NodeOf(M, f[a]).resid  rb == NodeOf(M, f[b]).resid
     IN IF oa = ob THEN ra = rb ELSE MatchOrderDoc(oa, ra, ob, rb) /\ MatchOrderDoc(ob, rb, oa, ra)

Fits(L, M) ==
  IF ~AttrsMatch(M.meta, L.molmeta) THEN {}
  ELSE {f \in RawPlacements(L, M) : NonEdgesOK(L, M, f) /\ PatternsOK(L, M, f) /\ OrdersOK(L, M, f)}

(* geometry-derived parameters on the integer lattice: "dist(a,b)" -> squared distance of the matched atoms *)
PosOf(M, n) == LET p == M.pos[CHOOSE i \in DOMAIN M.pos : M.pos[i][1] = n] IN <<p[2], p[3], p[4]>>
Dist2(M, a, b) == LET p == PosOf(M, a) q == PosOf(M, b) IN (p[1]-q[1])*(p[1]-q[1]) + (p[2]-q[2])*(p[2]-q[2]) + (p[3]-q[3])*(p[3]-q[3])

\* the interaction a link interaction becomes on placement f; geometric parameters become <<"d2", integer>>
Placed(M, f, it) ==
  [type |-> it.type, atoms |-> [i \in DOMAIN it.atoms |-> f[it.atoms[i]]], ver |-> it.ver,
   params |-> [i \in DOMAIN it.params |->
                 IF it.params[i][1] = "dist" THEN <<"d2", ToString(Dist2(M, f[it.params[i][2]], f[it.params[i][3]]))>>
                 ELSE it.params[i]]]

SetAttr(attrs, key, v) == IF Has(attrs, key) THEN [i \in DOMAIN attrs |-> IF attrs[i][1] = key THEN <<key, v>> ELSE attrs[i]]
                          ELSE Append(attrs, <<key, v>>)

\* replace attributes
RECURSIVE DoReplaces(_, _, _, _)
DoReplaces(M, L, f, i) ==
  IF i > Len(L.replaces) THEN M
  ELSE LET r == L.replaces[i] IN
       DoReplaces([M EXCEPT !.nodes = [j \in DOMAIN M.nodes |-> IF M.nodes[j].id = f[r.key]
                                          THEN [M.nodes[j] EXCEPT !.attrs = SetAttr(@, r.attr, r.value)] ELSE M.nodes[j]]], L, f, i + 1)

RemoveFirst(s, Test(_)) ==
  LET hits == {i \in DOMAIN s : Test(s[i])} IN
  IF hits = {} THEN s
  ELSE LET j == CHOOSE x \in hits : \A y \in hits : x <= y IN [i \in 1..(Len(s) - 1) |-> IF i < j THEN s[i] ELSE s[i + 1]]

RECURSIVE DoRemoves(_, _, _, _)
DoRemoves(M, L, f, i) ==
  IF i > Len(L.removes) THEN M
  ELSE LET r == L.removes[i]
           atoms == [k \in DOMAIN r.atoms |-> f[r.atoms[k]]]
       IN DoRemoves([M EXCEPT !.inters = RemoveFirst(@, LAMBDA x : x.type = r.type /\ x.atoms = atoms /\ (r.params = <<>> \/ x.params = r.params))],
                    L, f, i + 1)

AddOrReplace(inters, it) ==
  LET hits == {i \in DOMAIN inters : inters[i].type = it.type /\ inters[i].atoms = it.atoms /\ inters[i].ver = it.ver} IN
  IF hits = {} THEN Append(inters, it)
  ELSE LET j == CHOOSE x \in hits : \A y \in hits : x <= y IN [inters EXCEPT ![j] = it]

RECURSIVE DoAdds(_, _, _, _)
DoAdds(M, L, f, i) ==
  IF i > Len(L.inters) THEN M
  ELSE DoAdds([M EXCEPT !.inters = AddOrReplace(@, Placed(M, f, L.inters[i]))], L, f, i + 1)

ApplyPlacement(M, L, f) == DoAdds(DoRemoves(DoReplaces(M, L, f, 1), L, f, 1), L, f, 1)
=============================================================================
