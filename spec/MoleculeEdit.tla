---------------------------- MODULE MoleculeEdit ----------------------------
(* vermouth.molecule.Molecule / Block and vermouth.system.System as editable objects: a small heap of molecules
   and blocks, the molecule list of one System, one action per public editing call.

   A molecule is
     [nodes : Seq([key, resid, cg, tag]),      insertion-ordered nodes with the attributes the property names
                                               (tag = atom name; the drivers also use it as the chain of the atom)
      edges : SUBSET (Key \X Key),             undirected, stored as <<a, b>> with a before b
      inter : [Types -> Seq([atoms, ver, tag, edge])],  per-type interaction lists (edge: meta['edge'], default TRUE)
      maxnode : Int | NULL,                    the `max_node` cache of merge_molecule
      bk : [meta, cit, log, nrexcl, ff]]       BOOKKEEPING that travels with a copy or a merge (not part of the
                                               statement of C12: separately named clauses, see the end of the module)
   Cells in BlockIds hold Blocks: their node keys are atom NAMES (strings), everything else is the same class.
   TLC cannot compare an integer with a string, so every operator that orders or creates keys takes a flag saying
   whether the molecule at hand is a block.

   CacheModel = "asShipped" reproduces the cache exactly as the pinned commit had it (set by merge, bumped by add_node
   whatever the key, unknown to bulk insertion and to removal, 0 being falsy): the spec mutant of D2/D3;
   CacheModel = "repaired" is the design the property demands, the cache abstracted away (recomputed on use);
   CacheModel = "tracked"  follows the repaired implementation step by step (kept while the next key is added,
   dropped otherwise) so that the cached value itself can be compared with the real object; CacheSound says that a
   cache that is present is right, which is why "tracked" and "repaired" give the same merges.
   Error outcomes of a call are recorded in `err`.                                                       *)
EXTENDS Integers, Sequences, FiniteSets, TLC

CONSTANTS Id,          \* heap cells
          BlockIds,    \* the cells that hold Blocks (string keys)
          Types,       \* interaction types
          EdgeTypes,   \* the types make_edges_from_interactions turns into bonds
          InitHeaps,   \* set of initial heaps [Id -> Mol]
          InitSys,     \* set of initial molecule lists of the System (sequences of cells)
          AtomSeqs,    \* atom tuples that calls may name for interactions (molecules)
          NodeSets,    \* node sets that bulk calls (add_nodes_from, remove_nodes_from, subgraph) may name
          Key,         \* node keys that calls may name explicitly (molecules)
          BKey,        \* atom names that calls may name explicitly (blocks)
          BAtomSeqs,   \* atom-name tuples for interactions of blocks
          BRank,       \* [name -> Nat]: the order Python gives to the names (only used to store an edge one way round)
          AttrChoice,  \* sequence of [resid, cg, tag] records a caller may give to a new atom
          ChainSets,   \* chain selections MergeChains may be called with
          Offsets,     \* <<atom_offset, offset_resid, offset_charge_group>> triples for Block.to_molecule
          MaxNodes,    \* bound on nodes per molecule
          MaxInter,    \* bound on interactions per molecule
          MaxResid,    \* bound on resid / charge group (merges shift them upwards)
          MaxDepth,    \* bound on history length
          Acts,        \* names of the actions enabled in this configuration
          CacheModel,  \* "asShipped" | "repaired" | "tracked"
          OneShotPurges, \* TRUE: remove_nodes_from(generator) also purges interactions (repaired design)
          LogExtra,    \* "always": merge_molecule appends its correspondence to every log entry it merges (tree as found)
                       \* "blocks": only when the newcomer is a Block, whose entries refer to atom NAMES (demanded)
          CitShared,   \* TRUE: subgraph() / to_molecule() hand their result the citation SET OBJECT of the source (as found)
          SysFF,       \* name of the force field of the System ("" for none): what MergeChains gives its new molecule
          LogPurge     \* TRUE: removing an atom drops the log emissions that refer to it (demanded); FALSE as found

NULL == -1

VARIABLES mols,    \* the heap
          sys,     \* System.molecules as a sequence of cells
          parts,   \* partition of Id: cells whose molecules hold the SAME citation set object
          err,     \* outcome of the last call
          obs,     \* names of the bookkeeping clauses the last call did not respect
          last,    \* name of the last call (lets the action properties below be evaluated cheaply)
          steps
vars == <<mols, sys, parts, err, obs, last, steps>>

-----------------------------------------------------------------------------
(* pure helpers *)
IsB(m)       == m \in BlockIds
Idx(M)       == DOMAIN M.nodes
KeysOf(M)    == {M.nodes[i].key : i \in Idx(M)}
PosOf(M, k)  == CHOOSE i \in Idx(M) : M.nodes[i].key = k
NodeOf(M, k) == M.nodes[PosOf(M, k)]
MaxKeyOf(M)  == CHOOSE k \in KeysOf(M) : \A j \in KeysOf(M) : j <= k
Less(b, x, y) == IF b THEN BRank[x] < BRank[y] ELSE x < y
NormK(b, x, y) == IF Less(b, y, x) THEN <<y, x>> ELSE <<x, y>>
Norm(x, y)   == NormK(FALSE, x, y)
Truthy(x)    == x # NULL /\ x # 0
RangeOf(s)   == {s[i] : i \in DOMAIN s}
NameOf(b, k) == IF b THEN k ELSE ToString(k)            \* martinize2 formats log arguments by str(name)

NoBook   == [meta |-> "", cit |-> {"vermouth"}, log |-> <<>>, nrexcl |-> NULL, ff |-> ""]     \* Molecule()
EmptyMol == [nodes |-> <<>>, edges |-> {}, inter |-> [t \in Types |-> <<>>], maxnode |-> NULL, bk |-> NoBook]
NInter(M) == LET RECURSIVE S(_) S(T) == IF T = {} THEN 0 ELSE LET t == CHOOSE x \in T : TRUE IN Len(M.inter[t]) + S(T \ {t})
             IN S(Types)
MkInter(at, v, t, e) == [atoms |-> at, ver |-> v, tag |-> t, edge |-> e]

\* the cache after Molecule.add_node(k) on a molecule (b: a block, whose keys are not numbers)
Bump(mn, k, b) ==
  CASE CacheModel = "asShipped" -> (IF Truthy(mn) THEN mn + 1 ELSE 0)
    [] CacheModel = "tracked"   -> (IF b \/ mn = NULL THEN NULL ELSE IF k = mn + 1 THEN k ELSE NULL)
    [] OTHER                    -> NULL
Invalidate(mn) == IF CacheModel = "asShipped" THEN mn ELSE NULL        \* bulk insertion and removal

\* networkx add_node: an existing key keeps its position, the given attributes replace the old ones
PutNode(M, n) ==
  [M EXCEPT !.nodes = IF n.key \in KeysOf(M)
                      THEN [i \in Idx(M) |-> IF M.nodes[i].key = n.key THEN n ELSE M.nodes[i]]
                      ELSE Append(M.nodes, n)]

RECURSIVE PutNodes(_, _)
PutNodes(M, ns) == IF ns = <<>> THEN M ELSE PutNodes(PutNode(M, Head(ns)), Tail(ns))

\* the same through Molecule.add_node, which also touches the cache
RECURSIVE AddNodesOneByOne(_, _)
AddNodesOneByOne(M, ns) ==
  IF ns = <<>> THEN M
  ELSE AddNodesOneByOne([PutNode(M, Head(ns)) EXCEPT !.maxnode = Bump(M.maxnode, Head(ns).key, FALSE)], Tail(ns))

\* log entries: Seq([msg, ems]); an emission is a sequence of <<format name, node key>> pairs
EmKeys(em)      == {em[p][2] : p \in DOMAIN em}
EntryKeys(e)    == UNION {EmKeys(e.ems[j]) : j \in DOMAIN e.ems}
LogKeys(L)      == UNION {EntryKeys(L[i]) : i \in DOMAIN L}
LogDangles(M)   == ~ (LogKeys(M.bk.log) \subseteq KeysOf(M))
Msgs(L)         == {L[i].msg : i \in DOMAIN L}
EmsOf(L, msg)   == IF msg \in Msgs(L) THEN L[CHOOSE i \in DOMAIN L : L[i].msg = msg].ems ELSE <<>>
LogAdd(L, msg, ems) ==            \* log_entries[level][msg] += ems
  IF msg \in Msgs(L) THEN [i \in DOMAIN L |-> IF L[i].msg = msg THEN [L[i] EXCEPT !.ems = @ \o ems] ELSE L[i]]
  ELSE Append(L, [msg |-> msg, ems |-> ems])
PurgeLog(L, ks) == [i \in DOMAIN L |-> [L[i] EXCEPT !.ems = SelectSeq(@, LAMBDA em : EmKeys(em) \cap ks = {})]]

DropNodes(M, ks, purge) ==
  [M EXCEPT !.nodes = SelectSeq(M.nodes, LAMBDA n : n.key \notin ks),
            !.edges = {e \in M.edges : e[1] \notin ks /\ e[2] \notin ks},
            !.inter = IF purge THEN [t \in Types |-> SelectSeq(M.inter[t], LAMBDA x : RangeOf(x.atoms) \cap ks = {})]
                      ELSE M.inter,
            !.maxnode = Invalidate(M.maxnode),
            !.bk.log = IF LogPurge THEN PurgeLog(@, ks) ELSE @]

MkNode(k, ai) == [key |-> k, resid |-> AttrChoice[ai].resid, cg |-> AttrChoice[ai].cg, tag |-> AttrChoice[ai].tag]

\* ascending sequence of a finite set of integers
RECURSIVE SortedSeq(_)
SortedSeq(S) == IF S = {} THEN <<>>
                ELSE LET m == CHOOSE x \in S : \A y \in S : x <= y IN <<m>> \o SortedSeq(S \ {m})

-----------------------------------------------------------------------------
(* effects of the calls as pure operators: [mol |-> resulting molecule, err |-> outcome, obs |-> clauses] *)
RO(M, e, o) == [mol |-> M, err |-> e, obs |-> o]
R(M, e)     == RO(M, e, {})

EffAddNode(M, n, b) == R([PutNode(M, n) EXCEPT !.maxnode = Bump(M.maxnode, n.key, b)], "none")

\* bulk insertion by-passed Molecule.add_node at the pinned commit; now it invalidates the cache
EffAddNodesFrom(M, ns) == R([PutNodes(M, ns) EXCEPT !.maxnode = Invalidate(@)], "none")

EffSetResid(M, k, r) == R([M EXCEPT !.nodes[PosOf(M, k)].resid = r], "none")   \* mol.nodes[k]['resid'] = r

EffRemoveNode(M, k) == IF k \in KeysOf(M) THEN R(DropNodes(M, {k}, TRUE), "none") ELSE R(M, "NetworkXError")

\* oneShot: the caller passed a generator
EffRemoveNodesFrom(M, ks, oneShot) == R(DropNodes(M, ks, ~oneShot \/ OneShotPurges), "none")

EffAddEdge(M, a, b, blk) == R([M EXCEPT !.edges = @ \cup {NormK(blk, a, b)}], "none")

EffAddInterE(M, ty, at, v, t, e) ==
  IF RangeOf(at) \subseteq KeysOf(M)
  THEN R([M EXCEPT !.inter[ty] = Append(@, MkInter(at, v, t, e))], "none")
  ELSE R(M, "KeyError")
EffAddInter(M, ty, at, v, t) == EffAddInterE(M, ty, at, v, t, TRUE)

Hits(M, ty, at, v) == {j \in DOMAIN M.inter[ty] : M.inter[ty][j].atoms = at /\ M.inter[ty][j].ver = v}
FirstOf(S) == CHOOSE x \in S : \A y \in S : x <= y

\* add_or_replace_interaction(type, atoms, parameters, meta, citations): the citations are added to the molecule's
\* set whether the interaction was replaced or added, but not when the call raised
EffAddOrReplaceC(M, ty, at, v, t, cs) ==
  LET r == IF Hits(M, ty, at, v) # {}
           THEN R([M EXCEPT !.inter[ty][FirstOf(Hits(M, ty, at, v))] = MkInter(at, v, t, TRUE)], "none")
           ELSE EffAddInter(M, ty, at, v, t)
  IN IF r.err = "none" THEN R([r.mol EXCEPT !.bk.cit = @ \cup cs], "none") ELSE r
EffAddOrReplace(M, ty, at, v, t) == EffAddOrReplaceC(M, ty, at, v, t, {})

EffRemoveInter(M, ty, at, v) ==
  IF Hits(M, ty, at, v) # {}
  THEN LET j == FirstOf(Hits(M, ty, at, v))
           L == M.inter[ty]
       IN R([M EXCEPT !.inter[ty] = [i \in 1..(Len(L) - 1) |-> IF i < j THEN L[i] ELSE L[i + 1]]], "none")
  ELSE R(M, "KeyError")

\* make_edges_from_interactions: consecutive atoms of every interaction of an edge-making type become bonded,
\* unless the interaction says edge = FALSE
EffMakeEdges(M, blk) ==
  R([M EXCEPT !.edges = @ \cup UNION {UNION {{NormK(blk, M.inter[t][j].atoms[p], M.inter[t][j].atoms[p + 1])
                                                   : p \in 1..(Len(M.inter[t][j].atoms) - 1)}
                                              : j \in {x \in DOMAIN M.inter[t] : M.inter[t][x].edge}}
                                      : t \in Types \cap EdgeTypes}], "none")

\* subgraph(nodes): the new molecule lists its atoms in the order of the ARGUMENT (kseq), copies bonds and the
\* interactions that lie entirely inside; copy() is subgraph(all nodes in their own order)
\* keys listed more than once count once, at their first position.
\* Bookkeeping as found: meta (shallow copy), force field, nrexcl and the citations come along, the log entries do not.
RECURSIVE Dedup(_)
Dedup(s) == IF s = <<>> THEN <<>>
            ELSE LET r == Dedup(SubSeq(s, 1, Len(s) - 1)) IN IF s[Len(s)] \in RangeOf(r) THEN r ELSE Append(r, s[Len(s)])
SubMol(M, kseq0) ==
  LET kseq == Dedup(kseq0)
      ks == RangeOf(kseq) IN
  [nodes |-> [i \in DOMAIN kseq |-> NodeOf(M, kseq[i])],
   edges |-> {e \in M.edges : e[1] \in ks /\ e[2] \in ks},
   inter |-> [t \in Types |-> SelectSeq(M.inter[t], LAMBDA x : RangeOf(x.atoms) \subseteq ks)],
   maxnode |-> NULL,
   bk |-> [M.bk EXCEPT !.log = <<>>]]
KeySeq(M) == [i \in Idx(M) |-> M.nodes[i].key]
CopyMol(M) == [SubMol(M, KeySeq(M)) EXCEPT !.bk.log = M.bk.log]            \* copy(): own citation set, deep-copied log

\* networkx's own Graph.copy(): atoms (attribute dicts copied) and bonds, on a NEW Molecule(): no interactions,
\* none of the bookkeeping
GraphCopyMol(M) == [EmptyMol EXCEPT !.nodes = M.nodes, !.edges = M.edges]

-----------------------------------------------------------------------------
(* merge_molecule: `base` is the key after which the newcomer's atoms are numbered *)
MergeBase(M) ==
  IF M.nodes = <<>> THEN 0
  ELSE IF CacheModel \in {"asShipped", "tracked"}
       THEN (IF (CacheModel = "tracked" /\ M.maxnode # NULL) \/ (CacheModel = "asShipped" /\ Truthy(M.maxnode))
             THEN M.maxnode ELSE MaxKeyOf(M))
       ELSE MaxKeyOf(M)

Corr(N, base) == [i \in Idx(N) |-> base + i]          \* i-th atom of the newcomer -> new key

Glue(M, N, base) ==
  LET dres == IF M.nodes = <<>> THEN 0 ELSE NodeOf(M, base).resid
      dcg  == IF M.nodes = <<>> THEN 0 ELSE NodeOf(M, base).cg
      new  == [i \in Idx(N) |-> [key |-> base + i, resid |-> N.nodes[i].resid + dres,
                                 cg |-> N.nodes[i].cg + dcg, tag |-> N.nodes[i].tag]]
      ren(k) == base + PosOf(N, k)
      M0   == [M EXCEPT !.maxnode = IF CacheModel = "repaired" THEN NULL ELSE base]
      M1   == AddNodesOneByOne(M0, new)
  IN [M1 EXCEPT !.inter = [t \in Types |-> M.inter[t] \o [j \in DOMAIN N.inter[t] |->
                                        [N.inter[t][j] EXCEPT !.atoms = [p \in DOMAIN N.inter[t][j].atoms |-> ren(N.inter[t][j].atoms[p])]]]],
                !.edges = M.edges \cup {Norm(ren(e[1]), ren(e[2])) : e \in {x \in N.edges : x[1] # x[2]}}]

\* the log entries of the newcomer, merged one by one into L; stops at the first entry that refers to an atom the
\* newcomer no longer has (the implementation looks the new key up and raises KeyError there, everything else being
\* merged already)
RECURSIVE MergeLog(_, _, _, _, _)
MergeLog(L, NL, N, base, nB) ==
  IF NL = <<>> THEN [log |-> L, ok |-> TRUE]
  ELSE LET e == Head(NL) IN
       IF ~ (EntryKeys(e) \subseteq KeysOf(N)) THEN [log |-> L, ok |-> FALSE]
       ELSE LET ren  == [j \in DOMAIN e.ems |-> [p \in DOMAIN e.ems[j] |-> <<e.ems[j][p][1], base + PosOf(N, e.ems[j][p][2])>>]]
                bind == [i \in Idx(N) |-> <<NameOf(nB, N.nodes[i].key), base + i>>]
                more == IF LogExtra = "always" \/ nB THEN <<bind>> ELSE <<>>
            IN MergeLog(LogAdd(L, e.msg, ren \o more), Tail(NL), N, base, nB)

(* BOOKKEEPING clauses of a merge, evaluated on (receiver before, newcomer, receiver after): the names of those that fail.
   LogKept          every log entry of both operands is still there, the receiver's emissions first and unchanged
   LogRenumbered    the newcomer's emissions follow, their atom references renumbered with the correspondence
   LogNothingAdded  nothing else: a molecule's entries carry their emissions already; only a BLOCK, whose entries
                    refer to atom names, gets one emission per entry binding those names to the new atoms
   CitKept          the citations are the union of both
   MetaKept         meta, force field and nrexcl of a non-empty receiver are unchanged                              *)
MergeBookObs(M, N, M2, base, nB) ==
  LET all  == Msgs(M.bk.log) \cup Msgs(N.bk.log)
      a(m) == EmsOf(M.bk.log, m)
      n(m) == EmsOf(N.bk.log, m)
      z(m) == EmsOf(M2.bk.log, m)
      renOK(m) == \A j \in DOMAIN n(m) : LET x == z(m)[Len(a(m)) + j] IN
                     /\ Len(x) = Len(n(m)[j])
                     /\ \A p \in DOMAIN x : x[p][1] = n(m)[j][p][1] /\ x[p][2] = base + PosOf(N, n(m)[j][p][2])
      kept == \A m \in all : /\ m \in Msgs(M2.bk.log)
                             /\ Len(z(m)) >= Len(a(m)) + Len(n(m))
                             /\ SubSeq(z(m), 1, Len(a(m))) = a(m)
  IN {c \in {"LogKept"} : ~ kept}
     \cup {c \in {"LogRenumbered"} : kept /\ ~ (\A m \in all : renOK(m))}
     \cup {c \in {"LogNothingAdded"} : kept /\ ~ (/\ Msgs(M2.bk.log) = all
                                                  /\ \A m \in all : Len(z(m)) = Len(a(m)) + Len(n(m))
                                                                       + (IF nB /\ m \in Msgs(N.bk.log) THEN 1 ELSE 0))}
     \cup {c \in {"CitKept"} : M2.bk.cit # M.bk.cit \cup N.bk.cit}
     \cup {c \in {"MetaKept"} : M.nodes # <<>> /\ (M2.bk.meta # M.bk.meta \/ M2.bk.ff # M.bk.ff \/ M2.bk.nrexcl # M.bk.nrexcl)}

\* mB / nB: the receiver / the newcomer is a block
EffMerge(M, N, mB, nB) ==
  IF M.bk.ff # N.bk.ff THEN R(M, "ValueError")                     \* documented refusals, nothing touched
  ELSE LET M0 == IF M.bk.nrexcl = NULL /\ M.nodes = <<>> THEN [M EXCEPT !.bk.nrexcl = N.bk.nrexcl] ELSE M IN
  IF M0.bk.nrexcl # N.bk.nrexcl THEN R(M, "ValueError")
  ELSE IF mB /\ M.nodes # <<>> THEN R(M, "TypeError")              \* keys that are not numbers: no "highest key + 1"
  ELSE LET base == MergeBase(M0) IN
  IF M.nodes # <<>> /\ base \notin KeysOf(M) THEN R(M0, "KeyError")    \* reachable only "asShipped"
  ELSE LET G  == Glue(M0, N, base)
           G1 == [G EXCEPT !.bk.cit = @ \cup N.bk.cit]
           lg == MergeLog(M0.bk.log, N.bk.log, N, base, nB)
           G2 == [G1 EXCEPT !.bk.log = lg.log]
       IN IF lg.ok THEN RO(G2, "none", MergeBookObs(M, N, G2, base, nB))
          ELSE RO(G2, "KeyError", {"MergeLogTotal"})

(* system-level operations, expressed with the same effect operators *)
\* every molecule of `ids` merged into M, in that order; stops at the first refusal
RECURSIVE FoldMerge(_, _, _, _)
FoldMerge(M, heap, ids, o) ==
  IF ids = <<>> THEN RO(M, "none", o)
  ELSE LET r == EffMerge(M, heap[Head(ids)], FALSE, IsB(Head(ids))) IN
       IF r.err # "none" THEN RO(r.mol, r.err, o \cup r.obs) ELSE FoldMerge(r.mol, heap, Tail(ids), o \cup r.obs)

\* MergeChains(chains): a NEW molecule receives, in system order, every molecule all of whose atoms carry a chain
\* (here: the `tag` attribute) from `chains`; the others are left alone
TagsOf(M) == {M.nodes[i].tag : i \in Idx(M)}
Selected(heap, ids, chains) == SelectSeq(ids, LAMBDA i : TagsOf(heap[i]) \subseteq chains)
AllChains(heap, ids) == UNION {TagsOf(heap[ids[j]]) : j \in DOMAIN ids}
\* the new molecule: force field of the system, nrexcl of the first merged molecule, no meta
MergedChains(heap, ids, chains) ==
  LET sel == Selected(heap, ids, chains) IN
  FoldMerge([EmptyMol EXCEPT !.bk.nrexcl = IF sel = <<>> THEN NULL ELSE heap[sel[1]].bk.nrexcl, !.bk.ff = SysFF], heap, sel, {})
\* the molecule list afterwards: the new molecule (cell d) where the first merged molecule was, the other merged ones gone
RECURSIVE SysAfterChains(_, _, _, _)
SysAfterChains(ids, sel, d, placed) ==
  IF ids = <<>> THEN <<>>
  ELSE IF Head(ids) \in RangeOf(sel)
       THEN (IF placed THEN <<>> ELSE <<d>>) \o SysAfterChains(Tail(ids), sel, d, TRUE)
       ELSE <<Head(ids)>> \o SysAfterChains(Tail(ids), sel, d, placed)

\* Block.to_molecule(atom_offset, offset_resid, offset_charge_group): the block's atoms, in order, get the keys
\* atom_offset, atom_offset + 1, ...; residue numbers and charge groups are shifted; bonds and interactions follow.
\* Bookkeeping as found: force field, nrexcl, citations (the block's own set object) and log entries come along, meta does not
ToMolecule(B, off, dres, dcg) ==
  LET new(k) == off + PosOf(B, k) - 1 IN
  [nodes |-> [i \in Idx(B) |-> [key |-> off + i - 1, resid |-> B.nodes[i].resid + dres, cg |-> B.nodes[i].cg + dcg, tag |-> B.nodes[i].tag]],
   edges |-> {Norm(new(e[1]), new(e[2])) : e \in B.edges},
   inter |-> [t \in Types |-> [j \in DOMAIN B.inter[t] |-> [B.inter[t][j] EXCEPT !.atoms = [p \in DOMAIN B.inter[t][j].atoms |-> new(B.inter[t][j].atoms[p])]]]],
   maxnode |-> NULL,
   bk |-> [B.bk EXCEPT !.meta = ""]]

-----------------------------------------------------------------------------
(* the partition of the cells by citation-set object *)
PartOf(p, c)     == CHOOSE s \in p : c \in s
Detach(p, d)     == ({s \ {d} : s \in p} \ {{}}) \cup {{d}}
Join(p, d, s)    == LET q == Detach(p, d) IN {IF s \in x THEN x \cup {d} ELSE x : x \in q \ {{d}}}
Fresh            == {{c} : c \in Id}
\* an in-place update of the citation set of cell m is seen through every cell holding the same object
Propagate(h, p, m) == [c \in Id |-> IF c # m /\ c \in PartOf(p, m) THEN [h[c] EXCEPT !.bk.cit = h[m].bk.cit] ELSE h[c]]

(* generic bookkeeping clauses of one step
   BookFrame      a call on one molecule leaves the bookkeeping of every other molecule alone
   LogNoDangling  every atom reference of a log emission is an atom that is present (first step that breaks it)
   CacheSound     a highest-key cache that is present is right                                                  *)
CacheOK(M) == \/ M.maxnode = NULL
              \/ M.nodes = <<>> /\ M.maxnode = 0
              \/ M.nodes # <<>> /\ M.maxnode = MaxKeyOf(M)
StepObs(h, h2, touched) ==
  {c \in {"BookFrame"} : \E x \in Id \ touched : h2[x].bk # h[x].bk}
  \cup {c \in {"LogNoDangling"} : (\E x \in Id : LogDangles(h2[x])) /\ ~ (\E x \in Id : LogDangles(h[x]))}
  \cup {c \in {"CacheSound"} : CacheModel = "tracked" /\ \E x \in Id \ BlockIds : ~ CacheOK(h2[x])}

-----------------------------------------------------------------------------
(* outcomes of the calls on a whole world W = [mols, sys, parts]: [mols, sys, parts, err, obs].
   The actions below and the trace judge (Trace_MoleculeEdit) both go through these four operators.          *)
World(h, s, p)        == [mols |-> h, sys |-> s, parts |-> p]
Outcome(W, h2, s2, p2, e, o, touched) ==
  [mols |-> h2, sys |-> s2, parts |-> p2, err |-> e, obs |-> o \cup StepObs(W.mols, h2, touched)]

\* a call that changes the object in cell m in place (r: its effect on that molecule)
OutInPlace(W, m, r) == Outcome(W, Propagate([W.mols EXCEPT ![m] = r.mol], W.parts, m), W.sys, W.parts, r.err, r.obs, {m})
\* a call whose result is a new object, stored in cell d; `like`: the cell whose citation set it holds (0: its own)
OutStore(W, d, M, like) ==
  Outcome(W, [W.mols EXCEPT ![d] = M], W.sys,
          IF like # 0 /\ CitShared THEN Join(W.parts, d, like) ELSE Detach(W.parts, d), "none", {}, {d})
\* MergeAllMolecules: every later molecule of the system is merged into the first one, which is then the only one left;
\* a refusal half-way leaves the list as it was (and the first molecule with what it had received so far)
OutMergeAll(W) ==
  LET r == FoldMerge(W.mols[W.sys[1]], W.mols, Tail(W.sys), {})
  IN Outcome(W, Propagate([W.mols EXCEPT ![W.sys[1]] = r.mol], W.parts, W.sys[1]),
             IF r.err = "none" THEN <<W.sys[1]>> ELSE W.sys, W.parts, r.err, r.obs, {W.sys[1]})
\* MergeChains: the new Molecule object lands in the free cell d
OutMergeChains(W, chains, d) ==
  LET sel == Selected(W.mols, W.sys, chains)
      r   == MergedChains(W.mols, W.sys, chains)
  IN IF sel = <<>> \/ r.err # "none"
     THEN Outcome(W, W.mols, W.sys, W.parts, r.err, r.obs, {})            \* nothing selected, or a refusal: system as before
     ELSE Outcome(W, [W.mols EXCEPT ![d] = r.mol], SysAfterChains(W.sys, sel, d, FALSE), Detach(W.parts, d), "none", r.obs, {d})

-----------------------------------------------------------------------------
(* actions *)
\* the calls the action properties speak of; every other call leaves "-" in `last`
Marked == {"Merge", "MergeAll", "MergeChains", "MergeChainsAll", "ToMol", "MakeEdges", "Copy", "GraphCopy", "Subgraph"}
Now == World(mols, sys, parts)
Step(name, c) ==
  /\ name \in Acts
  /\ steps < MaxDepth
  /\ last' = IF name \in Marked THEN name ELSE "-"
  /\ mols' = c.mols /\ sys' = c.sys /\ parts' = c.parts
  /\ err' = c.err
  /\ obs' = c.obs
  /\ steps' = steps + 1

Apply(name, m, r) == Step(name, OutInPlace(Now, m, r))
Store(name, d, M, like) == Step(name, OutStore(Now, d, M, like))

KeysFor(m)  == IF IsB(m) THEN BKey ELSE Key
AtomsFor(m) == IF IsB(m) THEN BAtomSeqs ELSE AtomSeqs

AddNode(m, k, ai) ==
  /\ "AddNode" \in Acts
  /\ Len(mols[m].nodes) < MaxNodes \/ k \in KeysOf(mols[m])
  /\ Apply("AddNode", m, EffAddNode(mols[m], MkNode(k, ai), IsB(m)))

AddNodesFrom(m, ks, ai) ==
  /\ "AddNodesFrom" \in Acts /\ ~ IsB(m)
  /\ Cardinality(KeysOf(mols[m]) \cup ks) <= MaxNodes
  /\ Apply("AddNodesFrom", m, EffAddNodesFrom(mols[m], [i \in 1..Cardinality(ks) |-> MkNode(SortedSeq(ks)[i], ai)]))

SetResid(m, k, r) == "SetResid" \in Acts /\ ~ IsB(m) /\ k \in KeysOf(mols[m]) /\ Apply("SetResid", m, EffSetResid(mols[m], k, r))

RemoveNode(m, k) == "RemoveNode" \in Acts /\ Apply("RemoveNode", m, EffRemoveNode(mols[m], k))

RemoveNodesFrom(m, ks, oneShot) == "RemoveNodesFrom" \in Acts /\ ~ IsB(m) /\ ks # {} /\ Apply("RemoveNodesFrom", m, EffRemoveNodesFrom(mols[m], ks, oneShot))

AddEdge(m, a, b) == "AddEdge" \in Acts /\ ~ IsB(m) /\ {a, b} \subseteq KeysOf(mols[m]) /\ Apply("AddEdge", m, EffAddEdge(mols[m], a, b, FALSE))

AddInter(m, ty, at, v, t) == "AddInter" \in Acts /\ NInter(mols[m]) < MaxInter /\ Apply("AddInter", m, EffAddInter(mols[m], ty, at, v, t))

\* an interaction that must not become a bond (meta edge = FALSE)
AddInterNoEdge(m, ty, at) == "AddInterNoEdge" \in Acts /\ NInter(mols[m]) < MaxInter /\ Apply("AddInterNoEdge", m, EffAddInterE(mols[m], ty, at, 0, "n", FALSE))

AddOrReplace(m, ty, at, v, t) ==
  /\ "AddOrReplace" \in Acts /\ ~ IsB(m)
  /\ NInter(mols[m]) < MaxInter \/ Hits(mols[m], ty, at, v) # {}
  /\ Apply("AddOrReplace", m, EffAddOrReplace(mols[m], ty, at, v, t))

\* ... with the citations of a link
AddOrReplaceCite(m, ty, at, c) ==
  /\ "AddOrReplaceCite" \in Acts /\ ~ IsB(m)
  /\ NInter(mols[m]) < MaxInter \/ Hits(mols[m], ty, at, 0) # {}
  /\ Apply("AddOrReplaceCite", m, EffAddOrReplaceC(mols[m], ty, at, 0, "c", {c}))

RemoveInter(m, ty, at, v) == "RemoveInter" \in Acts /\ ~ IsB(m) /\ Apply("RemoveInter", m, EffRemoveInter(mols[m], ty, at, v))

MakeEdges(m) == "MakeEdges" \in Acts /\ Apply("MakeEdges", m, EffMakeEdges(mols[m], IsB(m)))

Copy(src, dst) == "Copy" \in Acts /\ src # dst /\ ~ IsB(src) /\ ~ IsB(dst) /\ Store("Copy", dst, CopyMol(mols[src]), 0)

Subgraph(src, ks, dst) ==
  /\ "Subgraph" \in Acts /\ src # dst /\ ~ IsB(src) /\ ~ IsB(dst) /\ ks \subseteq KeysOf(mols[src])
  /\ Store("Subgraph", dst, SubMol(mols[src], SortedSeq(ks)), src)

GraphCopy(src, dst) == "GraphCopy" \in Acts /\ src # dst /\ ~ IsB(src) /\ ~ IsB(dst) /\ Store("GraphCopy", dst, GraphCopyMol(mols[src]), 0)

\* not generated: a molecule merged into itself; an EMPTY block as the receiver (it would end up with number keys)
Merge(m, n) ==
  /\ "Merge" \in Acts
  /\ m # n
  /\ ~ (IsB(m) /\ mols[m].nodes = <<>>)
  /\ Len(mols[m].nodes) + Len(mols[n].nodes) <= MaxNodes
  /\ Apply("Merge", m, EffMerge(mols[m], mols[n], IsB(m), IsB(n)))

ToMol(b, d, o) ==
  /\ "ToMol" \in Acts /\ IsB(b) /\ ~ IsB(d)
  /\ Store("ToMol", d, ToMolecule(mols[b], o[1], o[2], o[3]), b)

\* MergeAllMolecules: every later molecule of the system is merged into the first one, which is then the only one left
MergeAll ==
  /\ "MergeAll" \in Acts /\ sys # <<>>
  /\ Step("MergeAll", OutMergeAll(Now))

\* MergeChains(chains) / MergeChains(all_chains=True); the new Molecule object lands in the free cell d
MergeChainsTo(name, chains, d) ==
  /\ d \notin RangeOf(sys) /\ ~ IsB(d)
  /\ Step(name, OutMergeChains(Now, chains, d))
MergeChains(chains, d) == "MergeChains" \in Acts /\ MergeChainsTo("MergeChains", chains, d)
MergeChainsAll(d)      == "MergeChainsAll" \in Acts /\ MergeChainsTo("MergeChainsAll", AllChains(mols, sys), d)

Pairs  == {p \in Key \X Key : p[1] < p[2]}
Vers   == {0, 1}
ITags  == {"s", "t"}

Next ==
  \/ \E m \in Id : \E k \in KeysFor(m), ai \in DOMAIN AttrChoice : AddNode(m, k, ai)
  \/ \E m \in Id, ks \in NodeSets, ai \in DOMAIN AttrChoice : AddNodesFrom(m, ks, ai)
  \/ \E m \in Id, k \in Key, r \in {MaxResid} : SetResid(m, k, r)
  \/ \E m \in Id : \E k \in KeysFor(m) : RemoveNode(m, k)
  \/ \E m \in Id, ks \in NodeSets, o \in BOOLEAN : RemoveNodesFrom(m, ks, o)
  \/ \E m \in Id, p \in Pairs : AddEdge(m, p[1], p[2])
  \/ \E m \in Id, ty \in Types : \E at \in AtomsFor(m) : AddInter(m, ty, at, 0, "s")
  \/ \E m \in Id, ty \in Types : \E at \in AtomsFor(m) : AddInterNoEdge(m, ty, at)
  \/ \E m \in Id, ty \in Types, at \in AtomSeqs, v \in Vers : AddOrReplace(m, ty, at, v, "t")
  \/ \E m \in Id, ty \in Types, at \in AtomSeqs : AddOrReplaceCite(m, ty, at, "cx")
  \/ \E m \in Id, ty \in Types, at \in AtomSeqs, v \in Vers : RemoveInter(m, ty, at, v)
  \/ \E m \in Id : MakeEdges(m)
  \/ \E s, d \in Id : Copy(s, d)
  \/ \E s, d \in Id, ks \in NodeSets : Subgraph(s, ks, d)
  \/ \E s, d \in Id : GraphCopy(s, d)
  \/ \E m, n \in Id : Merge(m, n)
  \/ \E b, d \in Id, o \in Offsets : ToMol(b, d, o)
  \/ MergeAll
  \/ \E cs \in ChainSets, d \in Id : MergeChains(cs, d)
  \/ \E d \in Id : MergeChainsAll(d)

Init == /\ mols \in InitHeaps
        /\ sys \in InitSys
        /\ parts = Fresh
        /\ err = "none"
        /\ obs = {}
        /\ last = "-"
        /\ steps = 0

Spec == Init /\ [][Next]_vars

Bounded ==
  /\ \A m \in Id : \A i \in Idx(mols[m]) : mols[m].nodes[i].resid <= MaxResid /\ mols[m].nodes[i].cg <= MaxResid

-----------------------------------------------------------------------------
(* the property *)
NoDanglingMol(M) ==
  LET ks == KeysOf(M) IN
  /\ \A e \in M.edges : e[1] \in ks /\ e[2] \in ks
  /\ \A t \in Types : \A j \in DOMAIN M.inter[t] : RangeOf(M.inter[t][j].atoms) \subseteq ks
NoDangling == \A m \in Id : NoDanglingMol(mols[m])

UniqueKeys == \A m \in Id : \A i, j \in Idx(mols[m]) : i # j => mols[m].nodes[i].key # mols[m].nodes[j].key

SysWellFormed == /\ RangeOf(sys) \subseteq Id \ BlockIds
                 /\ \A i, j \in DOMAIN sys : i # j => sys[i] # sys[j]
PartsWellFormed == /\ UNION parts = Id /\ {} \notin parts
                   /\ \A x, y \in parts : x # y => x \cap y = {}
                   /\ \A x \in parts : \A c, d \in x : mols[c].bk.cit = mols[d].bk.cit
                   /\ (~ CitShared => parts = Fresh)

\* the declarative form of one merge: (M, N) -> M2
\* nothing of the receiver overwritten or dropped, every atom / bond / interaction of the newcomer present under fresh
\* keys, residue numbers and charge groups shifted uniformly by those of the receiver's last (highest-key) atom
Conserved(M, N, M2) ==
  /\ Len(M2.nodes) = Len(M.nodes) + Len(N.nodes)
  /\ \A i \in Idx(M) : M2.nodes[i] = M.nodes[i]
  /\ LET ks == KeysOf(M) IN \A i \in Idx(N) : M2.nodes[Len(M.nodes) + i].key \notin ks
  /\ Cardinality(KeysOf(M2)) = Len(M2.nodes)
  /\ LET dr == IF M.nodes = <<>> THEN 0 ELSE NodeOf(M, MaxKeyOf(M)).resid       \* of the receiver's last atom
         dc == IF M.nodes = <<>> THEN 0 ELSE NodeOf(M, MaxKeyOf(M)).cg
     IN \A i \in Idx(N) : LET x == M2.nodes[Len(M.nodes) + i] IN
           x.resid = N.nodes[i].resid + dr /\ x.cg = N.nodes[i].cg + dc /\ x.tag = N.nodes[i].tag
  /\ \A t \in Types :
        /\ Len(M2.inter[t]) = Len(M.inter[t]) + Len(N.inter[t])
        /\ \A j \in DOMAIN M.inter[t] : M2.inter[t][j] = M.inter[t][j]
        /\ \A j \in DOMAIN N.inter[t] : LET y == M2.inter[t][Len(M.inter[t]) + j] IN
              /\ y.ver = N.inter[t][j].ver /\ y.tag = N.inter[t][j].tag /\ y.edge = N.inter[t][j].edge
              /\ \A p \in DOMAIN y.atoms : y.atoms[p] = M2.nodes[Len(M.nodes) + PosOf(N, N.inter[t][j].atoms[p])].key
  /\ M.edges \subseteq M2.edges
  /\ Cardinality(M2.edges) = Cardinality(M.edges) + Cardinality({e \in N.edges : e[1] # e[2]})
  /\ \A e \in N.edges : e[1] # e[2] =>
        Norm(M2.nodes[Len(M.nodes) + PosOf(N, e[1])].key, M2.nodes[Len(M.nodes) + PosOf(N, e[2])].key) \in M2.edges

Stmt(M) == [nodes |-> M.nodes, edges |-> M.edges, inter |-> M.inter]        \* what the statement speaks of

\* a merge is refused only for the documented reasons (other force field / nrexcl: ValueError; a receiver whose keys
\* are not numbers: TypeError) and then touches nothing; otherwise it conserves.  A KeyError raised AFTER everything
\* was merged, because a log entry of the newcomer refers to an atom that was removed, is a matter of the bookkeeping
\* clause MergeLogTotal: the atoms, bonds and interactions must be conserved all the same.
MergeConserves ==
  [][\A m, n \in Id : last' = "Merge" /\ Merge(m, n) =>
       LET M == mols[m]  N == mols[n]  M2 == mols'[m]
           refusal == \/ M.bk.ff # N.bk.ff
                      \/ M.bk.nrexcl # N.bk.nrexcl /\ ~ (M.bk.nrexcl = NULL /\ M.nodes = <<>>)
       IN IF refusal THEN err' = "ValueError" /\ M2 = M
          ELSE IF IsB(m) THEN err' = "TypeError" /\ M2 = M
          ELSE /\ Conserved(M, N, M2)
               /\ err' = "none" \/ (err' = "KeyError" /\ LogDangles(N))
  ]_vars

\* MergeAllMolecules in closed form: one molecule is left, the first; it holds the atoms of all, molecule after
\* molecule; block j is numbered after the highest key of everything before it and shifted by the residue number and
\* charge group of THAT atom
PrefixLen(h, ids, j) == LET RECURSIVE S(_) S(i) == IF i = 0 THEN 0 ELSE Len(h[ids[i]].nodes) + S(i - 1) IN S(j - 1)
MergeAllConserves ==
  [][last' = "MergeAll" /\ err' = "none" /\ MergeAll =>
       LET R0 == mols'[sys[1]] IN
       /\ sys' = <<sys[1]>>
       /\ Len(R0.nodes) = PrefixLen(mols, sys, Len(sys) + 1)
       /\ \A i \in Idx(mols[sys[1]]) : R0.nodes[i] = mols[sys[1]].nodes[i]
       /\ \A j \in 2..Len(sys) :
             LET N   == mols[sys[j]]
                 pl  == PrefixLen(mols, sys, j)
                 pre == [nodes |-> SubSeq(R0.nodes, 1, pl)]
                 top == IF pl = 0 THEN [key |-> 0, resid |-> 0, cg |-> 0] ELSE NodeOf(pre, MaxKeyOf(pre))
             IN \A i \in Idx(N) : LET x == R0.nodes[pl + i] IN
                   /\ x.key = top.key + i
                   /\ x.resid = N.nodes[i].resid + top.resid /\ x.cg = N.nodes[i].cg + top.cg /\ x.tag = N.nodes[i].tag
       /\ \A t \in Types : Len(R0.inter[t]) = LET RECURSIVE S(_) S(i) == IF i = 0 THEN 0 ELSE Len(mols[sys[i]].inter[t]) + S(i - 1) IN S(Len(sys))
       /\ \A j \in 2..Len(sys) : mols'[sys[j]] = mols[sys[j]]                  \* the merged molecules themselves are not touched
       /\ NoDanglingMol(R0)
  ]_vars

\* MergeChains: which molecules disappear from the system and what replaces them
MergeChainsPartition ==
  [][\A cs \in ChainSets \cup {AllChains(mols, sys)}, d \in Id :
       (/\ last' \in {"MergeChains", "MergeChainsAll"} /\ err' = "none"
        /\ (MergeChains(cs, d) \/ (cs = AllChains(mols, sys) /\ MergeChainsAll(d)))) =>
       LET sel == {c \in RangeOf(sys) : TagsOf(mols[c]) \subseteq cs} IN
       IF sel = {} THEN sys' = sys /\ mols' = mols
       ELSE /\ RangeOf(sys') = (RangeOf(sys) \ sel) \cup {d}                     \* exactly the selected molecules leave
            /\ \A c \in Id \ {d} : mols'[c] = mols[c]                             \* every other object is untouched
            /\ \A i, j \in DOMAIN sys' : i < j /\ sys'[i] # d /\ sys'[j] # d =>   \* the others keep their order
                  PosOf([nodes |-> [x \in DOMAIN sys |-> [key |-> sys[x]]]], sys'[i]) < PosOf([nodes |-> [x \in DOMAIN sys |-> [key |-> sys[x]]]], sys'[j])
            /\ Len(mols'[d].nodes) = LET RECURSIVE S(_) S(T) == IF T = {} THEN 0 ELSE LET c == CHOOSE x \in T : TRUE IN Len(mols[c].nodes) + S(T \ {c}) IN S(sel)
            /\ \A i \in Idx(mols'[d]) : mols'[d].nodes[i].key = i               \* a new molecule is numbered from 1
            /\ NoDanglingMol(mols'[d])
  ]_vars

\* Block.to_molecule: names become consecutive keys from the offset, everything follows
ToMolFaithful ==
  [][\A b, d \in Id, o \in Offsets : last' = "ToMol" /\ ToMol(b, d, o) =>
       LET B == mols[b]  M2 == mols'[d] IN
       /\ Len(M2.nodes) = Len(B.nodes)
       /\ \A i \in Idx(B) : /\ M2.nodes[i].key = o[1] + i - 1
                            /\ M2.nodes[i].resid = B.nodes[i].resid + o[2] /\ M2.nodes[i].cg = B.nodes[i].cg + o[3]
                            /\ M2.nodes[i].tag = B.nodes[i].tag
       /\ Cardinality(M2.edges) = Cardinality(B.edges)
       /\ \A e \in B.edges : Norm(o[1] + PosOf(B, e[1]) - 1, o[1] + PosOf(B, e[2]) - 1) \in M2.edges
       /\ \A t \in Types : /\ Len(M2.inter[t]) = Len(B.inter[t])
                           /\ \A j \in DOMAIN B.inter[t] : \A p \in DOMAIN B.inter[t][j].atoms :
                                 M2.inter[t][j].atoms[p] = o[1] + PosOf(B, B.inter[t][j].atoms[p]) - 1
       /\ NoDanglingMol(M2)
       /\ mols'[b] = mols[b]
  ]_vars

\* bonds made from interactions join consecutive atoms of edge-making interactions only
MakeEdgesSound ==
  [][\A m \in Id : last' = "MakeEdges" /\ MakeEdges(m) =>
       \A e \in mols'[m].edges \ mols[m].edges :
          \E t \in Types \cap EdgeTypes : \E j \in DOMAIN mols[m].inter[t] :
             /\ mols[m].inter[t][j].edge
             /\ \E p \in 1..(Len(mols[m].inter[t][j].atoms) - 1) :
                   {e[1], e[2]} = {mols[m].inter[t][j].atoms[p], mols[m].inter[t][j].atoms[p + 1]}
  ]_vars

\* an action on one heap cell leaves the atoms, bonds and interactions of every other cell - in particular the source
\* of a copy, a subgraph or a block instantiation, and the newcomer of a merge - unchanged
FrameStep ==
  /\ \A m \in Id : Stmt(mols'[m]) # Stmt(mols[m]) => \A n \in Id \ {m} : Stmt(mols'[n]) = Stmt(mols[n])
  /\ \A s, d \in Id : last' = "Copy" /\ Copy(s, d) => mols'[s] = mols[s]
  /\ \A s, d \in Id : last' = "GraphCopy" /\ GraphCopy(s, d) => mols'[s] = mols[s]
  /\ \A s, d \in Id, ks \in NodeSets : last' = "Subgraph" /\ Subgraph(s, ks, d) => mols'[s] = mols[s]
  /\ \A m, n \in Id : last' = "Merge" /\ Merge(m, n) => Stmt(mols'[n]) = Stmt(mols[n])
Frame == [][FrameStep]_vars

\* BOOKKEEPING, demanded form (these hold when LogExtra = "blocks", CitShared = FALSE, LogPurge = TRUE)
BookClean == obs = {}
CacheSound == CacheModel = "tracked" => \A m \in Id \ BlockIds : CacheOK(mols[m])
=============================================================================
