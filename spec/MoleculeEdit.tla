---------------------------- MODULE MoleculeEdit ----------------------------
(* vermouth.molecule.Molecule as an editable object: a small heap of molecules, one action per
   public editing call.  A molecule is
     [nodes : Seq([key, resid, cg, tag]),      insertion-ordered nodes with the attributes the property names
      edges : SUBSET (Key \X Key),             undirected, stored as <<a, b>> with a < b
      inter : Seq([atoms, ver, tag]),          one interaction type is enough for the editing semantics
      maxnode : Int | NULL]                    the `max_node` cache of merge_molecule
   CacheModel = "asShipped" reproduces the cache exactly as the pinned commit has it (set by merge, bumped
   by add_node whatever the key, unknown to bulk insertion and to removal, 0 being falsy);
   CacheModel = "repaired" is the design the property demands: merge always continues after the highest key.
   Error outcomes of a call are recorded in `err` and leave the heap unchanged.                      *)
EXTENDS Integers, Sequences, FiniteSets, TLC

CONSTANTS Id,          \* heap cells
          Key,         \* node keys that calls may name explicitly
          AttrChoice,  \* sequence of [resid, cg, tag] records a caller may give to a new atom
          MaxNodes,    \* bound on nodes per molecule
          MaxInter,    \* bound on interactions per molecule
          MaxResid,    \* bound on resid / charge group (merges shift them upwards)
          MaxDepth,    \* bound on history length (state constraint)
          CacheModel,  \* "asShipped" | "repaired"
          OneShotPurges \* TRUE: remove_nodes_from(generator) also purges interactions (repaired design)

NULL == -1

VARIABLES mols, err
vars == <<mols, err>>

-----------------------------------------------------------------------------
(* pure helpers *)
Idx(M)       == DOMAIN M.nodes
KeysOf(M)    == {M.nodes[i].key : i \in Idx(M)}
PosOf(M, k)  == CHOOSE i \in Idx(M) : M.nodes[i].key = k
NodeOf(M, k) == M.nodes[PosOf(M, k)]
MaxKeyOf(M)  == CHOOSE k \in KeysOf(M) : \A j \in KeysOf(M) : j <= k
Norm(a, b)   == IF a < b THEN <<a, b>> ELSE <<b, a>>
Truthy(x)    == x # NULL /\ x # 0
RangeOf(s)   == {s[i] : i \in DOMAIN s}
FilterSeq(s, Test(_)) == SelectSeq(s, Test)

EmptyMol == [nodes |-> <<>>, edges |-> {}, inter |-> <<>>, maxnode |-> NULL]

Bump(mn) == IF CacheModel = "asShipped" THEN (IF Truthy(mn) THEN mn + 1 ELSE 0) ELSE NULL

\* networkx add_node: an existing key keeps its position, the given attributes replace the old ones
PutNode(M, n) ==
  [M EXCEPT !.nodes = IF n.key \in KeysOf(M)
                      THEN [i \in Idx(M) |-> IF M.nodes[i].key = n.key THEN n ELSE M.nodes[i]]
                      ELSE Append(M.nodes, n)]

RECURSIVE PutNodes(_, _)
PutNodes(M, ns) == IF ns = <<>> THEN M ELSE PutNodes(PutNode(M, Head(ns)), Tail(ns))

\* the same through Molecule.add_node, which also touches the cache
RECURSIVE AddNodesOneByOne(_, _)
AddNodesOneByOne(M, ns) ==
  IF ns = <<>> THEN M
  ELSE AddNodesOneByOne([PutNode(M, Head(ns)) EXCEPT !.maxnode = Bump(M.maxnode)], Tail(ns))

DropNodes(M, ks, purge) ==
  [M EXCEPT !.nodes = SelectSeq(M.nodes, LAMBDA n : n.key \notin ks),
            !.edges = {e \in M.edges : e[1] \notin ks /\ e[2] \notin ks},
            !.inter = IF purge THEN SelectSeq(M.inter, LAMBDA x : RangeOf(x.atoms) \cap ks = {}) ELSE M.inter]

MkNode(k, ai) == [key |-> k, resid |-> AttrChoice[ai].resid, cg |-> AttrChoice[ai].cg, tag |-> AttrChoice[ai].tag]

\* ascending sequence of a finite set of integers
RECURSIVE SortedSeq(_)
SortedSeq(S) == IF S = {} THEN <<>>
                ELSE LET m == CHOOSE x \in S : \A y \in S : x <= y IN <<m>> \o SortedSeq(S \ {m})

-----------------------------------------------------------------------------
(* merge_molecule: `base` is the key after which the newcomer's atoms are numbered *)
MergeBase(M) ==
  IF M.nodes = <<>> THEN 0
  ELSE IF CacheModel = "asShipped"
       THEN (IF Truthy(M.maxnode) THEN M.maxnode ELSE MaxKeyOf(M))
       ELSE MaxKeyOf(M)

Corr(N, base) == [i \in Idx(N) |-> base + i]          \* i-th atom of the newcomer -> new key

Glue(M, N, base) ==
  LET dres == IF M.nodes = <<>> THEN 0 ELSE NodeOf(M, base).resid
      dcg  == IF M.nodes = <<>> THEN 0 ELSE NodeOf(M, base).cg
      new  == [i \in Idx(N) |-> [key |-> base + i, resid |-> N.nodes[i].resid + dres,
                                 cg |-> N.nodes[i].cg + dcg, tag |-> N.nodes[i].tag]]
      ren(k) == base + PosOf(N, k)
      M0   == [M EXCEPT !.maxnode = IF CacheModel = "asShipped" THEN base ELSE NULL]
      M1   == AddNodesOneByOne(M0, new)
  IN [M1 EXCEPT !.inter = M.inter \o [j \in DOMAIN N.inter |->
                                        [N.inter[j] EXCEPT !.atoms = [p \in DOMAIN N.inter[j].atoms |-> ren(N.inter[j].atoms[p])]]],
                !.edges = M.edges \cup {Norm(ren(e[1]), ren(e[2])) : e \in N.edges}]

-----------------------------------------------------------------------------
(* actions *)
Ok(m, M2, call) == mols' = [mols EXCEPT ![m] = M2] /\ err' = "none"
Fail(e, call)   == UNCHANGED mols /\ err' = e

AddNode(m, k, ai) ==
  /\ Len(mols[m].nodes) < MaxNodes \/ k \in KeysOf(mols[m])
  /\ Ok(m, [PutNode(mols[m], MkNode(k, ai)) EXCEPT !.maxnode = Bump(mols[m].maxnode)], [op |-> "AddNode", m |-> m])

AddNodesFrom(m, ks, ai) ==          \* networkx bulk insertion: by-passes Molecule.add_node
  /\ ks # {}
  /\ Cardinality(KeysOf(mols[m]) \cup ks) <= MaxNodes
  /\ Ok(m, PutNodes(mols[m], [i \in 1..Cardinality(ks) |-> MkNode(SortedSeq(ks)[i], ai)]), [op |-> "AddNodesFrom", m |-> m])

SetResid(m, k, r) ==               \* in-place attribute edit: mol.nodes[k]['resid'] = r
  /\ k \in KeysOf(mols[m])
  /\ Ok(m, [mols[m] EXCEPT !.nodes[PosOf(mols[m], k)].resid = r], [op |-> "SetResid", m |-> m])

RemoveNode(m, k) ==
  IF k \in KeysOf(mols[m])
  THEN Ok(m, DropNodes(mols[m], {k}, TRUE), [op |-> "RemoveNode", m |-> m])
  ELSE Fail("NetworkXError", [op |-> "RemoveNode", m |-> m])

RemoveNodesFrom(m, ks, oneShot) ==  \* oneShot: the caller passed a generator
  /\ ks # {}
  /\ Ok(m, DropNodes(mols[m], ks, ~oneShot \/ OneShotPurges), [op |-> "RemoveNodesFrom", m |-> m])

AddEdge(m, a, b) ==
  /\ a \in KeysOf(mols[m]) /\ b \in KeysOf(mols[m]) /\ a < b
  /\ Ok(m, [mols[m] EXCEPT !.edges = @ \cup {<<a, b>>}], [op |-> "AddEdge", m |-> m])

AddInter(m, a, b, v, t) ==
  /\ Len(mols[m].inter) < MaxInter
  /\ IF {a, b} \subseteq KeysOf(mols[m])
     THEN Ok(m, [mols[m] EXCEPT !.inter = Append(@, [atoms |-> <<a, b>>, ver |-> v, tag |-> t])], [op |-> "AddInter", m |-> m])
     ELSE Fail("KeyError", [op |-> "AddInter", m |-> m])

AddOrReplace(m, a, b, v, t) ==
  LET M == mols[m]
      hits == {j \in DOMAIN M.inter : M.inter[j].atoms = <<a, b>> /\ M.inter[j].ver = v}
  IN IF hits # {}
     THEN LET j == CHOOSE x \in hits : \A y \in hits : x <= y
          IN Ok(m, [M EXCEPT !.inter[j] = [atoms |-> <<a, b>>, ver |-> v, tag |-> t]], [op |-> "AddOrReplace", m |-> m])
     ELSE /\ Len(M.inter) < MaxInter
          /\ IF {a, b} \subseteq KeysOf(M)
             THEN Ok(m, [M EXCEPT !.inter = Append(@, [atoms |-> <<a, b>>, ver |-> v, tag |-> t])], [op |-> "AddOrReplace", m |-> m])
             ELSE Fail("KeyError", [op |-> "AddOrReplace", m |-> m])

RemoveInter(m, a, b, v) ==
  LET M == mols[m]
      hits == {j \in DOMAIN M.inter : M.inter[j].atoms = <<a, b>> /\ M.inter[j].ver = v}
  IN IF hits # {}
     THEN LET j == CHOOSE x \in hits : \A y \in hits : x <= y
          IN Ok(m, [M EXCEPT !.inter = [i \in 1..(Len(M.inter) - 1) |-> IF i < j THEN M.inter[i] ELSE M.inter[i + 1]]],
                [op |-> "RemoveInter", m |-> m])
     ELSE Fail("KeyError", [op |-> "RemoveInter", m |-> m])

SubMol(M, ks) ==
  [nodes |-> SelectSeq(M.nodes, LAMBDA n : n.key \in ks),
   edges |-> {e \in M.edges : e[1] \in ks /\ e[2] \in ks},
   inter |-> SelectSeq(M.inter, LAMBDA x : RangeOf(x.atoms) \subseteq ks),
   maxnode |-> NULL]

Copy(src, dst) ==
  /\ src # dst
  /\ Ok(dst, SubMol(mols[src], KeysOf(mols[src])), [op |-> "Copy", m |-> dst])

Subgraph(src, ks, dst) ==
  /\ src # dst /\ ks \subseteq KeysOf(mols[src])
  /\ Ok(dst, SubMol(mols[src], ks), [op |-> "Subgraph", m |-> dst])

Merge(m, n) ==
  /\ m # n
  /\ Len(mols[m].nodes) + Len(mols[n].nodes) <= MaxNodes
  /\ LET M == mols[m]  N == mols[n]  base == MergeBase(M)
     IN IF M.nodes # <<>> /\ base \notin KeysOf(M)
        THEN Fail("KeyError", [op |-> "Merge", m |-> m])           \* reachable only "asShipped"
        ELSE Ok(m, Glue(M, N, base), [op |-> "Merge", m |-> m, n |-> n])

Pairs  == {p \in Key \X Key : p[1] # p[2]}
KSets  == {s \in SUBSET Key : s # {} /\ Cardinality(s) <= 2}
Vers   == {0, 1}
ITags  == {"s", "t"}

Next ==
  \/ \E m \in Id, k \in Key, ai \in DOMAIN AttrChoice : AddNode(m, k, ai)
  \/ \E m \in Id, ks \in KSets, ai \in DOMAIN AttrChoice : AddNodesFrom(m, ks, ai)
  \/ \E m \in Id, k \in Key, r \in {MaxResid} : SetResid(m, k, r)
  \/ \E m \in Id, k \in Key : RemoveNode(m, k)
  \/ \E m \in Id, ks \in KSets, o \in BOOLEAN : RemoveNodesFrom(m, ks, o)
  \/ \E m \in Id, p \in Pairs : AddEdge(m, p[1], p[2])
  \/ \E m \in Id, p \in Pairs, v \in Vers : AddInter(m, p[1], p[2], v, "s")
  \/ \E m \in Id, p \in Pairs, v \in Vers : AddOrReplace(m, p[1], p[2], v, "t")
  \/ \E m \in Id, p \in Pairs, v \in Vers : RemoveInter(m, p[1], p[2], v)
  \/ \E s, d \in Id : Copy(s, d)
  \/ \E s, d \in Id, ks \in SUBSET Key : Subgraph(s, ks, d)
  \/ \E m, n \in Id : Merge(m, n)

Init == /\ mols = [m \in Id |-> EmptyMol]
        /\ err = "none"

Spec == Init /\ [][Next]_vars

Bounded ==
  /\ TLCGet("level") <= MaxDepth
  /\ \A m \in Id : \A i \in Idx(mols[m]) : mols[m].nodes[i].resid <= MaxResid /\ mols[m].nodes[i].cg <= MaxResid

-----------------------------------------------------------------------------
(* the property *)
NoDangling ==
  \A m \in Id :
     /\ \A e \in mols[m].edges : e[1] \in KeysOf(mols[m]) /\ e[2] \in KeysOf(mols[m])
     /\ \A j \in DOMAIN mols[m].inter : RangeOf(mols[m].inter[j].atoms) \subseteq KeysOf(mols[m])

UniqueKeys == \A m \in Id : \A i, j \in Idx(mols[m]) : i # j => mols[m].nodes[i].key # mols[m].nodes[j].key

\* a merge never fails on operands of the same force field, keeps every atom/bond/interaction of the
\* receiver untouched, adds every atom/bond/interaction of the newcomer under fresh keys, shifted uniformly
MergeConserves ==
  [][\A m, n \in Id : Merge(m, n) =>
       LET M == mols[m]  M2 == mols'[m]
       IN /\ err' = "none"
          /\ LET N == mols[n] IN
               /\ Len(M2.nodes) = Len(M.nodes) + Len(N.nodes)
               /\ \A i \in Idx(M) : M2.nodes[i] = M.nodes[i]                      \* nothing overwritten or dropped
               /\ \A i \in Idx(N) : M2.nodes[Len(M.nodes) + i].key \notin KeysOf(M)  \* fresh keys
               /\ \E dr, dc \in 0..MaxResid :
                     /\ (M.nodes # <<>> => dr = NodeOf(M, MaxKeyOf(M)).resid /\ dc = NodeOf(M, MaxKeyOf(M)).cg)
                     /\ (M.nodes = <<>> => dr = 0 /\ dc = 0)
                     /\ \A i \in Idx(N) : LET x == M2.nodes[Len(M.nodes) + i] IN
                           x.resid = N.nodes[i].resid + dr /\ x.cg = N.nodes[i].cg + dc /\ x.tag = N.nodes[i].tag
               /\ Len(M2.inter) = Len(M.inter) + Len(N.inter)
               /\ \A j \in DOMAIN M.inter : M2.inter[j] = M.inter[j]
               /\ \A j \in DOMAIN N.inter : LET y == M2.inter[Len(M.inter) + j] IN
                     /\ y.ver = N.inter[j].ver /\ y.tag = N.inter[j].tag
                     /\ \A p \in DOMAIN y.atoms : y.atoms[p] = M2.nodes[Len(M.nodes) + PosOf(N, N.inter[j].atoms[p])].key
               /\ M.edges \subseteq M2.edges
               /\ Cardinality(M2.edges) = Cardinality(M.edges) + Cardinality(N.edges)
  ]_vars

\* an action on one heap cell leaves every other cell - in particular the source of a copy - unchanged
FrameStep ==
  /\ \A m \in Id : mols'[m] # mols[m] => \A n \in Id \ {m} : mols'[n] = mols[n]
  /\ \A s, d \in Id : Copy(s, d) => mols'[s] = mols[s]
  /\ \A s, d \in Id, ks \in SUBSET Key : Subgraph(s, ks, d) => mols'[s] = mols[s]
  /\ \A m, n \in Id : Merge(m, n) => mols'[n] = mols[n]
Frame == [][FrameStep]_vars
=============================================================================
