---------------------------- MODULE MoleculeEdit ----------------------------
(* vermouth.molecule.Molecule as an editable object: a small heap of molecules, one action per
   public editing call.  A molecule is
     [nodes : Seq([key, resid, cg, tag]),      insertion-ordered nodes with the attributes the property names
      edges : SUBSET (Key \X Key),             undirected, stored as <<a, b>> with a < b
      inter : [Types -> Seq([atoms, ver, tag])], per-type interaction lists
      maxnode : Int | NULL]                    the `max_node` cache of merge_molecule
   CacheModel = "asShipped" reproduces the cache exactly as the pinned commit has it (set by merge, bumped
   by add_node whatever the key, unknown to bulk insertion and to removal, 0 being falsy);
   CacheModel = "repaired" is the design the property demands: merge always continues after the highest key.
   Error outcomes of a call are recorded in `err` and leave the heap unchanged.                      *)
EXTENDS Integers, Sequences, FiniteSets, TLC

CONSTANTS Id,          \* heap cells
          Types,       \* interaction types
          InitMols,    \* set of molecules a heap cell may hold initially
          AtomSeqs,    \* atom tuples that calls may name for interactions
          NodeSets,    \* node sets that bulk calls (add_nodes_from, remove_nodes_from, subgraph) may name
          Key,         \* node keys that calls may name explicitly
          AttrChoice,  \* sequence of [resid, cg, tag] records a caller may give to a new atom
          MaxNodes,    \* bound on nodes per molecule
          MaxInter,    \* bound on interactions per molecule
          MaxResid,    \* bound on resid / charge group (merges shift them upwards)
          MaxDepth,    \* bound on history length (state constraint)
          CacheModel,  \* "asShipped" | "repaired"
          OneShotPurges \* TRUE: remove_nodes_from(generator) also purges interactions (repaired design)

NULL == -1

VARIABLES mols, err, steps
vars == <<mols, err, steps>>

-----------------------------------------------------------------------------
(* pure helpers *)
Idx(M)       == DOMAIN M.nodes
KeysOf(M)    == {M.nodes[i].key : i \in Idx(M)}
PosOf(M, k)  == CHOOSE i \in Idx(M) : M.nodes[i].key = k
NodeOf(M, k) == M.nodes[PosOf(M, k)]
MaxKeyOf(M)  == CHOOSE k \in KeysOf(M) : \A j \in KeysOf(M) : j <= k
Norm(a, b)   == IF a < b THEN <<a, b>> ELSE <<b, a>>
Truthy(x)    == x # NULL /\ x # 0
RangeOf(s)   == {s[i] : i \in DOMAIN s}
FilterSeq(s, Test(_)) == SelectSeq(s, Test)

EmptyMol == [nodes |-> <<>>, edges |-> {}, inter |-> [t \in Types |-> <<>>], maxnode |-> NULL]
NInter(M) == LET RECURSIVE S(_) S(T) == IF T = {} THEN 0 ELSE LET t == CHOOSE x \in T : TRUE IN Len(M.inter[t]) + S(T \ {t})
             IN S(Types)

Bump(mn) == IF CacheModel = "asShipped" THEN (IF Truthy(mn) THEN mn + 1 ELSE 0) ELSE NULL

\* networkx add_node: an existing key keeps its position, the given attributes replace the old ones
PutNode(M, n) ==
  [M EXCEPT !.nodes = IF n.key \in KeysOf(M)
                      THEN [i \in Idx(M) |-> IF M.nodes[i].key = n.key THEN n ELSE M.nodes[i]]
                      ELSE Append(M.nodes, n)]

RECURSIVE PutNodes(_, _)
PutNodes(M, ns) == IF ns = <<>> THEN M ELSE PutNodes(PutNode(M, Head(ns)), Tail(ns))

\* the same through Molecule.add_node, which also touches the cache
RECURSIVE AddNodesOneByOne(_, _)
AddNodesOneByOne(M, ns) ==
  IF ns = <<>> THEN M
  ELSE AddNodesOneByOne([PutNode(M, Head(ns)) EXCEPT !.maxnode = Bump(M.maxnode)], Tail(ns))

DropNodes(M, ks, purge) ==
  [M EXCEPT !.nodes = SelectSeq(M.nodes, LAMBDA n : n.key \notin ks),
            !.edges = {e \in M.edges : e[1] \notin ks /\ e[2] \notin ks},
            !.inter = IF purge THEN [t \in Types |-> SelectSeq(M.inter[t], LAMBDA x : RangeOf(x.atoms) \cap ks = {})]
                      ELSE M.inter]

MkNode(k, ai) == [key |-> k, resid |-> AttrChoice[ai].resid, cg |-> AttrChoice[ai].cg, tag |-> AttrChoice[ai].tag]

\* ascending sequence of a finite set of integers
RECURSIVE SortedSeq(_)
SortedSeq(S) == IF S = {} THEN <<>>
                ELSE LET m == CHOOSE x \in S : \A y \in S : x <= y IN <<m>> \o SortedSeq(S \ {m})

-----------------------------------------------------------------------------
(* merge_molecule: `base` is the key after which the newcomer's atoms are numbered *)
MergeBase(M) ==
  IF M.nodes = <<>> THEN 0
  ELSE IF CacheModel = "asShipped"
       THEN (IF Truthy(M.maxnode) THEN M.maxnode ELSE MaxKeyOf(M))
       ELSE MaxKeyOf(M)

Corr(N, base) == [i \in Idx(N) |-> base + i]          \* i-th atom of the newcomer -> new key

Glue(M, N, base) ==
  LET dres == IF M.nodes = <<>> THEN 0 ELSE NodeOf(M, base).resid
      dcg  == IF M.nodes = <<>> THEN 0 ELSE NodeOf(M, base).cg
      new  == [i \in Idx(N) |-> [key |-> base + i, resid |-> N.nodes[i].resid + dres,
                                 cg |-> N.nodes[i].cg + dcg, tag |-> N.nodes[i].tag]]
      ren(k) == base + PosOf(N, k)
      M0   == [M EXCEPT !.maxnode = IF CacheModel = "asShipped" THEN base ELSE NULL]
      M1   == AddNodesOneByOne(M0, new)
  IN [M1 EXCEPT !.inter = [t \in Types |-> M.inter[t] \o [j \in DOMAIN N.inter[t] |->
                                        [N.inter[t][j] EXCEPT !.atoms = [p \in DOMAIN N.inter[t][j].atoms |-> ren(N.inter[t][j].atoms[p])]]]],
                !.edges = M.edges \cup {Norm(ren(e[1]), ren(e[2])) : e \in N.edges}]

-----------------------------------------------------------------------------
(* effects of the calls as pure operators: [mol |-> resulting molecule, err |-> outcome] *)
R(M, e) == [mol |-> M, err |-> e]

EffAddNode(M, n) == R([PutNode(M, n) EXCEPT !.maxnode = Bump(M.maxnode)], "none")

EffAddNodesFrom(M, ns) == R(PutNodes(M, ns), "none")      \* networkx bulk insertion: by-passes Molecule.add_node

EffSetResid(M, k, r) == R([M EXCEPT !.nodes[PosOf(M, k)].resid = r], "none")   \* mol.nodes[k]['resid'] = r

EffRemoveNode(M, k) == IF k \in KeysOf(M) THEN R(DropNodes(M, {k}, TRUE), "none") ELSE R(M, "NetworkXError")

\* oneShot: the caller passed a generator
EffRemoveNodesFrom(M, ks, oneShot) == R(DropNodes(M, ks, ~oneShot \/ OneShotPurges), "none")

EffAddEdge(M, a, b) == R([M EXCEPT !.edges = @ \cup {Norm(a, b)}], "none")

EffAddInter(M, ty, at, v, t) ==
  IF RangeOf(at) \subseteq KeysOf(M)
  THEN R([M EXCEPT !.inter[ty] = Append(@, [atoms |-> at, ver |-> v, tag |-> t])], "none")
  ELSE R(M, "KeyError")

Hits(M, ty, at, v) == {j \in DOMAIN M.inter[ty] : M.inter[ty][j].atoms = at /\ M.inter[ty][j].ver = v}
FirstOf(S) == CHOOSE x \in S : \A y \in S : x <= y

EffAddOrReplace(M, ty, at, v, t) ==
  IF Hits(M, ty, at, v) # {}
  THEN R([M EXCEPT !.inter[ty][FirstOf(Hits(M, ty, at, v))] = [atoms |-> at, ver |-> v, tag |-> t]], "none")
  ELSE EffAddInter(M, ty, at, v, t)

EffRemoveInter(M, ty, at, v) ==
  IF Hits(M, ty, at, v) # {}
  THEN LET j == FirstOf(Hits(M, ty, at, v))
           L == M.inter[ty]
       IN R([M EXCEPT !.inter[ty] = [i \in 1..(Len(L) - 1) |-> IF i < j THEN L[i] ELSE L[i + 1]]], "none")
  ELSE R(M, "KeyError")

\* subgraph(nodes): the new molecule lists its atoms in the order of the ARGUMENT (kseq), copies bonds and the
\* interactions that lie entirely inside; copy() is subgraph(all nodes in their own order)
\* keys listed more than once count once, at their first position
RECURSIVE Dedup(_)
Dedup(s) == IF s = <<>> THEN <<>>
            ELSE LET r == Dedup(SubSeq(s, 1, Len(s) - 1)) IN IF s[Len(s)] \in RangeOf(r) THEN r ELSE Append(r, s[Len(s)])
SubMol(M, kseq0) ==
  LET kseq == Dedup(kseq0)
      ks == RangeOf(kseq) IN
  [nodes |-> [i \in DOMAIN kseq |-> NodeOf(M, kseq[i])],
   edges |-> {e \in M.edges : e[1] \in ks /\ e[2] \in ks},
   inter |-> [t \in Types |-> SelectSeq(M.inter[t], LAMBDA x : RangeOf(x.atoms) \subseteq ks)],
   maxnode |-> NULL]

EffMerge(M, N) ==
  LET base == MergeBase(M)
  IN IF M.nodes # <<>> /\ base \notin KeysOf(M)
     THEN R(M, "KeyError")                                 \* reachable only "asShipped"
     ELSE R(Glue(M, N, base), "none")

(* system-level operations, expressed with the same effect operators *)
\* MergeAllMolecules: every later molecule of the system is merged into the first one, in system order
RECURSIVE FoldMerge(_, _, _)
FoldMerge(M, heap, ids) == IF ids = <<>> THEN M ELSE FoldMerge(EffMerge(M, heap[Head(ids)]).mol, heap, Tail(ids))

\* MergeChains(chains): a NEW molecule receives, in system order, every molecule all of whose atoms carry a chain
\* (here: the `tag` attribute) from `chains`; the others are left alone
TagsOf(M) == {M.nodes[i].tag : i \in Idx(M)}
Selected(heap, ids, chains) == SelectSeq(ids, LAMBDA i : TagsOf(heap[i]) \subseteq chains)
MergedChains(heap, ids, chains) == FoldMerge(EmptyMol, heap, Selected(heap, ids, chains))

\* Block.to_molecule(atom_offset, offset_resid, offset_charge_group): the block's atoms, in order, get the keys
\* atom_offset, atom_offset + 1, ...; residue numbers and charge groups are shifted; bonds and interactions follow
ToMolecule(B, off, dres, dcg) ==
  LET new(k) == off + PosOf(B, k) - 1 IN
  [nodes |-> [i \in Idx(B) |-> [key |-> off + i - 1, resid |-> B.nodes[i].resid + dres, cg |-> B.nodes[i].cg + dcg, tag |-> B.nodes[i].tag]],
   edges |-> {Norm(new(e[1]), new(e[2])) : e \in B.edges},
   inter |-> [t \in Types |-> [j \in DOMAIN B.inter[t] |-> [B.inter[t][j] EXCEPT !.atoms = [p \in DOMAIN B.inter[t][j].atoms |-> new(B.inter[t][j].atoms[p])]]]],
   maxnode |-> NULL]

-----------------------------------------------------------------------------
(* actions *)
Apply(m, r) == /\ steps < MaxDepth
               /\ mols' = [mols EXCEPT ![m] = r.mol]
               /\ err' = r.err
               /\ steps' = steps + 1

AddNode(m, k, ai) ==
  /\ Len(mols[m].nodes) < MaxNodes \/ k \in KeysOf(mols[m])
  /\ Apply(m, EffAddNode(mols[m], MkNode(k, ai)))

AddNodesFrom(m, ks, ai) ==
  /\ Cardinality(KeysOf(mols[m]) \cup ks) <= MaxNodes
  /\ Apply(m, EffAddNodesFrom(mols[m], [i \in 1..Cardinality(ks) |-> MkNode(SortedSeq(ks)[i], ai)]))

SetResid(m, k, r) == k \in KeysOf(mols[m]) /\ Apply(m, EffSetResid(mols[m], k, r))

RemoveNode(m, k) == m \in Id /\ Apply(m, EffRemoveNode(mols[m], k))

RemoveNodesFrom(m, ks, oneShot) == ks # {} /\ Apply(m, EffRemoveNodesFrom(mols[m], ks, oneShot))

AddEdge(m, a, b) == {a, b} \subseteq KeysOf(mols[m]) /\ Apply(m, EffAddEdge(mols[m], a, b))

AddInter(m, ty, at, v, t) == NInter(mols[m]) < MaxInter /\ Apply(m, EffAddInter(mols[m], ty, at, v, t))

AddOrReplace(m, ty, at, v, t) ==
  /\ NInter(mols[m]) < MaxInter \/ Hits(mols[m], ty, at, v) # {}
  /\ Apply(m, EffAddOrReplace(mols[m], ty, at, v, t))

RemoveInter(m, ty, at, v) == ty \in Types /\ Apply(m, EffRemoveInter(mols[m], ty, at, v))

KeySeq(M) == [i \in Idx(M) |-> M.nodes[i].key]
Copy(src, dst) == src # dst /\ Apply(dst, R(SubMol(mols[src], KeySeq(mols[src])), "none"))

Subgraph(src, ks, dst) == src # dst /\ ks \subseteq KeysOf(mols[src]) /\ Apply(dst, R(SubMol(mols[src], SortedSeq(ks)), "none"))

Merge(m, n) ==
  /\ m # n
  /\ Len(mols[m].nodes) + Len(mols[n].nodes) <= MaxNodes
  /\ Apply(m, EffMerge(mols[m], mols[n]))

Pairs  == {p \in Key \X Key : p[1] < p[2]}
Vers   == {0, 1}
ITags  == {"s", "t"}

Next ==
  \/ \E m \in Id, k \in Key, ai \in DOMAIN AttrChoice : AddNode(m, k, ai)
  \/ \E m \in Id, ks \in NodeSets, ai \in DOMAIN AttrChoice : AddNodesFrom(m, ks, ai)
  \/ \E m \in Id, k \in Key, r \in {MaxResid} : SetResid(m, k, r)
  \/ \E m \in Id, k \in Key : RemoveNode(m, k)
  \/ \E m \in Id, ks \in NodeSets, o \in BOOLEAN : RemoveNodesFrom(m, ks, o)
  \/ \E m \in Id, p \in Pairs : AddEdge(m, p[1], p[2])
  \/ \E m \in Id, ty \in Types, at \in AtomSeqs : AddInter(m, ty, at, 0, "s")
  \/ \E m \in Id, ty \in Types, at \in AtomSeqs, v \in Vers : AddOrReplace(m, ty, at, v, "t")
  \/ \E m \in Id, ty \in Types, at \in AtomSeqs, v \in Vers : RemoveInter(m, ty, at, v)
  \/ \E s, d \in Id : Copy(s, d)
  \/ \E s, d \in Id, ks \in NodeSets : Subgraph(s, ks, d)
  \/ \E m, n \in Id : Merge(m, n)

Init == /\ mols \in [Id -> InitMols]
        /\ err = "none"
        /\ steps = 0

Spec == Init /\ [][Next]_vars

Bounded ==
  /\ \A m \in Id : \A i \in Idx(mols[m]) : mols[m].nodes[i].resid <= MaxResid /\ mols[m].nodes[i].cg <= MaxResid

-----------------------------------------------------------------------------
(* the property *)
NoDangling ==
  \A m \in Id :
     /\ \A e \in mols[m].edges : e[1] \in KeysOf(mols[m]) /\ e[2] \in KeysOf(mols[m])
     /\ \A t \in Types : \A j \in DOMAIN mols[m].inter[t] : RangeOf(mols[m].inter[t][j].atoms) \subseteq KeysOf(mols[m])

UniqueKeys == \A m \in Id : \A i, j \in Idx(mols[m]) : i # j => mols[m].nodes[i].key # mols[m].nodes[j].key

\* a merge never fails on operands of the same force field, keeps every atom/bond/interaction of the
\* receiver untouched, adds every atom/bond/interaction of the newcomer under fresh keys, shifted uniformly
MergeConserves ==
  [][\A m, n \in Id : Merge(m, n) =>
       LET M == mols[m]  M2 == mols'[m]
       IN /\ err' = "none"
          /\ LET N == mols[n] IN
               /\ Len(M2.nodes) = Len(M.nodes) + Len(N.nodes)
               /\ \A i \in Idx(M) : M2.nodes[i] = M.nodes[i]                      \* nothing overwritten or dropped
               /\ \A i \in Idx(N) : M2.nodes[Len(M.nodes) + i].key \notin KeysOf(M)  \* fresh keys
               /\ \E dr, dc \in 0..MaxResid :
                     /\ (M.nodes # <<>> => dr = NodeOf(M, MaxKeyOf(M)).resid /\ dc = NodeOf(M, MaxKeyOf(M)).cg)
                     /\ (M.nodes = <<>> => dr = 0 /\ dc = 0)
                     /\ \A i \in Idx(N) : LET x == M2.nodes[Len(M.nodes) + i] IN
                           x.resid = N.nodes[i].resid + dr /\ x.cg = N.nodes[i].cg + dc /\ x.tag = N.nodes[i].tag
               /\ \A t \in Types :
                     /\ Len(M2.inter[t]) = Len(M.inter[t]) + Len(N.inter[t])
                     /\ \A j \in DOMAIN M.inter[t] : M2.inter[t][j] = M.inter[t][j]
                     /\ \A j \in DOMAIN N.inter[t] : LET y == M2.inter[t][Len(M.inter[t]) + j] IN
                           /\ y.ver = N.inter[t][j].ver /\ y.tag = N.inter[t][j].tag
                           /\ \A p \in DOMAIN y.atoms : y.atoms[p] = M2.nodes[Len(M.nodes) + PosOf(N, N.inter[t][j].atoms[p])].key
               /\ M.edges \subseteq M2.edges
               /\ Cardinality(M2.edges) = Cardinality(M.edges) + Cardinality(N.edges)
  ]_vars

\* an action on one heap cell leaves every other cell - in particular the source of a copy - unchanged
FrameStep ==
  /\ \A m \in Id : mols'[m] # mols[m] => \A n \in Id \ {m} : mols'[n] = mols[n]
  /\ \A s, d \in Id : Copy(s, d) => mols'[s] = mols[s]
  /\ \A s, d \in Id, ks \in NodeSets : Subgraph(s, ks, d) => mols'[s] = mols[s]
  /\ \A m, n \in Id : Merge(m, n) => mols'[n] = mols[n]
Frame == [][FrameStep]_vars
=============================================================================
