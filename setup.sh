#!/bin/bash
# Offline setup: nothing to build (Python harness + TLA+ specs); verify the tools are there.
set -e
cd "$(dirname "$0")"
mkdir -p evidence replays
java -version >/dev/null 2>&1
test -f /opt/veriftools/tla/tla2tools.jar
/venv/bin/python -c "import networkx, numpy"
echo setup ok
