"""C12 - editing a molecule keeps atoms, bonds and interactions consistent.

spec/MoleculeEdit.tla        a heap of Molecules and Blocks + the molecule list of one System; one action per editing call
                             (add / remove atoms singly, in bulk, through a generator; add / add-or-replace (with versions and
                             citations) / remove interactions; make_edges_from_interactions; copy, subgraph, networkx's own
                             Graph.copy; merge_molecule between molecules, of a Block (string keys) into a molecule, into a
                             Block (TypeError); Block.to_molecule; MergeAllMolecules; MergeChains(chains / all_chains)),
                             invariants NoDangling / UniqueKeys / CacheSound, action properties MergeConserves,
                             MergeAllConserves, MergeChainsPartition, ToMolFaithful, MakeEdgesSound, Frame   (MC + SIM)
spec/Trace_MoleculeEdit.tla  batch validation of histories recorded from the real classes                       (TRACE)

Three exhaustive configurations of the one module (`Acts` selects the calls): `edit` (2 cells, the editing API), `system`
(3 cells + molecule list: MergeAllMolecules / MergeChains interleaved with edits), `block` (2 molecules + 1 Block with atom
NAMES as keys, two interaction types of which one makes bonds).

spec -> code: every transition of the three state graphs (dot dump with action labels) is replayed on real objects along
the BFS tree (objects are deep-copied at each tree node so internal caches follow the history), and every simulated
behaviour of larger instances is replayed step by step; after each call the projection of every heap cell, the molecule
list of the system and the error outcome must equal TLC's next state.
code -> spec: seeded random histories on real objects, and editing histories of REAL pipeline molecules (harness/c12_more.py:
DoMapping output of the tier-0 structures, force-field blocks), are logged (call, arguments, projection of the whole world,
error) and validated by TLC step by step with the same effect operators.

BOOKKEEPING (meta, citations, log entries, nrexcl, force field, the highest-key cache) travels in the same states but is
judged apart: the statement of C12 speaks of atoms, bonds and interactions.  The model describes the tree AS FOUND (three
switches - LogExtra, CitShared, LogPurge - are probed on the real classes at start-up), TLC marks every transition on which a
named clause of the DEMANDED bookkeeping fails (`obs`), the replay confirms the marked transitions on the real objects, and
any other difference in a bookkeeping field is counted as `differs:<field>`.  None of this is ever a VIOLATION; the counts are
in the evidence (`bookkeeping`).  Two consequences of bookkeeping ARE followed into the statement: a highest-key cache that
differs from the model is carried on (replay: the successors of that state are replayed from that very object; judge: a
wrong cache is not taken over), so that a stale cache shows as the KeyError / overwritten atom of the next merge.

Workers record AND judge their own share of histories and return summaries (counts, rejected prefixes, hashes); the parent
never holds the events.  A recorded world that cannot be represented for TLC (a number among the names of a block, a name
among the numbers of a molecule: only a broken implementation gets there) is rejected by the recorder's representation check.
`C12_PHASES=mc,sim,random,real` (any subset) restricts a run to some phases: a debugging aid for mutation testing."""
import collections
import copy
import hashlib
import json
import multiprocessing as mp
import os
import random
import re
import shutil

from . import common, tlc, tlaval

PID = 'C12'

# ---------------------------------------------------------------- model literals
T1 = ('bonds',)
T2 = ('bonds', 'impropers')


def mol(nodes=(), edges=(), inter=None, maxnode=-1, meta='', cit=('vermouth',), log=(), nrexcl=-1, ff='', types=T1):
    """A MoleculeEdit molecule as a Python value (tlaval.to_tla turns it into the TLA+ literal).
    nodes: (key, resid, cg, tag); inter: {type: [(atoms, ver, tag, edge)]}; log: [(msg, [[(name, key), ...], ...])]."""
    inter = inter or {}
    return {'nodes': tuple({'key': k, 'resid': r, 'cg': c, 'tag': t} for k, r, c, t in nodes),
            'edges': frozenset(tuple(e) for e in edges),
            'inter': {t: tuple({'atoms': tuple(a), 'ver': v, 'tag': g, 'edge': e} for a, v, g, e in inter.get(t, ())) for t in types},
            'maxnode': maxnode,
            'bk': {'meta': meta, 'cit': frozenset(cit),
                   'log': tuple({'msg': m, 'ems': tuple(tuple(tuple(p) for p in em) for em in ems)} for m, ems in log),
                   'nrexcl': nrexcl, 'ff': ff}}


def _heaps(*hs):
    return '{' + ', '.join('(' + ' @@ '.join('%d :> %s' % (i, tlaval.to_tla(m)) for i, m in sorted(h.items())) + ')'
                           for h in hs) + '}'


def _acts(names):
    return '{' + ','.join('"%s"' % a for a in names) + '}'


ATTR = '<<[resid |-> 1, cg |-> 1, tag |-> "p"], [resid |-> 2, cg |-> 3, tag |-> "q"]>>'
ATTRS = [{'resid': 1, 'cg': 1, 'tag': 'p'}, {'resid': 2, 'cg': 3, 'tag': 'q'}]

E1 = mol()
A1 = mol([(0, 1, 1, 'p'), (1, 2, 3, 'q')], [(0, 1)], {'bonds': [((0, 1), 0, 's', True)]}, meta='mA', cit=('vermouth', 'ca'),
         log=[('w {X}', [[('X', 1)]])])
B1 = mol([(4, 1, 2, 'q')])
# a molecule as a merge leaves it: highest-key cache warm
W1 = mol([(1, 2, 2, 'p'), (2, 3, 1, 'q')], [(1, 2)], {'bonds': [((1, 2), 0, 's', True)]}, maxnode=2, log=[('i {Y}', [[('Y', 2)]])])
# the last atom inserted is not the atom with the highest key
C1 = mol([(2, 3, 1, 'p'), (0, 1, 2, 'q')], [(0, 2)], {'bonds': [((2, 0), 1, 's', True)]})
P1 = mol([(0, 1, 1, 'p'), (1, 2, 3, 'p')], [(0, 1)], {'bonds': [((0, 1), 0, 's', True)]}, cit=('vermouth', 'cp'), meta='mP',
         log=[('w {X}', [[('X', 1)]])])
Q1 = mol([(4, 1, 2, 'q')], cit=('vermouth', 'cq'), log=[('w {X}', [[('X', 4)]])])
X2 = mol([(0, 1, 1, 'p')], nrexcl=2)                       # refused by every merge with the others (nrexcl)
G1 = mol([(3, 2, 1, 'q')], ff='G')                         # refused (force field)
BL = mol([('a', 1, 1, 'a'), ('b', 1, 2, 'b'), ('c', 2, 2, 'c')], [],
         {'bonds': [(('a', 'b'), 0, 's', True), (('b', 'c'), 0, 's', False)], 'impropers': [(('a', 'b', 'c'), 0, 'i', True)]},
         cit=('vermouth', 'cb'), log=[('t {a}', [])], types=T2)
BM = mol([('a', 1, 1, 'a'), ('b', 1, 1, 'b'), ('c', 1, 2, 'c')], [('a', 'b'), ('b', 'c')], {'bonds': [(('a', 'b'), 0, 's', True)]}, types=T2)
E2 = mol(types=T2)
A2 = mol([(0, 1, 1, 'p'), (1, 2, 3, 'q')], [(0, 1)], {'bonds': [((0, 1), 0, 's', True)]}, meta='mA', cit=('vermouth', 'ca'),
         log=[('w {X}', [[('X', 1)]])], types=T2)
W2 = mol([(1, 2, 2, 'p'), (2, 3, 1, 'q')], [(1, 2)], {'bonds': [((1, 2), 0, 's', True)]}, maxnode=2, types=T2)

COMMON = {'BlockIds': '{}', 'EdgeTypes': '{"bonds"}', 'InitSys': '{<<>>}', 'BKey': '{}', 'BAtomSeqs': '{}', 'BRank': '<<>>',
          'AttrChoice': ATTR, 'ChainSets': '{}', 'Offsets': '{}', 'MaxResid': '99', 'CacheModel': '"tracked"',
          'OneShotPurges': 'TRUE', 'SysFF': '""'}
EDIT_ACTS = ['AddNode', 'AddNodesFrom', 'SetResid', 'RemoveNode', 'RemoveNodesFrom', 'AddEdge', 'AddInter', 'AddOrReplace',
             'AddOrReplaceCite', 'RemoveInter', 'Copy', 'Subgraph', 'GraphCopy', 'Merge']
SYS_ACTS = ['MergeAll', 'MergeChains', 'MergeChainsAll', 'Merge', 'AddNodesFrom', 'RemoveNode', 'AddNode', 'Copy', 'SetResid']
BLK_ACTS = ['ToMol', 'Merge', 'MakeEdges', 'AddNode', 'RemoveNode', 'AddInter', 'AddInterNoEdge', 'AddOrReplaceCite']

PROPS_COMMON = ('SPECIFICATION Spec\nINVARIANT NoDangling\nINVARIANT UniqueKeys\nINVARIANT SysWellFormed\n'
                'INVARIANT PartsWellFormed\nINVARIANT CacheSound\nPROPERTY MergeConserves\nPROPERTY Frame\n')
CFG_TEXT = {
    'edit': PROPS_COMMON,
    'system': PROPS_COMMON + 'PROPERTY MergeAllConserves\nPROPERTY MergeChainsPartition\n',
    'block': PROPS_COMMON + 'PROPERTY ToMolFaithful\nPROPERTY MakeEdgesSound\n',
}
CFG_ALL = PROPS_COMMON + 'PROPERTY MergeAllConserves\nPROPERTY MergeChainsPartition\nPROPERTY ToMolFaithful\nPROPERTY MakeEdgesSound\n'
BLOCKS = {'edit': frozenset(), 'system': frozenset(), 'block': frozenset({3})}
ACTS = {'edit': EDIT_ACTS, 'system': SYS_ACTS, 'block': BLK_ACTS}


def configs(tier, book):
    """name -> constants of the exhaustive models (quick: depth 2; thorough: depth 3 and more initial heaps)."""
    thorough = tier == 'thorough'
    edit_heaps = [{1: E1, 2: A1}, {1: A1, 2: B1}, {1: A1, 2: W1}, {1: W1, 2: A1}, {1: B1, 2: E1}, {1: W1, 2: E1}, {1: A1, 2: A1},
                  {1: A1, 2: X2}]
    sys_heaps = [{1: P1, 2: Q1, 3: E1}, {1: P1, 2: X2, 3: C1}, {1: W1, 2: C1, 3: E1}]
    sys_lists = '{<<1,2>>, <<2,1>>, <<1,2,3>>, <<3,1>>}'
    blk_heaps = [{1: E2, 2: A2, 3: BL}, {1: W2, 2: E2, 3: BM}]
    if thorough:        # one step deeper from fewer, more varied initial heaps (the dot graphs hold every state as text)
        edit_heaps = [{1: E1, 2: A1}, {1: A1, 2: W1}, {1: W1, 2: C1}, {1: C1, 2: X2}, {1: G1, 2: B1}]
        sys_heaps = [{1: P1, 2: Q1, 3: C1}, {1: W1, 2: X2, 3: E1}]
        sys_lists = '{<<1,2>>, <<2,1,3>>, <<3,1>>}'
    depth = '3' if thorough else '2'
    out = {}
    out['edit'] = dict(COMMON, Id='{1,2}', Types='{"bonds"}', Key='{0,1,2,3}', InitHeaps=_heaps(*edit_heaps),
                       AtomSeqs='{<<0,1>>,<<1,2>>,<<1,0>>}', NodeSets='{{1},{3},{2,3},{0,1}}', MaxNodes='5', MaxInter='3',
                       Acts=_acts(EDIT_ACTS), MaxDepth=depth)
    out['system'] = dict(COMMON, Id='{1,2,3}', Types='{"bonds"}', Key='{0,5}',
                         InitHeaps=_heaps(*sys_heaps), InitSys=sys_lists,
                         ChainSets='{{"p"},{"q"},{"p","q"}}', AtomSeqs='{<<0,1>>}', NodeSets='{{2,3},{5}}', MaxNodes='6',
                         MaxInter='4', Acts=_acts(SYS_ACTS), MaxDepth=depth)
    out['block'] = dict(COMMON, Id='{1,2,3}', BlockIds='{3}', Types='{"bonds","impropers"}', Key='{0,5}', BKey='{"a","d"}',
                        BAtomSeqs='{<<"a","b">>, <<"b","c">>}', BRank='[a |-> 1, b |-> 2, c |-> 3, d |-> 4]',
                        InitHeaps=_heaps(*blk_heaps), Offsets='{<<0,0,0>>, <<3,2,1>>}', AtomSeqs='{<<0,1>>,<<3,4>>}',
                        NodeSets='{}', MaxNodes='6', MaxInter='5', Acts=_acts(BLK_ACTS), MaxDepth='3' if thorough else '2')
    for c in out.values():
        c.update(book)
    return out


def sim_configs(book):
    """larger instances for -simulate (depth 12)."""
    out = configs('quick', book)
    out['edit'].update({'MaxDepth': '12', 'Key': '{0,1,2,3,4,5,6}', 'MaxNodes': '8', 'MaxInter': '5', 'MaxResid': '30',
                        'NodeSets': '{{1},{3},{2,3},{0,1},{4,5},{5,6},{6}}',
                        'AtomSeqs': '{<<0,1>>,<<1,2>>,<<1,0>>,<<2,3>>,<<3,4>>,<<4,5>>}',
                        'InitHeaps': _heaps({1: E1, 2: A1}, {1: A1, 2: B1}, {1: A1, 2: W1}, {1: W1, 2: C1}, {1: C1, 2: E1})})
    out['system'].update({'MaxDepth': '10', 'Key': '{0,1,2,5,8}', 'MaxNodes': '10', 'MaxResid': '40',
                          'NodeSets': '{{2,3},{5},{6,7}}', 'Acts': _acts(SYS_ACTS + ['RemoveNodesFrom', 'Subgraph', 'AddInter']),
                          'AtomSeqs': '{<<0,1>>,<<1,2>>,<<2,3>>}',
                          'InitHeaps': _heaps({1: P1, 2: Q1, 3: E1}, {1: P1, 2: Q1, 3: C1}, {1: W1, 2: C1, 3: E1}, {1: Q1, 2: W1, 3: P1})})
    out['block'].update({'MaxDepth': '10', 'Key': '{0,1,5,6}', 'MaxNodes': '10', 'MaxInter': '8', 'MaxResid': '40',
                         'AtomSeqs': '{<<0,1>>,<<3,4>>,<<1,2>>,<<5,6>>}', 'BKey': '{"a","b","d"}',
                         'Acts': _acts(BLK_ACTS + ['Copy', 'Subgraph', 'RemoveNodesFrom']), 'NodeSets': '{{0,1},{3},{5,6}}'})
    return out


# ---------------------------------------------------------------- the tree as found (bookkeeping switches)
def probe_bookkeeping():
    """Which of the modelled bookkeeping variants the real classes show today (tiny probes on the real code).
    Bookkeeping only: nothing the statement of C12 speaks of depends on these switches."""
    from vermouth.molecule import Molecule
    a, b = Molecule(), Molecule()
    a.add_node(0, resid=1, charge_group=1)
    b.add_node(0, resid=1, charge_group=1)
    b.log_entries[30]['m {X}'].append({'X': 0})
    a.merge_molecule(b)
    n = len(a.log_entries[30]['m {X}'])
    sub = a.subgraph([0])
    b.remove_node(0)
    left = len(b.log_entries[30]['m {X}'])
    return {'LogExtra': '"always"' if n >= 2 else '"blocks"',
            'CitShared': 'TRUE' if sub.citations is a.citations else 'FALSE',
            'LogPurge': 'TRUE' if left == 0 else 'FALSE'}


DEMANDED = {'LogExtra': '"blocks"', 'CitShared': 'FALSE', 'LogPurge': 'TRUE'}
CLAUSES = {
    'LogKept': 'merge: every log entry of both operands kept, the receiver\'s emissions first and unchanged',
    'LogRenumbered': 'merge: the newcomer\'s emissions follow with their atom references renumbered by the correspondence',
    'LogNothingAdded': 'merge: nothing else is added (only a Block, whose entries refer to atom names, gets one binding per entry)',
    'CitKept': 'merge: the citations are the union of both',
    'MetaKept': 'merge: meta, force field and nrexcl of a non-empty receiver unchanged',
    'MergeLogTotal': 'merge: no KeyError after the atoms were merged because a log entry of the newcomer refers to a removed atom',
    'BookFrame': 'a call on one molecule leaves the bookkeeping of every other molecule alone',
    'LogNoDangling': 'every atom reference of a log emission is an atom still present',
    'CacheSound': 'a highest-key cache that is present is right',
}


# ---------------------------------------------------------------- real objects
def attr_kwargs(a):
    return {'resid': a['resid'], 'charge_group': a['cg'], 'atomname': a['tag'], 'chain': a['tag']}


def build_mol(mm, is_block=False):
    """Real Molecule / Block for a model molecule (bulk constructors; the cache and the bookkeeping set directly)."""
    from vermouth.molecule import Molecule, Block, Interaction
    bk = mm.get('bk') or {'meta': '', 'cit': ('vermouth',), 'log': (), 'nrexcl': -1, 'ff': ''}
    m = (Block if is_block else Molecule)()
    m.add_nodes_from((n['key'], attr_kwargs(n)) for n in mm['nodes'])
    m.add_edges_from(mm['edges'])
    for ty, lst in mm['inter'].items():
        for it in lst:
            meta = {}
            if it['ver']:
                meta['version'] = it['ver']
            if not it.get('edge', True):
                meta['edge'] = False
            m.interactions[ty].append(Interaction(atoms=tuple(it['atoms']), parameters=[it['tag']], meta=meta))
    mx = mm.get('maxnode', -1)
    m.max_node = None if mx == -1 else mx
    m.meta = {'tag': bk['meta']} if bk['meta'] else {}
    m.citations = set(bk['cit'])
    for e in bk['log']:
        m.log_entries[30][e['msg']] = [dict((p[0], p[1]) for p in em) for em in e['ems']]
    m.nrexcl = None if bk['nrexcl'] == -1 else bk['nrexcl']
    m._force_field = bk['ff'] or None
    return m


def build_world(st, blocks=frozenset()):
    from vermouth.system import System
    cells = {i: build_mol(mm, i in blocks) for i, mm in enumerate(st['mols'], 1)}
    system = System()
    system.molecules = [cells[i] for i in st.get('sys', ())]
    return {'cells': cells, 'system': system}


def store(w, d, obj):
    """`cell d = obj`: the variable that held the old object now holds the new one, in the system's list too."""
    old = w['cells'][d]
    w['cells'][d] = obj
    w['system'].molecules = [obj if x is old else x for x in w['system'].molecules]


def _edge(a, b):
    try:
        return (a, b) if a <= b else (b, a)
    except TypeError:           # keys of two kinds in one molecule: only a broken implementation gets here
        return tuple(sorted((a, b), key=repr))


def project_book(m):
    meta = m.meta.get('tag', '') if set(m.meta) <= {'tag'} else 'other:' + repr(sorted(m.meta.items(), key=repr))
    log = []
    for level, entries in m.log_entries.items():
        for msg, ems in entries.items():
            log.append({'msg': msg if level == 30 else 'L%s:%s' % (level, msg),
                        'ems': tuple(tuple((str(k), v) for k, v in em.items()) for em in ems)})
    ff = m._force_field
    return {'meta': meta, 'cit': frozenset(str(c) for c in m.citations), 'log': tuple(log),
            'nrexcl': -1 if m.nrexcl is None else m.nrexcl, 'ff': '' if ff is None else (ff if isinstance(ff, str) else getattr(ff, 'name', repr(ff)))}


def project(m, types=T1, is_block=False, real=False):
    """real: objects of the pipeline - the tag of an atom is "<chain>|<atom name>", the tag of an interaction all its
    parameters; otherwise the toy objects of the models (tag = atom name = chain; one parameter)."""
    def num(x):           # an atom without the attribute (e.g. one created by add_edge) is projected to a value no model has
        return x if isinstance(x, int) and not isinstance(x, bool) else -999
    if real:
        nodes = tuple({'key': k, 'resid': num(d.get('resid')), 'cg': num(d.get('charge_group')), 'tag': '%s|%s' % (d.get('chain'), d.get('atomname'))}
                      for k, d in m.nodes(data=True))
    else:
        nodes = tuple({'key': k, 'resid': num(d.get('resid')), 'cg': num(d.get('charge_group')),
                       'tag': d.get('atomname') if isinstance(d.get('atomname'), str) else '<%r>' % (d.get('atomname'),)}
                      for k, d in m.nodes(data=True))
    edges = frozenset(_edge(a, b) for a, b in m.edges)
    inter = {}
    for ty in types:
        inter[ty] = tuple({'atoms': tuple(i.atoms), 'ver': i.meta.get('version', 0),
                           'tag': ' '.join(str(x) for x in i.parameters) if real else i.parameters[0],
                           'edge': bool(i.meta.get('edge', True))} for i in m.interactions.get(ty, []))
    extra = set(m.interactions) - set(types)
    if any(m.interactions[t] for t in extra):
        inter['_extra'] = sorted(extra)
    mx = m.max_node
    return {'nodes': nodes, 'edges': edges, 'inter': inter,
            'maxnode': -1 if (is_block or not isinstance(mx, int) or isinstance(mx, bool)) else mx, 'bk': project_book(m)}


def project_world(w, types=T1, blocks=frozenset()):
    cells = {c: project(m, types, c in blocks) for c, m in w['cells'].items()}
    ids = {id(m): c for c, m in w['cells'].items()}
    groups = collections.defaultdict(set)
    for c, m in w['cells'].items():
        groups[id(m.citations)].add(c)
    return {'cells': cells, 'sys': tuple(ids.get(id(x), 0) for x in w['system'].molecules),
            'parts': frozenset(frozenset(g) for g in groups.values())}


def _plain(v):
    """parsed TLA+ value -> plain comparable Python (FrozenDict -> dict)."""
    if isinstance(v, dict):
        return {k: _plain(x) for k, x in v.items()}
    if isinstance(v, tuple):
        return tuple(_plain(x) for x in v)
    if isinstance(v, frozenset):
        return frozenset(_plain(x) if not isinstance(x, dict) else tlaval.FrozenDict(x) for x in v)
    return v


def compare(state, w, err, blocks=frozenset()):
    """-> (difference in what the statement speaks of | None, [bookkeeping fields that differ])."""
    if state['err'] != err:
        return 'error outcome: model %r, implementation %r' % (state['err'], err), []
    types = list(state['mols'][0]['inter'].keys())
    real = project_world(w, types, blocks)
    book = []
    for idx, mm in enumerate(state['mols'], 1):
        r = real['cells'][idx]
        if (tuple(dict(n) for n in mm['nodes']) != r['nodes'] or frozenset(mm['edges']) != r['edges']
                or {k: tuple(dict(i) for i in v) for k, v in mm['inter'].items()} != r['inter']):
            return 'cell %d: model %r, implementation %r' % (idx, common.jsonable(strip(mm)), common.jsonable(strip(r))), []
        if _plain(mm['bk']) != r['bk'] and 'bk' not in book:
            book.append('bk')
        if idx not in blocks and mm['maxnode'] != r['maxnode'] and 'cache' not in book:
            book.append('cache')
    if tuple(state.get('sys', ())) != real['sys']:
        return 'molecule list of the system: model %r, implementation %r' % (tuple(state.get('sys', ())), real['sys']), []
    if 'parts' in state and frozenset(frozenset(p) for p in state['parts']) != real['parts']:
        book.append('parts')
    return None, book


def strip(mm):
    return {k: v for k, v in mm.items() if k in ('nodes', 'edges', 'inter')}


def apply_action(w, name, args):
    """Apply one model action to the real world. Returns the error outcome name."""
    import networkx as nx
    cells = w['cells']
    try:
        if name == 'AddNode':
            m, k, ai = args
            cells[m].add_node(k, **attr_kwargs(ATTRS[ai - 1]))
        elif name == 'AddNodesFrom':
            m, ks, ai = args
            cells[m].add_nodes_from(sorted(ks), **attr_kwargs(ATTRS[ai - 1]))
        elif name == 'SetResid':
            m, k, r = args
            if k not in cells[m]:
                return 'disabled'
            cells[m].nodes[k]['resid'] = r
        elif name == 'RemoveNode':
            m, k = args
            cells[m].remove_node(k)
        elif name == 'RemoveNodesFrom':
            m, ks, one_shot = args
            ks = sorted(ks)
            cells[m].remove_nodes_from((k for k in ks) if one_shot else ks)
        elif name == 'AddEdge':
            m, a, b = args
            cells[m].add_edge(a, b)
        elif name == 'AddInter':
            m, ty, at, v, t = args
            cells[m].add_interaction(ty, tuple(at), [t], meta=({'version': v} if v else {}))
        elif name == 'AddInterNoEdge':
            m, ty, at = args
            cells[m].add_interaction(ty, tuple(at), ['n'], meta={'edge': False})
        elif name == 'AddOrReplace':
            m, ty, at, v, t = args
            cells[m].add_or_replace_interaction(ty, tuple(at), [t], meta=({'version': v} if v else {}))
        elif name == 'AddOrReplaceCite':
            m, ty, at, c = args
            cells[m].add_or_replace_interaction(ty, tuple(at), ['c'], meta={}, citations={c})
        elif name == 'RemoveInter':
            m, ty, at, v = args
            cells[m].remove_interaction(ty, tuple(at), version=v)
        elif name == 'MakeEdges':
            cells[args[0]].make_edges_from_interactions()
        elif name == 'Copy':
            s, d = args
            store(w, d, cells[s].copy())
        elif name == 'Subgraph':
            s, ks, d = args
            store(w, d, cells[s].subgraph(sorted(ks)))
        elif name == 'GraphCopy':
            s, d = args
            store(w, d, nx.Graph.copy(cells[s]))
        elif name == 'Merge':
            m, n = args
            cells[m].merge_molecule(cells[n])
        elif name == 'ToMol':
            b, d, o = args
            store(w, d, cells[b].to_molecule(atom_offset=o[0], offset_resid=o[1], offset_charge_group=o[2]))
        elif name == 'MergeAll':
            from vermouth.processors.merge_all_molecules import MergeAllMolecules
            MergeAllMolecules().run_system(w['system'])
        elif name in ('MergeChains', 'MergeChainsAll'):
            from vermouth.processors.merge_chains import MergeChains
            known = {id(x) for x in cells.values()}
            if name == 'MergeChains':
                cs, d = args
                MergeChains(chains=sorted(cs)).run_system(w['system'])
            else:
                d, = args
                MergeChains(all_chains=True).run_system(w['system'])
            new = [x for x in w['system'].molecules if id(x) not in known]
            if len(new) > 1:
                return 'Exception:two new molecules'
            if new:
                cells[d] = new[0]
        else:
            raise ValueError('unknown action ' + name)
    except KeyError:
        return 'KeyError'
    except nx.NetworkXError:
        return 'NetworkXError'
    except ValueError:
        return 'ValueError'
    except TypeError:
        return 'TypeError'
    except Exception as exc:     # any other exception is an outcome the model never has
        return 'Exception:%s' % type(exc).__name__
    return 'none'


def parse_label(label):
    m = re.match(r'(\w+)\((.*)\)$', label, re.S)
    if not m:
        return label, ()
    return m.group(1), tlaval.parse('<<' + m.group(2) + '>>')


# ---------------------------------------------------------------- dot graph replay
_EDGE = re.compile(r'^(-?\d+) -> (-?\d+) \[label="(.*?)",color', re.M)
_NODE = re.compile(r'^(-?\d+) \[label="(.*?)"(?:,style|,tooltip)', re.M)


def load_dot(path):
    with open(path) as fh:
        txt = fh.read()
    nodes = {}
    for m in _NODE.finditer(txt):
        body = m.group(2).replace('\\n', '\n').replace('\\"', '"').replace('\\\\', '\\')
        nodes[m.group(1)] = body
    edges = collections.defaultdict(list)
    seen = set()
    for m in _EDGE.finditer(txt):
        key = (m.group(1), m.group(2), m.group(3))
        if key in seen:      # a guard written as a disjunction makes TLC list the same transition twice
            continue
        seen.add(key)
        edges[m.group(1)].append((m.group(2), m.group(3).replace('\\"', '"')))
    return nodes, edges, len(seen)


_SHARED = {}
SLICES = 4


def _replay_slice(job):
    """Replay the transitions reachable from one initial state through its outgoing edges number i, i+SLICES, ...
    (DFS over the BFS tree)."""
    cfg, root, part = job
    nodes_txt, edges, parent_edge = _SHARED[cfg]
    blocks = BLOCKS[cfg]
    parsed = {}

    def state(fp):
        if fp not in parsed:
            parsed[fp] = tlaval.parse_state_body(nodes_txt[fp])
        return parsed[fp]

    st0 = state(root)
    w0 = build_world(st0, blocks)
    bad, count, acts = [], 0, collections.Counter()
    obs_ok, differs, obs_sample = collections.Counter(), collections.Counter(), {}
    below, extra = [0], [0]
    stack = [(root, w0, [], True, False, True)]
    while stack:
        fp, w, path, is_root, cache_off, counted = stack.pop()
        for ei, (tgt, label) in enumerate(edges.get(fp, ())):
            if is_root and ei % SLICES != part:
                continue
            if tgt not in nodes_txt:
                continue
            name, a = parse_label(label)
            w2 = copy.deepcopy(w)
            err = apply_action(w2, name, a)
            if counted:
                count += 1
                acts[name] += 1
            else:
                extra[0] += 1
            tst = state(tgt)
            diff, book = compare(tst, w2, err, blocks)
            if diff:
                if len(bad) < 3:
                    bad.append({'config': cfg, 'init': common.jsonable({'mols': [strip_all(m) for m in st0['mols']], 'sys': st0['sys']}),
                                'path': path + [label], 'diff': diff})
                continue
            if cache_off:
                book = [f for f in book if f != 'cache']
            for f in book:
                differs['%s:differs:%s' % (name, f)] += 1
                obs_sample.setdefault('differs:' + f, {'config': cfg, 'path': path + [label]})
            if [f for f in book if f != 'cache']:
                below[0] += 1
                continue       # meta / citations / log entries left the model here: the subtree would repeat the same difference
            if not book and counted:
                for c in tst['obs']:
                    obs_ok['%s:%s' % (name, c)] += 1
                    obs_sample.setdefault(c, {'config': cfg, 'path': path + [label]})
            if not counted:
                continue
            if parent_edge.get(tgt) == (fp, label):
                stack.append((tgt, w2, path + [label], False, cache_off or 'cache' in book, True))
            elif 'cache' in book:
                # the real object carries a cache the model state does not have: what it does to the NEXT call is the
                # statement's business, so the successors of this state are replayed from this object too (not counted)
                stack.append((tgt, w2, path + [label], False, True, False))
    if extra[0]:
        differs['(transitions replayed once more below a cache difference)'] = extra[0]
    if below[0]:
        differs['(subtrees not replayed below a bookkeeping difference)'] = below[0]
    return count, bad, dict(acts), dict(obs_ok), dict(differs), obs_sample


def strip_all(mm):
    return {k: v for k, v in mm.items()}


def prepare_graph(cfg, dot_path):
    nodes_txt, edges, nedges = load_dot(dot_path)
    roots = [fp for fp, body in nodes_txt.items() if re.search(r'steps = 0\b', body)]
    parent_edge, owner = {}, {}
    frontier = list(roots)
    for r in roots:
        owner[r] = r
    while frontier:
        nxt = []
        for fp in frontier:
            for tgt, label in edges.get(fp, ()):
                if tgt in nodes_txt and tgt not in owner:
                    owner[tgt] = owner[fp]
                    parent_edge[tgt] = (fp, label)
                    nxt.append(tgt)
        frontier = nxt
    _SHARED[cfg] = (nodes_txt, edges, parent_edge)
    return [(cfg, r, i) for r in roots for i in range(SLICES)], nedges


def _mc_job(job):
    """One exhaustive TLC run (in a pool worker; the dot file stays in the scratch directory the parent removes)."""
    name, consts, work, nworkers = job
    dot = os.path.join(work, name + '.dot')
    res = tlc.run('MoleculeEdit', CFG_TEXT[name], consts=consts, workdir=os.path.join(work, 'mc_' + name), workers=nworkers, coverage=True,
                  extra=['-dump', 'dot,actionlabels', dot], timeout=3000)
    res.stdout = res.stdout[-4000:]
    return 'mc', name, res, dot


def _sim_job(job):
    name, consts, work, seed, num, nworkers = job
    res = tlc.run('MoleculeEdit', CFG_TEXT[name] + 'CONSTRAINT Bounded\n', consts=consts, workdir=os.path.join(work, 'sim_' + name), workers=nworkers, seed=seed,
                  simulate={'num': max(1, num // nworkers), 'file': True}, depth=int(consts['MaxDepth']) + 1, timeout=3000)
    res.stdout = res.stdout[-3000:]
    return 'sim', name, res, None


def _tlc_job(job):
    return _mc_job(job[1:]) if job[0] == 'mc' else _sim_job(job[1:])


def note_book(ev, obs_ok, differs, samples):
    bk = ev.extra.setdefault('bookkeeping', {'clauses': CLAUSES, 'not_respected_confirmed_on_real_objects': {},
                                             'differs_from_model_as_found': {}, 'samples': {}})
    for k, v in obs_ok.items():
        bk['not_respected_confirmed_on_real_objects'][k] = bk['not_respected_confirmed_on_real_objects'].get(k, 0) + v
    for k, v in differs.items():
        bk['differs_from_model_as_found'][k] = bk['differs_from_model_as_found'].get(k, 0) + v
    for k, v in samples.items():
        bk['samples'].setdefault(k, common.jsonable(v))


def tlc_phase(tier, seed, book, ev, with_sim=True):
    """All exhaustive and simulation runs of TLC side by side.  -> (replay jobs, expectation for absorb_replay)"""
    cfgs = configs(tier, book)
    work = tlc.scratch('c12_')
    for name in cfgs:
        os.makedirs(os.path.join(work, 'mc_' + name))
        os.makedirs(os.path.join(work, 'sim_' + name))
    jobs = [('mc', n, c, work, 6 if n != 'block' else 3) for n, c in cfgs.items()]
    if with_sim:
        nsim = {'edit': 160, 'system': 80, 'block': 60} if tier == 'quick' else {'edit': 4000, 'system': 2000, 'block': 1500}
        jobs += [('sim', n, c, work, seed + 1, nsim[n], 3) for n, c in sim_configs(book).items()]
    with mp.Pool(len(jobs)) as pool:
        results = pool.map(_tlc_job, jobs, chunksize=1)
    rjobs, expect, first = [], {}, None
    for kind, name, res, dot in results:
        if kind == 'mc':
            if res.violated:
                raise tlc.MachineryError('MoleculeEdit/%s (design as demanded by the property) violates %s: the specification is wrong\n%s'
                                         % (name, res.violated, res.stdout[-1500:]))
            ev.add_tlc('MC MoleculeEdit/%s depth %s' % (name, cfgs[name]['MaxDepth']), res)
            never = [a for a in ACTS[name] if res.coverage.get(a, (0, 0))[1] == 0]
            if never:
                raise tlc.MachineryError('vacuous model %s: TLC coverage shows actions never taken: %s' % (name, never))
            j, nedges = prepare_graph(name, dot)
            os.remove(dot)
            rjobs += [('replay',) + x for x in j]
            expect[name] = nedges
        else:
            if res.violated:
                raise tlc.MachineryError('MoleculeEdit/%s simulation violates %s' % (name, res.violated))
            files = tlc.sim_files(res)
            first = first or (files[0] if files else None)
            rjobs += [('behaviours', name, ch) for ch in common.chunks(files, 6)]
    ev.exhaustive = True
    return rjobs, {'expect': expect, 'cfgs': list(cfgs), 'first': first, 'work': work, 'with_sim': with_sim}


def absorb_replay(jobs, outs, info, ev, vd):
    total = collections.Counter()
    acts = collections.defaultdict(collections.Counter)
    nb = ns = 0
    sim_acts = collections.Counter()
    broken = set()          # configurations with a mismatch or a bookkeeping difference: the subtree below it is not replayed
    for job, out in zip(jobs, outs):
        if job[0] == 'replay':
            cfg = job[1]
            count, bad, a, obs_ok, differs, samples = out
            total[cfg] += count
            acts[cfg].update(a)
            for b in bad:
                vd.violation('replay-mismatch', b, b['diff'])
                broken.add(cfg)
            if differs.get('(subtrees not replayed below a bookkeeping difference)'):
                broken.add(cfg)
            note_book(ev, obs_ok, differs, samples)
        elif job[0] == 'behaviours':
            n, steps, bad, hashes, a, obs_ok, differs, samples = out
            nb += n
            ns += steps
            for b in bad:
                vd.violation('simulated-behaviour-mismatch', b, b['diff'])
            ev.nontrivial.update(hashes)
            sim_acts.update(a)
            note_book(ev, obs_ok, differs, samples)
    for cfg in info['cfgs']:
        missing = set(ACTS[cfg]) - set(acts[cfg])
        if missing and cfg not in broken:
            raise tlc.MachineryError('vacuous model %s: actions never replayed: %s' % (cfg, sorted(missing)))
        if total[cfg] != info['expect'][cfg] and cfg not in broken:
            raise tlc.MachineryError('%s: replayed %d of %d transitions' % (cfg, total[cfg], info['expect'][cfg]))
        ev.extra.setdefault('replayed_transitions_by_action', {})[cfg] = dict(acts[cfg])
    n = sum(total.values())
    ev.traces += n + nb
    ev.evaluations += n + nb
    ev.transitions += ns
    if info['with_sim']:
        ev.tlc_runs.append({'run': 'SIM MoleculeEdit edit / system / block, depth 10-12', 'behaviours': nb, 'steps': ns, 'by_action': dict(sim_acts)})
        need = set(EDIT_ACTS + SYS_ACTS + BLK_ACTS)
        if need - set(sim_acts) and not vd.violations:
            raise tlc.MachineryError('simulation never took: %s' % sorted(need - set(sim_acts)))
        if info['first']:
            beh = tlaval.parse_simulate_file(info['first'])
            ev.sample({'kind': 'simulated behaviour replayed on real objects', 'calls': ['%s(%s)' % (a, b) for a, b, _ in beh[1:]]})
    _SHARED.clear()
    shutil.rmtree(info['work'], ignore_errors=True)


def _dispatch(job):
    kind = job[0]
    if kind == 'replay':
        return _replay_slice(job[1:])
    if kind == 'behaviours':
        return _replay_behaviours(job[1:])
    if kind == 'random':
        return _random_worker(job[1:])
    if kind == 'real':
        from . import c12_more
        return c12_more._real_worker(job[1:])
    raise ValueError(kind)


def model_check(tier, book, ev, vd):
    """The exhaustive part alone (used by the selftest)."""
    jobs, info = tlc_phase(tier, 0, book, ev, with_sim=False)
    with mp.Pool(tlc.NCPU) as pool:
        outs = pool.map(_dispatch, jobs, chunksize=1)
    absorb_replay(jobs, outs, info, ev, vd)


# ---------------------------------------------------------------- simulation replay
def _replay_behaviours(job):
    cfg, files = job
    blocks = BLOCKS[cfg]
    bad, steps, n = [], 0, 0
    seen = set()
    acts = collections.Counter()
    obs_ok, differs, samples = collections.Counter(), collections.Counter(), {}
    for f in files:
        beh = tlaval.parse_simulate_file(f)
        if not beh:
            continue
        st0 = beh[0][2]
        w = build_world(st0, blocks)
        path = []
        n += 1
        cache_off = False
        for act, a, st in beh[1:]:
            args = tlaval.parse('<<' + (a or '') + '>>')
            err = apply_action(w, act, args)
            path.append('%s(%s)' % (act, a) if a else act)
            steps += 1
            acts[act] += 1
            diff, book = compare(st, w, err, blocks)
            if diff:
                bad.append({'config': cfg, 'init': common.jsonable({'mols': list(st0['mols']), 'sys': st0['sys']}), 'path': path, 'diff': diff})
                break
            if cache_off:
                book = [fld for fld in book if fld != 'cache']
            for fld in book:
                differs['%s:differs:%s' % (act, fld)] += 1
                samples.setdefault('differs:' + fld, {'config': cfg, 'path': list(path)})
            if [fld for fld in book if fld != 'cache']:
                break          # meta / citations / log entries left the model: later steps would repeat the same difference
            if 'cache' in book:
                cache_off = True     # followed further: what a wrong cache does to later merges is the statement's business
                continue
            for c in st['obs']:
                obs_ok['%s:%s' % (act, c)] += 1
        seen.add(tuple(path))
    return n, steps, bad, [hashlib.sha1(repr(p).encode()).hexdigest()[:16] for p in seen if len(p) >= 2], dict(acts), dict(obs_ok), dict(differs), samples


# ---------------------------------------------------------------- recorded histories (code -> spec)
TR_TYPES = ['bonds', 'angles', 'impropers', 'exclusions', 'constraints']       # names vermouth treats differently
TR_EDGE = ['bonds', 'angles', 'constraints']
ARITY = {'bonds': 2, 'angles': 3, 'impropers': 3, 'exclusions': 2, 'constraints': 2}
TR_CELLS = [1, 2, 3, 4]
TR_BLOCKS = [4]
BNAMES = ['a', 'b', 'c', 'd', 'e', 'f']


def mol_json(m, types, is_block, real=False):
    p = project(m, types, is_block, real)
    bk = p['bk']
    return {'nodes': [dict(n) for n in p['nodes']],
            'edges': sorted([list(e) for e in p['edges']], key=lambda e: (0, e) if all(isinstance(x, int) for x in e) else (1, [repr(x) for x in e])),
            'inter': {t: [{'atoms': list(i['atoms']), 'ver': i['ver'], 'tag': i['tag'], 'edge': i['edge']} for i in p['inter'][t]]
                      for t in types},
            'extra': '_extra' in p['inter'], 'maxnode': p['maxnode'],
            'bk': {'meta': bk['meta'], 'cit': sorted(bk['cit']), 'nrexcl': bk['nrexcl'], 'ff': bk['ff'],
                   'log': [{'msg': e['msg'], 'ems': [[[nm, k] for nm, k in em] for em in e['ems']]} for e in bk['log']]}}


def world_json(w, types, blocks, real=False):
    ids = {id(m): c for c, m in w['cells'].items()}
    groups = collections.defaultdict(list)
    for c, m in sorted(w['cells'].items()):
        groups[id(m.citations)].append(c)
    return {'post': [[c, mol_json(m, types, c in blocks, real)] for c, m in sorted(w['cells'].items())],
            'sys': [ids.get(id(x), 0) for x in w['system'].molecules],
            'parts': sorted(groups.values())}


def malformed(post, blocks):
    """Representation check before TLC sees a world (TLC cannot compare a number with a string): the keys of a molecule
    are numbers and those of a block are names, wherever they occur.  -> None or a description."""
    for c, p in post:
        want = str if c in blocks else int
        seen = [n['key'] for n in p['nodes']] + [x for e in p['edges'] for x in e] + \
               [x for lst in p['inter'].values() for it in lst for x in it['atoms']] + \
               [pr[1] for e in p['bk']['log'] for em in e['ems'] for pr in em]
        for k in seen:
            if not isinstance(k, want) or isinstance(k, bool):
                return 'cell %d (%s): the key %r is not a %s' % (c, 'block' if c in blocks else 'molecule', k, 'name' if want is str else 'number')
    return None


class Recorder:
    """Runs calls on a real world and logs one event per call: arguments, error outcome, projection of the world after.
    A world that cannot be represented (see `malformed`) ends the history: that event is rejected without asking TLC."""
    def __init__(self, w, types, blocks, real=False):
        self.w, self.types, self.blocks, self.real = w, list(types), set(blocks), real
        self.events = []
        self.dead = False

    def _close(self, ev):
        ev.update(world_json(self.w, self.types, self.blocks, self.real))
        bad = malformed(ev['post'], self.blocks)
        if bad:
            ev['malformed'] = bad
            self.dead = True
        self.events.append(ev)

    def load(self):
        if not self.dead:
            self._close({'ev': 'Load', 'm': 0, 'err': 'none'})

    def call(self, ev, fn):
        import networkx as nx
        if self.dead:
            return 'dead'
        err = 'none'
        try:
            fn()
        except KeyError:
            err = 'KeyError'
        except nx.NetworkXError:
            err = 'NetworkXError'
        except ValueError:
            err = 'ValueError'
        except TypeError:
            err = 'TypeError'
        except Exception as exc:      # noqa
            err = 'Exception:%s' % type(exc).__name__
        ev = dict(ev)
        ev['err'] = err
        self._close(ev)
        return err


def new_world():
    from vermouth.molecule import Molecule, Block
    from vermouth.system import System
    return {'cells': {1: Molecule(), 2: Molecule(), 3: Molecule(), 4: Block()}, 'system': System()}


def random_history(rng, nops):
    """Run a random editing history on real objects; return the event list."""
    from vermouth.processors.merge_all_molecules import MergeAllMolecules
    from vermouth.processors.merge_chains import MergeChains
    import networkx as nx
    w = new_world()
    cells = w['cells']
    rec = Recorder(w, TR_TYPES, TR_BLOCKS)
    keys = list(range(0, 14)) + [20, 31]
    tagc = [0]
    ops = (['AddNode'] * 3 + ['AddNodesFrom', 'SetResid', 'RemoveNode', 'RemoveNodesFrom', 'AddEdge'] + ['AddInter'] * 3
           + ['AddOrReplace', 'RemoveInter', 'MakeEdges', 'Copy', 'Subgraph', 'GraphCopy'] + ['Merge'] * 3
           + ['SetSys', 'MergeAll', 'MergeChains', 'MergeChainsAll', 'ToMol', 'BlockEdit', 'BlockEdit', 'MergeBlock', 'AddLog'])
    for _ in range(nops):
        m = rng.choice([1, 1, 2, 3])
        present = list(cells[m].nodes)
        op = rng.choice(ops)
        a = {'resid': rng.randint(0, 9), 'cg': rng.randint(0, 9), 'tag': rng.choice('pqr')}
        ev = {'ev': op, 'm': m}
        if op == 'AddNode':
            k = rng.choice(keys) if rng.random() < 0.7 or not present else max(present) + 1
            ev.update(k=k, a=a)
            rec.call(ev, lambda: cells[m].add_node(k, **attr_kwargs(a)))
        elif op == 'AddNodesFrom':
            base = (max(present) + 1) if present and rng.random() < 0.6 else rng.choice(keys)
            ks = sorted({base, base + rng.randint(0, 2)})
            ev.update(ks=ks, a=a)
            rec.call(ev, lambda: cells[m].add_nodes_from(ks, **attr_kwargs(a)))
        elif op == 'SetResid':
            if not present:
                continue
            k, r = rng.choice(present), rng.randint(1, 9)
            ev.update(k=k, r=r)
            rec.call(ev, lambda: cells[m].nodes[k].__setitem__('resid', r))
        elif op == 'RemoveNode':
            k = rng.choice(present) if present and rng.random() < 0.9 else rng.choice(keys)
            if present and rng.random() < 0.3:
                k = max(present)
            ev.update(k=k)
            rec.call(ev, lambda: cells[m].remove_node(k))
        elif op == 'RemoveNodesFrom':
            ks = sorted(set(rng.sample(present, min(len(present), rng.randint(1, 2))) + [rng.choice(keys)]))
            one = rng.random() < 0.5
            ev.update(ks=ks, oneShot=one)
            rec.call(ev, lambda: cells[m].remove_nodes_from((k for k in ks) if one else ks))
        elif op == 'AddEdge':
            if len(present) < 2:
                continue
            x, y = rng.sample(present, 2)
            ev.update(k=min(x, y), b=max(x, y))
            rec.call(ev, lambda: cells[m].add_edge(x, y))
        elif op in ('AddInter', 'AddOrReplace', 'RemoveInter'):
            ty = rng.choice(TR_TYPES)
            n = ARITY[ty]
            pool = present if present and rng.random() < 0.9 else keys
            if op != 'AddInter' and cells[m].interactions.get(ty) and rng.random() < 0.7:
                at = list(rng.choice(cells[m].interactions[ty]).atoms)
            else:
                at = [rng.choice(pool) for _ in range(n)]
            v = rng.choice([0, 0, 1])
            tagc[0] += 1
            t = 'x%d' % (tagc[0] % 5)
            meta = {'version': v} if v else {}
            ev.update(ty=ty, at=at, v=v, t=t)
            if op == 'AddInter':
                edge = rng.random() < 0.7
                if not edge:
                    meta['edge'] = False
                ev.update(edge=edge)
                rec.call(ev, lambda: cells[m].add_interaction(ty, tuple(at), [t], meta=meta))
            elif op == 'AddOrReplace':
                cs = rng.choice([[], [], ['c%d' % rng.randint(1, 3)]])
                ev.update(cs=cs)
                rec.call(ev, lambda: cells[m].add_or_replace_interaction(ty, tuple(at), [t], meta=meta, citations=set(cs)))
            else:
                rec.call(ev, lambda: cells[m].remove_interaction(ty, tuple(at), version=v))
        elif op == 'MakeEdges':
            rec.call(ev, lambda: cells[m].make_edges_from_interactions())
        elif op in ('Copy', 'GraphCopy'):
            d = rng.choice([i for i in (1, 2, 3) if i != m])
            ev.update(m=d, src=m)
            rec.call(ev, lambda: store(w, d, cells[m].copy() if op == 'Copy' else nx.Graph.copy(cells[m])))
        elif op == 'Subgraph':
            d = rng.choice([i for i in (1, 2, 3) if i != m])
            ks = rng.sample(present, rng.randint(0, len(present))) if present else []
            if ks and rng.random() < 0.4:          # the same key listed more than once
                for _ in range(rng.randint(1, 2)):
                    ks.insert(rng.randrange(len(ks) + 1), rng.choice(ks))
            ev.update(m=d, src=m, ks=ks)
            rec.call(ev, lambda: store(w, d, cells[m].subgraph(ks)))
        elif op == 'Merge':
            n = rng.choice([i for i in (1, 2, 3) if i != m])
            if len(cells[m]) + len(cells[n]) > 16:
                continue
            ev.update(n=n)
            rec.call(ev, lambda: cells[m].merge_molecule(cells[n]))
        elif op == 'SetSys':
            order = rng.sample([1, 2, 3], rng.randint(1, 3))
            ev.update(m=0, ks=order)
            rec.call(ev, lambda: setattr(w['system'], 'molecules', [cells[i] for i in order]))
        elif op == 'MergeAll':
            if not w['system'].molecules or sum(len(x) for x in w['system'].molecules) > 18:
                continue
            ev.update(m=0)
            rec.call(ev, lambda: MergeAllMolecules().run_system(w['system']))
        elif op in ('MergeChains', 'MergeChainsAll'):
            insys = {id(x) for x in w['system'].molecules}
            free = [c for c in (1, 2, 3) if id(cells[c]) not in insys]
            if not w['system'].molecules or not free or sum(len(x) for x in w['system'].molecules) > 18:
                continue
            d = rng.choice(free)
            chains = rng.sample(['p', 'q', 'r'], rng.randint(1, 3))
            ev.update(m=d, at=chains)

            def run_chains():
                known = {id(x) for x in cells.values()}
                if op == 'MergeChains':
                    MergeChains(chains=chains).run_system(w['system'])
                else:
                    MergeChains(all_chains=True).run_system(w['system'])
                new = [x for x in w['system'].molecules if id(x) not in known]
                if new:
                    cells[d] = new[0]
            rec.call(ev, run_chains)
        elif op == 'BlockEdit':
            blk = cells[4]
            names = list(blk.nodes)
            what = rng.choice(['AddNode', 'AddNode', 'AddInter', 'AddInter', 'RemoveNode', 'MakeEdges'])
            if what == 'AddNode':
                k = rng.choice(BNAMES)
                ev = {'ev': 'AddNode', 'm': 4, 'k': k, 'a': dict(a, tag=rng.choice('pqr'))}
                rec.call(ev, lambda: blk.add_node(k, **attr_kwargs(ev['a'])))
            elif what == 'AddInter' and names:
                ty = rng.choice(TR_TYPES)
                at = [rng.choice(names) for _ in range(ARITY[ty])]
                edge = rng.random() < 0.7
                ev = {'ev': 'AddInter', 'm': 4, 'ty': ty, 'at': at, 'v': 0, 't': 'b', 'edge': edge}
                rec.call(ev, lambda: blk.add_interaction(ty, tuple(at), ['b'], meta=({} if edge else {'edge': False})))
            elif what == 'RemoveNode' and names:
                k = rng.choice(names)
                rec.call({'ev': 'RemoveNode', 'm': 4, 'k': k}, lambda: blk.remove_node(k))
            elif what == 'MakeEdges':
                rec.call({'ev': 'MakeEdges', 'm': 4}, lambda: blk.make_edges_from_interactions())
        elif op == 'ToMol':
            if not len(cells[4]):
                continue
            off, dres, dcg = rng.choice([0, 1, 7]), rng.choice([0, 2]), rng.choice([0, 3])
            ev.update(m=m, src=4, k=off, r=dres, v=dcg)
            rec.call(ev, lambda: store(w, m, cells[4].to_molecule(atom_offset=off, offset_resid=dres, offset_charge_group=dcg)))
        elif op == 'MergeBlock':
            if rng.random() < 0.15 and len(cells[4]):
                ev = {'ev': 'Merge', 'm': 4, 'n': m}               # into a block: TypeError, nothing touched
            else:
                if len(cells[m]) + len(cells[4]) > 16:
                    continue
                ev = {'ev': 'Merge', 'm': m, 'n': 4}
            rec.call(ev, lambda: cells[ev['m']].merge_molecule(cells[ev['n']]))
        elif op == 'AddLog':
            # what DoLinks does for a link with a log entry: log_entries[level][entry] += [match]; blocks get a template
            tgt = rng.choice([m, m, 4])
            msg = 'msg%d {X}' % rng.randint(1, 2)
            if tgt == 4:
                cells[4].log_entries[30].setdefault(msg, [])
            elif present:
                cells[tgt].log_entries[30][msg].append({'X': rng.choice(present)})
            else:
                continue
            rec.load()
    return rec.events


def _brief(e):
    return [e['ev'], e.get('m'), e.get('k'), e.get('ks'), e.get('at'), e.get('n'), e.get('src')]


def judge_batch(hists, book, types=TR_TYPES, edge_types=TR_EDGE, cells=TR_CELLS, blocks=TR_BLOCKS, names=BNAMES, sysff='', timeout=1800):
    """TLC judges a batch of recorded histories. -> (states, generated, {tid: (events accepted, why, seen)})"""
    work = tlc.scratch('c12t_')
    try:
        tf = tlc.write_json(work, 'trace.json', [[e for e in h if 'malformed' not in e] for h in hists])
        consts = {'Types': tlaval.to_tla(frozenset(types)), 'EdgeTypes': tlaval.to_tla(frozenset(edge_types)),
                  'Cells': tlaval.to_tla(frozenset(cells)), 'BlockCells': tlaval.to_tla(frozenset(blocks)),
                  'CacheModel': '"tracked"', 'SysFF': tlaval.to_tla(sysff),
                  'BlockRank': '(' + ' @@ '.join('%s :> %d' % (tlaval.to_tla(n), i) for i, n in enumerate(sorted(names), 1)) + ')'}
        consts.update(book)
        res = tlc.run('Trace_MoleculeEdit', 'SPECIFICATION TraceSpec\n', consts=consts, dump=True,
                      env={'TRACE_FILE': tf}, workdir=work, workers=1, timeout=timeout)
        verdicts = {}
        if res.violated:
            last = res.error_trace[-1] if res.error_trace else {}
            verdicts[last.get('tid', 0)] = (max(0, last.get('l', 1) - 1), 'invariant %s fails on the real object' % res.violated, ())
            return res.distinct, res.generated, verdicts, True
        for st in res.states():
            tid = st['tid']
            reached = st['l'] - 1
            cur = verdicts.get(tid)
            if st['why'] != 'ok':
                verdicts[tid] = (reached, st['why'], st['seen'])
            elif cur is None or (cur[1] == 'ok' and reached > cur[0]):
                verdicts[tid] = (reached, 'ok', st['seen'])
        return res.distinct, res.generated, verdicts, False
    finally:
        shutil.rmtree(work, ignore_errors=True)       # pool workers do not run the atexit clean-up


def summarise(hists, verdicts, partial):
    """Per-batch summary that travels back to the parent (never the events themselves, except rejected prefixes)."""
    out = {'n': len(hists), 'events': sum(len(h) for h in hists), 'accepted': 0, 'rejected': [], 'seen': collections.Counter(),
           'nontrivial': [], 'by_event': collections.Counter(), 'unjudged': 0}
    for ti, h in enumerate(hists, 1):
        if ti not in verdicts:
            if partial:
                out['unjudged'] += 1
                continue
            verdicts[ti] = (0, 'no-verdict', ())
        reached, why, seen = verdicts[ti]
        if why == 'ok' and reached == len(h) - 1 and 'malformed' in h[-1]:
            why = 'the world after the call cannot be represented: ' + h[-1]['malformed']
        for e in h[:reached]:
            out['by_event'][e['ev']] += 1
        for s in seen:
            idx, _, what = s.partition(':')
            out['seen']['%s:%s' % (h[int(idx) - 1]['ev'], what)] += 1
        if len(h) >= 2:
            out['nontrivial'].append(hashlib.sha1(json.dumps([_brief(e) for e in h], sort_keys=True, default=str).encode()).hexdigest()[:16])
        if reached != len(h) or why != 'ok':
            out['rejected'].append({'history': minimal_prefix(h, reached), 'rejected_event_index': reached + 1,
                                    'why': 'event %d (%s) rejected: %s' % (reached + 1, h[reached]['ev'] if reached < len(h) else '-', why)})
        else:
            out['accepted'] += 1
    out['seen'] = dict(out['seen'])
    out['by_event'] = dict(out['by_event'])
    return out


def minimal_prefix(h, reached):
    """The rejected event with the world before it as a Load event (enough to re-judge and to read)."""
    if reached == 0:
        return h[:1]
    prev = h[reached - 1]
    if reached < len(h) and 'malformed' in h[reached]:
        return {'calls_before': [{k: v for k, v in e.items() if k not in ('post', 'sys', 'parts')} for e in h[:reached]],
                'judged': [{k: v for k, v in h[reached].items() if k not in ('post', 'sys', 'parts')}]}
    load = {'ev': 'Load', 'm': 0, 'err': 'none', 'post': prev['post'], 'sys': prev['sys'], 'parts': prev['parts']}
    calls = [{k: v for k, v in e.items() if k not in ('post', 'sys', 'parts')} for e in h[:reached]]
    return {'calls_before': calls, 'judged': [load] + h[reached:reached + 1]}


def _random_worker(job):
    n, nops, seed, book = job
    rng = random.Random(seed)
    hists = [random_history(rng, nops) for _ in range(n)]
    states, gen, verdicts, partial = judge_batch(hists, book)
    s = summarise(hists, verdicts, partial)
    s.update(states=states, generated=gen)
    if seed % 16 == 0:
        s['sample'] = [{k: v for k, v in e.items() if k not in ('post', 'sys', 'parts')} for e in hists[0][:10]]
    return s


def absorb(summaries, ev, vd, label, kind='trace-rejected'):
    tot = collections.Counter()
    seen = collections.Counter()
    by_event = collections.Counter()
    for s in summaries:
        ev.states += s.get('states', 0)
        ev.transitions += s.get('generated', 0)
        ev.traces += s['accepted']
        ev.evaluations += s['n']
        ev.nontrivial.update(s['nontrivial'])
        tot['n'] += s['n']
        tot['events'] += s['events']
        tot['unjudged'] += s['unjudged']
        seen.update(s['seen'])
        by_event.update(s['by_event'])
        for r in s['rejected']:
            vd.violation(kind, r, r['why'])
        if 'sample' in s:
            ev.sample({'kind': 'recorded history validated by TLC (%s)' % label, 'calls': s['sample']}, limit=4)
    if tot['unjudged']:
        raise tlc.MachineryError('%d histories of %s were not judged' % (tot['unjudged'], label))
    obs_ok = {k: v for k, v in seen.items() if ':differs:' not in k}
    differs = {k: v for k, v in seen.items() if ':differs:' in k}
    note_book(ev, obs_ok, differs, {})
    ev.tlc_runs.append({'run': 'TRACE Trace_MoleculeEdit %s' % label, 'traces': tot['n'], 'events': tot['events'],
                        'accepted_events_by_call': dict(by_event)})
    return by_event


RANDOM_NEED = {'AddNode', 'AddNodesFrom', 'SetResid', 'RemoveNode', 'RemoveNodesFrom', 'AddEdge', 'AddInter', 'AddOrReplace',
               'RemoveInter', 'MakeEdges', 'Copy', 'Subgraph', 'GraphCopy', 'Merge', 'SetSys', 'MergeAll', 'MergeChains',
               'MergeChainsAll', 'ToMol', 'Load'}


def random_jobs(tier, seed, book):
    ntr = 280 if tier == 'quick' else 8000
    nworkers = 10 if tier == 'quick' else 5 * tlc.NCPU          # a JVM start per worker: fewer, larger batches in the quick tier
    per = ntr // nworkers
    return [('random', per, 40, seed * 104729 + i, book) for i in range(nworkers)], '%d random histories x 40 calls' % (per * nworkers)


# ---------------------------------------------------------------- driver
def run(tier, seed, ev, vd):
    from . import c12_more
    ev.rule = ('MC: every transition of the three MoleculeEdit state graphs (edit / system / block); SIM: random behaviours of '
               'larger instances of the same three configurations; TRACE: seeded random histories of 40 calls on real objects '
               '(3 molecules + 1 block + 1 system, 16 keys, 3 interaction types) and editing histories of real pipeline '
               'molecules. Non-trivial = history with >= 2 calls; distinct by the sequence of (call, arguments).')
    book = probe_bookkeeping()
    ev.assumptions = [
        'TLC evaluates the specification correctly',
        'not generated: a molecule merged into itself; receivers whose keys mix numbers and other values; an EMPTY Block as '
        'the receiver of a merge; operands with different force field / nrexcl only as the documented ValueError; '
        'remove_interaction is always given a tuple (given a list it never finds the interaction: atoms are compared with ==)',
        'a receiver whose keys are not numbers makes merge_molecule raise TypeError with nothing touched: modelled as that '
        'refusal (the statement asks for fresh keys, which "highest key + 1" cannot give there; no atom is lost)',
        '"last atom" of the receiver is the atom with the highest key (what merge_molecule documents), also when it was not '
        'inserted last',
        'bookkeeping (meta, citations, log entries, nrexcl, force field, highest-key cache) is modelled as found '
        '(%s) and judged by separately named clauses that never count as violations; nested mutable values (parameter '
        'lists, interaction meta dicts, attribute values) are observed by the sharing table only' % ', '.join('%s=%s' % kv for kv in sorted(book.items())),
    ]
    ev.extra['bookkeeping_as_found'] = {k: v.strip('"') for k, v in book.items()}
    ev.extra['bookkeeping_demanded'] = {k: v.strip('"') for k, v in DEMANDED.items()}
    phases = set(os.environ.get('C12_PHASES', 'mc,sim,random,real').split(','))      # debugging aid (mutation testing): a subset
    if phases != {'mc', 'sim', 'random', 'real'}:
        return run_some(phases, tier, seed, book, ev, vd)
    # 1. every TLC run on the specification alone (3 exhaustive + 3 simulations), side by side
    rjobs, info = tlc_phase(tier, seed, book, ev)
    # 2. one pool for everything that touches the real code: replay of the graphs and behaviours, and the workers that record
    #    AND judge their own share of histories (only summaries come back)
    real_jobs, real_label = c12_more.jobs(tier, seed, book)
    rnd_jobs, rnd_label = random_jobs(tier, seed, book)
    random.Random(0).shuffle(rjobs)
    jobs = real_jobs + rnd_jobs + rjobs
    with mp.Pool(tlc.NCPU) as pool:
        outs = pool.map(_dispatch, jobs, chunksize=1)
    k1, k2 = len(real_jobs), len(real_jobs) + len(rnd_jobs)
    absorb_replay(jobs[k2:], outs[k2:], info, ev, vd)
    by_event = absorb(outs[k1:k2], ev, vd, rnd_label)
    if RANDOM_NEED - set(by_event) and not vd.violations:      # (a rejected history ends at the rejected event)
        raise tlc.MachineryError('random histories: no accepted event of kind %s' % sorted(RANDOM_NEED - set(by_event)))
    c12_more.finish(tier, [x for o in outs[:k1] for x in o], real_label, ev, vd)


def run_some(phases, tier, seed, book, ev, vd):
    from . import c12_more
    print('C12: only the phases %s (C12_PHASES)' % sorted(phases))
    if 'mc' in phases:
        rjobs, info = tlc_phase(tier, seed, book, ev, with_sim='sim' in phases)
        with mp.Pool(tlc.NCPU) as pool:
            outs = pool.map(_dispatch, rjobs, chunksize=1)
        absorb_replay(rjobs, outs, info, ev, vd)
    if 'random' in phases:
        jobs, label = random_jobs(tier, seed, book)
        with mp.Pool(tlc.NCPU) as pool:
            by_event = absorb(pool.map(_dispatch, jobs, chunksize=1), ev, vd, label)
        if RANDOM_NEED - set(by_event) and not vd.violations:
            raise tlc.MachineryError('random histories: no accepted event of kind %s' % sorted(RANDOM_NEED - set(by_event)))
    if 'real' in phases:
        jobs, label = c12_more.jobs(tier, seed, book)
        with mp.Pool(min(tlc.NCPU, len(jobs))) as pool:
            outs = pool.map(_dispatch, jobs, chunksize=1)
        c12_more.finish(tier, [x for o in outs for x in o], label, ev, vd)


def replay(scenario):
    if 'path' in scenario:
        cfg = scenario.get('config', 'edit')
        init = scenario['init']
        mols = init['mols'] if isinstance(init, dict) else init
        st = {'mols': [dict(m, edges=[tuple(e) for e in m['edges']]) for m in mols], 'sys': (init.get('sys', ()) if isinstance(init, dict) else ())}
        for m in st['mols']:
            if 'bk' in m:
                m['bk'] = dict(m['bk'], log=[{'msg': e['msg'], 'ems': e['ems']} for e in m['bk']['log']])
        w = build_world(st, BLOCKS.get(cfg, frozenset()))
        types = list(st['mols'][0]['inter'].keys())
        for label in scenario['path']:
            name, a = parse_label(label)
            err = apply_action(w, name, a)
            pw = project_world(w, types, BLOCKS.get(cfg, frozenset()))
            print(label, '->', err, {i: common.jsonable(strip(c)) for i, c in pw['cells'].items()}, 'system', pw['sys'])
        print('expected difference:', scenario['diff'])
    elif 'real' in scenario:
        from . import c12_more
        return c12_more.replay(scenario)
    else:
        print('recorded history (validated by TLC); rejected event index', scenario.get('rejected_event_index'))
        h = scenario['history']
        for e in (h['calls_before'] if isinstance(h, dict) else h):
            print({k: v for k, v in e.items() if k not in ('post', 'sys', 'parts')})
        print(scenario.get('why'))
    return 0


# ---------------------------------------------------------------- selftest
def _tamper_cases(rng):
    """(label, history, event index that must be rejected) for every family of recorded events."""
    cases = []
    wanted = ['MergeAll', 'MergeChains', 'ToMol', 'MakeEdges', 'GraphCopy', 'Merge', 'Subgraph', 'RemoveNodesFrom', 'AddOrReplace', 'RemoveInter']
    tries = 0
    while wanted and tries < 400:
        tries += 1
        h = random_history(rng, 30)
        for i, e in enumerate(h):
            if e['ev'] in wanted and e['err'] == 'none' and i > 0:
                posts = dict((c, p) for c, p in e['post'])
                tgt = e['m'] if e['m'] else (e['sys'][0] if e['sys'] else 1)
                h2 = copy.deepcopy(h[:i + 1])
                p = dict((c, q) for c, q in h2[i]['post'])[tgt]
                if e['ev'] in ('MergeAll', 'Merge', 'ToMol', 'Subgraph', 'GraphCopy') and p['nodes']:
                    p['nodes'][-1]['resid'] += 1
                    what = 'residue number of the last atom changed in the log'
                elif e['ev'] == 'MergeChains' and e['sys'] and len(h[i - 1]['sys']) != len(e['sys']):
                    h2[i]['sys'] = h[i - 1]['sys']
                    what = 'molecule list of the system left as before in the log'
                elif e['ev'] == 'MakeEdges' and len(p['nodes']) >= 2 and len(p['edges']) < len(p['nodes']) * (len(p['nodes']) - 1) // 2:
                    ks = sorted(n['key'] for n in p['nodes'])
                    extra = next([a, b] for a in ks for b in ks if a < b and [a, b] not in p['edges'])
                    p['edges'] = sorted(p['edges'] + [extra])
                    what = 'one more bond in the log'
                elif e['ev'] == 'RemoveNodesFrom' and p['nodes']:
                    # a dangling interaction on the logged object: NoDangling on the real object must fail
                    p['inter']['bonds'].append({'atoms': [97, 98], 'ver': 0, 'tag': 'x', 'edge': True})
                    what = 'interaction between absent atoms in the log'
                elif e['ev'] in ('AddOrReplace', 'RemoveInter') and any(p['inter'][t] for t in TR_TYPES):
                    t = next(t for t in TR_TYPES if p['inter'][t])
                    p['inter'][t][0]['ver'] += 1
                    what = 'version of an interaction changed in the log'
                else:
                    continue
                cases.append(('%s: %s' % (e['ev'], what), h2, i + 1))
                wanted.remove(e['ev'])
                break
    return cases, wanted


def _patched_runs():
    """Replay of small exhaustive graphs against deliberately broken real classes: each must give a replay mismatch."""
    import vermouth.molecule as vm
    import vermouth.processors.merge_chains as mc
    out = []
    book = probe_bookkeeping()

    ev0 = common.Evidence(PID, 'quick', 0)
    jobs, info = tlc_phase('quick', 0, book, ev0, with_sim=False)         # the graphs once, replayed under every patch

    def run_cfgs():
        with mp.Pool(tlc.NCPU) as pool:                                   # forked after the patch: the workers see it
            outs = pool.map(_dispatch, jobs, chunksize=1)
        return [(b['config'], None, b['diff']) for o in outs for b in o[1]]

    orig_sub = vm.Molecule.subgraph

    def sharing_subgraph(self, nodes):
        sub = orig_sub(self, nodes)
        for t in list(sub.interactions):
            if len(sub.interactions[t]) == len(self.interactions.get(t, ())):
                sub.interactions[t] = self.interactions[t]
        return sub
    orig_to = vm.Block.to_molecule

    def shifted_to_molecule(self, atom_offset=0, **kw):
        return orig_to(self, atom_offset=0, **kw)
    orig_chains = mc.merge_chains

    def greedy_chains(system, chains, all_chains):
        orig_chains(system, chains, all_chains)
        if len(system.molecules) > 1:
            system.molecules = system.molecules[:-1]
    for label, target, attr, repl in (('subgraph shares its interaction lists with the source', vm.Molecule, 'subgraph', sharing_subgraph),
                                      ('to_molecule ignores atom_offset', vm.Block, 'to_molecule', shifted_to_molecule),
                                      ('MergeChains drops the last molecule of the system', mc, 'merge_chains', greedy_chains)):
        old = getattr(target, attr)
        setattr(target, attr, repl)
        try:
            v = run_cfgs()
        finally:
            setattr(target, attr, old)
        assert v, 'patched implementation not noticed: ' + label
        out.append('%s -> replay mismatches in %s, first: %s' % (label, sorted({x[0] for x in v}), v[0][2][:90]))
    _SHARED.clear()
    shutil.rmtree(info['work'], ignore_errors=True)
    return out


def selftest(seed):
    """(1) spec mutants: the cache exactly as the pinned commit had it must violate MergeConserves; one-shot removal without
    purge must violate NoDangling; the demanded bookkeeping is clean, the bookkeeping as found is not;
    (2) binding, code -> spec: for every family of recorded events a corrupted recording must be rejected at that event, and a
    corrupted bookkeeping field must be noted without rejecting;
    (3) binding, spec -> code: replaying the exhaustive graphs against deliberately broken classes must give mismatches."""
    book = probe_bookkeeping()
    cfgs = configs('quick', book)
    consts = dict(cfgs['edit'], CacheModel='"asShipped"', MaxDepth='3')
    res = tlc.run('MoleculeEdit', CFG_TEXT['edit'].replace('INVARIANT CacheSound\n', ''), consts=consts, timeout=900)
    assert res.violated, 'asShipped cache model should violate the property'
    print('selftest C12: asShipped cache model violates %s after %d steps' % (res.violated, len(res.error_trace) - 1))
    consts = dict(cfgs['edit'], OneShotPurges='FALSE')
    res = tlc.run('MoleculeEdit', CFG_TEXT['edit'], consts=consts, timeout=900)
    assert res.violated == 'NoDangling', res.violated
    print('selftest C12: one-shot removal without purge violates NoDangling')
    for name in cfgs:
        res = tlc.run('MoleculeEdit', CFG_TEXT[name] + 'INVARIANT BookClean\n', consts=dict(cfgs[name], **DEMANDED), timeout=900)
        assert not res.violated, (name, res.violated)
    print('selftest C12: the demanded bookkeeping (%s) respects every clause in all three configurations' % DEMANDED)
    if book != DEMANDED:
        res = tlc.run('MoleculeEdit', CFG_TEXT['edit'] + 'INVARIANT BookClean\n', consts=cfgs['edit'], timeout=900)
        assert res.violated == 'BookClean'
        print('selftest C12: the bookkeeping as found (%s) does not: %s after %d steps' % (book, sorted(res.error_trace[-1]['obs']), len(res.error_trace) - 1))
    rng = random.Random(seed)
    cases, missing = _tamper_cases(rng)
    assert not missing, 'no tamper case built for %s' % missing
    clean = random_history(rng, 25)
    noted = copy.deepcopy(clean)
    noted[10]['post'][0][1]['bk']['cit'].append('zz')
    hists = [c[1] for c in cases] + [clean, noted]
    _, _, verdicts, partial = judge_batch(hists, book)
    assert not partial
    for ti, (label, h, idx) in enumerate(cases, 1):
        reached, why, _ = verdicts[ti]
        assert reached == idx - 1 and why != 'ok', (label, reached, idx, why)
        print('selftest C12: tampered %-75s rejected at event %d: %s' % (label, idx, why[:60]))
    assert verdicts[len(cases) + 1][:2] == (len(clean), 'ok'), verdicts[len(cases) + 1][:2]
    r, why, seen = verdicts[len(cases) + 2]
    assert (r, why) == (len(noted), 'ok') and '11:differs:bk' in seen, (r, why, seen)
    print('selftest C12: untampered history accepted; a changed citation set is noted (11:differs:bk) without rejecting')
    for line in _patched_runs():
        print('selftest C12: broken class: ' + line)
    from . import c12_more
    c12_more.selftest(seed, book)
    return 0
