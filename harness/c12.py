"""C12 - editing a molecule keeps atoms, bonds and interactions consistent.

spec/MoleculeEdit.tla        heap of molecules, one action per editing call, NoDangling / UniqueKeys invariants,
                             MergeConserves / Frame action properties                          (MC + SIM)
spec/Trace_MoleculeEdit.tla  batch validation of histories recorded from the real class        (TRACE)

spec -> code: every transition of the MC state graph (dot dump with action labels) is replayed on real
vermouth Molecule objects along the BFS tree (objects are deep-copied at each tree node so internal caches follow
the history), and every simulated behaviour is replayed step by step; after each call the projection of every heap
cell and the error outcome must equal TLC's next state.
code -> spec: seeded random histories on real objects are logged (call, arguments, projection of the touched
cell, error) and validated by TLC step by step."""
import collections
import copy
import multiprocessing as mp
import os
import random
import re

from . import common, tlc, tlaval

PID = 'C12'

ATTR = '<<[resid |-> 1, cg |-> 1, tag |-> "p"], [resid |-> 2, cg |-> 3, tag |-> "q"]>>'
MOL_A = ('[nodes |-> <<[key |-> 0, resid |-> 1, cg |-> 1, tag |-> "p"], [key |-> 1, resid |-> 2, cg |-> 3, tag |-> "q"]>>, '
         'edges |-> {<<0,1>>}, inter |-> [t \\in Types |-> IF t = "bonds" THEN <<[atoms |-> <<0,1>>, ver |-> 0, tag |-> "s"]>> ELSE <<>>], maxnode |-> -1]')
MOL_B = '[nodes |-> <<[key |-> 4, resid |-> 1, cg |-> 2, tag |-> "q"]>>, edges |-> {}, inter |-> [t \\in Types |-> <<>>], maxnode |-> -1]'
MOL_C = ('[nodes |-> <<[key |-> 2, resid |-> 3, cg |-> 1, tag |-> "p"], [key |-> 0, resid |-> 1, cg |-> 2, tag |-> "q"]>>, '
         'edges |-> {<<0,2>>}, inter |-> [t \\in Types |-> IF t = "bonds" THEN <<[atoms |-> <<2,0>>, ver |-> 1, tag |-> "s"]>> ELSE <<>>], maxnode |-> -1]')

BASE = {'Id': '{1,2}', 'Types': '{"bonds"}', 'Key': '{0,1,2,3}', 'AttrChoice': ATTR,
        'InitMols': '{EmptyMol, %s, %s}' % (MOL_A, MOL_B),
        'AtomSeqs': '{<<0,1>>,<<1,2>>,<<1,0>>}', 'NodeSets': '{{1},{3},{2,3},{0,1}}',
        'MaxNodes': '5', 'MaxInter': '3', 'MaxResid': '7', 'MaxDepth': '2',
        'CacheModel': '"repaired"', 'OneShotPurges': 'TRUE'}

CFG = """SPECIFICATION Spec
CONSTRAINT Bounded
INVARIANT NoDangling
INVARIANT UniqueKeys
PROPERTY MergeConserves
PROPERTY Frame
"""

ATTRS = [{'resid': 1, 'cg': 1, 'tag': 'p'}, {'resid': 2, 'cg': 3, 'tag': 'q'}]
TYPES = ['bonds']


# ---------------------------------------------------------------- real objects
def new_molecule():
    from vermouth.molecule import Molecule
    return Molecule()


def build_from_state(st_mol):
    """Real molecule for an initial model state (bulk constructors only: no cached state)."""
    m = new_molecule()
    m.add_nodes_from((n['key'], {'resid': n['resid'], 'charge_group': n['cg'], 'atomname': n['tag']})
                     for n in st_mol['nodes'])
    m.add_edges_from(st_mol['edges'])
    from vermouth.molecule import Interaction
    for ty, lst in st_mol['inter'].items():
        for it in lst:
            m.interactions[ty].append(Interaction(atoms=tuple(it['atoms']), parameters=[it['tag']],
                                                  meta=({'version': it['ver']} if it['ver'] else {})))
    return m


def project(m, types=None):
    nodes = tuple({'key': k, 'resid': d.get('resid'), 'cg': d.get('charge_group'), 'tag': d.get('atomname')}
                  for k, d in m.nodes(data=True))
    edges = frozenset((min(a, b), max(a, b)) for a, b in m.edges)
    inter = {}
    for ty in (types or TYPES):
        inter[ty] = tuple({'atoms': tuple(i.atoms), 'ver': i.meta.get('version', 0), 'tag': i.parameters[0]}
                          for i in m.interactions.get(ty, []))
    extra = set(m.interactions) - set(types or TYPES)
    if any(m.interactions[t] for t in extra):
        inter['_extra'] = sorted(extra)
    return {'nodes': nodes, 'edges': edges, 'inter': inter}


def same_mol(model, real):
    return (tuple(dict(n) for n in model['nodes']) == real['nodes'] and frozenset(model['edges']) == real['edges']
            and {k: tuple(dict(i) for i in v) for k, v in model['inter'].items()} == real['inter'])


def attr_kwargs(a):
    return {'resid': a['resid'], 'charge_group': a['cg'], 'atomname': a['tag']}


def apply_action(heap, name, args):
    """Apply one model action to the real heap (dict id -> Molecule). Returns the error outcome name."""
    import networkx as nx
    try:
        if name == 'AddNode':
            m, k, ai = args
            heap[m].add_node(k, **attr_kwargs(ATTRS[ai - 1]))
        elif name == 'AddNodesFrom':
            m, ks, ai = args
            heap[m].add_nodes_from(sorted(ks), **attr_kwargs(ATTRS[ai - 1]))
        elif name == 'SetResid':
            m, k, r = args
            if k not in heap[m]:
                return 'disabled'
            heap[m].nodes[k]['resid'] = r
        elif name == 'RemoveNode':
            m, k = args
            heap[m].remove_node(k)
        elif name == 'RemoveNodesFrom':
            m, ks, one_shot = args
            ks = sorted(ks)
            heap[m].remove_nodes_from((k for k in ks) if one_shot else ks)
        elif name == 'AddEdge':
            m, a, b = args
            heap[m].add_edge(a, b)
        elif name == 'AddInter':
            m, ty, at, v, t = args
            heap[m].add_interaction(ty, tuple(at), [t], meta=({'version': v} if v else {}))
        elif name == 'AddOrReplace':
            m, ty, at, v, t = args
            heap[m].add_or_replace_interaction(ty, tuple(at), [t], meta=({'version': v} if v else {}))
        elif name == 'RemoveInter':
            m, ty, at, v = args
            heap[m].remove_interaction(ty, tuple(at), version=v)
        elif name == 'Copy':
            s, d = args
            heap[d] = heap[s].copy()
        elif name == 'Subgraph':
            s, ks, d = args
            heap[d] = heap[s].subgraph(sorted(ks))
        elif name == 'Merge':
            m, n = args
            heap[m].merge_molecule(heap[n])
        else:
            raise ValueError('unknown action ' + name)
    except KeyError:
        return 'KeyError'
    except nx.NetworkXError:
        return 'NetworkXError'
    except Exception as exc:     # any other exception is an outcome the model never has
        return 'Exception:%s' % type(exc).__name__
    return 'none'


def parse_label(label):
    m = re.match(r'(\w+)\((.*)\)$', label, re.S)
    if not m:
        return label, ()
    return m.group(1), tlaval.parse('<<' + m.group(2) + '>>')


def compare(state, heap, err):
    """-> None or description of the first difference between TLC's state and the real heap."""
    if state['err'] != err:
        return 'error outcome: model %r, implementation %r' % (state['err'], err)
    for idx, mm in enumerate(state['mols'], 1):
        real = project(heap[idx], list(mm['inter'].keys()))
        if not same_mol(mm, real):
            return 'cell %d: model %r, implementation %r' % (idx, common.jsonable(strip(mm)), common.jsonable(real))
    return None


def strip(mm):
    return {k: v for k, v in mm.items() if k != 'maxnode'}


# ---------------------------------------------------------------- dot graph replay
_EDGE = re.compile(r'^(-?\d+) -> (-?\d+) \[label="(.*?)",color', re.M)
_NODE = re.compile(r'^(-?\d+) \[label="(.*?)"(?:,style|,tooltip)', re.M)


def load_dot(path):
    with open(path) as fh:
        txt = fh.read()
    nodes = {}
    for m in _NODE.finditer(txt):
        body = m.group(2).replace('\\n', '\n').replace('\\"', '"').replace('\\\\', '\\')
        nodes[m.group(1)] = body
    edges = collections.defaultdict(list)
    seen = set()
    for m in _EDGE.finditer(txt):
        key = (m.group(1), m.group(2), m.group(3))
        if key in seen:      # a guard written as a disjunction makes TLC list the same transition twice
            continue
        seen.add(key)
        edges[m.group(1)].append((m.group(2), m.group(3).replace('\\"', '"')))
    return nodes, edges, len(seen)


def _replay_tree(args):
    """Replay all transitions reachable from one initial state (DFS over the BFS tree)."""
    root, nodes_txt, edges, parent_edge = args
    parsed = {}

    def state(fp):
        if fp not in parsed:
            parsed[fp] = tlaval.parse_state_body(nodes_txt[fp])
        return parsed[fp]

    st0 = state(root)
    heap0 = {i: build_from_state(mm) for i, mm in enumerate(st0['mols'], 1)}
    bad, count, acts = [], 0, collections.Counter()
    stack = [(root, heap0, [])]
    while stack:
        fp, heap, path = stack.pop()
        for tgt, label in edges.get(fp, ()):
            if tgt not in nodes_txt:
                continue
            name, a = parse_label(label)
            h2 = copy.deepcopy(heap)
            err = apply_action(h2, name, a)
            count += 1
            acts[name] += 1
            diff = compare(state(tgt), h2, err)
            if diff:
                if len(bad) < 5:
                    bad.append({'init': common.jsonable([strip(m) for m in st0['mols']]), 'path': path + [label], 'diff': diff})
                continue
            if parent_edge.get(tgt) == (fp, label):
                stack.append((tgt, h2, path + [label]))
    return count, bad, dict(acts)


def replay_graph(dot_path, ev, vd):
    nodes_txt, edges, nedges = load_dot(dot_path)
    roots = [fp for fp, body in nodes_txt.items() if re.search(r'steps = 0\b', body)]
    # BFS tree
    parent_edge, owner = {}, {}
    frontier = list(roots)
    for r in roots:
        owner[r] = r
    while frontier:
        nxt = []
        for fp in frontier:
            for tgt, label in edges.get(fp, ()):
                if tgt in nodes_txt and tgt not in owner:
                    owner[tgt] = owner[fp]
                    parent_edge[tgt] = (fp, label)
                    nxt.append(tgt)
        frontier = nxt
    jobs = []
    for r in roots:
        mine = {fp for fp, o in owner.items() if o == r}
        jobs.append((r, {fp: nodes_txt[fp] for fp in nodes_txt}, edges, parent_edge))
    # each job needs all node texts (targets may belong to other trees); share through fork
    global _SHARED
    _SHARED = (nodes_txt, edges, parent_edge)
    with mp.Pool(min(tlc.NCPU, len(roots))) as pool:
        results = pool.map(_replay_tree_shared, roots)
    total, acts = 0, collections.Counter()
    for count, bad, a in results:
        total += count
        acts.update(a)
        for b in bad:
            vd.violation('replay-mismatch', b, b['diff'])
    # all transitions out of tree nodes are covered; transitions count check
    ev.traces += total
    ev.evaluations += total
    ev.extra.setdefault('replayed_transitions_by_action', {}).update(dict(acts))
    return total, nedges, acts


_SHARED = None


def _replay_tree_shared(root):
    nodes_txt, edges, parent_edge = _SHARED
    return _replay_tree((root, nodes_txt, edges, parent_edge))


# ---------------------------------------------------------------- simulation replay
def _replay_behaviours(files):
    bad, steps, n = [], 0, 0
    seen = set()
    for f in files:
        beh = tlaval.parse_simulate_file(f)
        if not beh:
            continue
        st0 = beh[0][2]
        heap = {i: build_from_state(mm) for i, mm in enumerate(st0['mols'], 1)}
        path = []
        n += 1
        for act, a, st in beh[1:]:
            args = tlaval.parse('<<' + (a or '') + '>>')
            err = apply_action(heap, act, args)
            path.append('%s(%s)' % (act, a))
            steps += 1
            diff = compare(st, heap, err)
            if diff:
                bad.append({'init': common.jsonable([strip(m) for m in st0['mols']]), 'path': path, 'diff': diff})
                break
        seen.add(tuple(path))
    return n, steps, bad, len([p for p in seen if len(p) >= 2])


# ---------------------------------------------------------------- random traces (code -> spec)
TR_TYPES = ['bonds', 'angles']


def random_history(rng, nops):
    """Run a random editing history on real molecules; return the event list."""
    heap = {1: new_molecule(), 2: new_molecule(), 3: new_molecule()}
    keys = list(range(0, 14)) + [20, 31]
    events = []
    tagc = [0]

    def post(ids):
        return [[i, proj_json(heap[i])] for i in ids]

    for _ in range(nops):
        m = rng.choice([1, 1, 2, 3])
        present = list(heap[m].nodes)
        op = rng.choice(['AddNode', 'AddNode', 'AddNodesFrom', 'SetResid', 'RemoveNode', 'RemoveNodesFrom', 'AddEdge',
                         'AddInter', 'AddInter', 'AddOrReplace', 'RemoveInter', 'Copy', 'Subgraph', 'Merge', 'Merge',
                         'MergeAll', 'MergeChains', 'ToMolecule'])
        a = {'resid': rng.randint(1, 9), 'cg': rng.randint(1, 9), 'tag': rng.choice('pqr')}
        ev = {'ev': op, 'm': m}
        touched = [m]
        err = 'none'
        import networkx as nx
        try:
            if op == 'AddNode':
                k = rng.choice(keys) if rng.random() < 0.7 or not present else max(present) + 1
                ev.update(k=k, a=a)
                heap[m].add_node(k, **attr_kwargs(a))
            elif op == 'AddNodesFrom':
                base = (max(present) + 1) if present and rng.random() < 0.6 else rng.choice(keys)
                ks = sorted({base, base + rng.randint(0, 2)})
                ev.update(ks=ks, a=a)
                heap[m].add_nodes_from(ks, **attr_kwargs(a))
            elif op == 'SetResid':
                if not present:
                    continue
                k = rng.choice(present)
                r = rng.randint(1, 9)
                ev.update(k=k, r=r)
                heap[m].nodes[k]['resid'] = r
            elif op == 'RemoveNode':
                k = rng.choice(present) if present and rng.random() < 0.9 else rng.choice(keys)
                if present and rng.random() < 0.3:
                    k = max(present)
                ev.update(k=k)
                heap[m].remove_node(k)
            elif op == 'RemoveNodesFrom':
                ks = sorted(set(rng.sample(present, min(len(present), rng.randint(1, 2))) + [rng.choice(keys)]))
                one = rng.random() < 0.5
                ev.update(ks=ks, oneShot=one)
                heap[m].remove_nodes_from((k for k in ks) if one else ks)
            elif op == 'AddEdge':
                if len(present) < 2:
                    continue
                x, y = rng.sample(present, 2)
                ev.update(a=min(x, y), b=max(x, y))
                heap[m].add_edge(x, y)
            elif op in ('AddInter', 'AddOrReplace', 'RemoveInter'):
                ty = rng.choice(TR_TYPES)
                n = 2 if ty == 'bonds' else 3
                pool = present if present and rng.random() < 0.9 else keys
                if op != 'AddInter' and heap[m].interactions.get(ty) and rng.random() < 0.7:
                    at = list(rng.choice(heap[m].interactions[ty]).atoms)
                else:
                    at = [rng.choice(pool) for _ in range(n)]
                v = rng.choice([0, 0, 1])
                tagc[0] += 1
                t = 'x%d' % (tagc[0] % 5)
                ev.update(ty=ty, at=at, v=v, t=t)
                if op == 'AddInter':
                    heap[m].add_interaction(ty, tuple(at), [t], meta=({'version': v} if v else {}))
                elif op == 'AddOrReplace':
                    heap[m].add_or_replace_interaction(ty, tuple(at), [t], meta=({'version': v} if v else {}))
                else:
                    heap[m].remove_interaction(ty, tuple(at), version=v)
            elif op == 'Copy':
                d = rng.choice([i for i in heap if i != m])
                ev.update(m=d, src=m)
                touched = [d, m]
                heap[d] = heap[m].copy()
            elif op == 'Subgraph':
                d = rng.choice([i for i in heap if i != m])
                ks = rng.sample(present, rng.randint(0, len(present))) if present else []
                if ks and rng.random() < 0.4:          # the same key listed more than once
                    for _ in range(rng.randint(1, 2)):
                        ks.insert(rng.randrange(len(ks) + 1), rng.choice(ks))
                ev.update(m=d, src=m, ks=ks)
                touched = [d, m]
                heap[d] = heap[m].subgraph(ks)
            elif op == 'MergeAll':
                # vermouth.processors.MergeAllMolecules on a system holding the three molecules in a random order
                from vermouth.system import System
                from vermouth.processors.merge_all_molecules import MergeAllMolecules
                order = rng.sample(sorted(heap), 3)
                if sum(len(heap[i]) for i in order) > 16:
                    continue
                system = System()
                system.molecules = [heap[i] for i in order]
                ev.update(m=order[0], ks=order)
                touched = order
                MergeAllMolecules().run_system(system)
                assert system.molecules == [heap[order[0]]] or len(system.molecules) == 1
            elif op == 'MergeChains':
                # vermouth.processors.MergeChains: the molecules whose chains are all selected are merged into a NEW molecule
                from vermouth.system import System
                from vermouth.processors.merge_chains import MergeChains
                order = rng.sample(sorted(heap), 3)
                if sum(len(heap[i]) for i in order) > 16:
                    continue
                chains = rng.sample(['p', 'q', 'r'], rng.randint(1, 3))
                for i in order:       # the chain of an atom is its tag in this driver
                    for _, d in heap[i].nodes(data=True):
                        d['chain'] = d.get('atomname')
                system = System()
                system.molecules = [heap[i] for i in order]
                before = {id(heap[i]): i for i in order}
                MergeChains(chains=chains).run_system(system)
                new = [x for x in system.molecules if id(x) not in before]
                d = order[-1] if not new else None
                ev.update(m=m, ks=order, at=chains)
                if new:
                    # the merged molecule replaces the heap cell of the first merged molecule only in our bookkeeping: the
                    # originals are untouched objects, so store the new object in a cell and let TLC compare all cells
                    tgt = rng.choice(sorted(heap))
                    heap[tgt] = new[0]
                    ev['m'] = tgt
                else:
                    continue
            elif op == 'ToMolecule':
                # Block.to_molecule of a block holding the content of cell m (string keys in node order)
                from vermouth.molecule import Block, Interaction
                src = m
                if not present:
                    continue
                blk = Block()
                names = {k: 'n%d' % j for j, k in enumerate(heap[src].nodes)}
                for k, dd in heap[src].nodes(data=True):
                    blk.add_node(names[k], atomname=dd.get('atomname'), resid=dd.get('resid'), charge_group=dd.get('charge_group'))
                blk.add_edges_from((names[x], names[y]) for x, y in heap[src].edges)
                for ty, lst in heap[src].interactions.items():
                    for it in lst:
                        blk.interactions[ty].append(Interaction(atoms=tuple(names[x] for x in it.atoms), parameters=list(it.parameters), meta=dict(it.meta)))
                off, dres, dcg = rng.choice([0, 1, 7]), rng.choice([0, 2]), rng.choice([0, 3])
                dst = rng.choice([i for i in heap if i != src])
                ev.update(m=dst, src=src, k=off, r=dres, v=dcg)
                touched = [dst, src]
                newmol = blk.to_molecule(atom_offset=off, offset_resid=dres, offset_charge_group=dcg,
                                         default_attributes={})
                heap[dst] = newmol
            elif op == 'Merge':
                n = rng.choice([i for i in heap if i != m])
                if len(heap[m]) + len(heap[n]) > 16:
                    continue
                ev.update(n=n)
                touched = [m, n]
                heap[m].merge_molecule(heap[n])
        except KeyError:
            err = 'KeyError'
        except nx.NetworkXError:
            err = 'NetworkXError'
        except Exception as exc:
            err = 'Exception:%s' % type(exc).__name__
        ev['err'] = err
        ev['post'] = post(sorted(set(heap)))
        events.append(ev)
    return events


def proj_json(m):
    p = project(m, TR_TYPES)
    return {'nodes': [dict(n) for n in p['nodes']], 'edges': sorted([list(e) for e in p['edges']]),
            'inter': {t: [{'atoms': list(i['atoms']), 'ver': i['ver'], 'tag': i['tag']} for i in p['inter'][t]]
                      for t in TR_TYPES}, 'extra': '_extra' in p['inter']}


def _hist_chunk(args):
    n, nops, seed = args
    rng = random.Random(seed)
    return [random_history(rng, nops) for _ in range(n)]


FILL = {'k': -1, 'a': {'resid': 0, 'cg': 0, 'tag': ''}, 'ks': [], 'r': 0, 'oneShot': False, 'b': -1, 'ty': '', 'at': [],
        'v': 0, 't': '', 'src': -1, 'n': -1}


def normalise_event(e):
    """TLC records need uniform field access: give every event every field."""
    out = dict(e)
    if e['ev'] == 'AddEdge':
        out['k'] = e['a']
        out['a'] = FILL['a']
    for k, v in FILL.items():
        out.setdefault(k, v)
    return out


def validate_traces(hists, ev, vd, label):
    shards = common.chunks(hists, tlc.NCPU)
    jobs = []
    for si, shard in enumerate(shards):
        jobs.append((si, [[normalise_event(e) for e in h] for h in shard]))
    with mp.Pool(len(jobs)) as pool:
        results = pool.map(_validate_shard, jobs)
    k = 0
    for (si, shard), (res_states, res_gen, verdicts) in zip(jobs, results):
        ev.states += res_states
        ev.transitions += res_gen
        for ti, h in enumerate(shard, 1):
            reached, why = verdicts.get(ti, (0, 'no-verdict'))
            ev.traces += 1
            ev.evaluations += 1
            if len(h) >= 2:
                ev.nontrivial_case([[e['ev'], e.get('m'), e.get('k'), e.get('ks'), e.get('at')] for e in h])
            if reached != len(h) or why != 'ok':
                vd.violation('trace-rejected', {'history': h[:reached + 1], 'rejected_event_index': reached + 1},
                             'event %d (%s) rejected: %s' % (reached + 1, h[reached]['ev'] if reached < len(h) else '-', why))
            k += 1
    ev.tlc_runs.append({'run': 'TRACE Trace_MoleculeEdit %s' % label, 'traces': len(hists),
                        'events': sum(len(h) for h in hists)})


def _validate_shard(job):
    si, shard = job
    work = tlc.scratch('c12t_')
    tf = tlc.write_json(work, 'trace.json', shard)
    res = tlc.run('Trace_MoleculeEdit', 'SPECIFICATION TraceSpec\nINVARIANT TraceNoDangling\nINVARIANT TraceUniqueKeys\n',
                  consts={'Types': '{"bonds","angles"}'}, dump=True, env={'TRACE_FILE': tf}, workdir=work, workers=1, timeout=1800)
    if res.violated:
        # an invariant of the property failed on a state of the real execution: report the trace id
        last = res.error_trace[-1] if res.error_trace else {}
        return res.distinct, res.generated, {last.get('tid', 0): (max(0, last.get('l', 1) - 2), 'invariant ' + res.violated),
                                             '_partial': True}
    verdicts = {}
    for st in res.states():
        tid = st['tid']
        reached = st['l'] - 1
        cur = verdicts.get(tid)
        if st['why'] != 'ok':
            verdicts[tid] = (reached, st['why'])
        elif cur is None or (cur[1] == 'ok' and reached > cur[0]):
            verdicts[tid] = (reached, 'ok')
    return res.distinct, res.generated, verdicts


# ---------------------------------------------------------------- driver
def run(tier, seed, ev, vd):
    ev.rule = ('MC: every transition of the MoleculeEdit state graph; SIM: random behaviours of the same spec; TRACE: seeded '
               'random histories of 25-60 calls on real molecules over 16 keys / 3 heap cells / 2 interaction types. '
               'Non-trivial = history with >= 2 calls; distinct by the sequence of (call, arguments).')
    ev.assumptions = ['TLC evaluates the specification correctly',
                      'merging a molecule into itself, non-integer keys and operands with different force field / nrexcl '
                      'are not generated', 'citations, log entries and nested mutable attribute values are not part of the state']
    consts = dict(BASE)
    if tier == 'thorough':
        consts.update({'MaxDepth': '3', 'InitMols': '{EmptyMol, %s, %s, %s}' % (MOL_A, MOL_B, MOL_C)})
    work = tlc.scratch('c12_')
    dot = os.path.join(work, 'graph.dot')
    res = tlc.run('MoleculeEdit', CFG, consts=consts, workdir=work, extra=['-dump', 'dot,actionlabels', dot], timeout=3000)
    if res.violated:
        raise tlc.MachineryError('MoleculeEdit (repaired design) violates %s: the specification is wrong' % res.violated)
    ev.add_tlc('MC MoleculeEdit depth %s' % consts['MaxDepth'], res)
    ev.exhaustive = True
    total, nedges, acts = replay_graph(dot, ev, vd)
    need = {'AddNode', 'AddNodesFrom', 'SetResid', 'RemoveNode', 'RemoveNodesFrom', 'AddEdge', 'AddInter', 'AddOrReplace',
            'RemoveInter', 'Copy', 'Subgraph', 'Merge'}
    if need - set(acts):
        raise tlc.MachineryError('vacuous model: actions never taken: %s' % sorted(need - set(acts)))
    if total != nedges:
        raise tlc.MachineryError('replayed %d of %d transitions' % (total, nedges))
    os.remove(dot)

    # simulation: deeper behaviours of the same spec
    sim_consts = dict(consts)
    sim_consts.update({'MaxDepth': '12', 'Key': '{0,1,2,3,4,5,6}', 'MaxNodes': '8', 'MaxInter': '5', 'MaxResid': '30',
                       'NodeSets': '{{1},{3},{2,3},{0,1},{4,5},{5,6},{6}}',
                       'AtomSeqs': '{<<0,1>>,<<1,2>>,<<1,0>>,<<2,3>>,<<3,4>>,<<4,5>>}'})
    nsim = 300 if tier == 'quick' else 6000
    w2 = tlc.scratch('c12s_')
    sres = tlc.run('MoleculeEdit', CFG, consts=sim_consts, workdir=w2, workers=tlc.NCPU, seed=seed + 1,
                   simulate={'num': max(1, nsim // tlc.NCPU), 'file': True}, depth=13, timeout=3000)
    if sres.violated:
        raise tlc.MachineryError('MoleculeEdit simulation violates %s' % sres.violated)
    files = tlc.sim_files(sres)
    with mp.Pool(tlc.NCPU) as pool:
        outs = pool.map(_replay_behaviours, common.chunks(files, tlc.NCPU))
    nb = sum(o[0] for o in outs)
    ns = sum(o[1] for o in outs)
    ev.traces += nb
    ev.evaluations += nb
    ev.transitions += ns
    ev.tlc_runs.append({'run': 'SIM MoleculeEdit depth 12', 'behaviours': nb, 'steps': ns})
    for o in outs:
        for b in o[2]:
            vd.violation('simulated-behaviour-mismatch', b, b['diff'])
    if files:
        beh = tlaval.parse_simulate_file(files[0])
        ev.sample({'kind': 'simulated behaviour replayed on real Molecule objects',
                   'calls': ['%s(%s)' % (a, b) for a, b, _ in beh[1:]]})

    # code -> spec traces
    ntr = 320 if tier == 'quick' else 8000
    with mp.Pool(tlc.NCPU) as pool:
        parts = pool.map(_hist_chunk, [(ntr // tlc.NCPU, 40, seed * 104729 + i) for i in range(tlc.NCPU)])
    hists = [h for p in parts for h in p]
    validate_traces(hists, ev, vd, '%d histories x 40 calls' % len(hists))
    ev.sample({'kind': 'recorded history validated by TLC', 'calls': [
        {k: v for k, v in e.items() if k != 'post'} for e in hists[0][:8]]})
    for h in hists[:50]:
        pass


def replay(scenario):
    if 'path' in scenario:
        init = scenario['init']
        heap = {i: build_from_state({'nodes': m['nodes'], 'edges': [tuple(e) for e in m['edges']], 'inter': m['inter']})
                for i, m in enumerate(init, 1)}
        for label in scenario['path']:
            name, a = parse_label(label)
            err = apply_action(heap, name, a)
            print(label, '->', err, {i: common.jsonable(project(heap[i])) for i in heap})
        print('expected difference:', scenario['diff'])
    else:
        print('recorded history (validated by TLC); rejected event index', scenario.get('rejected_event_index'))
        for e in scenario['history']:
            print({k: v for k, v in e.items() if k != 'post'})
    return 0


def selftest(seed):
    """(1) spec mutant: the cache exactly as the pinned commit had it must violate MergeConserves / NoDangling;
    (2) binding: a corrupted recorded event must be rejected at that index."""
    consts = dict(BASE)
    consts.update({'CacheModel': '"asShipped"', 'MaxDepth': '3', 'OneShotPurges': 'TRUE'})
    res = tlc.run('MoleculeEdit', CFG, consts=consts, timeout=900)
    assert res.violated, 'asShipped cache model should violate the property'
    print('selftest C12: asShipped cache model violates %s after %d steps' % (res.violated, len(res.error_trace) - 1))
    consts.update({'CacheModel': '"repaired"', 'OneShotPurges': 'FALSE', 'MaxDepth': '2'})
    res = tlc.run('MoleculeEdit', CFG, consts=consts, timeout=900)
    assert res.violated == 'NoDangling', res.violated
    print('selftest C12: one-shot removal without purge violates NoDangling')
    rng = random.Random(seed)
    hists = [random_history(rng, 12) for _ in range(6)]
    ev = common.Evidence(PID, 'quick', seed)
    vd = common.Verdicts(PID, ev)
    hists[3][5]['post'][0][1]['nodes'].append({'key': 99, 'resid': 1, 'cg': 1, 'tag': 'p'})
    hists[4] = hists[4][:4] + hists[4][5:]          # drop one event
    validate_traces(hists, ev, vd, 'selftest')
    got = sorted((d.split(' ')[1], d) for k, p, d in vd.violations)
    assert len(vd.violations) >= 1 and any('event 6' in d for k, p, d in vd.violations), vd.violations
    print('selftest C12: corrupted / truncated traces rejected:', [d[:60] for k, p, d in vd.violations])
    for k, p, d in vd.violations:
        try:
            os.remove(p)
        except OSError:
            pass
    return 0
