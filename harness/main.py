"""Entry point of ./check: dispatches to harness/cXX.py, writes the evidence, prints the contract lines.
Exit 0 = held on everything explored; 1 = violation (VIOLATION line printed); 2 = machinery failure."""
import argparse
import importlib
import json
import os
import sys
import traceback

from . import common, tlc


def _watchdog(pid, tier):
    """A check must never hang: a pool worker killed by the kernel (out of memory) makes multiprocessing wait for ever.
    After the limit the run is a machinery failure (exit 2), never a verdict.  SIGALRM in the main process (no thread: the
    drivers fork worker pools); forked children do not inherit the alarm."""
    import signal
    limit = int(float(os.environ.get('VERIF_WATCHDOG_S', 2700 if tier == 'quick' else 4 * 3600)))
    main_pid = os.getpid()

    def fire(signum, frame):
        if os.getpid() != main_pid:
            return
        print('MACHINERY-FAILURE property=%s no result after %d s (a worker process may have been killed); giving up' % (pid, limit),
              file=sys.stderr)
        sys.stderr.flush()
        try:
            import multiprocessing
            for child in multiprocessing.active_children():
                child.kill()
        except Exception:       # noqa
            pass
        try:
            import shutil
            if os.environ.get('TMPDIR', '').startswith('/tmp/verif_'):
                shutil.rmtree(os.environ['TMPDIR'], ignore_errors=True)
        except Exception:       # noqa
            pass
        os._exit(2)
    signal.signal(signal.SIGALRM, fire)
    signal.alarm(limit)


def main():
    ap = argparse.ArgumentParser()
    ap.add_argument('pid')
    ap.add_argument('--tier', default=os.environ.get('VERIF_TIER', 'quick'), choices=['quick', 'thorough'])
    ap.add_argument('--replay')
    ap.add_argument('--selftest', action='store_true')
    args = ap.parse_args()
    seed = int(os.environ.get('VERIF_SEED', '0') or 0)
    pid = args.pid.upper()
    mod = importlib.import_module('harness.' + pid.lower())
    if args.replay:
        with open(args.replay) as fh:
            doc = json.load(fh)
        return mod.replay(doc.get('scenario', doc))
    if args.selftest:
        return mod.selftest(seed)
    import glob
    for old in glob.glob(os.path.join(common.REPLAY_DIR, pid + '_*.json')):      # replays of earlier runs of this check
        try:
            os.remove(old)
        except FileNotFoundError:     # another run of the same check removed it first
            pass
    _watchdog(pid, args.tier)
    # every scratch directory of this run (this process, pool workers, forked command-line runs) is created under one root,
    # which is removed when the run ends: pool workers leave through os._exit and never run their own clean-up
    import tempfile
    import shutil
    import atexit
    run_root = tempfile.mkdtemp(prefix='verif_%s_' % pid.lower())
    os.environ['TMPDIR'] = run_root
    tempfile.tempdir = run_root
    atexit.register(shutil.rmtree, run_root, True)
    level = getattr(mod, 'LEVEL', 'model_checking')
    ev = common.Evidence(pid, args.tier, seed, level)
    vd = common.Verdicts(pid, ev, getattr(mod, 'SIGNATURES', None))
    try:
        mod.run(args.tier, seed, ev, vd)
    except tlc.MachineryError as exc:
        print('MACHINERY-FAILURE property=%s %s' % (pid, exc), file=sys.stderr)
        return 2
    except Exception:
        traceback.print_exc()
        print('MACHINERY-FAILURE property=%s (exception in harness)' % pid, file=sys.stderr)
        return 2
    rc = vd.finish()
    ev.write()
    print('%s %s: states=%d transitions=%d validated=%d nontrivial=%d violations=%d known=%d wall=%.1fs' % (
        pid, args.tier, ev.states, ev.transitions, ev.traces, len(ev.nontrivial), ev.violations, ev.known,
        __import__('time').time() - ev.t0))
    return rc


if __name__ == '__main__':
    sys.exit(main())
