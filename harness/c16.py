"""C16 - structure files round-trip: what is written is read back.

spec/FixedColOps.tla     column tables (PDB ATOM/TER/CONECT, GRO atom line), Render / Read, serial numbering, TER split
spec/FixedCol.tla        TAB model over boundary cases, operational = declarative, round-trip laws          (TAB)
spec/Trace_FixedCol.tla  TLC judges files written and read back by the real code, line by line              (TRACE)

Extension (GRO column widths, files vermouth did not write):
  * `GroAtomWPV(w, vel)`: coordinate fields of width w = write_gro precision + 1 from column 21, velocities of the same width
    with four decimals after them; TAB 'grow' cases for widths 8, 9, 10, 12 x velocities (values at both ends of the range
    of each width, the first values that do not fit the next narrower width); `GroWidthLaws` (the text shows its width and
    whether it has velocities; a full record is read alike by NO other width), `Width8IsTheOldTable`, `BoundariesCovered`.
    Every grow case sits in a real file of its width; the files are read in SEQUENCES inside one process (four different
    widths one after the other, the first once more; random sequences over widths 7..13), every read judged by TLC.
  * 'fpdb' / 'fgro' events: PDB / GRO text as other programs write it (HETATM, ANISOU / REMARK / CRYST1 / SEQRES ...,
    four-column atom names, right-aligned two-letter elements, blank chain, negative residue numbers, insertion codes,
    alternate locations, charge column, short lines, MODEL / ENDMDL with modelidx, no END, bare TER, CONECT continuation
    lines in both directions with unseparated five-wide serials; GRO: free-form title / count line, 3 or 9 box numbers,
    numbers wrapping at 100000, velocities, widths 8-10) is read by the real readers; TLC reads the TEXT with the column
    tables (`FPdbView`: kept lines, division by TER / END / ENDMDL, `FPdbBonds`) and compares atoms, order, molecules and
    bonds; what was read is written, read again (judged like any written system) and written once more (fixed point).
  CIF (vermouth/pdb/cif.py, CIFInput) is NOT bound: the statement is about writing PDB / GRO and reading it back, there is
  no CIF writer and the anchors do not name the CIF reader.

spec -> code: every atom case of the TAB model (attribute values at and beyond the column widths) is placed on an
atom of a real vermouth System, every sys case (hub atom next to a serial-number boundary with 0..6 bonds) becomes
bonds of that System; the System is written by the real writer (write_pdb_string / write_pdb / write_gro), read by the
real reader (read_pdb / PDBInput / read_gro / GROInput) and the values read back must equal TLC's `out`.
code -> spec: the text of every written file (all lines: ATOM, TER, CONECT, END / GRO lines) together with the values
read back goes to TLC, which slices the text with the column tables of the spec and decides; this includes the filler
atoms (random values), systems of 10^4 / 10^5 atoms and the PDB structures shipped with vermouth.

Python only: builds Systems, splits text into lines, converts floats to integer thousandths (tolerance stated in
`to_thousandths`), and checks the decimal rounding itself (|x - read| <= 0.5e-3 format units, DESIGN.md limit)."""
import glob
import logging
import multiprocessing as mp
import os
import random
import re
import shutil
import string

from . import common, tlc
from .common import REPO

PID = 'C16'
SCALE = {'pdb': 10000, 'gro': 1000}      # nm -> thousandths of the format unit (Angstrom / nm)
BADV = -999999999
CHUNK = 1000
LETTERS = string.ascii_uppercase

TAB_CFG = ("SPECIFICATION Spec\nINVARIANT OtherFieldsUnaffected\nINVARIANT RoundTripWithinWidth\nINVARIANT OpIsDecl\n"
           "INVARIANT TruncationKeepsTheDocumentedEnd\nINVARIANT ConectExactUpTo99999\nINVARIANT TerSplitsMolecules\n"
           "INVARIANT PartnersInSameMolecule\nINVARIANT Width8IsTheOldTable\nINVARIANT GroWidthLaws\nINVARIANT BoundariesCovered\n")

Q_SHAPES = [[10005], [9999, 6], [9998, 3, 6], [4000, 5998, 7]]
T_SHAPES = Q_SHAPES + [[5000] * 19 + [4980],            # last atom has serial 99999, its TER 100000
                       [5000] * 19 + [4981],            # last atom has serial 100000: beyond five digits
                       [9999] + [5000] * 17 + [4970, 3],  # TER at 10000, 20 molecules, last serial 99991
                       [30000]]
GRO_SHAPES = {'quick': [[10005], [1200, 800]], 'thorough': [[100003], [50000, 49999], [10005], [1200, 800], [3, 99996]]}


def tla_set(vals):
    return tlc.tlaval.to_tla(set(vals))


WIDTHS = (8, 9, 10, 12)
# per coordinate width: values (integer thousandths; the same integers serve as ten-thousandths for velocities) that fit
# the width - both ends of the range, the first values that do NOT fit the next narrower width, and ordinary ones
COORDS_P = {8: [-999999, -100000, 9999999, 1000000, 1234567, -123456, 999999, -99999, 0, -1],
            9: [-9999999, -1000000, 99999999, 10000000, 12345678, -1234567, 9999999, -999999, 0, 1],
            10: [-99999999, -10000000, 999999999, 100000000, 123456789, -12345678, 99999999, -9999999, 0, -1],
            12: [-1999999999, -1000000000, 1999999999, 1000000000, 1234567890, -100000000, 999999999, -99999999, 0, 1]}


def _grow_consts():
    return {'Widths': '{%s}' % ','.join(map(str, WIDTHS)),
            'CoordsP': '(' + ' @@ '.join('%d :> <<%s>>' % (w, ','.join(map(str, COORDS_P[w]))) for w in WIDTHS) + ')',
            'NamesP': tla_set(["CA", "ABCDE1"]), 'ResNamesP': tla_set(["ALA", "ALANIN"]), 'ResIdsP': '{-1,99999,100000}'}


def tab_consts(tier):
    return dict(_tab_consts(tier), **_grow_consts())


def _tab_consts(tier):
    if tier == 'quick':
        return {'Names': tla_set(["C", "CA", "HB1", "HD21", "HD211", "ABCDE1"]),
                'ResNames': tla_set(["A", "ALA", "ALAN", "ALANI", "ALANIN"]),
                'ResIds': '{-1000,-999,-1,1,9999,10000,99999,100000}',
                'Chains': tla_set(["", "A", "AB"]), 'ICodes': tla_set(["", "B"]),
                'Coords': '<<-999999,-1000,-1,0,999,1000,9999999>>',
                'Serials': '{1,100000}', 'Shapes': tlc.tlaval.to_tla(Q_SHAPES), 'Degrees': '0..6', 'Window': '2'}
    return {'Names': tla_set(["C", "CA", "HB1", "HD21", "HD211", "ABCDE1", "1HB2", "O5'", "C1*", "HD2111"]),
            'ResNames': tla_set(["A", "AL", "ALA", "HOH", "ALAN", "ALANI", "ALANIN", "DPPCXY"]),
            'ResIds': '{-10000,-9999,-1000,-999,-1,0,1,9,10,999,9999,10000,99999,100000,100001,123456}',
            'Chains': tla_set(["", "A", "Z", "AB"]), 'ICodes': tla_set(["", "B"]),
            'Coords': '<<-999999,-999998,-1000,-999,-1,0,1,999,1000,9999999>>',
            'Serials': '{1,10000,100000,100001}', 'Shapes': tlc.tlaval.to_tla(T_SHAPES), 'Degrees': '0..6', 'Window': '2'}


# ------------------------------------------------------------------------------------------- input generation
def _has_letter(s):
    return any(c in string.ascii_letters for c in s)


def name_ok(n):
    """Names the readers can take an element from after any admissible truncation (4 or 5 leading / trailing chars)."""
    return n and all(_has_letter(p) for p in (n[:4], n[-4:], n[:5], n[-5:]))


def random_name(rng):
    while True:
        n = ''.join(rng.choice(LETTERS + "0123456789'*") for _ in range(rng.choice([1, 2, 2, 3, 3, 4, 4, 5, 6, 7])))
        if name_ok(n):
            return n


RESIDS = [-10000, -9999, -1000, -999, -100, -1, 0, 1, 9, 10, 99, 100, 999, 1000, 9999, 10000, 10001, 99999, 100000,
          100001, 123456, 1000000]
COORDS = [-999999, -999998, -100000, -10000, -1000, -999, -1, 0, 1, 999, 1000, 9999, 10000, 99999, 100000, 999999,
          1000000, 9999998, 9999999]


def random_atom(rng, w=8):
    """Attribute values of a filler atom: a mix of boundary values and ordinary ones (all inside what C16 specifies:
    names/residue names without blanks, coordinates inside the representable range -999.999 .. 9999.999)."""
    a = {'name': random_name(rng),
         'resname': ''.join(rng.choice(LETTERS + '0123456789') for _ in range(rng.choice([1, 2, 3, 3, 3, 4, 5, 6]))),
         'resid': rng.choice(RESIDS) if rng.random() < 0.3 else rng.randint(-1200, 120000),
         'chain': rng.choice(['', 'A', 'B', 'Z', 'AB', '1']), 'icode': rng.choice(['', '', '', 'A', 'C']),
         'elem': rng.choice(['', '', 'C', 'N', 'CL', 'XYZ'])}
    lo, hi = max(-1999999999, -(10 ** (w - 2) - 1)), min(1999999999, 10 ** (w - 1) - 1)
    pool = COORDS_P.get(w, [lo, hi, lo + 1, hi - 1, 0, -1])
    for ax in 'xyz':
        if w == 8:
            a[ax] = rng.choice(COORDS) if rng.random() < 0.3 else rng.randint(-999999, 9999999)
        else:
            a[ax] = rng.choice(pool) if rng.random() < 0.3 else rng.choice([rng.randint(lo, hi), rng.randint(-99999, 999999)])
    for ax in ('vx', 'vy', 'vz'):       # velocities, integer ten-thousandths of nm/ps (written only when the system has velocities)
        a[ax] = rng.choice(pool) if rng.random() < 0.2 else rng.choice([rng.randint(lo, hi), rng.randint(-99999, 99999)])
    if rng.random() < 0.3:
        # off-grid coordinate: the written value must be the nearest thousandth (offset strictly inside the cell)
        a['d'] = [0.0 if (a[ax] == 0) else rng.uniform(-0.4, 0.4) for ax in 'xyz']
        # stay inside the representable range
        a['d'] = [min(d, 0.0) if a[ax] >= hi else (max(d, 0.0) if a[ax] <= lo else d) for d, ax in zip(a['d'], 'xyz')]
    return a


def default_atom():
    return {'name': 'CA', 'resname': 'ALA', 'resid': 1, 'chain': 'A', 'icode': '', 'elem': '', 'x': 0, 'y': 0, 'z': 0}


# ------------------------------------------------------------------------------------------- real code
def build_system(fmt, sizes, atoms, bonds, opts):
    """Real vermouth System: molecule k has sizes[k] atoms (in this order); bonds are 1-based global atom indices."""
    import numpy as np
    from vermouth.system import System
    from vermouth.molecule import Molecule
    scale = float(SCALE[fmt])
    system = System()
    keyof = {}
    g = 0
    for n in sizes:
        mol = Molecule()
        scheme = opts.get('keys', 'seq')
        if scheme == 'seq':
            keys = range(n)
        elif scheme == 'offset':
            keys = range(1000, 1000 + 3 * n, 3)
        else:                       # decreasing node keys: the order of a molecule is its insertion order
            keys = range(n - 1, -1, -1)
        # 'perm': the nodes are INSERTED in reverse order while the atom ids still increase in the intended order;
        # both writers list atoms by atom id (as the topology does), so the written order is the intended one and CONECT must follow it
        perm = opts.get('atomid') == 'perm'
        plan = [(g + t + 1, key) for t, key in enumerate(keys)]
        g += n
        for gg, key in (reversed(plan) if perm else plan):
            a = atoms[gg - 1]
            d = a.get('d', (0.0, 0.0, 0.0))
            attrs = {'atomname': a['name'], 'resname': a['resname'], 'resid': a['resid'],
                     'position': np.array([(a['x'] + d[0]) / scale, (a['y'] + d[1]) / scale, (a['z'] + d[2]) / scale])}
            if a['chain'] != '' or not opts.get('omit_empty'):
                attrs['chain'] = a['chain']
            if a['icode'] != '' or not opts.get('omit_empty'):
                attrs['insertion_code'] = a['icode']
            if a['elem'] != '' or not opts.get('omit_empty'):
                attrs['element'] = a['elem']
            if opts.get('atomid'):
                attrs['atomid'] = 7 + 2 * gg
            if opts.get('vel'):
                attrs['velocity'] = np.array([a.get('vx', 0) / 1e4, a.get('vy', 0) / 1e4, a.get('vz', 0) / 1e4])
            if a.get('altloc'):
                attrs['altloc'] = a['altloc']
            mol.add_node(key, **attrs)
            keyof[gg] = key
        system.add_molecule(mol)
    cum = [0]
    for n in sizes:
        cum.append(cum[-1] + n)
    mi = 0
    for i, j in sorted(bonds):
        while i > cum[mi + 1]:
            mi += 1
        if not (cum[mi] < j <= cum[mi + 1]):
            raise tlc.MachineryError('harness generated a bond between molecules')
        system.molecules[mi].add_edge(keyof[i], keyof[j])
    return system


def to_thousandths(value, scale):
    """float (nm) -> integer thousandths of the format unit; a value that is not within 1e-6 of an integer number of
    thousandths (the reader returned something that was never in a %.3f field) becomes BADV."""
    t = value * scale
    if not (-2e9 < t < 2e9):
        return BADV
    m = round(t)
    return int(m) if abs(t - m) <= 1e-6 * max(1.0, abs(t) / 1e3) else BADV


def _int32(v):
    return int(v) if isinstance(v, (int,)) and -2147483648 <= v <= 2147483647 else BADV


def _txt(v):
    return v if isinstance(v, str) else repr(v)


def _write(fmt, system, opts, path):
    if fmt == 'pdb':
        from vermouth.pdb import pdb
        if opts.get('writer') == 'file':
            pdb.write_pdb(system, path, defer_writing=False)
            with open(path) as fh:
                return fh.read()
        text = pdb.write_pdb_string(system)
        with open(path, 'w') as fh:
            fh.write(text)
        return text
    from vermouth.gmx import gro
    if opts.get('w', 8) == 8 and not opts.get('explicit_precision'):
        gro.write_gro(system, path, defer_writing=False)              # default precision
    else:
        gro.write_gro(system, path, precision=opts.get('w', 8) - 1, defer_writing=False)
    with open(path) as fh:
        return fh.read()


def _primer_gro(gro, precision, work):
    import numpy as np
    from vermouth.system import System
    from vermouth.molecule import Molecule
    mol = Molecule()
    for k in range(3):
        mol.add_node(k, atomname='C%d' % k, resname='PRM', resid=1 + k, position=np.array([0.125 * k, -1.5, 2.25]))
    system = System()
    system.add_molecule(mol)
    path = os.path.join(work, 'primer_%d.gro' % os.getpid())
    gro.write_gro(system, path, precision=precision, defer_writing=False)
    back = gro.read_gro(path, exclude=())
    os.remove(path)
    got = [tuple(round(float(x), 3) for x in back.nodes[n]['position']) for n in back.nodes]
    if got != [(0.0, -1.5, 2.25), (0.125, -1.5, 2.25), (0.25, -1.5, 2.25)]:
        raise ValueError('primer file read back as %r' % (got,))


def write_and_read(fmt, system, opts, work):
    """-> (text, molecules read back | None, error text)."""
    import vermouth
    from vermouth.system import System
    path = os.path.join(work, 'sys_%d.%s' % (os.getpid(), fmt))
    try:
        text = _write(fmt, system, opts, path)
    except Exception as exc:        # the writer must take every system C16 specifies
        return '', None, 'writer raised ' + repr(exc)[:200]
    if fmt == 'pdb':
        from vermouth.pdb import pdb
        try:
            if opts.get('reader') == 'processor':
                out = System()
                vermouth.processors.PDBInput(path).run_system(out)
                mols = list(out.molecules)
            else:
                mols = list(pdb.read_pdb(path, exclude=()))
        except Exception as exc:    # the reader must take every file the writer produced
            return text, None, 'reader raised ' + repr(exc)[:200]
    else:
        from vermouth.gmx import gro
        if opts.get('primer'):
            # history: the same process first reads a GRO file written with ANOTHER coordinate column width (write_gro precision = width - 1; values that fit);
            # nothing of that read may stick to the reader
            try:
                _primer_gro(gro, opts['primer'], work)
            except Exception as exc:
                return text, None, 'reader raised on a file written by write_gro(precision=%d): %r' % (opts['primer'], exc)
        try:
            if opts.get('reader') == 'processor':
                from vermouth.processors.gro_reader import GROInput
                out = System()
                GROInput(path).run_system(out)
                mols = list(out.molecules)
            else:
                mols = [gro.read_gro(path, exclude=())]
        except Exception as exc:
            return text, None, 'reader raised ' + repr(exc)[:200]
    os.remove(path)
    return text, mols, ''


def project_read(fmt, mols):
    """What the reader returned, atom by atom in reading order, and the bonds as global 1-based index pairs."""
    scale = float(SCALE[fmt])
    back, bonds, sizes, pos = [], [], [], []
    off = 0
    for mi, mol in enumerate(mols, 1):
        where = {}
        for k, (key, d) in enumerate(mol.nodes(data=True), 1):
            where[key] = off + k
            p = d.get('position', (float('nan'),) * 3)
            v = d.get('velocity', (0.0, 0.0, 0.0))
            ch = d.get('charge', 0)
            back.append({'serial': _int32(d.get('atomid')), 'name': _txt(d.get('atomname')), 'resname': _txt(d.get('resname')),
                         'resid': _int32(d.get('resid')), 'chain': _txt(d.get('chain', '')),
                         'icode': _txt(d.get('insertion_code', '')),
                         'x': to_thousandths(float(p[0]), scale), 'y': to_thousandths(float(p[1]), scale),
                         'z': to_thousandths(float(p[2]), scale), 'mol': mi,
                         'vx': to_thousandths(float(v[0]), 1e4), 'vy': to_thousandths(float(v[1]), 1e4),
                         'vz': to_thousandths(float(v[2]), 1e4), 'altloc': _txt(d.get('altloc', '')),
                         'elem': _txt(d.get('element', '')),
                         'charge': int(ch) if isinstance(ch, (int, float)) and ch == int(ch) and abs(ch) < 100 else BADV})
            pos.append((float(p[0]), float(p[1]), float(p[2])))
        for a, b in mol.edges:
            bonds.append(sorted((where[a], where[b])))
        sizes.append(len(mol))
        off += len(mol)
    return back, sorted(bonds), sizes, pos


ATTR_DEFAULTS = {'altloc': '', 'vx': 0, 'vy': 0, 'vz': 0}


def make_events(sid, fmt, sizes, atoms, bonds, text, mols, readerr, w=8, vel=False):
    """Split the written text and the read-back values into events for Trace_FixedCol."""
    lines = text.split('\n')
    if mols is not None:
        back, rbonds, rsizes, _ = project_read(fmt, mols)
    else:
        back, rbonds, rsizes = [], [], []
    attrs = [dict({k: a[k] for k in ('name', 'resname', 'resid', 'chain', 'icode', 'elem', 'x', 'y', 'z')},
                  **{k: a.get(k, dv) for k, dv in ATTR_DEFAULTS.items()}) for a in atoms]
    if fmt == 'pdb':
        w, vel = 0, False
    events = []
    if fmt == 'pdb':
        recs = [ln[:6].strip() for ln in lines]
        atom_lines = [ln for ln, r in zip(lines, recs) if r in ('ATOM', 'HETATM')]
        layout = []
        for r in recs:
            if layout and layout[-1]['rec'] == r:
                layout[-1]['n'] += 1
            else:
                layout.append({'rec': r, 'n': 1})
        ters = []
        g = 0
        ter_lines = [ln for ln, r in zip(lines, recs) if r == 'TER']
        for k, ln in enumerate(ter_lines):
            g = sum(sizes[:k + 1]) if k < len(sizes) else len(atoms)
            a = attrs[g - 1]
            ters.append({'line': ln, 'resname': a['resname'], 'chain': a['chain'], 'resid': a['resid'], 'icode': a['icode']})
        if readerr.startswith('writer'):
            layout = []
        events.append({'kind': 'pdbstruct', 'sid': sid, 'sizes': sizes, 'bonds': [list(b) for b in bonds], 'layout': layout,
                       'ters': ters, 'conect': [ln for ln, r in zip(lines, recs) if r == 'CONECT'],
                       'read_sizes': rsizes, 'read_bonds': rbonds, 'readerr': readerr})
        gsizes = sizes
    else:
        body = lines[2:]
        while body and body[-1] == '':
            body.pop()
        atom_lines = body[:-1]          # the last line is the box
        events.append({'kind': 'grostruct', 'sid': sid, 'natoms': len(atoms), 'count_line': lines[1] if len(lines) > 1 else '',
                       'natomlines': len(atom_lines), 'nread': len(back), 'readerr': readerr, 'w': w, 'vel': bool(vel),
                       'first_line': atom_lines[0] if atom_lines else ''})
        gsizes = [len(atoms)]
    for g0 in range(0, len(atoms), CHUNK):
        events.append({'kind': 'atoms', 'sid': sid, 'fmt': fmt, 'sizes': gsizes, 'g0': g0 + 1, 'atoms': attrs[g0:g0 + CHUNK],
                       'lines': atom_lines[g0:g0 + CHUNK], 'back': back[g0:g0 + CHUNK], 'readerr': readerr, 'w': w, 'vel': bool(vel)})
    return events


def precision_check(fmt, atoms, mols):
    """DESIGN.md limit: decimal rounding is checked here, not by TLC: |x - read| <= 0.5e-3 format units."""
    import numpy as np
    if mols is None:
        return None
    scale = float(SCALE[fmt])
    want = np.array([[(a['x'] + a.get('d', (0, 0, 0))[0]), (a['y'] + a.get('d', (0, 0, 0))[1]),
                      (a['z'] + a.get('d', (0, 0, 0))[2])] for a in atoms]) / 1000.0
    got = np.array([d['position'] for mol in mols for _, d in mol.nodes(data=True)]) * (scale / 1000.0)
    if got.shape != want.shape:
        return None                    # reported by the judge (atom count)
    err = np.abs(got - want)
    err = np.where(np.isnan(err), np.inf, err)
    worst = int(np.argmax(err.max(axis=1)))
    if err[worst].max() > 0.5e-3 + 1e-9:
        return worst + 1, float(err[worst].max())
    return None


# ------------------------------------------------------------------------------------------- one system
def _opts(rng, fmt):
    return {'keys': rng.choice(['seq', 'offset', 'rev']), 'atomid': rng.choice([False, False, 'inc', 'perm']), 'omit_empty': rng.random() < 0.5,
            'writer': rng.choice(['string', 'file']), 'reader': rng.choice(['func', 'processor']),
            'vel': fmt == 'gro' and rng.random() < 0.3, 'primer': rng.choice([0, 0, 8, 9, 11]) if fmt == 'gro' else 0}


def filler_bonds(rng, sizes, bonds):
    """Within molecules: stretches of chain bonds, short-range extra bonds, and a few atoms of degree 5..9."""
    off = 0
    for n in sizes:
        if n >= 2:
            start = rng.randint(1, max(1, n - 1))
            for i in range(start, min(n, start + rng.randint(1, 400))):
                bonds.add((off + i, off + i + 1))
            for _ in range(min(60, n)):
                i = rng.randint(1, n)
                j = min(n, max(1, i + rng.randint(-40, 40)))
                if i != j:
                    bonds.add((off + min(i, j), off + max(i, j)))
            hub = rng.randint(1, n)
            for j in rng.sample(range(1, n + 1), min(n, rng.randint(5, 9))):
                if j != hub:
                    bonds.add((off + min(hub, j), off + max(hub, j)))
        off += n


def run_system(task):
    """Build, write, read, project one system; compare the TAB expectations placed in it.  Runs in a worker."""
    logging.disable(logging.CRITICAL)
    fmt, sizes, seed = task['fmt'], task['sizes'], task['seed']
    rng = random.Random(seed)
    total = sum(sizes)
    atoms = [None] * total
    cases = task.get('cases', [])
    slots = rng.sample(range(total), len(cases))
    placed = {}
    for slot, (idx, inp) in zip(slots, cases):
        atoms[slot] = {'name': inp['name'], 'resname': inp['resname'], 'resid': inp['resid'], 'chain': inp['chain'],
                       'icode': inp['icode'], 'elem': inp['elem'], 'x': inp['x'], 'y': inp['y'], 'z': inp['z']}
        placed[slot] = idx
    for i in range(total):
        if atoms[i] is None:
            atoms[i] = random_atom(rng, (task.get('opts') or {}).get('w', 8)) if not task.get('plain') else default_atom()
    bonds = set()
    for sc in task.get('sys', []):
        for p in sc['partners']:
            bonds.add((min(sc['hub'], p), max(sc['hub'], p)))
    if task.get('fits') and fmt == 'pdb':
        filler_bonds(rng, sizes, bonds)
    bonds = sorted(bonds)
    opts = task.get('opts') or _opts(rng, fmt)
    work = tlc.scratch('c16w_')
    system = build_system(fmt, sizes, atoms, bonds, opts)
    text, mols, readerr = write_and_read(fmt, system, opts, work)
    events = make_events(task['sid'], fmt, sizes, atoms, bonds, text, mols, readerr, w=opts.get('w', 8), vel=opts.get('vel'))
    for e in events:
        e['opts'] = opts
    bad, nrep = [], 0
    if mols is not None:
        back, rbonds, rsizes, _ = project_read(fmt, mols)
        rb = {tuple(b) for b in rbonds}
        if len(back) == total:
            for slot, idx in placed.items():
                exp = task['expect'][idx]
                got = {k: back[slot][k] for k in ('name', 'resname', 'resid', 'chain', 'icode', 'x', 'y', 'z')}
                nrep += 1
                ok = all(got[k] == exp['back'][k] for k in got if k != 'name') and got['name'] in exp['names']
                if not ok:
                    bad.append(('replay-mismatch', {'fmt': fmt, 'sizes': sizes, 'place': {str(slot + 1): atoms[slot]}, 'bonds': [],
                                                    'opts': opts, 'expected': exp['back'], 'got': got},
                                'atom case read back as %r, TLC expects %r' % (got, exp['back'])))
            for sc in task.get('sys', []):
                nrep += 1
                hub = sc['hub']
                why = None
                if back[hub - 1]['serial'] != int(sc['hubfield']):
                    why = 'hub serial read back as %r, TLC expects field %r' % (back[hub - 1]['serial'], sc['hubfield'])
                elif sc['fits'] and back[hub - 1]['mol'] != sc['mol']:
                    why = 'hub read into molecule %r, TLC expects %r' % (back[hub - 1]['mol'], sc['mol'])
                elif sc['fits']:
                    missing = [p for p in sc['partners'] if (min(hub, p), max(hub, p)) not in rb]
                    if missing:
                        why = 'bonds hub %d - %r not read back (TLC: CONECT pairs %r)' % (hub, missing, sc['pairs'])
                if why:
                    bad.append(('replay-mismatch', {'fmt': fmt, 'sizes': sizes, 'place': {}, 'opts': opts,
                                                    'bonds': [[min(hub, p), max(hub, p)] for p in sc['partners']],
                                                    'sys_case': sc}, why))
        pc = precision_check(fmt, atoms, mols)
        if pc:
            g, err = pc
            bad.append(('coordinate-precision', {'fmt': fmt, 'sizes': sizes, 'place': {str(g): atoms[g - 1]}, 'bonds': [], 'opts': opts},
                        'atom %d: coordinate read back %.6f away from the value written (> 0.5e-3)' % (g, err)))
    shutil.rmtree(work, ignore_errors=True)
    return {'events': events, 'bad': bad, 'nrep': nrep, 'natoms': total, 'nbonds': len(bonds)}


# ------------------------------------------------------------------------------------------- GRO: widths, sequences of reads
def run_gro_seq(task):
    """Several GRO files of DIFFERENT coordinate column widths (with / without velocities) are written, then read one after
    the other IN THIS PROCESS (alternating read_gro and GROInput, the first file once more at the end); every read is
    judged: the TAB 'grow' cases placed in the files against TLC's `out`, every line and value by the trace judge."""
    logging.disable(logging.CRITICAL)
    from vermouth.gmx import gro
    from vermouth.system import System
    from vermouth.processors.gro_reader import GROInput
    work = tlc.scratch('c16q_')
    files = []
    out = {'events': [], 'bad': [], 'nrep': 0, 'natoms': 0, 'nbonds': 0, 'reads': 0, 'switches': 0}
    for k, f in enumerate(task['files']):
        rng = random.Random(f['seed'])
        total = sum(f['sizes'])
        atoms = [None] * total
        slots = rng.sample(range(total), len(f.get('cases', [])))
        placed = {}
        for slot, (idx, inp) in zip(slots, f.get('cases', [])):
            atoms[slot] = dict(default_atom(), chain='', **{k2: inp[k2] for k2 in ('name', 'resname', 'resid', 'x', 'y', 'z', 'vx', 'vy', 'vz')})
            placed[slot] = idx
        for i in range(total):
            if atoms[i] is None:
                atoms[i] = random_atom(rng, f['w'])
        opts = {'keys': rng.choice(['seq', 'offset', 'rev']), 'atomid': rng.choice([False, 'inc', 'perm']), 'omit_empty': True,
                'w': f['w'], 'vel': f['vel'], 'explicit_precision': rng.random() < 0.5, 'seq': task['sid']}
        system = build_system('gro', f['sizes'], atoms, [], opts)
        path = os.path.join(work, 'f%d.gro' % k)
        try:
            text, werr = _write('gro', system, opts, path), ''
        except Exception as exc:
            text, werr = '', 'writer raised ' + repr(exc)[:200]
        with open(path, 'w') as fh:      # _write leaves the file; keep it for the reads below
            fh.write(text)
        files.append({'atoms': atoms, 'opts': opts, 'path': path, 'text': text, 'werr': werr, 'placed': placed, 'f': f})
    prev_w = None
    for pos, k in enumerate(task['order']):
        fl = files[k]
        f, opts = fl['f'], dict(fl['opts'], reader='func' if pos % 2 == 0 else 'processor', position=pos, order=task['order'],
                                widths=[x['w'] for x in task['files']], vels=[x['vel'] for x in task['files']])
        mols, readerr = None, fl['werr']
        if not readerr:
            try:
                if pos % 2 == 0:
                    mols = [gro.read_gro(fl['path'], exclude=())]
                else:
                    s2 = System()
                    GROInput(fl['path']).run_system(s2)
                    mols = list(s2.molecules)
            except Exception as exc:
                readerr = 'reader raised ' + repr(exc)[:200]
        events = make_events('%s/read%d(w=%d%s)' % (task['sid'], pos, f['w'], ',vel' if f['vel'] else ''), 'gro', f['sizes'],
                             fl['atoms'], [], fl['text'], mols, readerr, w=f['w'], vel=f['vel'])
        for e in events:
            e['opts'] = opts
            e['seq'] = {'files': [{kk: x[kk] for kk in ('w', 'vel', 'sizes', 'seed')} for x in task['files']], 'order': task['order'][:pos + 1]}
        out['events'] += events
        out['reads'] += 1
        out['switches'] += prev_w is not None and prev_w != f['w']
        prev_w = f['w']
        out['natoms'] += len(fl['atoms'])
        if mols is not None:
            back = project_read('gro', mols)[0]
            if len(back) == len(fl['atoms']):
                for slot, idx in fl['placed'].items():
                    exp = f['expect'][idx]
                    keys = ('name', 'resname', 'resid', 'x', 'y', 'z') + (('vx', 'vy', 'vz') if f['vel'] else ())
                    got = {kk: back[slot][kk] for kk in keys}
                    out['nrep'] += 1
                    if not (all(got[kk] == exp['back'][kk] for kk in keys if kk != 'name') and got['name'] in exp['names']):
                        out['bad'].append(('replay-mismatch', {'fmt': 'gro', 'sizes': f['sizes'], 'place': {str(slot + 1): fl['atoms'][slot]},
                                                               'bonds': [], 'opts': opts, 'expected': exp['back'], 'got': got,
                                                               'seq': events[0]['seq']},
                                           'width %d%s, read number %d of this process: atom case read back as %r, TLC expects %r'
                                           % (f['w'], ' with velocities' if f['vel'] else '', pos + 1, got, exp['back'])))
            pc = precision_check('gro', fl['atoms'], mols)
            if pc:
                out['bad'].append(('coordinate-precision', {'fmt': 'gro', 'sizes': f['sizes'], 'place': {str(pc[0]): fl['atoms'][pc[0] - 1]},
                                                            'bonds': [], 'opts': opts, 'seq': events[0]['seq']},
                                   'atom %d: coordinate read back %.6f away from the value written (> 0.5e-3)' % pc))
    shutil.rmtree(work, ignore_errors=True)
    return out


# ------------------------------------------------------------------------------------------- files vermouth did not write
def pdb_atom_line(rec, serial, name4, altloc, resname, chain, resid, icode, xyz, occ=1.0, bfac=0.0, elem='', charge='', cut=80):
    """One ATOM / HETATM line in the official columns; `name4` is the name as it stands in columns 13-16."""
    line = '%-6s%5d %-4s%1s%3s %1s%4d%1s   %8.3f%8.3f%8.3f%6.2f%6.2f          %2s%2s' % (
        rec, serial, name4, altloc, resname[:3], chain, resid, icode, xyz[0] / 1000.0, xyz[1] / 1000.0, xyz[2] / 1000.0, occ, bfac, elem, charge)
    if len(resname) == 4:           # four-character residue names use column 21 as well
        line = line[:17] + resname + line[21:]
    return line[:cut].rstrip() if cut < 80 else line


def _fcoord(rng):
    v = rng.choice([rng.randint(-99999, 99999), rng.randint(-999999, 9999999), rng.choice([-999999, 9999999, 1, -1, 1000, -1000])])
    return v


HEADERS = ['HEADER    HYDROLASE                               01-JAN-00   1XYZ',
           'TITLE     A FILE THAT VERMOUTH DID NOT WRITE',
           'REMARK   2 RESOLUTION.    1.80 ANGSTROMS.',
           'REMARK 465 MISSING RESIDUES ATOM   HETATM TER',
           'SEQRES   1 A    3  ALA GLY SER',
           'CRYST1   52.000   58.600   61.900  90.00  90.00  90.00 P 21 21 21    8',
           'ORIGX1      1.000000  0.000000  0.000000        0.00000',
           'SCALE1      0.019231  0.000000  0.000000        0.00000']
PROT = [(' N  ', ' N'), (' CA ', ' C'), (' C  ', ' C'), (' O  ', ' O'), (' CB ', ' C'), ('HD21', ' H'), ('1HB ', ' H'), (' OXT', ' O')]


def foreign_pdb(family, seed):
    """Text of a PDB file as other programs write it (legal records that vermouth never writes).  Everything here is
    INPUT generation: what the file means is decided by TLC from the text."""
    rng = random.Random(seed)
    L = []
    serial = [rng.choice([1, 1, 7, 9990])]
    conect = []

    def residue(rec, resname, chain, resid, icode, names, altlocs=('',), cut=80, charge_on=None, anisou=False):
        ids = {}
        for name4, elem in names:
            for al in altlocs:
                xyz = [_fcoord(rng) for _ in range(3)]
                ch = rng.choice(['1+', '1-', '2+', '2-']) if charge_on == name4 else ''
                L.append(pdb_atom_line(rec, serial[0], name4, al, resname, chain, resid, icode, xyz, rng.choice([1.0, 0.5]),
                                       rng.uniform(0, 99), elem if cut >= 78 else '', ch, cut))
                if anisou:
                    L.append('ANISOU%5d %-4s%1s%3s %1s%4d%1s %7d%7d%7d%7d%7d%7d      %2s' % (
                        serial[0], name4, al, resname[:3], chain, resid, icode, 1, 2, 3, 4, 5, 6, elem))
                ids.setdefault(name4, []).append((al, serial[0]))
                serial[0] += 1
        return ids

    def ter(resname, chain, resid, style):
        if style == 'full':
            L.append('TER   %5d      %3s %1s%4d' % (serial[0], resname[:3], chain, resid))
            serial[0] += 1
        elif style == 'bare':
            L.append('TER')

    def add_conect(hub, partners, both=True):
        todo = list(partners)
        while todo:
            cur, todo = todo[:4], todo[4:]
            conect.append('CONECT%5d' % hub + ''.join('%5d' % p for p in cur))
        if both:
            for p in partners:
                conect.append('CONECT%5d%5d' % (p, hub))

    modelidx = 1
    if family == 'hetatm':          # headers, ANISOU, HETATM ligand and waters after the chains, MASTER, END
        L += HEADERS
        for c, chain in enumerate('AB'):
            for r in range(2):
                residue('ATOM', rng.choice(['ALA', 'GLY', 'SER']), chain, 10 + r, '', PROT[:5], anisou=(r == 0))
            ter('ALA', chain, 11, 'full')
        lig = residue('HETATM', 'HEM', 'A', 201, '', [('FE  ', 'FE'), (' NA ', ' N'), (' NB ', ' N'), (' C1A', ' C'), (' O1A', ' O')])
        add_conect(lig['FE  '][0][1], [lig[n][0][1] for n in (' NA ', ' NB ', ' C1A', ' O1A')])
        for k in range(3):
            residue('HETATM', 'HOH', 'A', 301 + k, '', [(' O  ', ' O')])
        L.append('MASTER        0    0    0    0    0    0    0    6   28    2    0    0')
    elif family == 'names':         # name column conventions, blank chain, negative numbers, insertion codes, charges, 4-char residue name
        L += HEADERS[:2]
        residue('ATOM', 'ASN', '', -12, '', PROT, charge_on=' N  ')
        residue('ATOM', 'ASN', '', -1, 'A', PROT[:6], charge_on=' OXT')
        residue('ATOM', 'ASN', '', -1, 'B', PROT[:6])
        residue('ATOM', 'GLU', '', 0, '', PROT[:4] + [(' OE1', ' O')], charge_on=' OE1')
        ter('GLU', '', 0, 'full')
        residue('HETATM', ' CA', 'C', 500, '', [('CA  ', 'CA')], charge_on='CA  ')
        residue('HETATM', ' CL', 'C', 501, '', [('CL  ', 'CL')], charge_on='CL  ')
        residue('HETATM', ' ZN', 'C', 502, '', [('ZN  ', 'ZN')])
        ter(' ZN', 'C', 502, 'bare')
        residue('ATOM', 'DPPC', 'L', 1, '', [(' NC3', ' N'), (' PO4', ' P'), ('C1A ', ' C'), ("O5' ", ' O'), (' C1*', ' C')])
        residue('ATOM', '  A', 'R', 9999, '', [(" O5'", ' O'), (" C5'", ' C'), (' P  ', ' P')])
    elif family == 'altloc':        # alternate locations: blank and A stay, B / C go; CONECT naming a dropped atom
        L += HEADERS[2:4]
        a = residue('ATOM', 'SER', 'A', 5, '', PROT[:3])
        b = residue('ATOM', 'SER', 'A', 5, '', [(' CB ', ' C'), (' OG ', ' O')], altlocs=('A', 'B'))
        c = residue('ATOM', 'LYS', 'A', 6, '', PROT[:4])
        d = residue('ATOM', 'LYS', 'A', 6, '', [(' CB ', ' C')], altlocs=('B', 'A', 'C'))
        e = residue('ATOM', 'THR', 'A', 7, '', [(' N  ', ' N'), (' CA ', ' C')], altlocs=('B',))
        add_conect(a[' CA '][0][1], [b[' CB '][0][1], b[' CB '][1][1]])          # CA - CB(A), CA - CB(B)
        add_conect(b[' CB '][0][1], [b[' OG '][0][1]])
        add_conect(b[' CB '][1][1], [b[' OG '][1][1]])                            # both ends dropped
        add_conect(c[' CA '][0][1], [dict(d[' CB '])[x] for x in ('A', 'B', 'C')])
        ter('THR', 'A', 7, 'full')
    elif family == 'short':         # lines end after the coordinates / the B factor; no TER, no END
        for r, cut in enumerate((54, 66, 78, 60, 54)):
            residue('ATOM', 'GLY', 'A', 1 + r, '', PROT[:4], cut=cut)
        L.append('TER')
        residue('HETATM', 'LIG', 'B', 1, '', [(' C1 ', ' C'), (' C2 ', ' C'), (' O1 ', ' O')], cut=54)
    elif family in ('model1', 'model2'):
        modelidx = 1 if family == 'model1' else 2
        L += HEADERS[:3] + ['NUMMDL    3']
        first = serial[0]
        lig = None
        for m in (1, 2, 3):
            serial[0] = first
            L.append('MODEL     %4d' % m)
            for chain in 'AB':
                for r in range(1 + (chain == 'B')):
                    residue('ATOM', 'ALA', chain, 1 + r, '', PROT[:5])
                ter('ALA', chain, 1, 'full')
            lig = residue('HETATM', 'LIG', 'X', 9, '', [(' C1 ', ' C'), (' C2 ', ' C'), (' C3 ', ' C')])
            L.append('ENDMDL')
        add_conect(lig[' C1 '][0][1], [lig[' C2 '][0][1], lig[' C3 '][0][1]])
    elif family == 'conect':        # more than four partners over several lines, serials >= 10000 five wide and unseparated
        serial[0] = 9996
        names = [(' C%-2d' % k, ' C') for k in range(1, 13)]
        lig = residue('HETATM', 'BIG', 'A', 1, '', names)
        ids = [lig[n][0][1] for n, _ in names]
        add_conect(ids[5], [ids[k] for k in (0, 1, 2, 3, 4, 6, 7, 8, 9)])
        add_conect(ids[10], [ids[11]], both=False)
        add_conect(ids[0], [ids[1], ids[2], ids[3], ids[4], ids[11]], both=False)
        ter('BIG', 'A', 1, 'full')
        lig2 = residue('HETATM', 'SML', 'B', 2, '', names[:3])
        add_conect(lig2[names[0][0]][0][1], [lig2[names[1][0]][0][1], lig2[names[2][0]][0][1]])
    else:                           # 'random': a mix
        L += rng.sample(HEADERS, rng.randint(0, 4))
        nchain = rng.randint(1, 3)
        for c in range(nchain):
            chain = rng.choice(['', 'A', 'B', 'Z', '1'])
            rid = rng.choice([-20, -1, 1, 998, 9996])
            last = None
            for r in range(rng.randint(1, 4)):
                rec = rng.choice(['ATOM', 'ATOM', 'HETATM'])
                last = (rng.choice(['ALA', 'LYS', ' DA', '  U', 'HOH', 'POPC']), chain, rid + r)
                ids = residue(rec, last[0], chain, rid + r, rng.choice(['', '', 'A']), rng.sample(PROT, rng.randint(1, 6)),
                              altlocs=rng.choice([('',), ('',), ('A', 'B'), ('B', 'A')]), cut=rng.choice([80, 80, 78, 66, 54]),
                              charge_on=rng.choice([None, ' N  ']), anisou=rng.random() < 0.2)
                keep = [dict(v).get('', dict(v).get('A')) for v in ids.values()]
                if len(keep) >= 2 and rng.random() < 0.6:
                    add_conect(keep[0], keep[1:], both=rng.random() < 0.5)
            if c < nchain - 1 or rng.random() < 0.5:
                ter(last[0], last[1], last[2], rng.choice(['full', 'bare']))
    L += conect
    if family not in ('short',) and not (family == 'random' and rng.random() < 0.3):
        L.append('END')
    return '\n'.join(L) + '\n', modelidx


def gro_line(resid, resname, name, serial, xyz, w, vel=None):
    line = '%5d%-5s%5s%5d' % (resid % 100000, resname, name, serial % 100000) + ''.join('%*.3f' % (w, v / 1000.0) for v in xyz)
    if vel is not None:
        line += ''.join('%*.4f' % (w, v / 10000.0) for v in vel)
    return line


def foreign_gro(family, seed):
    rng = random.Random(seed)
    w, vel, nbox, resid0, serial0, n = {'wrap': (8, False, 3, 99998, 99995, 12), 'vel9box': (8, True, 9, 1, 1, 9),
                                        'wide': (10, False, 3, 1, 1, 7), 'widevel': (9, True, 9, 998, 1, 8)}.get(
        family, (rng.choice([8, 8, 9, 10]), rng.random() < 0.5, rng.choice([3, 9]), rng.choice([1, 99999, 5]), rng.choice([1, 99998]), rng.randint(1, 15)))
    lo, hi = -(10 ** (w - 2) - 1), 10 ** (w - 1) - 1
    title = rng.choice(['Protein in water t=   0.00000 step= 0', 'Generated by trjconv : 2168 system t= 15.000', 'GROup of MAchos and Cynical Suckers'])
    L = [title, rng.choice(['%5d', ' %d', '%d ', '%8d']) % n]
    for k in range(n):
        xyz = [rng.choice([rng.randint(lo, hi), rng.randint(-9999, 99999), lo, hi]) for _ in range(3)]
        if k == 0:
            xyz = [rng.randint(10 ** (w - 3), hi) for _ in range(3)]       # the first line shows the width whatever reads it
        v = [rng.choice([rng.randint(lo, hi), rng.randint(-99999, 99999)]) for _ in range(3)] if vel else None
        L.append(gro_line(resid0 + k // 3, rng.choice(['ALA', 'SOL', 'POPC', 'DPPCX']), rng.choice(['CA', 'OW', 'HW1', 'C12A', 'BB', "O5'"]),
                          serial0 + k, xyz, w, v))
    L.append(''.join('%10.5f' % rng.uniform(0, 20) for _ in range(nbox)))
    return '\n'.join(L) + '\n'


def _increasing_ids(mols):
    for m in mols:
        ids = [d.get('atomid') for _, d in m.nodes(data=True)]
        if any(b <= a for a, b in zip(ids, ids[1:])):
            return False
    return True


def run_foreign(task):
    """A file vermouth did not write is read by the real reader (judged against the text by TLC), what was read is written
    by the real writer and read again (judged like any written system), and that is written once more (fixed point)."""
    logging.disable(logging.CRITICAL)
    import vermouth
    from vermouth.system import System
    from vermouth.pdb import pdb
    from vermouth.gmx import gro
    from vermouth.processors.gro_reader import GROInput
    fmt, text = task['fmt'], task['text']
    work = tlc.scratch('c16f_')
    path = os.path.join(work, 'foreign.' + fmt)
    with open(path, 'w') as fh:
        fh.write(text)
    lines = text.split('\n')
    if lines and lines[-1] == '':
        lines.pop()
    out = {'events': [], 'bad': [], 'nrep': 0, 'natoms': 0, 'nbonds': 0}
    opts = {'foreign': task['family'], 'reader': task['reader'], 'seed': task['seed'], 'modelidx': task.get('modelidx', 1)}
    mols, readerr = None, ''
    try:
        if fmt == 'pdb':
            if task['reader'] == 'processor':
                s1 = System()
                vermouth.processors.PDBInput(path, modelidx=task['modelidx']).run_system(s1)
                mols = list(s1.molecules)
            else:
                mols = list(pdb.read_pdb(path, exclude=(), modelidx=task['modelidx']))
        else:
            if task.get('prime'):       # another GRO file of another width read first in this process
                _primer_gro(gro, task['prime'], work)
            if task['reader'] == 'processor':
                s1 = System()
                GROInput(path).run_system(s1)
                mols = list(s1.molecules)
            else:
                mols = [gro.read_gro(path, exclude=())]
    except Exception as exc:
        readerr = 'reader raised ' + repr(exc)[:200]
    e = {'kind': 'f' + fmt, 'sid': task['sid'], 'lines': lines, 'readerr': readerr, 'opts': opts, 'text': text,
         'back': [], 'read_sizes': [], 'read_bonds': [], 'rewrite1': ['-'], 'rewrite2': ['-'], 'modelidx': task.get('modelidx', 1), 'nbox': 0}
    out['events'].append(e)
    if mols is None:
        shutil.rmtree(work, ignore_errors=True)
        return out
    back, rbonds, rsizes, _ = project_read(fmt, mols)
    e.update(back=back, read_sizes=rsizes, read_bonds=rbonds)
    if fmt == 'gro':
        e['nbox'] = len(getattr(mols[0], 'box', ()))
    out['natoms'] += len(back)
    out['nbonds'] += len(rbonds)
    values_ok = all(name_ok(b['name']) and b['resname'] and BADV not in (b['x'], b['y'], b['z'], b['resid']) for b in back)
    if _increasing_ids(mols) and values_ok and all(len(m) for m in mols):
        # second round trip: what was read is a system like any other
        w, vel = 8, False
        if fmt == 'gro':
            first = lines[2]
            dots = [i for i, c in enumerate(first) if c == '.' and i >= 20]
            w, vel = dots[1] - dots[0], first.count('.') == 6      # only to ask the writer for the same layout; TLC checks the written file shows it
        wopts = dict(opts, writer='string', reader='func', w=w, vel=vel, explicit_precision=True)
        system = System()
        for m in mols:
            system.add_molecule(m.copy())
        atoms = [dict(b, elem=b['elem']) for b in back]
        text1, mols2, err2 = write_and_read(fmt, system, wopts, work)
        ev2 = make_events(task['sid'] + ':rewrite', fmt, rsizes, atoms, [tuple(b) for b in rbonds], text1, mols2, err2, w=w, vel=vel)
        for x in ev2:
            x['opts'] = wopts
            x['text'] = text
        out['events'] += ev2
        text2 = ''
        if mols2 is not None:
            s3 = System()
            for m in mols2:
                s3.add_molecule(m)
            try:
                text2 = _write(fmt, s3, wopts, os.path.join(work, 'again.' + fmt))
            except Exception as exc:
                text2 = 'writer raised ' + repr(exc)[:200]
        e['rewrite1'], e['rewrite2'] = text1.split('\n'), text2.split('\n')
        out['rewritten'] = 1
    shutil.rmtree(work, ignore_errors=True)
    return out


# ------------------------------------------------------------------------------------------- shipped structures
def shipped_files(tier):
    files = sorted(glob.glob(os.path.join(REPO, 'vermouth', 'tests', 'data', '**', '*.pdb'), recursive=True))
    files = [f for f in files if os.path.getsize(f) < 4_000_000]
    if tier == 'quick':
        keep = [f for f in files if os.path.basename(f) in ('1UBQ.pdb', '3i40.pdb')][:2]
        return keep or files[:2]
    return files


def run_shipped(task):
    """A structure shipped with vermouth is read by the real reader; the in-memory system is then written as PDB and as
    GRO, read back and judged like a generated one.  Coordinates are snapped to the thousandth of the target format
    (a PDB coordinate ending in 5 in its third decimal is a rounding tie in GRO; -0.000 is a tie in sign)."""
    logging.disable(logging.CRITICAL)
    import numpy as np
    from vermouth.pdb import pdb
    from vermouth.system import System
    path = task['path']
    try:
        mols = [m for m in pdb.read_pdb(path, exclude=()) if len(m)]
    except Exception as exc:      # not this property's business (input parsing of foreign files)
        return {'events': [], 'bad': [], 'nrep': 0, 'natoms': 0, 'nbonds': 0, 'skipped': '%s: %r' % (path, exc)}
    for m in mols:
        ids = [d.get('atomid') for _, d in m.nodes(data=True)]
        if any(b < a for a, b in zip(ids, ids[1:])):
            return {'events': [], 'bad': [], 'nrep': 0, 'natoms': 0, 'nbonds': 0,
                    'skipped': '%s: atom numbers not increasing inside a molecule (order of the system unspecified)' % path}
    out = {'events': [], 'bad': [], 'nrep': 0, 'natoms': 0, 'nbonds': 0}
    work = tlc.scratch('c16s_')
    for fmt in ('pdb', 'gro'):
        scale = float(SCALE[fmt])
        system = System()
        atoms, bonds, sizes = [], [], []
        off = 0
        ok = True
        for m in mols:
            c = m.copy()
            where = {}
            for k, (key, d) in enumerate(c.nodes(data=True), 1):
                t = [int(round(float(v) * scale)) for v in d['position']]
                if not all(-999999 <= v <= 9999999 for v in t) or not name_ok(d.get('atomname', '')) or \
                        ' ' in d.get('resname', '') or not d.get('resname'):
                    ok = False
                d['position'] = np.array([v / scale for v in t])
                where[key] = off + k
                atoms.append({'name': d['atomname'], 'resname': d['resname'], 'resid': d['resid'], 'chain': d.get('chain', ''),
                              'icode': d.get('insertion_code', ''), 'elem': d.get('element', ''), 'x': t[0], 'y': t[1], 'z': t[2]})
            bonds += [tuple(sorted((where[a], where[b]))) for a, b in c.edges]
            sizes.append(len(c))
            off += len(c)
            system.add_molecule(c)
        if not ok:
            out['skipped'] = '%s: values outside what C16 specifies' % path
            continue
        opts = {'writer': 'string', 'reader': 'func', 'shipped': os.path.relpath(path, REPO)}
        text, back_mols, readerr = write_and_read(fmt, system, opts, work)
        ev = make_events('%s:%s' % (os.path.basename(path), fmt), fmt, sizes, atoms, sorted(set(bonds)), text, back_mols, readerr)
        for e in ev:
            e['opts'] = opts
        out['events'] += ev
        out['natoms'] += len(atoms)
        out['nbonds'] += len(bonds)
        pc = precision_check(fmt, atoms, back_mols)
        if pc:
            out['bad'].append(('coordinate-precision', {'fmt': fmt, 'shipped': opts['shipped'], 'atom': pc[0]},
                               'atom %d of %s: coordinate off by %.6f' % (pc[0], path, pc[1])))
    shutil.rmtree(work, ignore_errors=True)
    return out


# ------------------------------------------------------------------------------------------- TLC judge
EVENT_KEYS = {'atoms': ('kind', 'fmt', 'sizes', 'g0', 'atoms', 'lines', 'back', 'readerr', 'w', 'vel'),
              'fpdb': ('kind', 'lines', 'modelidx', 'back', 'read_sizes', 'read_bonds', 'readerr', 'rewrite1', 'rewrite2'),
              'fgro': ('kind', 'lines', 'back', 'nbox', 'readerr', 'rewrite1', 'rewrite2'),
              'pdbstruct': ('kind', 'sizes', 'bonds', 'layout', 'ters', 'conect', 'read_sizes', 'read_bonds', 'readerr'),
              'grostruct': ('kind', 'natoms', 'count_line', 'natomlines', 'nread', 'readerr', 'w', 'vel', 'first_line')}


def _weight(e):
    return len(e.get('atoms', ())) + 2 * len(e.get('conect', ())) + len(e.get('bonds', ())) + 50


def shard_events(events, nshards):
    order = sorted(range(len(events)), key=lambda i: -_weight(events[i]))
    shards = [[] for _ in range(nshards)]
    load = [0] * nshards
    for i in order:
        k = load.index(min(load))
        shards[k].append(i)
        load[k] += _weight(events[i])
    return [s for s in shards if s]


def _judge(shard):
    work = tlc.scratch('c16j_')
    tf = tlc.write_json(work, 'trace.json', [{k: e[k] for k in EVENT_KEYS[e['kind']]} for e in shard])
    res = tlc.run('Trace_FixedCol', 'SPECIFICATION Spec\n', dump=True, env={'TRACE_FILE': tf}, workdir=work, workers=2,
                  timeout=3000)
    if res.violated:
        raise tlc.MachineryError('trace spec violated ' + str(res.violated))
    verdicts = {st['tid']: st['verdict'] for st in res.states() if st['verdict'] != 'pending'}
    shutil.rmtree(work, ignore_errors=True)
    if len(verdicts) != len(shard):
        raise tlc.MachineryError('judge returned %d verdicts for %d events' % (len(verdicts), len(shard)))
    return res.distinct, res.generated, res.wall, [verdicts[i] for i in range(1, len(shard) + 1)]


def judge_events(events, nproc=8):
    """-> list of verdict strings parallel to events, and (distinct, generated) state counts."""
    if not events:
        return [], (0, 0)
    total = sum(_weight(e) for e in events)
    nshards = max(1, min(len(events), max(nproc, total // 12000)))
    shards = shard_events(events, nshards)
    with mp.Pool(min(nproc, len(shards))) as pool:
        res = pool.map(_judge, [[events[i] for i in s] for s in shards], chunksize=1)
    verdicts = [None] * len(events)
    dist = gen = 0
    for s, (d, g, _, vs) in zip(shards, res):
        dist += d
        gen += g
        for i, v in zip(s, vs):
            verdicts[i] = v
    return verdicts, (dist, gen)


def scenario_of(e, verdict):
    sc = {'fmt': e.get('fmt', 'pdb' if e['kind'] == 'pdbstruct' else 'gro'), 'sizes': e.get('sizes', [e.get('natoms', 0)]),
          'opts': e.get('opts', {}), 'verdict': verdict, 'sid': e.get('sid'), 'place': {}, 'bonds': []}
    if e['kind'] == 'atoms':
        m = re.match(r'atom (\d+):', verdict)
        if m:
            g = int(m.group(1))
            k = g - e['g0']
            sc['place'] = {str(g): e['atoms'][k]}
            sc['line'] = e['lines'][k] if k < len(e['lines']) else None
            sc['read_back'] = e['back'][k] if k < len(e['back']) else None
    elif e['kind'] == 'pdbstruct':
        sc['bonds'] = e['bonds'][:3000]
        sc['conect_head'] = e['conect'][:5]
        sc['read_sizes'] = e['read_sizes']
    elif e['kind'] in ('fpdb', 'fgro'):
        sc.update({'foreign': {k: e['opts'][k] for k in ('foreign', 'reader', 'seed', 'modelidx')}, 'text': e['text'], 'fmt': e['kind'][1:],
                   'read_sizes': e['read_sizes'], 'read_bonds': e['read_bonds'], 'atoms_read': e['back'][:60]})
    else:
        sc.update({k: e[k] for k in ('natoms', 'count_line', 'natomlines', 'nread')})
    if e.get('seq'):
        sc['seq'] = e['seq']
    if e.get('text') and e['kind'] not in ('fpdb', 'fgro'):
        sc['foreign'] = {k: e['opts'][k] for k in ('foreign', 'reader', 'seed', 'modelidx')}
        sc['text'] = e['text']
    if sc['opts'].get('shipped'):
        sc['shipped'] = sc['opts']['shipped']
    return sc


# ------------------------------------------------------------------------------------------- run
def run(tier, seed, ev, vd):
    quick = tier == 'quick'
    ev.rule = ('TAB: every combination of the boundary values of name / residue name / residue number / chain / insertion code / '
               'coordinate per format, and every (shape, hub next to a serial boundary, degree 0..6, partner choice); TRACE: every '
               'line of every written file. Non-trivial = atom case with at least one overflowing field, sys case whose hub or '
               'partner has a serial >= 9999 or degree >= 5 (CONECT continuation), judged slice of a file containing an atom '
               'with serial >= 10000 or bonds; TAB grow case with a value that does not fit the next narrower width or an overflowing '
               'field, judged slice of a GRO file of width other than 8 or with velocities, judged file that vermouth did not write; '
               'distinct by input.')
    ev.assumptions = ['TLC evaluates the operators correctly (strings with Len/SubSeq/\\o/Tail)',
                      'coordinates are generated inside the representable range -999.999..9999.999 of the format unit, off-grid '
                      'values at most 0.4 thousandths from a grid point, never a negative value that rounds to zero; the harness '
                      'passes the nearest thousandth to TLC and checks |x - read| <= 0.5e-3 itself (decimal rounding is outside TLC)',
                      'names and residue names contain no blanks, no ".", and an ASCII letter among the surviving characters '
                      '(the readers derive the element from the name); no alternate locations; no empty molecules',
                      'which end of an over-long text survives in a right-aligned text column (GRO atom name) is left open: both admissible',
                      'systems beyond the five-digit numbering are written without bonds; only their atoms are compared',
                      'readers are called with exclude=() (the default exclude of SOL is an input filter, not part of the round trip)',
                      'GRO files are written with coordinate widths 7..13 (write_gro precision 6..12); every coordinate and velocity fits '
                      'the width of its file (the reader takes the width from the first atom line); velocities have the width of the '
                      'coordinates and four decimals, as write_gro writes them (GROMACS itself writes high-precision velocities with '
                      'one more decimal in the same width: such files are not generated); names contain no "."; values of width 12 '
                      'and 13 are limited to +-1999999.999 (32-bit integers in TLC)',
                      'files that vermouth did not write go beyond the literal statement (which starts from a system in memory): the '
                      'reader is judged against the column tables of the spec (verdicts prefixed foreign-), only on records whose '
                      'meaning the PDB / GRO formats fix: unique increasing serial numbers, CONECT inside one molecule (a CONECT across '
                      'a TER makes the reader merge molecules: C10 reader layer), MODEL records all with ENDMDL, residue numbers inside '
                      'four columns, no "-0.000", three decimals; the judge answers "unspecified: ..." (machinery failure) otherwise. '
                      'Files whose atom numbers wrap (GRO at 100000) are read and judged but not written again: the writers list atoms '
                      'by atom id, so the order of such a system is unspecified',
                      'CIF: not covered by the statement (PDB or GRO, written and read back; no CIF writer exists, the anchors do not '
                      'name vermouth/pdb/cif.py): the CIF reader is left unbound',
                      'atom order of a system = molecule order, insertion order inside a molecule; atomid attributes, when present, increase']
    consts = tab_consts(tier)
    res = tlc.run('FixedCol', TAB_CFG, consts=consts, dump=True, timeout=2400)
    if res.violated:
        raise tlc.MachineryError('FixedCol model violates %s' % res.violated)
    ev.add_tlc('TAB FixedCol', res)
    ev.exhaustive = True
    states = [s for s in res.states() if not s['out']['pending']]
    if 2 * len(states) != res.distinct:
        raise tlc.MachineryError('dump has %d evaluated states, TLC reports %d states' % (len(states), res.distinct))
    shapes = Q_SHAPES if quick else T_SHAPES
    atom_cases = {'pdb': [], 'gro': []}
    sys_cases = {k: [] for k in range(len(shapes))}
    grow_cases = {(w, v): [] for w in WIDTHS for v in (False, True)}
    for s in states:
        c, o = s['case'], s['out']
        if c['kind'] == 'grow':
            grow_cases[(c['w'], bool(c['vel']))].append({'input': dict(o['input']), 'back': dict(o['back']), 'names': sorted(o['names']),
                                                         'over': sorted(o['over']), 'narrow': sorted(o['narrow']),
                                                         'sensitive': bool(o['sensitive']), 'line': o['line']})
            if o['narrow'] or o['over']:
                ev.nontrivial_case(['grow', c])
        elif c['kind'] == 'atom':
            atom_cases[c['fmt']].append({'input': dict(o['input']), 'back': dict(o['back']), 'names': sorted(o['names']),
                                         'over': sorted(o['over']), 'line': o['line']})
            if o['over']:
                ev.nontrivial_case(['atom', c])
        else:
            sc = {'hub': c['hub'], 'deg': c['deg'], 'mode': str(c['mode']), 'partners': list(o['partners']), 'mol': o['mol'],
                  'hubfield': o['hubfield'], 'hubserial': o['hubserial'], 'fits': o['fits'], 'pairs': sorted(map(list, o['pairs'])),
                  'lines': list(o['lines'])}
            if list(o['sizes']) != shapes[c['shape'] - 1]:
                raise tlc.MachineryError('shape table of the model and of the harness differ')
            sys_cases[c['shape'] - 1].append(sc)
            if max([o['hubserial']] + list(o['pserials'])) >= 9999 or len(o['partners']) >= 5:
                ev.nontrivial_case(['sys', c])
    if not atom_cases['pdb'] or not atom_cases['gro'] or not all(sys_cases.values()):
        raise tlc.MachineryError('vacuous TAB model')
    for key, cases in grow_cases.items():
        # vacuity (independent of the seed: decided by the TAB model): every width, with and without velocities, has values that do not
        # fit the next narrower width and records that no other width reads alike
        if not any(c['narrow'] for c in cases) or not any(c['sensitive'] for c in cases):
            raise tlc.MachineryError('vacuous TAB model: no decisive GRO width case for width %d, velocities %s' % key)
    ev.sample({'kind': 'TAB grow case (replayed): GRO line of coordinate width 12 with velocities',
               'case': next(a for a in grow_cases[(12, True)] if a['narrow'] and a['sensitive'])}, limit=6)
    ev.sample({'kind': 'TAB atom case (replayed)', 'case': next(a for a in atom_cases['pdb'] if len(a['over']) >= 2)})
    ev.sample({'kind': 'TAB sys case (replayed)', 'shape': shapes[1], 'case': next(s for s in sys_cases[1] if s['deg'] == 6 and s['hubserial'] > 9990)})

    rng = random.Random(seed * 7919 + 16)
    tasks = []
    # PDB systems: one per shape; the atom cases are dealt over the shapes in proportion to their size
    order = list(range(len(atom_cases['pdb'])))
    rng.shuffle(order)
    cap = [int(sum(s) * 0.9) for s in shapes]
    pos = 0
    for k, shape in enumerate(shapes):
        share = min(cap[k], -(-len(order) * sum(shape) // sum(map(sum, shapes))) + 1)
        mine = order[pos:pos + share]
        pos += share
        tasks.append({'sid': 'pdb-shape%d' % (k + 1), 'fmt': 'pdb', 'sizes': shape, 'seed': rng.randrange(1 << 30),
                      'cases': [(i, atom_cases['pdb'][i]['input']) for i in mine], 'expect': {i: atom_cases['pdb'][i] for i in mine},
                      'sys': sys_cases[k], 'fits': sys_cases[k][0]['fits']})
    if pos < len(order):
        raise tlc.MachineryError('not every PDB atom case could be placed')
    gshapes = GRO_SHAPES[tier]
    order = list(range(len(atom_cases['gro'])))
    rng.shuffle(order)
    pos = 0
    for k, shape in enumerate(gshapes):
        share = min(int(sum(shape) * 0.9), -(-len(order) * sum(shape) // sum(map(sum, gshapes))) + 1)
        mine = order[pos:pos + share]
        pos += share
        tasks.append({'sid': 'gro-shape%d' % (k + 1), 'fmt': 'gro', 'sizes': shape, 'seed': rng.randrange(1 << 30),
                      'cases': [(i, atom_cases['gro'][i]['input']) for i in mine], 'expect': {i: atom_cases['gro'][i] for i in mine}})
    if pos < len(order):
        raise tlc.MachineryError('not every GRO atom case could be placed')
    # small random systems: many molecules, all option combinations
    for k in range(24 if quick else 400):
        nm = rng.randint(1, 6)
        tasks.append({'sid': 'small%d' % k, 'fmt': rng.choice(['pdb', 'gro']), 'sizes': [rng.randint(1, 40) for _ in range(nm)],
                      'seed': rng.randrange(1 << 30), 'fits': True})
    tasks.sort(key=lambda t: -sum(t['sizes']) ** (2 if t['fmt'] == 'pdb' else 1))
    ship = [{'path': p} for p in shipped_files(tier)]
    # GRO column widths: every TAB grow case sits in the file of its (width, velocities); the eight files are read in two
    # processes, each reading four files of four different widths one after the other (and the first once more)
    def gfile(w, vel):
        cases = grow_cases[(w, vel)]
        return {'w': w, 'vel': vel, 'sizes': [len(cases) + 20, 15], 'seed': rng.randrange(1 << 30),
                'cases': [(i, c['input']) for i, c in enumerate(cases)], 'expect': dict(enumerate(cases))}
    seqs = [{'sid': 'groseq-tab1', 'files': [gfile(8, False), gfile(9, True), gfile(10, False), gfile(12, True)], 'order': [0, 1, 2, 3, 0]},
            {'sid': 'groseq-tab2', 'files': [gfile(12, False), gfile(10, True), gfile(9, False), gfile(8, True)], 'order': [0, 1, 2, 3, 0]}]
    for k in range(6 if quick else 60):
        nf = 3 + k % 3
        ws = [rng.choice((7, 8, 8, 9, 10, 11, 12, 13)) for _ in range(nf)]
        for j in range(1, nf):          # neighbours in the order of reading always differ in width
            while ws[j] == ws[j - 1]:
                ws[j] = rng.choice((7, 8, 9, 10, 11, 12, 13))
        seqs.append({'sid': 'groseq-rnd%d' % k, 'order': list(range(nf)) + [0],
                     'files': [{'w': w, 'vel': rng.random() < 0.5, 'sizes': [rng.randint(1, 30) for _ in range(rng.randint(1, 3))],
                                'seed': rng.randrange(1 << 30)} for w in ws]})
    # files that vermouth did not write
    foreign = []
    fams = ['hetatm', 'names', 'altloc', 'short', 'model1', 'model2', 'conect'] + ['random'] * (10 if quick else 150)
    for k, fam in enumerate(fams):
        fseed = rng.randrange(1 << 30)
        text, modelidx = foreign_pdb(fam, fseed)
        foreign.append({'sid': 'foreign-pdb-%s%d' % (fam, k), 'fmt': 'pdb', 'family': fam, 'seed': fseed, 'text': text, 'modelidx': modelidx,
                        'reader': 'func' if k % 2 == 0 else 'processor'})
    gfams = ['wrap', 'vel9box', 'wide', 'widevel'] + ['random'] * (6 if quick else 80)
    for k, fam in enumerate(gfams):
        fseed = rng.randrange(1 << 30)
        foreign.append({'sid': 'foreign-gro-%s%d' % (fam, k), 'fmt': 'gro', 'family': fam, 'seed': fseed, 'text': foreign_gro(fam, fseed),
                        'reader': 'func' if k % 2 == 0 else 'processor', 'prime': (0, 8, 6)[k % 3]})
    with mp.Pool(tlc.NCPU, maxtasksperchild=1) as pool:
        r1 = pool.map_async(run_system, tasks, chunksize=1)
        r2 = pool.map_async(run_shipped, ship, chunksize=1)
        r3 = pool.map_async(run_gro_seq, seqs, chunksize=1)
        r4 = pool.map_async(run_foreign, foreign, chunksize=1)
        results = r1.get() + r2.get()
        rseq, rfor = r3.get(), r4.get()
    # vacuity rules of the new families (fixed by the construction above, not by the seed)
    ngrow = sum(len(v) for v in grow_cases.values())
    if sum(r['nrep'] for r in rseq[:2]) < ngrow and not any(r['bad'] or any(e['readerr'] for e in r['events']) for r in rseq[:2]):
        raise tlc.MachineryError('GRO width cases: %d of %d TAB cases replayed' % (sum(r['nrep'] for r in rseq[:2]), ngrow))
    if sum(r['switches'] for r in rseq) < 8 + 2 * (len(seqs) - 2):
        raise tlc.MachineryError('GRO read sequences: too few reads after a file of another width')
    ev.extra['gro_width_cases_replayed'] = sum(r['nrep'] for r in rseq)
    ev.extra['gro_reads_in_sequences'] = sum(r['reads'] for r in rseq)
    ev.extra['gro_reads_after_another_width'] = sum(r['switches'] for r in rseq)
    ev.extra['foreign_files'] = {'pdb': len(fams), 'gro': len(gfams), 'rewritten_and_read_again': sum(r.get('rewritten', 0) for r in rfor)}
    results += rseq + rfor
    events = []
    skipped = []
    for r in results:
        events += r['events']
        ev.traces += r['nrep']
        ev.evaluations += r['nrep']
        if r.get('skipped'):
            skipped.append(r['skipped'])
        for kind, sc, detail in r['bad']:
            vd.violation(kind, sc, detail)
    ev.extra['systems_written_and_read'] = len([r for r in results if r['natoms']])
    ev.extra['atoms_written_and_read'] = sum(r['natoms'] for r in results)
    ev.extra['bonds_written'] = sum(r['nbonds'] for r in results)
    ev.extra['shipped_structures'] = len(ship)
    ev.extra['shipped_skipped'] = skipped
    verdicts, (dist, gen) = judge_events(events, nproc=8)
    ev.states += dist
    ev.transitions += gen
    ev.tlc_runs.append({'run': 'TRACE Trace_FixedCol', 'events': len(events), 'distinct_states': dist, 'states_generated': gen})
    reported = set()
    fstats = {}
    for e, v in zip(events, verdicts):
        ev.traces += 1
        ev.evaluations += len(e.get('atoms', ())) + len(e.get('conect', ())) + 1
        if v.startswith('unspecified'):
            raise tlc.MachineryError('generated file outside what is specified (%s): %s' % (e.get('sid'), v))
        if v != 'ok':
            key = (e.get('sid'), re.sub(r'\d+', '#', v))
            if key in reported:
                continue
            reported.add(key)
            vd.violation('trace-rejected', scenario_of(e, v), v)
        if e['kind'] in ('fpdb', 'fgro'):
            ev.nontrivial_case(['foreign', e['sid'], len(e['lines'])])
            fstats[e['opts']['foreign']] = fstats.get(e['opts']['foreign'], 0) + len(e['back'])
        elif e['kind'] == 'atoms' and e['fmt'] == 'gro' and (e['w'] != 8 or e['vel']):
            ev.nontrivial_case(['gro-width', e['sid'], e['g0']])
        if e['kind'] == 'atoms' and e['g0'] + len(e['atoms']) > 9999:
            ev.nontrivial_case(['slice', e['sid'], e['g0']])
        elif e['kind'] == 'pdbstruct' and e['bonds']:
            ev.nontrivial_case(['struct', e['sid'], len(e['bonds'])])
    # vacuity of the foreign families: TLC found atoms to compare in every fixed family (the text decides, not the generator)
    for fam in ('hetatm', 'names', 'altloc', 'short', 'model1', 'model2', 'conect', 'wrap', 'vel9box', 'wide', 'widevel'):
        if not fstats.get(fam) and vd.count() == 0:
            raise tlc.MachineryError('foreign family %s: no atom was read and judged' % fam)
    ev.extra['foreign_atoms_judged_per_family'] = fstats
    fe = next((e for e in events if e['kind'] == 'fpdb' and e['opts']['foreign'] == 'altloc'), None)
    if fe:
        ev.sample({'kind': 'foreign PDB file read by the real reader, text judged by TLC', 'lines': fe['lines'],
                   'read_sizes': fe['read_sizes'], 'read_bonds': fe['read_bonds'], 'atoms_read': len(fe['back']), 'verdict': 'ok'}, limit=6)
    small = next((e for e in events if e['kind'] == 'atoms' and len(e['atoms']) <= 3), None)
    if small:
        ev.sample({'kind': 'written+read slice judged by TLC', 'event': {k: small[k] for k in EVENT_KEYS['atoms']}, 'verdict': 'ok'})


# ------------------------------------------------------------------------------------------- replay / selftest
def _scenario_task(sc):
    sizes = sc['sizes']
    total = sum(sizes)
    atoms = [default_atom() for _ in range(total)]
    for g, a in sc.get('place', {}).items():
        atoms[int(g) - 1] = dict(default_atom(), **a)
    return sizes, atoms, sorted({(min(a, b), max(a, b)) for a, b in sc.get('bonds', [])})


def replay(sc):
    logging.disable(logging.CRITICAL)
    if sc.get('shipped') and not sc.get('place'):
        r = run_shipped({'path': os.path.join(REPO, sc['shipped'])})
        events = r['events']
    elif sc.get('foreign') and sc.get('text'):
        f = sc['foreign']
        fmt = 'gro' if sc.get('fmt') == 'gro' or (sc.get('opts') or {}).get('w') else 'pdb'
        print('file that vermouth did not write (%s, family %s, reader %s, modelidx %s):' % (fmt, f['foreign'], f['reader'], f['modelidx']))
        print(sc['text'])
        r = run_foreign({'sid': 'replay', 'fmt': fmt, 'family': f['foreign'], 'seed': f['seed'], 'text': sc['text'],
                         'modelidx': f['modelidx'], 'reader': f['reader'], 'prime': 0})
        events = r['events']
        print('read by the real reader: molecule sizes %r, bonds %r' % (events[0]['read_sizes'], events[0]['read_bonds']))
        for k, b in enumerate(events[0]['back'], 1):
            print('   atom %d: %r' % (k, b))
    elif sc.get('seq'):
        q = sc['seq']
        print('GRO files written with coordinate widths %r (velocities %r), read in this order in one process: %r'
              % ([x['w'] for x in q['files']], [x['vel'] for x in q['files']], q['order']))
        r = run_gro_seq({'sid': 'replay', 'files': q['files'], 'order': q['order']})
        events = r['events']
        for kind, _, detail in r['bad']:
            print(kind, detail)
    else:
        fmt = sc['fmt']
        sizes, atoms, bonds = _scenario_task(sc)
        opts = sc.get('opts') or {}
        system = build_system(fmt, sizes, atoms, bonds, opts)
        text, mols, readerr = write_and_read(fmt, system, opts, tlc.scratch('c16r_'))
        events = make_events('replay', fmt, sizes, atoms, bonds, text, mols, readerr, w=opts.get('w', 8), vel=opts.get('vel'))
        lines = [ln for ln in text.split('\n') if fmt == 'gro' or ln[:4] in ('ATOM', 'HETA')]
        if fmt == 'gro':
            lines = lines[2:]
        back = project_read(fmt, mols)[0] if mols is not None else []
        for g in sorted(map(int, sc.get('place', {}))):
            print('atom %d given to the writer: %r' % (g, atoms[g - 1]))
            print('   line written : %r' % (lines[g - 1] if g - 1 < len(lines) else None))
            print('   read back    : %r' % (back[g - 1] if g - 1 < len(back) else None))
        if readerr:
            print(readerr)
        if bonds:
            print('bonds written:', bonds[:20], '...' if len(bonds) > 20 else '')
            print('CONECT lines :', [ln for ln in text.split('\n') if ln.startswith('CONECT')][:10])
            print('bonds read   :', project_read(fmt, mols)[1][:20] if mols is not None else None)
    verdicts, _ = judge_events(events, nproc=4)
    for e, v in zip(events, verdicts):
        if v != 'ok':
            print('TLC verdict for %s event (g0=%s): %s' % (e['kind'], e.get('g0'), v))
    print('TLC judged %d events: %d rejected' % (len(events), sum(v != 'ok' for v in verdicts)))
    if 'expected' in sc:
        print('TLC expectation of the TAB case:', sc['expected'])
    return 0


def selftest(seed):
    """Binding demonstration: recorded files / read-back values are corrupted one field at a time; the judge must reject
    exactly the corrupted events and accept the untouched ones."""
    import copy
    logging.disable(logging.CRITICAL)
    rng = random.Random(seed)
    base = []
    for fmt in ('pdb', 'gro'):
        r = run_system({'sid': 'self-' + fmt, 'fmt': fmt, 'sizes': [7, 5], 'seed': rng.randrange(1 << 30), 'fits': True,
                        'opts': {'writer': 'string', 'reader': 'func'}})
        assert not r['bad'], r['bad']
        base += r['events']
    pa = next(e for e in base if e['kind'] == 'atoms' and e['fmt'] == 'pdb')
    ga = next(e for e in base if e['kind'] == 'atoms' and e['fmt'] == 'gro')
    ps = next(e for e in base if e['kind'] == 'pdbstruct')
    gs = next(e for e in base if e['kind'] == 'grostruct')
    assert ps['bonds'] and ps['conect']
    tampered = []

    def tamper(e, label, fn):
        c = copy.deepcopy(e)
        fn(c)
        c['label'] = label
        tampered.append(c)
    tamper(pa, 'read-back residue number +1', lambda c: c['back'][3].__setitem__('resid', c['back'][3]['resid'] + 1))
    tamper(pa, 'line shifted by one column', lambda c: c['lines'].__setitem__(2, c['lines'][2][:22] + ' ' + c['lines'][2][22:]))
    tamper(pa, 'serial of one line off by one (TER not counted)',
           lambda c: c['lines'].__setitem__(8, c['lines'][8][:6] + '%5d' % (int(c['lines'][8][6:11]) - 1) + c['lines'][8][11:]))
    tamper(pa, 'read-back atom in the wrong molecule', lambda c: c['back'][7].__setitem__('mol', 1))
    tamper(pa, 'read-back x coordinate off by 0.001', lambda c: c['back'][0].__setitem__('x', c['back'][0]['x'] + 1))
    tamper(ga, 'GRO read-back name changed', lambda c: c['back'][1].__setitem__('name', c['back'][1]['name'] + 'Q'))
    tamper(ga, 'GRO line shifted', lambda c: c['lines'].__setitem__(4, ' ' + c['lines'][4]))
    tamper(ps, 'a bond lost on read', lambda c: c['read_bonds'].pop())
    tamper(ps, 'CONECT names a wrong partner', lambda c: c['conect'].__setitem__(0, c['conect'][0][:11] + '%5d' % 12))
    tamper(ps, 'molecules merged on read', lambda c: c.__setitem__('read_sizes', [12]))
    tamper(ps, 'first TER missing in the layout', lambda c: c['layout'].pop(1))
    tamper(gs, 'GRO atom count line wrong', lambda c: c.__setitem__('count_line', '   13'))
    # a fabricated 10005-atom file: five-wide CONECT fields are exact, four-wide ones (the historical defect) are not
    big = {'kind': 'pdbstruct', 'sid': 'self-big', 'sizes': [10005], 'bonds': [[9999, 10001]], 'conect': ['CONECT 999910001'],
           'layout': [{'rec': 'ATOM', 'n': 10005}, {'rec': 'TER', 'n': 1}, {'rec': 'CONECT', 'n': 1}, {'rec': 'END', 'n': 1}],
           'ters': [{'line': 'TER   10006      ALA A   1 ', 'resname': 'ALA', 'chain': 'A', 'resid': 1, 'icode': ''}],
           'read_sizes': [10005], 'read_bonds': [[9999, 10001]], 'readerr': ''}
    base.append(big)
    tamper(big, 'CONECT serials cut to four digits', lambda c: c.__setitem__('conect', ['CONECT 9999 0001']))
    tamper(big, 'TER serial not counted', lambda c: c['ters'][0].__setitem__('line', 'TER   10005      ALA A   1 '))
    # --- GRO column widths: a file of width 10 with velocities, read after a file of width 8
    rs = run_gro_seq({'sid': 'self-seq', 'order': [0, 1],
                      'files': [{'w': 8, 'vel': False, 'sizes': [4], 'seed': rng.randrange(1 << 30)},
                                {'w': 10, 'vel': True, 'sizes': [6, 3], 'seed': rng.randrange(1 << 30)}]})
    assert not rs['bad'], rs['bad']
    base += rs['events']
    wa = next(e for e in rs['events'] if e['kind'] == 'atoms' and e['w'] == 10)
    ws = next(e for e in rs['events'] if e['kind'] == 'grostruct' and e['w'] == 10)
    tamper(wa, 'width-10 file: read-back vx off by 0.0001', lambda c: c['back'][2].__setitem__('vx', c['back'][2]['vx'] + 1))
    tamper(wa, 'width-10 file: read-back z off by 0.001', lambda c: c['back'][5].__setitem__('z', c['back'][5]['z'] - 1))
    tamper(wa, 'width-10 file judged as if it were width 9', lambda c: c.__setitem__('w', 9))
    tamper(wa, 'width-10 file with velocities judged as if it had none', lambda c: c.__setitem__('vel', False))
    tamper(wa, 'width-10 file: one velocity column written 9 wide', lambda c: c['lines'].__setitem__(1, c['lines'][1][:50] + c['lines'][1][51:]))
    tamper(ws, 'first atom line shows another width', lambda c: c.__setitem__('first_line', rs['events'][1]['lines'][0]))
    # --- files vermouth did not write
    ftext, fidx = foreign_pdb('altloc', 5)
    fa = run_foreign({'sid': 'self-falt', 'fmt': 'pdb', 'family': 'altloc', 'seed': 5, 'text': ftext, 'modelidx': fidx, 'reader': 'func'})['events']
    ftext, fidx = foreign_pdb('model2', 6)
    fm = run_foreign({'sid': 'self-fmod', 'fmt': 'pdb', 'family': 'model2', 'seed': 6, 'text': ftext, 'modelidx': fidx, 'reader': 'processor'})['events']
    ftext, fidx = foreign_pdb('conect', 7)
    fc = run_foreign({'sid': 'self-fcon', 'fmt': 'pdb', 'family': 'conect', 'seed': 7, 'text': ftext, 'modelidx': fidx, 'reader': 'func'})['events']
    fg = run_foreign({'sid': 'self-fgro', 'fmt': 'gro', 'family': 'widevel', 'seed': 8, 'text': foreign_gro('widevel', 8), 'reader': 'func', 'prime': 0})['events']
    base += fa + fm + fc + fg
    assert fa[0]['kind'] == 'fpdb' and len(fa) > 1 and fc[0]['read_bonds'] and fg[0]['kind'] == 'fgro' and len(fg) > 1
    tamper(fa[0], 'foreign PDB: an atom of alternate location B kept', lambda c: c['back'].insert(4, dict(c['back'][3], altloc='B')))
    tamper(fa[0], 'foreign PDB: bond to the dropped alternate location invented', lambda c: c['read_bonds'].append([1, 3]))
    tamper(fa[0], 'foreign PDB: name read from the wrong columns', lambda c: c['back'][1].__setitem__('name', 'A'))
    tamper(fa[0], 'foreign PDB: second writing differs', lambda c: c['rewrite2'].__setitem__(0, c['rewrite2'][0] + ' '))
    tamper(fm[0], 'foreign PDB: model 1 returned when model 2 was asked for', lambda c: c.__setitem__('modelidx', 1))
    tamper(fm[0], 'foreign PDB: chains merged (TER ignored)', lambda c: c.__setitem__('read_sizes', [sum(c['read_sizes'])]))
    tamper(fm[0], 'foreign PDB: negative / large residue number changed', lambda c: c['back'][0].__setitem__('resid', c['back'][0]['resid'] + 1))
    tamper(fc[0], 'foreign PDB: continuation CONECT line lost', lambda c: c['read_bonds'].pop())
    tamper(fc[0], 'foreign PDB: element column ignored', lambda c: c['back'][0].__setitem__('elem', 'X'))
    tamper(fg[0], 'foreign GRO: velocity read with another width', lambda c: c['back'][3].__setitem__('vy', c['back'][3]['vy'] // 10))
    tamper(fg[0], 'foreign GRO: box line read as three numbers', lambda c: c.__setitem__('nbox', 3))
    tamper(fg[0], 'foreign GRO: an atom lost', lambda c: c['back'].pop())
    events = base + tampered
    verdicts, _ = judge_events(events, nproc=4)
    ok_base = all(v == 'ok' for v in verdicts[:len(base)])
    print('selftest C16: %d untouched events judged ok: %s' % (len(base), ok_base))
    fails = 0
    for e, v in zip(tampered, verdicts[len(base):]):
        print('  tampered [%s] -> %s' % (e['label'], v))
        fails += v == 'ok'
    assert ok_base, [v for v in verdicts[:len(base)] if v != 'ok']
    assert fails == 0, 'a corrupted event was accepted'
    print('selftest C16: all %d corrupted events rejected' % len(tampered))
    return 0
