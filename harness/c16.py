"""C16 - structure files round-trip: what is written is read back.

spec/FixedColOps.tla     column tables (PDB ATOM/TER/CONECT, GRO atom line), Render / Read, serial numbering, TER split
spec/FixedCol.tla        TAB model over boundary cases, operational = declarative, round-trip laws          (TAB)
spec/Trace_FixedCol.tla  TLC judges files written and read back by the real code, line by line              (TRACE)

spec -> code: every atom case of the TAB model (attribute values at and beyond the column widths) is placed on an
atom of a real vermouth System, every sys case (hub atom next to a serial-number boundary with 0..6 bonds) becomes
bonds of that System; the System is written by the real writer (write_pdb_string / write_pdb / write_gro), read by the
real reader (read_pdb / PDBInput / read_gro / GROInput) and the values read back must equal TLC's `out`.
code -> spec: the text of every written file (all lines: ATOM, TER, CONECT, END / GRO lines) together with the values
read back goes to TLC, which slices the text with the column tables of the spec and decides; this includes the filler
atoms (random values), systems of 10^4 / 10^5 atoms and the PDB structures shipped with vermouth.

Python only: builds Systems, splits text into lines, converts floats to integer thousandths (tolerance stated in
`to_thousandths`), and checks the decimal rounding itself (|x - read| <= 0.5e-3 format units, DESIGN.md limit)."""
import glob
import logging
import multiprocessing as mp
import os
import random
import re
import shutil
import string

from . import common, tlc
from .common import REPO

PID = 'C16'
SCALE = {'pdb': 10000, 'gro': 1000}      # nm -> thousandths of the format unit (Angstrom / nm)
BADV = -999999999
CHUNK = 1000
LETTERS = string.ascii_uppercase

TAB_CFG = ("SPECIFICATION Spec\nINVARIANT OtherFieldsUnaffected\nINVARIANT RoundTripWithinWidth\nINVARIANT OpIsDecl\n"
           "INVARIANT TruncationKeepsTheDocumentedEnd\nINVARIANT ConectExactUpTo99999\nINVARIANT TerSplitsMolecules\n"
           "INVARIANT PartnersInSameMolecule\n")

Q_SHAPES = [[10005], [9999, 6], [9998, 3, 6], [4000, 5998, 7]]
T_SHAPES = Q_SHAPES + [[5000] * 19 + [4980],            # last atom has serial 99999, its TER 100000
                       [5000] * 19 + [4981],            # last atom has serial 100000: beyond five digits
                       [9999] + [5000] * 17 + [4970, 3],  # TER at 10000, 20 molecules, last serial 99991
                       [30000]]
GRO_SHAPES = {'quick': [[10005], [1200, 800]], 'thorough': [[100003], [50000, 49999], [10005], [1200, 800], [3, 99996]]}


def tla_set(vals):
    return tlc.tlaval.to_tla(set(vals))


def tab_consts(tier):
    if tier == 'quick':
        return {'Names': tla_set(["C", "CA", "HB1", "HD21", "HD211", "ABCDE1"]),
                'ResNames': tla_set(["A", "ALA", "ALAN", "ALANI", "ALANIN"]),
                'ResIds': '{-1000,-999,-1,1,9999,10000,99999,100000}',
                'Chains': tla_set(["", "A", "AB"]), 'ICodes': tla_set(["", "B"]),
                'Coords': '<<-999999,-1000,-1,0,999,1000,9999999>>',
                'Serials': '{1,100000}', 'Shapes': tlc.tlaval.to_tla(Q_SHAPES), 'Degrees': '0..6', 'Window': '2'}
    return {'Names': tla_set(["C", "CA", "HB1", "HD21", "HD211", "ABCDE1", "1HB2", "O5'", "C1*", "HD2111"]),
            'ResNames': tla_set(["A", "AL", "ALA", "HOH", "ALAN", "ALANI", "ALANIN", "DPPCXY"]),
            'ResIds': '{-10000,-9999,-1000,-999,-1,0,1,9,10,999,9999,10000,99999,100000,100001,123456}',
            'Chains': tla_set(["", "A", "Z", "AB"]), 'ICodes': tla_set(["", "B"]),
            'Coords': '<<-999999,-999998,-1000,-999,-1,0,1,999,1000,9999999>>',
            'Serials': '{1,10000,100000,100001}', 'Shapes': tlc.tlaval.to_tla(T_SHAPES), 'Degrees': '0..6', 'Window': '2'}


# ------------------------------------------------------------------------------------------- input generation
def _has_letter(s):
    return any(c in string.ascii_letters for c in s)


def name_ok(n):
    """Names the readers can take an element from after any admissible truncation (4 or 5 leading / trailing chars)."""
    return n and all(_has_letter(p) for p in (n[:4], n[-4:], n[:5], n[-5:]))


def random_name(rng):
    while True:
        n = ''.join(rng.choice(LETTERS + "0123456789'*") for _ in range(rng.choice([1, 2, 2, 3, 3, 4, 4, 5, 6, 7])))
        if name_ok(n):
            return n


RESIDS = [-10000, -9999, -1000, -999, -100, -1, 0, 1, 9, 10, 99, 100, 999, 1000, 9999, 10000, 10001, 99999, 100000,
          100001, 123456, 1000000]
COORDS = [-999999, -999998, -100000, -10000, -1000, -999, -1, 0, 1, 999, 1000, 9999, 10000, 99999, 100000, 999999,
          1000000, 9999998, 9999999]


def random_atom(rng):
    """Attribute values of a filler atom: a mix of boundary values and ordinary ones (all inside what C16 specifies:
    names/residue names without blanks, coordinates inside the representable range -999.999 .. 9999.999)."""
    a = {'name': random_name(rng),
         'resname': ''.join(rng.choice(LETTERS + '0123456789') for _ in range(rng.choice([1, 2, 3, 3, 3, 4, 5, 6]))),
         'resid': rng.choice(RESIDS) if rng.random() < 0.3 else rng.randint(-1200, 120000),
         'chain': rng.choice(['', 'A', 'B', 'Z', 'AB', '1']), 'icode': rng.choice(['', '', '', 'A', 'C']),
         'elem': rng.choice(['', '', 'C', 'N', 'CL', 'XYZ'])}
    for ax in 'xyz':
        a[ax] = rng.choice(COORDS) if rng.random() < 0.3 else rng.randint(-999999, 9999999)
    if rng.random() < 0.3:
        # off-grid coordinate: the written value must be the nearest thousandth (offset strictly inside the cell)
        a['d'] = [0.0 if (a[ax] == 0) else rng.uniform(-0.4, 0.4) for ax in 'xyz']
        # stay inside the representable range
        a['d'] = [min(d, 0.0) if a[ax] >= 9999999 else (max(d, 0.0) if a[ax] <= -999999 else d) for d, ax in zip(a['d'], 'xyz')]
    return a


def default_atom():
    return {'name': 'CA', 'resname': 'ALA', 'resid': 1, 'chain': 'A', 'icode': '', 'elem': '', 'x': 0, 'y': 0, 'z': 0}


# ------------------------------------------------------------------------------------------- real code
def build_system(fmt, sizes, atoms, bonds, opts):
    """Real vermouth System: molecule k has sizes[k] atoms (in this order); bonds are 1-based global atom indices."""
    import numpy as np
    from vermouth.system import System
    from vermouth.molecule import Molecule
    scale = float(SCALE[fmt])
    system = System()
    keyof = {}
    g = 0
    for n in sizes:
        mol = Molecule()
        scheme = opts.get('keys', 'seq')
        if scheme == 'seq':
            keys = range(n)
        elif scheme == 'offset':
            keys = range(1000, 1000 + 3 * n, 3)
        else:                       # decreasing node keys: the order of a molecule is its insertion order
            keys = range(n - 1, -1, -1)
        # 'perm': the nodes are INSERTED in reverse order while the atom ids still increase in the intended order;
        # both writers list atoms by atom id (as the topology does), so the written order is the intended one and CONECT must follow it
        perm = opts.get('atomid') == 'perm'
        plan = [(g + t + 1, key) for t, key in enumerate(keys)]
        g += n
        for gg, key in (reversed(plan) if perm else plan):
            a = atoms[gg - 1]
            d = a.get('d', (0.0, 0.0, 0.0))
            attrs = {'atomname': a['name'], 'resname': a['resname'], 'resid': a['resid'],
                     'position': np.array([(a['x'] + d[0]) / scale, (a['y'] + d[1]) / scale, (a['z'] + d[2]) / scale])}
            if a['chain'] != '' or not opts.get('omit_empty'):
                attrs['chain'] = a['chain']
            if a['icode'] != '' or not opts.get('omit_empty'):
                attrs['insertion_code'] = a['icode']
            if a['elem'] != '' or not opts.get('omit_empty'):
                attrs['element'] = a['elem']
            if opts.get('atomid'):
                attrs['atomid'] = 7 + 2 * gg
            if opts.get('vel'):
                attrs['velocity'] = np.array([0.1, -0.2, 0.3])
            mol.add_node(key, **attrs)
            keyof[gg] = key
        system.add_molecule(mol)
    cum = [0]
    for n in sizes:
        cum.append(cum[-1] + n)
    mi = 0
    for i, j in sorted(bonds):
        while i > cum[mi + 1]:
            mi += 1
        if not (cum[mi] < j <= cum[mi + 1]):
            raise tlc.MachineryError('harness generated a bond between molecules')
        system.molecules[mi].add_edge(keyof[i], keyof[j])
    return system


def to_thousandths(value, scale):
    """float (nm) -> integer thousandths of the format unit; a value that is not within 1e-6 of an integer number of
    thousandths (the reader returned something that was never in a %.3f field) becomes BADV."""
    t = value * scale
    if not (-2e9 < t < 2e9):
        return BADV
    m = round(t)
    return int(m) if abs(t - m) <= 1e-6 * max(1.0, abs(t) / 1e3) else BADV


def _int32(v):
    return int(v) if isinstance(v, (int,)) and -2147483648 <= v <= 2147483647 else BADV


def _txt(v):
    return v if isinstance(v, str) else repr(v)


def _write(fmt, system, opts, path):
    if fmt == 'pdb':
        from vermouth.pdb import pdb
        if opts.get('writer') == 'file':
            pdb.write_pdb(system, path, defer_writing=False)
            with open(path) as fh:
                return fh.read()
        text = pdb.write_pdb_string(system)
        with open(path, 'w') as fh:
            fh.write(text)
        return text
    from vermouth.gmx import gro
    gro.write_gro(system, path, defer_writing=False)
    with open(path) as fh:
        return fh.read()


def _primer_gro(gro, precision, work):
    import numpy as np
    from vermouth.system import System
    from vermouth.molecule import Molecule
    mol = Molecule()
    for k in range(3):
        mol.add_node(k, atomname='C%d' % k, resname='PRM', resid=1 + k, position=np.array([0.125 * k, -1.5, 2.25]))
    system = System()
    system.add_molecule(mol)
    path = os.path.join(work, 'primer_%d.gro' % os.getpid())
    gro.write_gro(system, path, precision=precision, defer_writing=False)
    back = gro.read_gro(path, exclude=())
    os.remove(path)
    got = [tuple(round(float(x), 3) for x in back.nodes[n]['position']) for n in back.nodes]
    if got != [(0.0, -1.5, 2.25), (0.125, -1.5, 2.25), (0.25, -1.5, 2.25)]:
        raise ValueError('primer file read back as %r' % (got,))


def write_and_read(fmt, system, opts, work):
    """-> (text, molecules read back | None, error text)."""
    import vermouth
    from vermouth.system import System
    path = os.path.join(work, 'sys_%d.%s' % (os.getpid(), fmt))
    try:
        text = _write(fmt, system, opts, path)
    except Exception as exc:        # the writer must take every system C16 specifies
        return '', None, 'writer raised ' + repr(exc)[:200]
    if fmt == 'pdb':
        from vermouth.pdb import pdb
        try:
            if opts.get('reader') == 'processor':
                out = System()
                vermouth.processors.PDBInput(path).run_system(out)
                mols = list(out.molecules)
            else:
                mols = list(pdb.read_pdb(path, exclude=()))
        except Exception as exc:    # the reader must take every file the writer produced
            return text, None, 'reader raised ' + repr(exc)[:200]
    else:
        from vermouth.gmx import gro
        if opts.get('primer'):
            # history: the same process first reads a GRO file written with ANOTHER coordinate column width (write_gro precision = width - 1; values that fit);
            # nothing of that read may stick to the reader
            try:
                _primer_gro(gro, opts['primer'], work)
            except Exception as exc:
                return text, None, 'reader raised on a file written by write_gro(precision=%d): %r' % (opts['primer'], exc)
        try:
            if opts.get('reader') == 'processor':
                from vermouth.processors.gro_reader import GROInput
                out = System()
                GROInput(path).run_system(out)
                mols = list(out.molecules)
            else:
                mols = [gro.read_gro(path, exclude=())]
        except Exception as exc:
            return text, None, 'reader raised ' + repr(exc)[:200]
    os.remove(path)
    return text, mols, ''


def project_read(fmt, mols):
    """What the reader returned, atom by atom in reading order, and the bonds as global 1-based index pairs."""
    scale = float(SCALE[fmt])
    back, bonds, sizes, pos = [], [], [], []
    off = 0
    for mi, mol in enumerate(mols, 1):
        where = {}
        for k, (key, d) in enumerate(mol.nodes(data=True), 1):
            where[key] = off + k
            p = d.get('position', (float('nan'),) * 3)
            back.append({'serial': _int32(d.get('atomid')), 'name': _txt(d.get('atomname')), 'resname': _txt(d.get('resname')),
                         'resid': _int32(d.get('resid')), 'chain': _txt(d.get('chain', '')),
                         'icode': _txt(d.get('insertion_code', '')),
                         'x': to_thousandths(float(p[0]), scale), 'y': to_thousandths(float(p[1]), scale),
                         'z': to_thousandths(float(p[2]), scale), 'mol': mi})
            pos.append((float(p[0]), float(p[1]), float(p[2])))
        for a, b in mol.edges:
            bonds.append(sorted((where[a], where[b])))
        sizes.append(len(mol))
        off += len(mol)
    return back, sorted(bonds), sizes, pos


def make_events(sid, fmt, sizes, atoms, bonds, text, mols, readerr):
    """Split the written text and the read-back values into events for Trace_FixedCol."""
    lines = text.split('\n')
    if mols is not None:
        back, rbonds, rsizes, _ = project_read(fmt, mols)
    else:
        back, rbonds, rsizes = [], [], []
    attrs = [{k: a[k] for k in ('name', 'resname', 'resid', 'chain', 'icode', 'elem', 'x', 'y', 'z')} for a in atoms]
    events = []
    if fmt == 'pdb':
        recs = [ln[:6].strip() for ln in lines]
        atom_lines = [ln for ln, r in zip(lines, recs) if r in ('ATOM', 'HETATM')]
        layout = []
        for r in recs:
            if layout and layout[-1]['rec'] == r:
                layout[-1]['n'] += 1
            else:
                layout.append({'rec': r, 'n': 1})
        ters = []
        g = 0
        ter_lines = [ln for ln, r in zip(lines, recs) if r == 'TER']
        for k, ln in enumerate(ter_lines):
            g = sum(sizes[:k + 1]) if k < len(sizes) else len(atoms)
            a = attrs[g - 1]
            ters.append({'line': ln, 'resname': a['resname'], 'chain': a['chain'], 'resid': a['resid'], 'icode': a['icode']})
        if readerr.startswith('writer'):
            layout = []
        events.append({'kind': 'pdbstruct', 'sid': sid, 'sizes': sizes, 'bonds': [list(b) for b in bonds], 'layout': layout,
                       'ters': ters, 'conect': [ln for ln, r in zip(lines, recs) if r == 'CONECT'],
                       'read_sizes': rsizes, 'read_bonds': rbonds, 'readerr': readerr})
        gsizes = sizes
    else:
        body = lines[2:]
        while body and body[-1] == '':
            body.pop()
        atom_lines = body[:-1]          # the last line is the box
        events.append({'kind': 'grostruct', 'sid': sid, 'natoms': len(atoms), 'count_line': lines[1] if len(lines) > 1 else '',
                       'natomlines': len(atom_lines), 'nread': len(back), 'readerr': readerr})
        gsizes = [len(atoms)]
    for g0 in range(0, len(atoms), CHUNK):
        events.append({'kind': 'atoms', 'sid': sid, 'fmt': fmt, 'sizes': gsizes, 'g0': g0 + 1, 'atoms': attrs[g0:g0 + CHUNK],
                       'lines': atom_lines[g0:g0 + CHUNK], 'back': back[g0:g0 + CHUNK], 'readerr': readerr})
    return events


def precision_check(fmt, atoms, mols):
    """DESIGN.md limit: decimal rounding is checked here, not by TLC: |x - read| <= 0.5e-3 format units."""
    import numpy as np
    if mols is None:
        return None
    scale = float(SCALE[fmt])
    want = np.array([[(a['x'] + a.get('d', (0, 0, 0))[0]), (a['y'] + a.get('d', (0, 0, 0))[1]),
                      (a['z'] + a.get('d', (0, 0, 0))[2])] for a in atoms]) / 1000.0
    got = np.array([d['position'] for mol in mols for _, d in mol.nodes(data=True)]) * (scale / 1000.0)
    if got.shape != want.shape:
        return None                    # reported by the judge (atom count)
    err = np.abs(got - want)
    err = np.where(np.isnan(err), np.inf, err)
    worst = int(np.argmax(err.max(axis=1)))
    if err[worst].max() > 0.5e-3 + 1e-9:
        return worst + 1, float(err[worst].max())
    return None


# ------------------------------------------------------------------------------------------- one system
def _opts(rng, fmt):
    return {'keys': rng.choice(['seq', 'offset', 'rev']), 'atomid': rng.choice([False, False, 'inc', 'perm']), 'omit_empty': rng.random() < 0.5,
            'writer': rng.choice(['string', 'file']), 'reader': rng.choice(['func', 'processor']),
            'vel': fmt == 'gro' and rng.random() < 0.3, 'primer': rng.choice([0, 0, 8, 9, 11]) if fmt == 'gro' else 0}


def filler_bonds(rng, sizes, bonds):
    """Within molecules: stretches of chain bonds, short-range extra bonds, and a few atoms of degree 5..9."""
    off = 0
    for n in sizes:
        if n >= 2:
            start = rng.randint(1, max(1, n - 1))
            for i in range(start, min(n, start + rng.randint(1, 400))):
                bonds.add((off + i, off + i + 1))
            for _ in range(min(60, n)):
                i = rng.randint(1, n)
                j = min(n, max(1, i + rng.randint(-40, 40)))
                if i != j:
                    bonds.add((off + min(i, j), off + max(i, j)))
            hub = rng.randint(1, n)
            for j in rng.sample(range(1, n + 1), min(n, rng.randint(5, 9))):
                if j != hub:
                    bonds.add((off + min(hub, j), off + max(hub, j)))
        off += n


def run_system(task):
    """Build, write, read, project one system; compare the TAB expectations placed in it.  Runs in a worker."""
    logging.disable(logging.CRITICAL)
    fmt, sizes, seed = task['fmt'], task['sizes'], task['seed']
    rng = random.Random(seed)
    total = sum(sizes)
    atoms = [None] * total
    cases = task.get('cases', [])
    slots = rng.sample(range(total), len(cases))
    placed = {}
    for slot, (idx, inp) in zip(slots, cases):
        atoms[slot] = {'name': inp['name'], 'resname': inp['resname'], 'resid': inp['resid'], 'chain': inp['chain'],
                       'icode': inp['icode'], 'elem': inp['elem'], 'x': inp['x'], 'y': inp['y'], 'z': inp['z']}
        placed[slot] = idx
    for i in range(total):
        if atoms[i] is None:
            atoms[i] = random_atom(rng) if not task.get('plain') else default_atom()
    bonds = set()
    for sc in task.get('sys', []):
        for p in sc['partners']:
            bonds.add((min(sc['hub'], p), max(sc['hub'], p)))
    if task.get('fits') and fmt == 'pdb':
        filler_bonds(rng, sizes, bonds)
    bonds = sorted(bonds)
    opts = task.get('opts') or _opts(rng, fmt)
    work = tlc.scratch('c16w_')
    system = build_system(fmt, sizes, atoms, bonds, opts)
    text, mols, readerr = write_and_read(fmt, system, opts, work)
    events = make_events(task['sid'], fmt, sizes, atoms, bonds, text, mols, readerr)
    for e in events:
        e['opts'] = opts
    bad, nrep = [], 0
    if mols is not None:
        back, rbonds, rsizes, _ = project_read(fmt, mols)
        rb = {tuple(b) for b in rbonds}
        if len(back) == total:
            for slot, idx in placed.items():
                exp = task['expect'][idx]
                got = {k: back[slot][k] for k in ('name', 'resname', 'resid', 'chain', 'icode', 'x', 'y', 'z')}
                nrep += 1
                ok = all(got[k] == exp['back'][k] for k in got if k != 'name') and got['name'] in exp['names']
                if not ok:
                    bad.append(('replay-mismatch', {'fmt': fmt, 'sizes': sizes, 'place': {str(slot + 1): atoms[slot]}, 'bonds': [],
                                                    'opts': opts, 'expected': exp['back'], 'got': got},
                                'atom case read back as %r, TLC expects %r' % (got, exp['back'])))
            for sc in task.get('sys', []):
                nrep += 1
                hub = sc['hub']
                why = None
                if back[hub - 1]['serial'] != int(sc['hubfield']):
                    why = 'hub serial read back as %r, TLC expects field %r' % (back[hub - 1]['serial'], sc['hubfield'])
                elif sc['fits'] and back[hub - 1]['mol'] != sc['mol']:
                    why = 'hub read into molecule %r, TLC expects %r' % (back[hub - 1]['mol'], sc['mol'])
                elif sc['fits']:
                    missing = [p for p in sc['partners'] if (min(hub, p), max(hub, p)) not in rb]
                    if missing:
                        why = 'bonds hub %d - %r not read back (TLC: CONECT pairs %r)' % (hub, missing, sc['pairs'])
                if why:
                    bad.append(('replay-mismatch', {'fmt': fmt, 'sizes': sizes, 'place': {}, 'opts': opts,
                                                    'bonds': [[min(hub, p), max(hub, p)] for p in sc['partners']],
                                                    'sys_case': sc}, why))
        pc = precision_check(fmt, atoms, mols)
        if pc:
            g, err = pc
            bad.append(('coordinate-precision', {'fmt': fmt, 'sizes': sizes, 'place': {str(g): atoms[g - 1]}, 'bonds': [], 'opts': opts},
                        'atom %d: coordinate read back %.6f away from the value written (> 0.5e-3)' % (g, err)))
    shutil.rmtree(work, ignore_errors=True)
    return {'events': events, 'bad': bad, 'nrep': nrep, 'natoms': total, 'nbonds': len(bonds)}


# ------------------------------------------------------------------------------------------- shipped structures
def shipped_files(tier):
    files = sorted(glob.glob(os.path.join(REPO, 'vermouth', 'tests', 'data', '**', '*.pdb'), recursive=True))
    files = [f for f in files if os.path.getsize(f) < 4_000_000]
    if tier == 'quick':
        keep = [f for f in files if os.path.basename(f) in ('1UBQ.pdb', '3i40.pdb')][:2]
        return keep or files[:2]
    return files


def run_shipped(task):
    """A structure shipped with vermouth is read by the real reader; the in-memory system is then written as PDB and as
    GRO, read back and judged like a generated one.  Coordinates are snapped to the thousandth of the target format
    (a PDB coordinate ending in 5 in its third decimal is a rounding tie in GRO; -0.000 is a tie in sign)."""
    logging.disable(logging.CRITICAL)
    import numpy as np
    from vermouth.pdb import pdb
    from vermouth.system import System
    path = task['path']
    try:
        mols = [m for m in pdb.read_pdb(path, exclude=()) if len(m)]
    except Exception as exc:      # not this property's business (input parsing of foreign files)
        return {'events': [], 'bad': [], 'nrep': 0, 'natoms': 0, 'nbonds': 0, 'skipped': '%s: %r' % (path, exc)}
    for m in mols:
        ids = [d.get('atomid') for _, d in m.nodes(data=True)]
        if any(b < a for a, b in zip(ids, ids[1:])):
            return {'events': [], 'bad': [], 'nrep': 0, 'natoms': 0, 'nbonds': 0,
                    'skipped': '%s: atom numbers not increasing inside a molecule (order of the system unspecified)' % path}
    out = {'events': [], 'bad': [], 'nrep': 0, 'natoms': 0, 'nbonds': 0}
    work = tlc.scratch('c16s_')
    for fmt in ('pdb', 'gro'):
        scale = float(SCALE[fmt])
        system = System()
        atoms, bonds, sizes = [], [], []
        off = 0
        ok = True
        for m in mols:
            c = m.copy()
            where = {}
            for k, (key, d) in enumerate(c.nodes(data=True), 1):
                t = [int(round(float(v) * scale)) for v in d['position']]
                if not all(-999999 <= v <= 9999999 for v in t) or not name_ok(d.get('atomname', '')) or \
                        ' ' in d.get('resname', '') or not d.get('resname'):
                    ok = False
                d['position'] = np.array([v / scale for v in t])
                where[key] = off + k
                atoms.append({'name': d['atomname'], 'resname': d['resname'], 'resid': d['resid'], 'chain': d.get('chain', ''),
                              'icode': d.get('insertion_code', ''), 'elem': d.get('element', ''), 'x': t[0], 'y': t[1], 'z': t[2]})
            bonds += [tuple(sorted((where[a], where[b]))) for a, b in c.edges]
            sizes.append(len(c))
            off += len(c)
            system.add_molecule(c)
        if not ok:
            out['skipped'] = '%s: values outside what C16 specifies' % path
            continue
        opts = {'writer': 'string', 'reader': 'func', 'shipped': os.path.relpath(path, REPO)}
        text, back_mols, readerr = write_and_read(fmt, system, opts, work)
        ev = make_events('%s:%s' % (os.path.basename(path), fmt), fmt, sizes, atoms, sorted(set(bonds)), text, back_mols, readerr)
        for e in ev:
            e['opts'] = opts
        out['events'] += ev
        out['natoms'] += len(atoms)
        out['nbonds'] += len(bonds)
        pc = precision_check(fmt, atoms, back_mols)
        if pc:
            out['bad'].append(('coordinate-precision', {'fmt': fmt, 'shipped': opts['shipped'], 'atom': pc[0]},
                               'atom %d of %s: coordinate off by %.6f' % (pc[0], path, pc[1])))
    shutil.rmtree(work, ignore_errors=True)
    return out


# ------------------------------------------------------------------------------------------- TLC judge
EVENT_KEYS = {'atoms': ('kind', 'fmt', 'sizes', 'g0', 'atoms', 'lines', 'back', 'readerr'),
              'pdbstruct': ('kind', 'sizes', 'bonds', 'layout', 'ters', 'conect', 'read_sizes', 'read_bonds', 'readerr'),
              'grostruct': ('kind', 'natoms', 'count_line', 'natomlines', 'nread', 'readerr')}


def _weight(e):
    return len(e.get('atoms', ())) + 2 * len(e.get('conect', ())) + len(e.get('bonds', ())) + 50


def shard_events(events, nshards):
    order = sorted(range(len(events)), key=lambda i: -_weight(events[i]))
    shards = [[] for _ in range(nshards)]
    load = [0] * nshards
    for i in order:
        k = load.index(min(load))
        shards[k].append(i)
        load[k] += _weight(events[i])
    return [s for s in shards if s]


def _judge(shard):
    work = tlc.scratch('c16j_')
    tf = tlc.write_json(work, 'trace.json', [{k: e[k] for k in EVENT_KEYS[e['kind']]} for e in shard])
    res = tlc.run('Trace_FixedCol', 'SPECIFICATION Spec\n', dump=True, env={'TRACE_FILE': tf}, workdir=work, workers=2,
                  timeout=3000)
    if res.violated:
        raise tlc.MachineryError('trace spec violated ' + str(res.violated))
    verdicts = {st['tid']: st['verdict'] for st in res.states() if st['verdict'] != 'pending'}
    shutil.rmtree(work, ignore_errors=True)
    if len(verdicts) != len(shard):
        raise tlc.MachineryError('judge returned %d verdicts for %d events' % (len(verdicts), len(shard)))
    return res.distinct, res.generated, res.wall, [verdicts[i] for i in range(1, len(shard) + 1)]


def judge_events(events, nproc=8):
    """-> list of verdict strings parallel to events, and (distinct, generated) state counts."""
    if not events:
        return [], (0, 0)
    total = sum(_weight(e) for e in events)
    nshards = max(1, min(len(events), max(nproc, total // 12000)))
    shards = shard_events(events, nshards)
    with mp.Pool(min(nproc, len(shards))) as pool:
        res = pool.map(_judge, [[events[i] for i in s] for s in shards], chunksize=1)
    verdicts = [None] * len(events)
    dist = gen = 0
    for s, (d, g, _, vs) in zip(shards, res):
        dist += d
        gen += g
        for i, v in zip(s, vs):
            verdicts[i] = v
    return verdicts, (dist, gen)


def scenario_of(e, verdict):
    sc = {'fmt': e.get('fmt', 'pdb' if e['kind'] == 'pdbstruct' else 'gro'), 'sizes': e.get('sizes', [e.get('natoms', 0)]),
          'opts': e.get('opts', {}), 'verdict': verdict, 'sid': e.get('sid'), 'place': {}, 'bonds': []}
    if e['kind'] == 'atoms':
        m = re.match(r'atom (\d+):', verdict)
        if m:
            g = int(m.group(1))
            k = g - e['g0']
            sc['place'] = {str(g): e['atoms'][k]}
            sc['line'] = e['lines'][k] if k < len(e['lines']) else None
            sc['read_back'] = e['back'][k] if k < len(e['back']) else None
    elif e['kind'] == 'pdbstruct':
        sc['bonds'] = e['bonds'][:3000]
        sc['conect_head'] = e['conect'][:5]
        sc['read_sizes'] = e['read_sizes']
    else:
        sc.update({k: e[k] for k in ('natoms', 'count_line', 'natomlines', 'nread')})
    if sc['opts'].get('shipped'):
        sc['shipped'] = sc['opts']['shipped']
    return sc


# ------------------------------------------------------------------------------------------- run
def run(tier, seed, ev, vd):
    quick = tier == 'quick'
    ev.rule = ('TAB: every combination of the boundary values of name / residue name / residue number / chain / insertion code / '
               'coordinate per format, and every (shape, hub next to a serial boundary, degree 0..6, partner choice); TRACE: every '
               'line of every written file. Non-trivial = atom case with at least one overflowing field, sys case whose hub or '
               'partner has a serial >= 9999 or degree >= 5 (CONECT continuation), judged slice of a file containing an atom '
               'with serial >= 10000 or bonds; distinct by input.')
    ev.assumptions = ['TLC evaluates the operators correctly (strings with Len/SubSeq/\\o/Tail)',
                      'coordinates are generated inside the representable range -999.999..9999.999 of the format unit, off-grid '
                      'values at most 0.4 thousandths from a grid point, never a negative value that rounds to zero; the harness '
                      'passes the nearest thousandth to TLC and checks |x - read| <= 0.5e-3 itself (decimal rounding is outside TLC)',
                      'names and residue names contain no blanks, no ".", and an ASCII letter among the surviving characters '
                      '(the readers derive the element from the name); no alternate locations; no empty molecules',
                      'which end of an over-long text survives in a right-aligned text column (GRO atom name) is left open: both admissible',
                      'systems beyond the five-digit numbering are written without bonds; only their atoms are compared',
                      'readers are called with exclude=() (the default exclude of SOL is an input filter, not part of the round trip)',
                      'atom order of a system = molecule order, insertion order inside a molecule; atomid attributes, when present, increase']
    consts = tab_consts(tier)
    res = tlc.run('FixedCol', TAB_CFG, consts=consts, dump=True, timeout=2400)
    if res.violated:
        raise tlc.MachineryError('FixedCol model violates %s' % res.violated)
    ev.add_tlc('TAB FixedCol', res)
    ev.exhaustive = True
    states = [s for s in res.states() if not s['out']['pending']]
    if 2 * len(states) != res.distinct:
        raise tlc.MachineryError('dump has %d evaluated states, TLC reports %d states' % (len(states), res.distinct))
    shapes = Q_SHAPES if quick else T_SHAPES
    atom_cases = {'pdb': [], 'gro': []}
    sys_cases = {k: [] for k in range(len(shapes))}
    for s in states:
        c, o = s['case'], s['out']
        if c['kind'] == 'atom':
            atom_cases[c['fmt']].append({'input': dict(o['input']), 'back': dict(o['back']), 'names': sorted(o['names']),
                                         'over': sorted(o['over']), 'line': o['line']})
            if o['over']:
                ev.nontrivial_case(['atom', c])
        else:
            sc = {'hub': c['hub'], 'deg': c['deg'], 'mode': str(c['mode']), 'partners': list(o['partners']), 'mol': o['mol'],
                  'hubfield': o['hubfield'], 'hubserial': o['hubserial'], 'fits': o['fits'], 'pairs': sorted(map(list, o['pairs'])),
                  'lines': list(o['lines'])}
            if list(o['sizes']) != shapes[c['shape'] - 1]:
                raise tlc.MachineryError('shape table of the model and of the harness differ')
            sys_cases[c['shape'] - 1].append(sc)
            if max([o['hubserial']] + list(o['pserials'])) >= 9999 or len(o['partners']) >= 5:
                ev.nontrivial_case(['sys', c])
    if not atom_cases['pdb'] or not atom_cases['gro'] or not all(sys_cases.values()):
        raise tlc.MachineryError('vacuous TAB model')
    ev.sample({'kind': 'TAB atom case (replayed)', 'case': next(a for a in atom_cases['pdb'] if len(a['over']) >= 2)})
    ev.sample({'kind': 'TAB sys case (replayed)', 'shape': shapes[1], 'case': next(s for s in sys_cases[1] if s['deg'] == 6 and s['hubserial'] > 9990)})

    rng = random.Random(seed * 7919 + 16)
    tasks = []
    # PDB systems: one per shape; the atom cases are dealt over the shapes in proportion to their size
    order = list(range(len(atom_cases['pdb'])))
    rng.shuffle(order)
    cap = [int(sum(s) * 0.9) for s in shapes]
    pos = 0
    for k, shape in enumerate(shapes):
        share = min(cap[k], -(-len(order) * sum(shape) // sum(map(sum, shapes))) + 1)
        mine = order[pos:pos + share]
        pos += share
        tasks.append({'sid': 'pdb-shape%d' % (k + 1), 'fmt': 'pdb', 'sizes': shape, 'seed': rng.randrange(1 << 30),
                      'cases': [(i, atom_cases['pdb'][i]['input']) for i in mine], 'expect': {i: atom_cases['pdb'][i] for i in mine},
                      'sys': sys_cases[k], 'fits': sys_cases[k][0]['fits']})
    if pos < len(order):
        raise tlc.MachineryError('not every PDB atom case could be placed')
    gshapes = GRO_SHAPES[tier]
    order = list(range(len(atom_cases['gro'])))
    rng.shuffle(order)
    pos = 0
    for k, shape in enumerate(gshapes):
        share = min(int(sum(shape) * 0.9), -(-len(order) * sum(shape) // sum(map(sum, gshapes))) + 1)
        mine = order[pos:pos + share]
        pos += share
        tasks.append({'sid': 'gro-shape%d' % (k + 1), 'fmt': 'gro', 'sizes': shape, 'seed': rng.randrange(1 << 30),
                      'cases': [(i, atom_cases['gro'][i]['input']) for i in mine], 'expect': {i: atom_cases['gro'][i] for i in mine}})
    if pos < len(order):
        raise tlc.MachineryError('not every GRO atom case could be placed')
    # small random systems: many molecules, all option combinations
    for k in range(24 if quick else 400):
        nm = rng.randint(1, 6)
        tasks.append({'sid': 'small%d' % k, 'fmt': rng.choice(['pdb', 'gro']), 'sizes': [rng.randint(1, 40) for _ in range(nm)],
                      'seed': rng.randrange(1 << 30), 'fits': True})
    tasks.sort(key=lambda t: -sum(t['sizes']) ** (2 if t['fmt'] == 'pdb' else 1))
    ship = [{'path': p} for p in shipped_files(tier)]
    with mp.Pool(tlc.NCPU, maxtasksperchild=1) as pool:
        r1 = pool.map_async(run_system, tasks, chunksize=1)
        r2 = pool.map_async(run_shipped, ship, chunksize=1)
        results = r1.get() + r2.get()
    events = []
    skipped = []
    for r in results:
        events += r['events']
        ev.traces += r['nrep']
        ev.evaluations += r['nrep']
        if r.get('skipped'):
            skipped.append(r['skipped'])
        for kind, sc, detail in r['bad']:
            vd.violation(kind, sc, detail)
    ev.extra['systems_written_and_read'] = len([r for r in results if r['natoms']])
    ev.extra['atoms_written_and_read'] = sum(r['natoms'] for r in results)
    ev.extra['bonds_written'] = sum(r['nbonds'] for r in results)
    ev.extra['shipped_structures'] = len(ship)
    ev.extra['shipped_skipped'] = skipped
    verdicts, (dist, gen) = judge_events(events, nproc=8)
    ev.states += dist
    ev.transitions += gen
    ev.tlc_runs.append({'run': 'TRACE Trace_FixedCol', 'events': len(events), 'distinct_states': dist, 'states_generated': gen})
    reported = set()
    for e, v in zip(events, verdicts):
        ev.traces += 1
        ev.evaluations += len(e.get('atoms', ())) + len(e.get('conect', ())) + 1
        if v != 'ok':
            key = (e.get('sid'), re.sub(r'\d+', '#', v))
            if key in reported:
                continue
            reported.add(key)
            vd.violation('trace-rejected', scenario_of(e, v), v)
        if e['kind'] == 'atoms' and e['g0'] + len(e['atoms']) > 9999:
            ev.nontrivial_case(['slice', e['sid'], e['g0']])
        elif e['kind'] == 'pdbstruct' and e['bonds']:
            ev.nontrivial_case(['struct', e['sid'], len(e['bonds'])])
    small = next((e for e in events if e['kind'] == 'atoms' and len(e['atoms']) <= 3), None)
    if small:
        ev.sample({'kind': 'written+read slice judged by TLC', 'event': {k: small[k] for k in EVENT_KEYS['atoms']}, 'verdict': 'ok'})


# ------------------------------------------------------------------------------------------- replay / selftest
def _scenario_task(sc):
    sizes = sc['sizes']
    total = sum(sizes)
    atoms = [default_atom() for _ in range(total)]
    for g, a in sc.get('place', {}).items():
        atoms[int(g) - 1] = dict(default_atom(), **a)
    return sizes, atoms, sorted({(min(a, b), max(a, b)) for a, b in sc.get('bonds', [])})


def replay(sc):
    logging.disable(logging.CRITICAL)
    if sc.get('shipped') and not sc.get('place'):
        r = run_shipped({'path': os.path.join(REPO, sc['shipped'])})
        events = r['events']
    else:
        fmt = sc['fmt']
        sizes, atoms, bonds = _scenario_task(sc)
        opts = sc.get('opts') or {}
        system = build_system(fmt, sizes, atoms, bonds, opts)
        text, mols, readerr = write_and_read(fmt, system, opts, tlc.scratch('c16r_'))
        events = make_events('replay', fmt, sizes, atoms, bonds, text, mols, readerr)
        lines = [ln for ln in text.split('\n') if fmt == 'gro' or ln[:4] in ('ATOM', 'HETA')]
        if fmt == 'gro':
            lines = lines[2:]
        back = project_read(fmt, mols)[0] if mols is not None else []
        for g in sorted(map(int, sc.get('place', {}))):
            print('atom %d given to the writer: %r' % (g, atoms[g - 1]))
            print('   line written : %r' % (lines[g - 1] if g - 1 < len(lines) else None))
            print('   read back    : %r' % (back[g - 1] if g - 1 < len(back) else None))
        if readerr:
            print(readerr)
        if bonds:
            print('bonds written:', bonds[:20], '...' if len(bonds) > 20 else '')
            print('CONECT lines :', [ln for ln in text.split('\n') if ln.startswith('CONECT')][:10])
            print('bonds read   :', project_read(fmt, mols)[1][:20] if mols is not None else None)
    verdicts, _ = judge_events(events, nproc=4)
    for e, v in zip(events, verdicts):
        if v != 'ok':
            print('TLC verdict for %s event (g0=%s): %s' % (e['kind'], e.get('g0'), v))
    print('TLC judged %d events: %d rejected' % (len(events), sum(v != 'ok' for v in verdicts)))
    if 'expected' in sc:
        print('TLC expectation of the TAB case:', sc['expected'])
    return 0


def selftest(seed):
    """Binding demonstration: recorded files / read-back values are corrupted one field at a time; the judge must reject
    exactly the corrupted events and accept the untouched ones."""
    import copy
    logging.disable(logging.CRITICAL)
    rng = random.Random(seed)
    base = []
    for fmt in ('pdb', 'gro'):
        r = run_system({'sid': 'self-' + fmt, 'fmt': fmt, 'sizes': [7, 5], 'seed': rng.randrange(1 << 30), 'fits': True,
                        'opts': {'writer': 'string', 'reader': 'func'}})
        assert not r['bad'], r['bad']
        base += r['events']
    pa = next(e for e in base if e['kind'] == 'atoms' and e['fmt'] == 'pdb')
    ga = next(e for e in base if e['kind'] == 'atoms' and e['fmt'] == 'gro')
    ps = next(e for e in base if e['kind'] == 'pdbstruct')
    gs = next(e for e in base if e['kind'] == 'grostruct')
    assert ps['bonds'] and ps['conect']
    tampered = []

    def tamper(e, label, fn):
        c = copy.deepcopy(e)
        fn(c)
        c['label'] = label
        tampered.append(c)
    tamper(pa, 'read-back residue number +1', lambda c: c['back'][3].__setitem__('resid', c['back'][3]['resid'] + 1))
    tamper(pa, 'line shifted by one column', lambda c: c['lines'].__setitem__(2, c['lines'][2][:22] + ' ' + c['lines'][2][22:]))
    tamper(pa, 'serial of one line off by one (TER not counted)',
           lambda c: c['lines'].__setitem__(8, c['lines'][8][:6] + '%5d' % (int(c['lines'][8][6:11]) - 1) + c['lines'][8][11:]))
    tamper(pa, 'read-back atom in the wrong molecule', lambda c: c['back'][7].__setitem__('mol', 1))
    tamper(pa, 'read-back x coordinate off by 0.001', lambda c: c['back'][0].__setitem__('x', c['back'][0]['x'] + 1))
    tamper(ga, 'GRO read-back name changed', lambda c: c['back'][1].__setitem__('name', c['back'][1]['name'] + 'Q'))
    tamper(ga, 'GRO line shifted', lambda c: c['lines'].__setitem__(4, ' ' + c['lines'][4]))
    tamper(ps, 'a bond lost on read', lambda c: c['read_bonds'].pop())
    tamper(ps, 'CONECT names a wrong partner', lambda c: c['conect'].__setitem__(0, c['conect'][0][:11] + '%5d' % 12))
    tamper(ps, 'molecules merged on read', lambda c: c.__setitem__('read_sizes', [12]))
    tamper(ps, 'first TER missing in the layout', lambda c: c['layout'].pop(1))
    tamper(gs, 'GRO atom count line wrong', lambda c: c.__setitem__('count_line', '   13'))
    # a fabricated 10005-atom file: five-wide CONECT fields are exact, four-wide ones (the historical defect) are not
    big = {'kind': 'pdbstruct', 'sid': 'self-big', 'sizes': [10005], 'bonds': [[9999, 10001]], 'conect': ['CONECT 999910001'],
           'layout': [{'rec': 'ATOM', 'n': 10005}, {'rec': 'TER', 'n': 1}, {'rec': 'CONECT', 'n': 1}, {'rec': 'END', 'n': 1}],
           'ters': [{'line': 'TER   10006      ALA A   1 ', 'resname': 'ALA', 'chain': 'A', 'resid': 1, 'icode': ''}],
           'read_sizes': [10005], 'read_bonds': [[9999, 10001]], 'readerr': ''}
    base.append(big)
    tamper(big, 'CONECT serials cut to four digits', lambda c: c.__setitem__('conect', ['CONECT 9999 0001']))
    tamper(big, 'TER serial not counted', lambda c: c['ters'][0].__setitem__('line', 'TER   10005      ALA A   1 '))
    events = base + tampered
    verdicts, _ = judge_events(events, nproc=4)
    ok_base = all(v == 'ok' for v in verdicts[:len(base)])
    print('selftest C16: %d untouched events judged ok: %s' % (len(base), ok_base))
    fails = 0
    for e, v in zip(tampered, verdicts[len(base):]):
        print('  tampered [%s] -> %s' % (e['label'], v))
        fails += v == 'ok'
    assert ok_base, [v for v in verdicts[:len(base)] if v != 'ok']
    assert fails == 0, 'a corrupted event was accepted'
    print('selftest C16: all %d corrupted events rejected' % len(tampered))
    return 0
